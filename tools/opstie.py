"""
Correspondence check for line-protocol properties: the harness binary (real code) and `pkmodel`
(Lean model) execute the same op list; outputs are diffed line by line; the harness' independent
property oracle writes complaints to a side file.
"""
import os
import pk


class Case:
    def __init__(self, name, ops):
        self.name, self.ops = name, ops
        self.impl = self.model = None
        self.oracle = []
        self.diff = None
        self.error = None


class OpsTie:
    def __init__(self, harness_bin, model_arg, run_args=("run",), timeout=600, extra_env=None):
        self.bin, self.model_arg, self.run_args, self.timeout = harness_bin, model_arg, list(run_args), timeout
        self.env = pk.goenv()
        self.env["GOMEMLIMIT"] = "4GiB"
        if extra_env:
            self.env.update(extra_env)
        self.n = 0

    def impl(self, ops):
        """returns (lines, oracle complaints, error)"""
        self.n += 1
        opath = os.path.join(pk.scratch(), "oracle_%d.txt" % self.n)
        rc, o, e = pk.sh([self.bin] + self.run_args + ["-oracle", opath], stdin="".join(l + "\n" for l in ops).encode(),
                         env=self.env, timeout=self.timeout)
        orc = []
        if os.path.exists(opath):
            orc = [l for l in open(opath).read().split("\n") if l]
            os.remove(opath)
        err = None
        if rc == -9:
            err = "hang"
        elif rc != 0:
            err = "crash rc=%d %s" % (rc, e[-500:])
        return o.split("\n")[:-1] if o.endswith("\n") else o.split("\n"), orc, err

    def model(self, ops):
        rc, o, e = pk.run_model(self.model_arg, "".join(l + "\n" for l in ops), timeout=self.timeout)
        err = None if rc == 0 else ("model rc=%d %s" % (rc, e[-300:]))
        return (o.split("\n")[:-1] if o.endswith("\n") else o.split("\n")), err

    def run(self, case):
        case.impl, case.oracle, ierr = self.impl(case.ops)
        case.model, merr = self.model(case.ops)
        case.error = ierr or merr
        case.diff = pk.first_diff(case.impl, case.model)
        if case.diff is None and len(case.impl) != len(case.ops):
            case.diff = len(case.impl)
        return case

    def shrink_oracle(self, ops, budget=300):
        """smallest op list on which the property oracle still complains (or the run crashes/hangs)"""
        def failing(xs):
            _l, orc, err = self.impl(xs)
            return bool(orc) or err is not None
        return pk.ddmin(list(ops), failing, budget)

    def shrink_diff(self, ops, budget=300):
        def failing(xs):
            c = self.run(Case("shrink", xs))
            return c.diff is not None
        return pk.ddmin(list(ops), failing, budget)
