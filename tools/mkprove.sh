#!/bin/bash
# mkprove.sh <name>   private copy of the Lean project for a prover agent: /var/tmp/prove/<name>/lean
set -e
d=/var/tmp/prove/$1
rm -rf "$d"; mkdir -p "$d"
cp -a /verif/lean "$d/lean"
rm -rf "$d/lean/scratch"
echo "$d/lean"
