#!/usr/bin/env python3
"""setup_cmd: build everything the checks need from files on disk (offline):
   regenerated Lean facts, the Lean library + pkmodel, every property module, the Go harnesses
   (warms the Go build cache), and a sabotage self-test of the tie."""
import os
import sys
import subprocess

here = os.path.dirname(os.path.abspath(__file__))
sys.path.insert(0, here)
import pk  # noqa: E402


def main():
    ok = True
    # regenerated facts needed before their Props modules build
    try:
        from checks import c19
        c19.regenerate_facts()
    except Exception as e:  # noqa: BLE001
        print("setup: C19 facts not regenerated:", e)
    try:
        from checks import c20
        c20.regenerate()
    except Exception as e:  # noqa: BLE001
        print("setup: C20 access table not regenerated:", e)
    props = sorted(f[:-5] for f in os.listdir(os.path.join(pk.LEAN, "Pk", "Props")) if f.endswith(".lean"))
    good, log = pk.lake_build(["Pk", "pkmodel"] + ["Pk.Props.%s" % p for p in props], timeout=7200)
    print(log[-3000:])
    ok = ok and good
    for h in sorted(os.listdir(os.path.join(pk.VERIF, "harness", "cmd"))):
        b, blog = pk.go_build(h)
        print("harness", h, "ok" if b else "FAILED")
        if not b:
            print(blog[-2000:])
            ok = False
    return 0 if ok else 1


if __name__ == "__main__":
    sys.exit(main())
