#!/usr/bin/env python3
"""
Shared machinery of the /verif checks (python3 stdlib only).

  * building the Lean project / single modules, auditing axioms, forbidden-token grep
  * building Go harnesses from /repo's *current working tree* through `go build -overlay`
  * running harness + `pkmodel`, diffing, delta debugging
  * known-findings classification, replay files, evidence files, verdict lines

See DESIGN.md §1.3 / §2 for the pipeline and the verdict table.
"""
import atexit
import hashlib
import json
import os
import re
import shutil
import subprocess
import sys
import time

VERIF = os.path.dirname(os.path.dirname(os.path.abspath(__file__)))
REPO = os.environ.get("VERIF_REPO", "/repo")
LEAN = os.path.join(VERIF, "lean")
BUILD = os.path.join(VERIF, "build")
BIN = os.path.join(BUILD, "bin")
PKMODEL = os.path.join(LEAN, ".lake", "build", "bin", "pkmodel")
ALLOWED_AXIOMS = {"propext", "Classical.choice", "Quot.sound"}
FORBIDDEN = re.compile(
    r"\bsorry\b|\badmit\b|^\s*axiom\s|native_decide|bv_decide|implemented_by|\bunsafe\s|maxHeartbeats\s+0|@\[extern")

_scratch = None


def scratch():
    """per-run scratch directory outside /repo, /verif and /tmp; removed at exit."""
    global _scratch
    if _scratch is None:
        base = os.environ.get("VERIF_SCRATCH") or "/var/tmp/verif.%d" % os.getpid()
        os.makedirs(base, exist_ok=True)
        _scratch = base
        atexit.register(lambda: shutil.rmtree(base, ignore_errors=True))
    return _scratch


def goenv():
    env = dict(os.environ)
    env["GOFLAGS"] = "-mod=mod"
    env["GOPROXY"] = "off"
    env.pop("GOSUMDB", None)  # GOSUMDB=off breaks the cached go1.25 toolchain switch in this image
    env.setdefault("GOMAXPROCS", str(os.cpu_count() or 4))
    return env


def sh(cmd, cwd=None, env=None, timeout=None, stdin=None, check=False):
    """run a command, return (rc, stdout, stderr); rc = -9 on timeout"""
    try:
        p = subprocess.run(cmd, cwd=cwd, env=env, timeout=timeout, input=stdin,
                           stdout=subprocess.PIPE, stderr=subprocess.PIPE,
                           shell=isinstance(cmd, str))
    except subprocess.TimeoutExpired as e:
        return -9, (e.stdout or b"").decode("utf8", "replace"), (e.stderr or b"").decode("utf8", "replace")
    out, err = p.stdout.decode("utf8", "replace"), p.stderr.decode("utf8", "replace")
    if check and p.returncode != 0:
        raise RuntimeError("command failed (%d): %s\n%s\n%s" % (p.returncode, cmd, out[-4000:], err[-4000:]))
    return p.returncode, out, err


# ------------------------------------------------------------------------------------------
# Go side
# ------------------------------------------------------------------------------------------

def write_overlay():
    """map /verif/harness/{lib,cmd/*} -> /repo/internal/verifh/..., inject/<pkgpath>/* -> /repo/<pkgpath>/*"""
    h = os.path.join(VERIF, "harness")
    repl = {}
    for root, _dirs, files in os.walk(h):
        for f in files:
            if not f.endswith(".go"):
                continue
            src = os.path.join(root, f)
            rel = os.path.relpath(src, h)
            parts = rel.split(os.sep)
            if parts[0] == "inject":
                dst = os.path.join(REPO, *parts[1:])
            elif parts[0] == "cmd":
                dst = os.path.join(REPO, "internal", "verifh", *parts[1:])
            elif parts[0] == "lib":
                dst = os.path.join(REPO, "internal", "verifh", "lib", *parts[1:])
            else:
                continue
            repl[dst] = src
    os.makedirs(BUILD, exist_ok=True)
    path = os.path.join(BUILD, "overlay.json")
    with open(path, "w") as fh:
        json.dump({"Replace": repl}, fh, indent=1, sort_keys=True)
    return path


def go_build(name, race=False, tags="verif"):
    """build harness `name` from /repo's current working tree; returns (binary path | None, log)"""
    ov = write_overlay()
    os.makedirs(BIN, exist_ok=True)
    out = os.path.join(BIN, name + ("-race" if race else ""))
    if os.path.exists(out):
        os.remove(out)  # never run a stale binary
    cmd = ["go", "build", "-tags", tags, "-overlay", ov, "-o", out]
    if race:
        cmd.append("-race")
    cmd.append("./internal/verifh/" + name)
    rc, o, e = sh(cmd, cwd=REPO, env=goenv(), timeout=900)
    if rc != 0 or not os.path.exists(out):
        return None, o + e
    return out, o + e


# ------------------------------------------------------------------------------------------
# Lean side
# ------------------------------------------------------------------------------------------

def lake_build(targets, timeout=3600):
    """returns (ok, log)"""
    rc, o, e = sh(["lake", "build"] + list(targets), cwd=LEAN, timeout=timeout)
    return rc == 0, o + e


def strip_comments(src):
    # remove /- ... -/ (nested) and -- line comments; good enough for the forbidden-token grep
    out, i, depth = [], 0, 0
    while i < len(src):
        if src.startswith("/-", i):
            depth += 1
            i += 2
        elif depth and src.startswith("-/", i):
            depth -= 1
            i += 2
        elif depth:
            if src[i] == "\n":
                out.append("\n")
            i += 1
        elif src.startswith("--", i):
            while i < len(src) and src[i] != "\n":
                i += 1
        else:
            out.append(src[i])
            i += 1
    return "".join(out)


def import_closure(modules):
    """files of lean/Pk reachable through `import Pk.…` from the given modules"""
    seen, todo = {}, list(modules)
    while todo:
        m = todo.pop()
        if m in seen or not m.startswith("Pk"):
            continue
        path = os.path.join(LEAN, *m.split(".")) + ".lean"
        if not os.path.exists(path):
            continue
        seen[m] = path
        for line in open(path, encoding="utf8"):
            mm = re.match(r"\s*(?:public\s+)?import\s+(Pk[\w.]*)", line)
            if mm:
                todo.append(mm.group(1))
    return seen


def forbidden_tokens(modules=None):
    """hits of sorry/admit/axiom/native_decide/... outside comments and string literals, in the import
    closure of `modules` (default: all of lean/Pk)"""
    hits = []
    if modules is not None:
        paths = sorted(import_closure(modules).values())
    else:
        paths = []
        for root, _d, files in os.walk(os.path.join(LEAN, "Pk")):
            paths += [os.path.join(root, f) for f in files if f.endswith(".lean")]
    for p in paths:
        txt = strip_comments(open(p, encoding="utf8").read())
        for n, line in enumerate(txt.split("\n"), 1):
            l2 = re.sub(r'"(\\.|[^"\\])*"', '""', line)
            if FORBIDDEN.search(l2):
                hits.append("%s:%d: %s" % (os.path.relpath(p, LEAN), n, line.strip()))
    return hits


def audit_axioms(module, theorems):
    """`#print axioms` for each theorem; returns {name: [axioms] | None (missing)} and the raw log"""
    src = "import %s\n" % module + "".join("#print axioms %s\n" % t for t in theorems)
    path = os.path.join(scratch(), "audit_%s.lean" % module.replace(".", "_"))
    with open(path, "w") as fh:
        fh.write(src)
    rc, o, e = sh(["lake", "env", "lean", path], cwd=LEAN, timeout=1800)
    log = o + e
    res = {t: None for t in theorems}
    # outputs:  'X' depends on axioms: [a, b]    |   'X' does not depend on any axioms
    for m in re.finditer(r"'(\S+)' depends on axioms: \[([^\]]*)\]", log, re.S):
        res[m.group(1)] = [a.strip() for a in m.group(2).replace("\n", " ").split(",") if a.strip()]
    for m in re.finditer(r"'(\S+)' does not depend on any axioms", log):
        res[m.group(1)] = []
    return res, log


def theorem_names(props_file):
    """names of the `theorem`s declared in a Props file (the obligation list of a property)"""
    txt = strip_comments(open(props_file, encoding="utf8").read())
    ns, names = [], []
    for line in txt.split("\n"):
        m = re.match(r"\s*namespace\s+(\S+)", line)
        if m:
            ns.append(m.group(1))
            continue
        m = re.match(r"\s*end\s+(\S+)", line)
        if m and ns and ns[-1] == m.group(1):
            ns.pop()
            continue
        if re.match(r"\s*(?:@\[[^\]]*\]\s*)?private\s+theorem", line):
            continue  # private glue lemmas are not obligations (their names are mangled)
        m = re.match(r"\s*(?:@\[[^\]]*\]\s*)?(?:protected\s+)?theorem\s+([^\s:({\[]+)", line)
        if m:
            names.append(".".join(ns + [m.group(1)]))
    return names


class Obligations:
    """result of the proof-obligation stage of a property"""

    def __init__(self):
        self.names = []
        self.failed = []          # (name, reason)
        self.axioms = set()
        self.log = ""

    @property
    def ok(self):
        return not self.failed


# property -> further modules under Pk/Props whose theorems are obligations of that property as well
EXTRA_PROPS = {
    "C06": ["MgrReach", "C06ReachSpec", "C06Reach"], "C09": ["MgrReach", "C09Settles"], "C10": ["MgrReach", "C10Reach"], "C13": ["MgrReach"], "C16": ["MgrReach", "C16Reach"], "C11": ["C11More"],
    "C15": ["C15Full"], "C01": ["C01Full"], "C07": ["C07Full"], "C14": ["C14Shift"], "C12": ["C12Idx"],
    "C05": ["C05Reasm", "C05More"], "C08": ["C05More", "C08Chrono"],
}


def check_obligations(prop, extra_modules=(), leanchecker=False):
    """build Pk.Props.<prop>, audit every theorem in it. Obligations = theorems of the Props file."""
    ob = Obligations()
    mod = "Pk.Props.%s" % prop
    pf = os.path.join(LEAN, "Pk", "Props", "%s.lean" % prop)
    ob.names = theorem_names(pf)
    # further property modules whose theorems belong to this property's obligations
    more = [m for m in EXTRA_PROPS.get(prop, []) if os.path.exists(os.path.join(LEAN, "Pk", "Props", m + ".lean"))]
    more_names = {m: theorem_names(os.path.join(LEAN, "Pk", "Props", m + ".lean")) for m in more}
    extra_modules = list(extra_modules) + ["Pk.Props." + m for m in more]
    ok, log = lake_build([mod, "pkmodel"] + list(extra_modules))
    ob.log = log
    if not ok:
        errs = re.findall(r"error: ([^\n]*)", log)
        ob.failed = [(n, "module does not build: " + "; ".join(errs[:3])) for n in ob.names] or [
            (mod, "module does not build")]
        return ob
    drv = "Pk.Driver.%s" % prop
    hits = forbidden_tokens([mod, drv, "Pk.Driver.Mgr"] + list(extra_modules))
    if hits:
        ob.failed = [(n, "forbidden token in lean/Pk: " + hits[0]) for n in ob.names]
        return ob
    res, alog = audit_axioms(mod, ob.names)
    for m in more:
        r2, _ = audit_axioms("Pk.Props." + m, more_names[m])
        res.update(r2)
        ob.names = ob.names + [n for n in more_names[m] if n not in ob.names]
    for n in ob.names:
        ax = res.get(n)
        if ax is None:
            ob.failed.append((n, "theorem missing from compiled module"))
            continue
        bad = [a for a in ax if a not in ALLOWED_AXIOMS]
        if bad:
            ob.failed.append((n, "depends on axioms %s" % bad))
        ob.axioms.update(ax)
    if leanchecker and ob.ok:
        rc, o, e = sh(["lake", "env", "leanchecker", mod] + ["Pk.Props." + m for m in more], cwd=LEAN, timeout=3600)
        if rc != 0:
            ob.failed = [(n, "leanchecker rejected %s: %s" % (mod, (o + e)[-300:])) for n in ob.names]
    return ob


def run_model(prop_arg, input_text, timeout=600):
    rc, o, e = sh([PKMODEL, prop_arg], stdin=input_text.encode(), timeout=timeout)
    return rc, o, e


# ------------------------------------------------------------------------------------------
# diffing / shrinking
# ------------------------------------------------------------------------------------------

def first_diff(a_lines, b_lines):
    n = min(len(a_lines), len(b_lines))
    for i in range(n):
        if a_lines[i] != b_lines[i]:
            return i
    if len(a_lines) != len(b_lines):
        return n
    return None


def ddmin(items, failing, budget=400):
    """delta debugging: smallest sub-list (order kept) for which failing(sublist) is True"""
    calls = [0]

    def test(xs):
        calls[0] += 1
        return failing(xs)

    n = 2
    while len(items) >= 2 and calls[0] < budget:
        chunk = max(1, len(items) // n)
        subsets = [items[i:i + chunk] for i in range(0, len(items), chunk)]
        reduced = False
        for i in range(len(subsets)):
            comp = [x for j, s in enumerate(subsets) if j != i for x in s]
            if comp and test(comp):
                items, n, reduced = comp, max(n - 1, 2), True
                break
        if not reduced:
            if n >= len(items):
                break
            n = min(len(items), n * 2)
    # final pass: drop single elements until no single removal keeps the failure
    changed = True
    while changed and calls[0] < budget * 4:
        changed = False
        i = len(items) - 1
        while i >= 0 and len(items) > 1 and calls[0] < budget * 4:
            cand = items[:i] + items[i + 1:]
            if test(cand):
                items, changed = cand, True
            i -= 1
    return items


# ------------------------------------------------------------------------------------------
# known findings, replays, evidence, verdict
# ------------------------------------------------------------------------------------------

def known_findings(prop):
    p = os.path.join(VERIF, "known_findings.json")
    if not os.path.exists(p):
        return []
    data = json.load(open(p))
    return [f for f in data.get("findings", []) if f.get("property") == prop]


class Report:
    def __init__(self, prop, tier, seed, level="proof"):
        self.prop, self.tier, self.seed, self.level = prop, tier, seed, level
        self.t0 = time.time()
        self.violations = []       # (replay path, suffix)
        self.known = []            # texts
        self.coverage = {}
        self.assumptions = []
        self.notes = []
        self._nrep = 0

    def replay(self, payload, no_input=False):
        os.makedirs(os.path.join(VERIF, "replays"), exist_ok=True)
        self._nrep += 1
        path = os.path.join(VERIF, "replays", "%s-%d-%d.json" % (self.prop, self.seed, self._nrep))
        payload = dict(payload)
        payload.setdefault("property", self.prop)
        payload.setdefault("seed", self.seed)
        payload.setdefault("tier", self.tier)
        with open(path, "w") as fh:
            json.dump(payload, fh, indent=1, sort_keys=True, default=str)
        self.violations.append((path, " no-failing-input-found" if no_input else ""))
        return path

    def known_finding(self, text):
        if text not in self.known:
            self.known.append(text)

    def finish(self):
        ev = {
            "property_id": self.prop, "tier": self.tier, "seed": self.seed, "level": self.level,
            "coverage": self.coverage, "assumptions": self.assumptions,
            "wall_s": round(time.time() - self.t0, 2), "violations": len(self.violations),
        }
        if self.known:
            ev["coverage"]["known_findings_seen"] = self.known
        if self.notes:
            ev["coverage"]["notes"] = self.notes
        os.makedirs(os.path.join(VERIF, "evidence"), exist_ok=True)
        with open(os.path.join(VERIF, "evidence", "%s.json" % self.prop), "w") as fh:
            json.dump(ev, fh, indent=1, sort_keys=True, default=str)
        for k in self.known:
            print("KNOWN-FINDING: property=%s %s" % (self.prop, k))
        for path, suffix in self.violations:
            print("VIOLATION property=%s replay=%s%s" % (self.prop, path, suffix))
        sys.stdout.flush()
        return 1 if self.violations else 0


def proof_coverage(ob, checker_cmd, extra_trusted=()):
    # name the further obligation modules (EXTRA_PROPS) in the recorded command
    mods = sorted({n.rsplit(".", 1)[0] for n in ob.names})
    m = re.search(r"lake build (Pk\.Props\.\w+)", checker_cmd)
    if m:
        extra = [("Pk.Props." + x) for p, xs in EXTRA_PROPS.items() if "Pk.Props." + p == m.group(1) for x in xs
                 if os.path.exists(os.path.join(LEAN, "Pk", "Props", x + ".lean"))]
        if extra:
            checker_cmd = checker_cmd.replace(m.group(0), m.group(0) + " " + " ".join(extra), 1)
    del mods
    return {
        "obligations": len(ob.names),
        "discharged": len(ob.names) - len({n for n, _ in ob.failed}),
        "obligation_names": ob.names,
        "checker_cmd": checker_cmd,
        "trusted_base": ["Lean 4 kernel"] + sorted("axiom " + a for a in ob.axioms) + list(extra_trusted),
    }


def sha(text):
    return hashlib.sha256(text.encode()).hexdigest()[:16]


def parse_cli(argv):
    """./check <Cxx> [quick|thorough] [--replay file]"""
    tier = os.environ.get("VERIF_TIER", "quick")
    replay = None
    args = list(argv)
    i = 0
    rest = []
    while i < len(args):
        if args[i] == "--replay":
            replay = args[i + 1]
            i += 2
        else:
            rest.append(args[i])
            i += 1
    if rest and rest[0] in ("quick", "thorough"):
        tier = rest[0]
    seed = int(os.environ.get("VERIF_SEED", "1") or "1")
    return tier, seed, replay
