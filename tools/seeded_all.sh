#!/bin/bash
# seeded_all.sh [ids…]   re-runs every seeded change (or the given ones) against the current tree with the checks
# recorded in its result.json; prints one line per change.  Run it alone (it rebuilds the harnesses per change).
cd /verif
ids=${@:-$(ls seeded)}
for id in $ids; do
  [ -f seeded/$id/patch.diff ] || continue
  props=$(python3 -c "
import json,sys
try: print(' '.join(sorted(json.load(open('seeded/$id/result.json'))['checks'].keys())))
except Exception: print('C'+'$id'[1:3])")
  out=$(python3 tools/seeded.py $id $props 2>&1 | grep -E "^C[0-9]+ exit|does not apply|refusing" | sed 's/\[.*//' | tr '\n' ' ')
  echo "$id: $out"
done
