#!/bin/sh
# mkws.sh <name>: private workspace for building one property: copy of /verif + git worktree of /repo
set -e
n=$1
mkdir -p /var/tmp/ws/$n
rm -rf /var/tmp/ws/$n/verif
rsync -a --exclude .git --exclude replays /verif/ /var/tmp/ws/$n/verif/
if [ ! -d /var/tmp/ws/$n/repo ]; then
  git -C /repo worktree add -q -b ws-$n /var/tmp/ws/$n/repo HEAD
fi
echo /var/tmp/ws/$n
