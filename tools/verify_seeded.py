#!/usr/bin/env python3
"""
verify_seeded.py <id>...   independent confirmation of a seeded change in a scratch worktree of /repo:
  1. the patch applies, the tree builds, `go vet` is clean and the existing tests pass with it,
  2. the demonstration FAILS with the change and PASSES without it.
Writes seeded/<id>/verified.json and removes the worktree.
"""
import json
import os
import re
import shutil
import subprocess
import sys

VERIF = "/verif"
ENV = dict(os.environ, GOFLAGS="-mod=mod", GOPROXY="off")
ENV.pop("GOSUMDB", None)


def sh(cmd, cwd=None, timeout=3600):
    p = subprocess.run(cmd, cwd=cwd, shell=isinstance(cmd, str), env=ENV, stdout=subprocess.PIPE,
                       stderr=subprocess.STDOUT, timeout=timeout)
    return p.returncode, p.stdout.decode("utf8", "replace")


def verify(mid):
    d = os.path.join(VERIF, "seeded", mid)
    meta = json.load(open(os.path.join(d, "meta.json")))
    wt = "/var/tmp/vs-" + mid
    sh(["git", "-C", "/repo", "worktree", "remove", "--force", wt])
    rc, out = sh(["git", "-C", "/repo", "worktree", "add", "-q", "--detach", wt, "HEAD"])
    res = {"mutant": mid}
    try:
        os.makedirs(os.path.join(wt, "web", "dist"), exist_ok=True)
        open(os.path.join(wt, "web", "dist", "index.html"), "w").write("")
        cmd = meta.get("demo_cmd", "")
        cmd = re.sub(r"/var/tmp/mut/" + mid, wt, cmd)
        cmd = re.sub(r"cd \S+ && ", "", cmd) if ("cd " + wt) not in cmd else cmd
        # place the demonstration (the agent's _mutant directory is reproduced as well)
        placed = []
        shutil.copytree(d, os.path.join(wt, "_mutant"), ignore=shutil.ignore_patterns("result.json", "verified.json"))
        if "_mutant/" in cmd and "cp _mutant" not in cmd:
            placed.append("_mutant")
        else:
            m = re.findall(r"(\./(?:internal|cmd)/\S+)", cmd)
            pkg = m[-1].rstrip("/") if m else None
            for f in os.listdir(d):
                if f.endswith("_test.go") and pkg:
                    shutil.copy(os.path.join(d, f), os.path.join(wt, pkg, f))
                    placed.append(os.path.join(pkg, f))
        res["demo_placed"] = placed
        res["demo_cmd"] = cmd

        def demo():
            rc, out = sh(cmd, cwd=wt, timeout=1800)
            return rc, out[-1200:]

        rc0, out0 = demo()
        res["demo_without_change"] = {"exit": rc0, "tail": out0 if rc0 != 0 else out0[-200:]}
        rc, out = sh(["git", "apply", os.path.join(d, "patch.diff")], cwd=wt)
        if rc != 0:
            rc, out = sh(["git", "apply", "--3way", os.path.join(d, "patch.diff")], cwd=wt)
        res["patch_applies"] = rc == 0
        if rc != 0:
            res["patch_error"] = out[-500:]
            return res
        rc, out = sh("go build ./internal/... ./cmd/...", cwd=wt)
        res["build_ok"] = rc == 0
        rc, out = sh("go vet ./internal/...", cwd=wt)
        res["vet_ok"] = rc == 0
        # existing tests: demo files moved aside
        aside = []
        for p in placed:
            if p.endswith("_test.go") and os.path.exists(os.path.join(wt, p)):
                os.rename(os.path.join(wt, p), os.path.join(wt, p + ".aside"))
                aside.append(p)
        rc, out = sh("go test -vet=off -count=1 ./internal/...", cwd=wt, timeout=3000)
        res["existing_tests_pass_with_change"] = rc == 0
        if rc != 0:
            res["existing_tests_tail"] = out[-800:]
        for p in aside:
            os.rename(os.path.join(wt, p + ".aside"), os.path.join(wt, p))
        rc1, out1 = demo()
        res["demo_with_change"] = {"exit": rc1, "tail": out1[-700:]}
        res["confirmed"] = bool(res["patch_applies"] and res["build_ok"] and res["vet_ok"]
                                and res["existing_tests_pass_with_change"] and rc0 == 0 and rc1 != 0)
        return res
    finally:
        sh(["git", "-C", "/repo", "worktree", "remove", "--force", wt])
        shutil.rmtree(wt, ignore_errors=True)
        json.dump(res, open(os.path.join(d, "verified.json"), "w"), indent=1)


if __name__ == "__main__":
    for mid in sys.argv[1:]:
        r = verify(mid)
        print(mid, "confirmed" if r.get("confirmed") else "NOT CONFIRMED",
              {k: (v if not isinstance(v, dict) else v.get("exit")) for k, v in r.items() if k not in ("demo_cmd", "mutant", "demo_placed")})
