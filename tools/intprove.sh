#!/bin/bash
# intprove.sh <name>   copy the NEW Lean files (those that do not exist in /verif/lean) of a prover workspace into /verif/lean;
# files that exist on both sides and differ are listed, never overwritten
cd /var/tmp/prove/$1/lean || exit 2
find Pk -name "*.lean" | sort | while read f; do
  if [ ! -e /verif/lean/$f ]; then mkdir -p /verif/lean/$(dirname $f); cp $f /verif/lean/$f; echo "new   $f"
  elif ! cmp -s $f /verif/lean/$f; then echo "DIFF  $f (kept /verif's)"; fi
done
