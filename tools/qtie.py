"""
Shared machinery of the query checks (C03, C14): correspondence between the real `query.Parse`
(harness c03, built from /repo's working tree) and the Lean model (`pkmodel c03`), structural
shrinking of query ASTs, classification against known_findings.json.

A *case* is one JSON line {"style": n, "e": <expr AST>} (see lean/Pk/Driver/C03.lean).
"""
import collections
import copy
import json
import os
import re
import resource

import pk


def _limit_mem():
    resource.setrlimit(resource.RLIMIT_AS, (8 << 30, 8 << 30))


class QTie:
    def __init__(self, harness_bin):
        self.bin = harness_bin
        self.env = pk.goenv()
        self.env["TZ"] = "UTC"          # pc.timezone = time.Local; the model assumes UTC
        self.env["GOMEMLIMIT"] = "4GiB"
        self.n = 0

    # ---- real code
    def gen(self, seed, n, level):
        rc, o, e = pk.sh([self.bin, "gen", "-seed", str(seed), "-n", str(n), "-level", str(level)],
                         env=self.env, timeout=300)
        if rc != 0:
            raise RuntimeError("generator failed: " + e[-500:])
        return [l for l in o.split("\n") if l]

    def render(self, cases):
        rc, o, e = pk.sh([self.bin, "render"], stdin=("\n".join(cases) + "\n").encode(), env=self.env, timeout=300)
        return o.split("\n")[:len(cases)]

    def impl(self, cases, envs=48, timeout=900):
        """returns (refs, dumps, complaints {line index: [text]}, error)"""
        self.n += 1
        opath = os.path.join(pk.scratch(), "qoracle_%d_%d.txt" % (os.getpid(), self.n))
        rc, o, e = pk.sh([self.bin, "run", "-oracle", opath, "-envs", str(envs)],
                         stdin=("\n".join(cases) + "\n").encode(), env=self.env, timeout=timeout)
        comp = collections.defaultdict(list)
        if os.path.exists(opath):
            for l in open(opath, encoding="utf8", errors="replace").read().split("\n"):
                m = re.match(r"ORACLE line=(\d+) (.*)", l)
                if m:
                    comp[int(m.group(1)) - 1].append(m.group(2))
            os.remove(opath)
        lines = o.split("\n")
        if lines and lines[-1] == "":
            lines.pop()
        err = None
        if rc == -9:
            err = "harness timeout"
        elif rc == 3:
            err = "harness gave up after repeated hangs"
        elif rc != 0:
            err = "harness crash rc=%d %s" % (rc, e[-400:])
        refs, dumps = [], []
        for l in lines:
            a, _, b = l.partition(" ")
            refs.append(a)
            dumps.append(b)
        while len(dumps) < len(cases):      # harness died early: the next case is the culprit
            refs.append("0")
            dumps.append("hang" if err else "missing")
        return refs, dumps, comp, err

    # ---- model
    def model(self, cases, refs, timeout=600):
        inp = []
        for c, r in zip(cases, refs):
            inp.append('{"ref":%s,%s' % (r if re.fullmatch(r"-?\d+", r) else "0", c.strip()[1:]))
        try:
            import subprocess
            p = subprocess.run([pk.PKMODEL, "c03"], input=("\n".join(inp) + "\n").encode(), stdout=subprocess.PIPE,
                               stderr=subprocess.PIPE, timeout=timeout, preexec_fn=_limit_mem)
        except subprocess.TimeoutExpired:
            return None, "model timeout"
        if p.returncode != 0:
            return None, "model rc=%d %s" % (p.returncode, p.stderr.decode("utf8", "replace")[-300:])
        out = p.stdout.decode("utf8", "replace").split("\n")
        if out and out[-1] == "":
            out.pop()
        return out, None

    def model_each(self, cases, refs):
        """fallback when the batch run of the model fails: one process per case"""
        res = []
        for c, r in zip(cases, refs):
            o, err = self.model([c], [r], timeout=20)
            res.append(o[0] if o else "model-failure " + str(err))
        return res


def canon(dump):
    """order of the conjuncts of the set is not part of the comparison (see DESIGN §5 C03)"""
    if dump in ("err", "false", "panic", "hang", "diverged"):
        return dump
    return " | ".join(sorted(dump.split(" | ")))


# ------------------------------------------------------------------------------------------
# structural shrinking of a case
# ------------------------------------------------------------------------------------------

def _term_variants(t):
    v = t["v"]
    for key in ("tags", "protos", "hosts", "nums", "times"):
        if key in v and len(v[key]) > 1:
            for i in range(len(v[key])):
                t2 = copy.deepcopy(t)
                del t2["v"][key][i]
                yield t2
    for key in ("nums", "times"):
        if key in v:
            for i, entry in enumerate(v[key]):
                if len(entry) == 2:
                    for keep in (0, 1):
                        t2 = copy.deepcopy(t)
                        t2["v"][key][i] = [entry[keep]]
                        yield t2
                for j, rng in enumerate(entry):
                    if len(rng) > 1:
                        for k in range(len(rng)):
                            t2 = copy.deepcopy(t)
                            del t2["v"][key][i][j][k]
                            yield t2
                    for k, part in enumerate(rng):
                        if part.get("ops"):
                            t2 = copy.deepcopy(t)
                            t2["v"][key][i][j][k]["ops"] = ""
                            yield t2
    if "hosts" in v:
        for i, h in enumerate(v["hosts"]):
            if h.get("masks") is not None:
                t2 = copy.deepcopy(t)
                t2["v"]["hosts"][i]["masks"] = None
                yield t2
    if t.get("sq"):
        t2 = copy.deepcopy(t)
        t2["sq"] = ""
        yield t2
    if t.get("conv"):
        t2 = copy.deepcopy(t)
        t2["conv"] = ""
        yield t2


def variants(e):
    """smaller expressions, most aggressive first"""
    k = e["k"]
    if k in ("and", "or", "seq"):
        for c in e["es"]:
            yield c
        if len(e["es"]) > 1:
            for i in range(len(e["es"])):
                yield {"k": k, "es": e["es"][:i] + e["es"][i + 1:]}
        for i, c in enumerate(e["es"]):
            for v in variants(c):
                yield {"k": k, "es": e["es"][:i] + [v] + e["es"][i + 1:]}
    elif k in ("not", "grp"):
        yield e["e"]
        for v in variants(e["e"]):
            yield {"k": k, "e": v}
    elif k == "term":
        for v in _term_variants(e):
            yield v


def shrink_case(case, failing, budget=400, batch=24):
    """greedy structural shrinking; `failing(list of case lines) -> list of bool`"""
    cur = json.loads(case)
    calls = 0
    progress = True
    while progress and calls < budget:
        progress = False
        cand = []
        for v in variants(cur["e"]):
            cand.append(v)
            if len(cand) >= 200:
                break
        for i in range(0, len(cand), batch):
            chunk = cand[i:i + batch]
            lines = [json.dumps({"style": 0, "e": v}, separators=(",", ":")) for v in chunk]
            calls += len(chunk)
            res = failing(lines)
            hit = [j for j, r in enumerate(res) if r]
            if hit:
                cur = {"style": 0, "e": chunk[hit[0]]}
                progress = True
                break
            if calls >= budget:
                break
    return json.dumps(cur, separators=(",", ":"))


# ------------------------------------------------------------------------------------------
# classification
# ------------------------------------------------------------------------------------------

def complaint_kind(text):
    return text.split(" ", 1)[0]


def classify(query_text, complaints, known):
    """attribute a shrunk failure to a `known` entry of known_findings.json (classifier
    "query-regex": every regex of `all` matches the shrunk query text and `complaint` matches one of
    the oracle complaints)"""
    for k in known:
        if k.get("status") != "known":
            continue
        m = k.get("match", {})
        if m.get("classifier") != "query-regex":
            continue
        if all(re.search(rx, query_text) for rx in m.get("all", [])) and any(
                re.search(m.get("complaint", ""), c) for c in complaints):
            return k
    return None


# ------------------------------------------------------------------------------------------
# regime counters of a case
# ------------------------------------------------------------------------------------------

def regimes(e, acc, depth=0, neg=0):
    k = e["k"]
    if k == "term":
        v = e["v"]
        kind = next(iter(v.keys()), "none")
        acc["term:" + kind] += 1
        acc["key:" + e["key"]] += 1
        if e.get("sq"):
            acc["subquery-prefix"] += 1
        if e.get("conv"):
            acc["converter"] += 1
        if neg:
            acc["negated-term:" + kind] += 1
        s = json.dumps(v)
        if '"var"' in s and '"var": null' != s and re.search(r'"var": \{', s):
            acc["variable"] += 1
        for key in ("nums", "times"):
            for entry in v.get(key, []):
                if len(entry) == 2:
                    acc["range"] += 1
                if any(len(r) == 0 for r in entry):
                    acc["open-bound"] += 1
                if all(len(r) == 0 for r in entry):
                    acc["empty-range(true)"] += 1
                if any(len(r) > 1 for r in entry):
                    acc["arithmetic"] += 1
        for key in ("tags", "protos", "hosts", "nums", "times"):
            if len(v.get(key, [])) > 1:
                acc["value-list"] += 1
        for h in v.get("hosts", []):
            if h.get("masks") is not None:
                acc["host-mask"] += 1
                if any(m < 0 for m in h["masks"]):
                    acc["host-mask-negative"] += 1
            if h.get("host") and len(h["host"]) == 16 and h["host"][:12] != [0] * 10 + [255, 255]:
                acc["ipv6"] += 1
        for entry in v.get("times", []):
            for r in entry:
                for p in r:
                    if "abs" in p:
                        acc["absolute-time"] += 1
    elif k == "aux":
        acc["aux(sort/limit)"] += 1
    elif k == "not":
        acc["not"] += 1
        if e["e"]["k"] == "not":
            acc["double-negation"] += 1
        if e["e"]["k"] == "grp":
            acc["negated-group"] += 1
        regimes(e["e"], acc, depth + 1, neg + 1)
    elif k == "grp":
        acc["group"] += 1
        regimes(e["e"], acc, depth + 1, neg)
    else:
        if len(e["es"]) > 1:
            acc[k + "(n>1)"] += 1
            if neg:
                acc["negated-" + k] += 1
        for c in e["es"]:
            regimes(c, acc, depth + 1, neg)
    acc["max-depth"] = max(acc["max-depth"], depth)


def has_operator(e):
    k = e["k"]
    if k in ("not",):
        return True
    if k == "grp":
        return has_operator(e["e"])
    if k in ("and", "or", "seq"):
        return len(e["es"]) > 1 or any(has_operator(c) for c in e["es"])
    return False
