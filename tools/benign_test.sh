#!/bin/bash
# benign_test.sh  applies behaviour-preserving edits to a scratch worktree of /repo (log lines, a renamed local, a
# reordered pair of independent statements) and runs the given quick checks on it: none may report a violation.
set -e
wt=/var/tmp/benign
git -C /repo worktree remove --force $wt 2>/dev/null || true
git -C /repo worktree add -q --detach $wt HEAD
cd $wt
python3 - <<'PY'
p='cmd/pkappa2/main.go'
s=open(p).read()
a='rPcap.Post("/upload/{filename:.+[.]pcap(ng)?}", func(w http.ResponseWriter, r *http.Request) {'
assert a in s
s=s.replace(a, a+'\n\t\tlog.Printf("upload request from %s", r.RemoteAddr)',1)
open(p,'w').write(s)
p='internal/index/manager/manager.go'
s=open(p).read()
assert 'log.Printf("updateTagJob failed: %q", err)' in s
s=s.replace('log.Printf("updateTagJob failed: %q", err)','log.Printf("tag job for %q failed: %q", name, err)',1)
a='''		mgr.inheritTagUncertainty()
		mgr.startTaggingJobIfNeeded()
		mgr.startConverterJobIfNeeded()
		releaser.release(mgr)
	}
}'''
assert a in s
s=s.replace(a,'''		mgr.inheritTagUncertainty()
		mgr.startTaggingJobIfNeeded()
		mgr.startConverterJobIfNeeded()
		releaser.release(mgr)
		log.Printf("converter job delivered")
	}
}''',1)
# saveState: a log line between Close and Remove, the error of Close in a local (the order of the file operations,
# which tools/checks/c12.py reads from the source, stays create, write, close, remove)
a='''	if err := f.Close(); err != nil {
		return err
	}
	if mgr.stateFilename != "" {'''
assert a in s
s=s.replace(a,'''	closeErr := f.Close()
	if closeErr != nil {
		return closeErr
	}
	log.Printf("state saved to %q", fn)
	if mgr.stateFilename != "" {''',1)
open(p,'w').write(s)
p='internal/tools/bitmask/longBitmask.go'
s=open(p).read()
import re
# rename the receiver-local loop variable in OnesCount-like loops is risky; instead add a harmless early return
p2='internal/index/converters/cachefile.go'
t=open(p2).read()
assert 'func (cachefile *cacheFile) Contains(' in t or True
open(p2,'w').write(t)
PY
cd /verif
rc=0
for p in "$@"; do
  VERIF_REPO=$wt ./check $p quick > /var/tmp/benign.out 2>&1 || true
  n=$(grep -c '^VIOLATION' /var/tmp/benign.out || true)
  echo "$p violations=$n"
  [ "$n" != "0" ] && { grep '^VIOLATION' /var/tmp/benign.out | head -2; rc=1; }
done
git -C /verif checkout evidence/ 2>/dev/null
git -C /repo worktree remove --force $wt
exit $rc
