"""
Parsing and canonicalising reports of the Go race detector (property C20).

A report is reduced to the unordered pair of the innermost frames that lie in source files of the
repository (function + file, no line numbers, no addresses).  Function names are taken from the
*source* (the top-level `func` declaration that encloses the reported line), because the names the
runtime prints for closures depend on inlining decisions ("main.(*harness).step.(*Manager).ImportPcaps.func1").
Reports whose innermost repository frame on either side is an injected accessor (zz_verif_*.go) or
harness code (internal/verifh/...) are ignored: those are accesses of the verification code itself.
"""
import os
import re

_FUNC_RX = re.compile(r"^func\s+(?:\(\s*(?:\w+\s+)?\*?(\w+)(?:\[[^\]]*\])?\s*\)\s*)?(\w+)")
_src_cache = {}


def enclosing_func(path, line):
    """name of the top-level function declaration that encloses `line` of the Go file `path`"""
    if path not in _src_cache:
        decls = []
        try:
            for n, text in enumerate(open(path, encoding="utf8", errors="replace"), 1):
                m = _FUNC_RX.match(text)
                if m:
                    decls.append((n, (m.group(1) + "." if m.group(1) else "") + m.group(2)))
        except OSError:
            pass
        _src_cache[path] = decls
    name = None
    for n, fn in _src_cache[path]:
        if n <= line:
            name = fn
        else:
            break
    return name


class Frame:
    def __init__(self, func, path, line):
        self.func, self.path, self.line = func, path, line


class Access:
    def __init__(self, head):
        self.head = head          # "Write at 0x.. by goroutine 30:" without address / goroutine number
        self.frames = []


class RaceReport:
    def __init__(self, text):
        self.text = text
        self.accesses = []
        self.key = None           # ((func, file), (func, file)) sorted, or None when ignored
        self.ignored = None       # reason
        self.kinds = ()


def parse_reports(text):
    """split race detector output into RaceReport objects (only `WARNING: DATA RACE` blocks)"""
    reports = []
    for block in re.split(r"^=+\s*$", text, flags=re.M):
        if "WARNING: DATA RACE" not in block:
            continue
        rep = RaceReport(block.strip("\n"))
        cur = None
        lines = block.split("\n")
        i = 0
        while i < len(lines):
            l = lines[i]
            m = re.match(r"^(Previous )?(Read|Write|Atomic read|Atomic write|read|write|atomic read|atomic write) at 0x[0-9a-f]+ by (main goroutine|goroutine \d+)", l.strip(), re.I)
            if m and not l.startswith(" "):
                cur = Access(((m.group(1) or "") + m.group(2)).lower())
                rep.accesses.append(cur)
            elif l.strip() == "" or (not l.startswith(" ") and not m):
                cur = None
            elif cur is not None and l.startswith("  ") and not l.startswith("      "):
                fn = l.strip()
                loc = lines[i + 1].strip() if i + 1 < len(lines) else ""
                mm = re.match(r"^(.*?):(\d+)(?: \+0x[0-9a-f]+)?$", loc)
                if mm:
                    cur.frames.append(Frame(re.sub(r"\(\)$", "", fn), mm.group(1), int(mm.group(2))))
                    i += 1
            i += 1
        reports.append(rep)
    return reports


def canonicalise(rep, repo):
    """sets rep.key / rep.ignored; returns rep"""
    repo = os.path.realpath(repo).rstrip("/") + "/"
    sides = []
    for acc in rep.accesses[:2]:
        inner = None
        for fr in acc.frames:
            p = os.path.realpath(fr.path) if os.path.isabs(fr.path) else fr.path
            if p.startswith(repo):
                inner = (fr, p[len(repo):])
                break
        if inner is None:
            rep.ignored = "no frame in repository sources on one side"
            return rep
        fr, rel = inner
        base = os.path.basename(rel)
        if base.startswith("zz_verif_") or rel.startswith("internal/verifh/"):
            rep.ignored = "innermost repository frame is verification code (%s)" % rel
            return rep
        fn = enclosing_func(os.path.join(repo, rel), fr.line) or re.sub(r"^.*/", "", fr.func)
        pkg = os.path.basename(os.path.dirname(rel))
        sides.append((pkg + "." + fn, rel))
    if len(sides) != 2:
        rep.ignored = "report without two access stacks"
        return rep
    rep.kinds = tuple(a.head.replace("previous ", "") for a in rep.accesses[:2])
    rep.key = tuple(sorted(sides))
    return rep


def scrub(text):
    """report text without addresses, goroutine numbers, offsets (stable across runs)"""
    text = re.sub(r"0x[0-9a-f]+", "0x…", text)
    text = re.sub(r"goroutine \d+", "goroutine N", text, flags=re.I)
    # the "created at" stacks sometimes run on into unrelated frames: keep 10 frames per stack
    out, frames = [], 0
    for line in text.split("\n"):
        if not line.startswith(" "):
            frames = 0
            out.append(line)
        else:
            frames += 1
            if frames <= 20:
                out.append(line)
    return "\n".join(out)
