#!/usr/bin/env python3
"""mkmut.py <id> <extra hint>   scratch worktree /var/tmp/mut/<id> of /repo HEAD + prompt file for a mutant agent
(the agent gets the property text and the worktree only)."""
import json, os, subprocess, sys
mid, extra = sys.argv[1], (sys.argv[2] if len(sys.argv) > 2 else "")
props = {json.loads(l)['id']: json.loads(l) for l in open('/verif/properties.jsonl')}
tmpl = open('/verif/tools/mutant_prompt.txt').read()
pid = 'C' + mid[1:3]
d = '/var/tmp/mut/' + mid
subprocess.run(['git', '-C', '/repo', 'worktree', 'remove', '--force', d], capture_output=True)
subprocess.run(['git', '-C', '/repo', 'branch', '-D', 'mut-' + mid], capture_output=True)
r = subprocess.run(['git', '-C', '/repo', 'worktree', 'add', '-q', '-b', 'mut-' + mid, d, 'HEAD'], capture_output=True, text=True)
assert r.returncode == 0, r.stderr
os.makedirs(d + '/web/dist', exist_ok=True)
open(d + '/web/dist/index.html', 'w').write('')
p = props[pid]
text = p['title'] + '. ' + p['statement'] + ' (Quantifier: ' + p['quantifier']['text'] + ')'
open('/var/tmp/mut/%s.prompt' % mid, 'w').write(
    tmpl.replace('__DIR__', d).replace('__BRANCH__', 'mut-' + mid).replace('__PROP__', text).replace('__ID__', mid).replace('__EXTRA__', extra + "\n" if extra else ""))
print(mid, 'ready')
