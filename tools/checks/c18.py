"""
C18 — regex length and suffix analysis is exact and safe.

obligations : theorems of lean/Pk/Props/C18.lean (kernel-checked, axioms audited)
tie         : generated regex ASTs are rendered to text; the REAL AcceptedLength / ConstantSuffix
              (harness c18, built from the repository's working tree) and the Lean transliteration of
              the program walks (pkmodel c18, run on the compiled program the harness dumps) print one
              line per case; the lines are diffed.  The same line carries the AST-level tie
              (real lengths vs Lean `lenRange` of the AST) for regular ASTs.
oracle      : inside the harness, independent of the model: words sampled from the AST and validated
              with the real matcher must respect min/max/suffix; shortest/longest words are
              constructed; finite bounds must be attained.
"""
import collections
import glob
import json
import os
import re

import pk
from opstie import OpsTie, Case

PROP = "C18"
MAXU = "18446744073709551615"


# ------------------------------------------------------------------------------------------
# proof obligations, scoped to the modules C18 depends on (another property's unfinished proof
# file in lean/Pk must not fail this check, and must not be able to hide a hole in ours)

def _closure(mods):
    seen, todo = set(), list(mods)
    while todo:
        m = todo.pop()
        if m in seen or not m.startswith("Pk."):
            continue
        path = os.path.join(pk.LEAN, *m.split(".")) + ".lean"
        if not os.path.exists(path):
            continue
        seen.add(m)
        for line in open(path, encoding="utf8"):
            mm = re.match(r"\s*import\s+(\S+)", line)
            if mm:
                todo.append(mm.group(1))
    return seen


def check_obligations(leanchecker=False):
    ob = pk.Obligations()
    mod = "Pk.Props.%s" % PROP
    pf = os.path.join(pk.LEAN, "Pk", "Props", "%s.lean" % PROP)
    ob.names = pk.theorem_names(pf) if os.path.exists(pf) else []
    if not ob.names:
        ob.failed = [(mod, "no theorems found")]
        return ob
    ok, log = pk.lake_build([mod, "pkmodel"])
    ob.log = log
    if not ok:
        errs = re.findall(r"error: ([^\n]*)", log)
        ob.failed = [(n, "module does not build: " + "; ".join(errs[:3])) for n in ob.names]
        return ob
    mine = {os.path.join(*m.split(".")) + ".lean" for m in _closure([mod, "Pk.Driver.C18"])}
    hits = [h for h in pk.forbidden_tokens() if h.split(":")[0] in mine]
    if hits:
        ob.failed = [(n, "forbidden token: " + hits[0]) for n in ob.names]
        return ob
    res, _alog = pk.audit_axioms(mod, ob.names)
    for n in ob.names:
        ax = res.get(n)
        if ax is None:
            ob.failed.append((n, "theorem missing from compiled module"))
            continue
        bad = [a for a in ax if a not in pk.ALLOWED_AXIOMS]
        if bad:
            ob.failed.append((n, "depends on axioms %s" % bad))
        ob.axioms.update(ax)
    if leanchecker and ob.ok:
        rc, o, e = pk.sh(["lake", "env", "leanchecker", mod], cwd=pk.LEAN, timeout=3600)
        if rc != 0:
            ob.failed = [(n, "leanchecker rejected %s: %s" % (mod, (o + e)[-300:])) for n in ob.names]
    return ob


# ------------------------------------------------------------------------------------------

def gen_cases(binpath, seed, n):
    rc, o, e = pk.sh([binpath, "gen", "-seed", str(seed), "-n", str(n)], env=pk.goenv(), timeout=300)
    if rc != 0:
        raise RuntimeError("generator failed: " + e)
    return [l for l in o.split("\n") if l]


def shrink(binpath, line, kind):
    rc, o, e = pk.sh([binpath, "shrink", "-kind", kind], stdin=(line + "\n").encode(), env=pk.goenv(), timeout=600)
    out = [l for l in o.split("\n") if l]
    return out[0] if out else line


def complaints_of(lines):
    """[(line number (1-based), kind, text)]"""
    res = []
    for l in lines:
        m = re.match(r"ORACLE line=(\d+) kind=(\S+) (.*)", l)
        if m:
            res.append((int(m.group(1)), m.group(2), m.group(3)))
    return res


def classify(kind, text, ast, known):
    """attribute a complaint about a SHRUNK case to a known finding"""
    for k in known:
        if k.get("status") != "known":
            continue
        m = k.get("match", {})
        if m.get("classifier") != "regex-feature":
            continue
        if m.get("feature") == "empty-width-makes-branch-unsatisfiable":
            if kind in m.get("kinds", []) and '"as"' in json.dumps(ast) and \
                    re.search(r"assertions=1 candidates=\d+ attained-with-assertions-erased=1", text):
                return k
    return None


def walk(ast, f, depth=0, loops=0):
    f(ast, depth, loops)
    k = ast[0]
    if k in ("cat", "alt"):
        for s in ast[1]:
            walk(s, f, depth + 1, loops)
    elif k in ("star", "plus"):
        walk(ast[2], f, depth + 1, loops + 1)
    elif k == "quest":
        walk(ast[2], f, depth + 1, loops)
    elif k == "rep":
        walk(ast[4], f, depth + 1, loops + (1 if ast[2] < 0 else 0))
    elif k == "cap":
        walk(ast[1], f, depth + 1, loops)


def regimes_of(case, out, regimes):
    ast = case["ast"]
    feats = set()

    def f(n, depth, loops):
        k = n[0]
        if k == "as":
            feats.add("assertion")
            feats.add("assertion_" + n[1])
        elif k in ("lit", "cls") and n[2 if k == "cls" else 2]:
            feats.add("case_fold")
        if k == "cls":
            feats.add("class")
            if n[1]:
                feats.add("negated_class")
        if k in ("any", "anynl"):
            feats.add("any_byte")
        if k == "none":
            feats.add("match_nothing_class")
        if k == "alt":
            feats.add("alternation")
        if k == "cap":
            feats.add("capture")
        if k in ("star", "plus") or (k == "rep" and n[2] < 0):
            feats.add("unbounded_loop")
            if loops >= 1:
                feats.add("nested_loop")
        if k == "rep":
            feats.add("counted")
            if max(n[1], n[2]) >= 32:
                feats.add("counted_ge_32")
        if k in ("star", "plus", "quest", "rep") and n[-2]:
            feats.add("non_greedy")
        if k == "cat":
            for a, b in zip(n[1], n[1][1:]):
                if (a[0] in ("quest", "star") or (a[0] == "alt" and ["eps"] in a[1])) and \
                        (b[0] == "plus" or (b[0] == "rep" and b[2] < 0 and b[1] >= 1)):
                    feats.add("optional_then_plus_loop")

    walk(ast, f)
    if case.get("nosuffix"):
        feats.add("suffix_call_skipped_path_blowup")
    if case.get("prog") is None:
        feats.add("rejected_by_parser")
    m = re.match(r"min=(\d+) max=(\d+) suffix=(\S*) amin=(\S+) amax=(\S+)", out or "")
    if m:
        if m.group(2) == MAXU:
            feats.add("max_unbounded")
        else:
            feats.add("max_finite")
            if m.group(1) == m.group(2):
                feats.add("fixed_length")
        if m.group(1) == MAXU:
            feats.add("min_unmatchable")
        if m.group(3) not in ("", "-"):
            feats.add("nonempty_suffix")
            if "assertion" in feats:
                feats.add("nonempty_suffix_with_assertion")
        if m.group(4) == "*":
            feats.add("irregular_no_ast_tie")
    for x in feats:
        regimes[x] += 1
    return feats


def run(tier, seed, replay=None):
    rep = pk.Report(PROP, tier, seed)
    replay_data = json.load(open(replay)) if replay else None    # read before old replays are removed
    if not replay:
        for old in glob.glob(os.path.join(pk.VERIF, "replays", PROP + "-*.json")):
            os.remove(old)
    thorough = tier == "thorough"
    ob = check_obligations(leanchecker=thorough)
    rep.coverage.update(pk.proof_coverage(
        ob, "cd /verif/lean && lake build Pk.Props.C18 && lake env lean <#print axioms of every theorem>"
        + (" && lake env leanchecker Pk.Props.C18" if thorough else ""),
        ["Lean compiler/runtime for the executable model (pkmodel)",
         "correspondence harness /verif/harness/cmd/c18 + tools/opstie.py (differential, generated regexes)",
         "rsc.io/binaryregexp (parser, compiler, matcher): not modelled; compiled programs are dumped and "
         "fed to the model, sampled words are validated with the real matcher"]))
    rep.assumptions = [
        "the regex engine rsc.io/binaryregexp is third-party and only tested differentially",
        "'attained' is demanded only for expressions whose classes have members (a class matching no byte "
        "is counted as one byte by the analyses); soundness is checked for all generated expressions",
        "equality of the program walks with lenRange of the AST (C18_code_level) holds by tie only, for "
        "'regular' ASTs (no match-nothing class, no unbounded loop over an empty-only body)",
        "ConstantSuffix is not called when the AST has more than 20000 alternative paths (its walk is "
        "exponential in them); such cases are flagged nosuffix and only the lengths are compared",
        "case folding is generated for ASCII letters only"]

    binpath, blog = pk.go_build("c18")
    if binpath is None:
        rep.replay({"broken": "correspondence C18: harness does not build against the repository's working tree",
                    "log": blog[-3000:]}, no_input=True)
        rep.coverage.update({"evaluations": 0, "distinct_nontrivial": 0})
        return rep.finish()
    nsamples = 24 if not thorough else 48
    tie = OpsTie(binpath, "c18", run_args=("run", "-samples", str(nsamples)), timeout=900)

    if replay:
        data = replay_data
        c = tie.run(Case("replay", data.get("cases", [])))
        orc = [l for l in c.oracle if l.startswith("ORACLE")]
        print("oracle complaints:", orc)
        print("first model/impl difference:", c.diff, c.error)
        if c.diff is not None:
            print(" case :", c.ops[c.diff][:300] if c.diff < len(c.ops) else None)
            print(" impl :", c.impl[c.diff] if c.diff < len(c.impl) else None)
            print(" model:", c.model[c.diff] if c.diff < len(c.model) else None)
        return 1 if (orc or c.diff is not None or c.error) else 0

    cases = []
    for p in sorted(glob.glob(os.path.join(pk.VERIF, "corpus", PROP, "*.jsonl"))):
        cases.append(Case("corpus:" + os.path.basename(p),
                          [l for l in open(p).read().split("\n") if l and not l.startswith("#")]))
    nchunks, per = (12, 2500) if not thorough else (60, 5000)
    for i in range(nchunks):
        # lib.RNG streams of seeds that differ by a small d are the same stream shifted by d draws, and the
        # generator draws once per case from the main stream: keep the chunk seeds far apart
        cases.append(Case("seed:%d" % ((seed * 1009 + i) * 1000003), None))

    known = pk.known_findings(PROP)
    regimes = collections.Counter()
    ostats = collections.Counter()
    distinct = set()
    evaluations = 0
    diffs, failures = [], []       # (case, index) ; (case, line no, kind, text)
    sample = None
    for c in cases:
        if c.ops is None:
            c.ops = gen_cases(binpath, int(c.name.split(":")[1]), per)
        tie.run(c)
        evaluations += len(c.ops)
        for l in c.oracle:
            if l.startswith("STATS"):
                for kv in l.split()[1:]:
                    k, v = kv.split("=")
                    ostats[k] += int(v)
        for line, out in zip(c.ops, c.impl):
            try:
                cj = json.loads(line)
            except ValueError:
                continue
            regimes_of(cj, out, regimes)
            prog = cj.get("prog")
            if prog and any(i[0] in (0, 1) for i in prog["inst"]):
                distinct.add(cj["re"])
        if sample is None and c.name.startswith("seed:"):
            sample = [{"re": json.loads(l)["re"], "impl": o, "model": m}
                      for l, o, m in list(zip(c.ops, c.impl, c.model))[:8]]
        if c.error:
            failures.append((c, 0, "harness-" + c.error.split()[0], c.error))
        for (ln, kind, text) in complaints_of(c.oracle):
            failures.append((c, ln, kind, text))
        if c.diff is not None:
            diffs.append(c)

    # --- property oracle failed on the implementation: shrink, classify, report
    reported = set()
    per_kind = collections.Counter()
    for (c, ln, kind, text) in failures:
        if kind.startswith("harness-"):
            if kind not in reported:
                reported.add(kind)
                rep.replay({"kind": kind, "case": c.name, "error": text, "cases": c.ops[:50]})
            continue
        key0 = kind + ("|as" if re.search(r"assertions=1 candidates=\d+ attained-with-assertions-erased=1", text) else "")
        per_kind[key0] += 1
        if per_kind[key0] > (3 if not thorough else 6):
            continue                       # enough witnesses of this kind have been shrunk
        line = c.ops[ln - 1]
        small = shrink(binpath, line, kind)
        _l, orc, err = tie.impl([small])
        cps = [x for x in complaints_of(orc) if x[1] == kind] or [(1, kind, text)]
        sj = json.loads(small)
        k = classify(kind, cps[0][2], sj["ast"], known)
        if k:
            rep.known_finding(k["text"])
            continue
        key = kind + "|" + sj["re"]
        if key in reported:
            continue
        reported.add(key)
        rep.replay({"kind": "oracle:" + kind, "case": c.name, "cases": [small], "regex": sj["re"],
                    "complaints": [x[2] for x in cps][:5], "unshrunk_regex": json.loads(line)["re"],
                    "actual": (_l or [None])[0],
                    "statement": "every matched string has MinLength <= len <= MaxLength and ends with the "
                                 "constant suffix; finite bounds are attained"})
    # --- model and implementation differ, oracle silent: search, else no-failing-input-found
    if diffs and not rep.violations:
        c = diffs[0]
        d = c.diff
        found = None
        for j in range(8 if not thorough else 40):      # search: fresh seeds, oracle only, more samples
            ops = gen_cases(binpath, (seed * 7919 + 100000 + j) * 1000003, 2500)
            _l, orc, err = OpsTie(binpath, "c18", run_args=("run", "-samples", "64")).impl(ops)
            evaluations += len(ops)
            cps = [x for x in complaints_of(orc)]
            for (ln, kind, text) in cps:
                small = shrink(binpath, ops[ln - 1], kind)
                _l2, orc2, _e = tie.impl([small])
                t2 = ([x for x in complaints_of(orc2) if x[1] == kind] or [(1, kind, text)])[0][2]
                sj = json.loads(small)
                if classify(kind, t2, sj["ast"], known):
                    continue
                found = (small, kind, t2, sj["re"])
                break
            if found:
                break
        if found:
            rep.replay({"kind": "oracle:" + found[1], "cases": [found[0]], "regex": found[3], "complaints": [found[2]],
                        "found_by": "search after a model/implementation difference"})
        else:
            line = c.ops[d] if d < len(c.ops) else None
            rep.replay({"broken": "correspondence C18 (program walks min/max/suffix, and real lengths vs lenRange of "
                                  "the AST) no longer checks",
                        "cases": [line] if line else [], "first_difference": d, "case": c.name,
                        "regex": json.loads(line)["re"] if line else None,
                        "impl": c.impl[d] if d < len(c.impl) else None,
                        "model": c.model[d] if d < len(c.model) else None,
                        "differences_in_this_chunk": sum(1 for a, b in zip(c.impl, c.model) if a != b)},
                       no_input=True)
    # --- proof obligations
    if not ob.ok and not rep.violations:
        rep.replay({"broken": "proof obligations of Pk.Props.C18", "failed": ob.failed[:20], "log": ob.log[-2000:]},
                   no_input=True)

    rep.coverage.update({
        "evaluations": evaluations,
        "distinct_nontrivial": len(distinct),
        "rule": "regex ASTs generated by splitmix64 from VERIF_SEED (depth <= 4, <= 40 nodes: literals, classes, "
                "negated classes, any-byte, 8 kinds of empty-width assertion, (?i), concat, alternation, * + ? "
                "{m,n} {m,} up to 64 with nesting, greedy and non-greedy, captures; 25% from the shapes named in "
                "DESIGN §5 C18 and optional-prefix-before-loop shapes; 30% assertion-free); a case counts as "
                "non-trivial+distinct when its compiled program contains at least one Alt instruction and its "
                "regex text was not seen before in this run",
        "samples": sample or [],
        "chunks": len(cases), "regimes": dict(regimes),
        "oracle_words": dict(ostats),
        "model_impl_differences": len(diffs),
        "oracle_complaints": dict(collections.Counter(k for (_c, _l, k, _t) in failures)),
    })
    return rep.finish()
