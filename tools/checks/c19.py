"""
C19 — file endpoints stay inside the capture directory and never overwrite.

facts       : harness/cmd/c19extract (go/ast) regenerates lean/Pk/Gen/Routes.lean from
              $VERIF_REPO/cmd/pkappa2/main.go on EVERY run (stale file deleted first); the summary
              facts parameterise the Lean model (first op line `facts ...`)
obligations : theorems of lean/Pk/Props/C19.lean incl. `gen_routes_as_expected` (by decide over the
              regenerated file), kernel-checked, axioms audited
tie         : ops executed by (a) the real path/filepath functions, (b) the REAL chi router of
              setupRouter, linked from /repo's working tree through an injected init hook in package
              main, in-process with a stub manager and a scratch tree, and by the Lean model
              (pkmodel c19); outputs diffed line by line
oracle      : written from the property statement inside the harness (sentinel tree around the
              capture directory hashed before/after every request, stored entries untouched, one new
              capture == request body per 2xx upload, import queue grows by exactly that name)
search      : when facts/obligations/correspondence break: `gen -profile escape` cases, oracle only
"""
import collections
import concurrent.futures
import glob
import json
import os
import re
import threading

import pk
from opstie import OpsTie, Case

PROP = "C19"
GEN_LEAN = os.path.join(pk.LEAN, "Pk", "Gen", "Routes.lean")
MODULES = ("Pk.Props.C19",)


# ------------------------------------------------------------------------------------------------
# facts
# ------------------------------------------------------------------------------------------------

def regenerate_facts():
    """returns (facts_line | None, routes dict | None, log)"""
    if os.path.exists(GEN_LEAN):
        os.remove(GEN_LEAN)          # never check against a stale file
    os.makedirs(os.path.dirname(GEN_LEAN), exist_ok=True)
    binpath, log = pk.go_build("c19extract")
    if binpath is None:
        return None, None, "extractor does not build: " + log[-2000:]
    js = os.path.join(pk.scratch(), "c19_routes.json")
    src = os.path.join(pk.REPO, "cmd", "pkappa2", "main.go")
    rc, o, e = pk.sh([binpath, "-src", src, "-lean", GEN_LEAN, "-json", js], env=pk.goenv(), timeout=120)
    if rc != 0 or not os.path.exists(js) or not os.path.exists(GEN_LEAN):
        return None, None, "extractor failed: " + (o + e)[-2000:]
    routes = json.load(open(js))
    f = routes["facts"]
    b = lambda x: "1" if x else "0"
    line = "facts upGuard=%s upCreate=%s upExcl=%s upTrunc=%s upRemove=%s upImports=%d downGuard=%s" % (
        b(f["upGuard"]), b(f["upCreate"]), b(f["upExcl"]), b(f["upTrunc"]), b(f["upRemove"]), f["upImports"],
        b(f["downGuard"]))
    return line, routes, ""


def routes_diff(routes):
    """which regenerated facts differ from the committed mirror of the expectation (diagnostics only; the
    obligation itself is the Lean theorem gen_routes_as_expected)"""
    try:
        exp = json.load(open(os.path.join(pk.VERIF, "corpus", PROP, "expected_routes.json")))
    except Exception as e:      # noqa
        return {"error": "no expectation mirror: %s" % e}
    if routes is None:
        return {"error": "extractor produced nothing"}
    out = {}
    for k in sorted(set(exp) | set(routes)):
        if exp.get(k) != routes.get(k):
            out[k] = {"expected": exp.get(k), "regenerated": routes.get(k)}
    return out


# ------------------------------------------------------------------------------------------------
# obligations (forbidden-token grep limited to the modules Pk.Props.C19 and the driver depend on)
# ------------------------------------------------------------------------------------------------

def import_closure(roots):
    seen, todo = set(), list(roots)
    while todo:
        m = todo.pop()
        if m in seen or not m.startswith("Pk"):
            continue
        p = os.path.join(pk.LEAN, *m.split(".")) + ".lean"
        if not os.path.exists(p):
            continue
        seen.add(m)
        for mm in re.findall(r"^\s*import\s+(\S+)", pk.strip_comments(open(p, encoding="utf8").read()), re.M):
            todo.append(mm)
    return seen


def forbidden_in(mods):
    hits = []
    for m in sorted(mods):
        p = os.path.join(pk.LEAN, *m.split(".")) + ".lean"
        txt = pk.strip_comments(open(p, encoding="utf8").read())
        for n, line in enumerate(txt.split("\n"), 1):
            l2 = re.sub(r'"(\\.|[^"\\])*"', '""', line)
            if pk.FORBIDDEN.search(l2):
                hits.append("%s:%d: %s" % (os.path.relpath(p, pk.LEAN), n, line.strip()))
    return hits


def check_obligations(leanchecker=False):
    ob = pk.Obligations()
    mod = "Pk.Props.C19"
    ob.names = pk.theorem_names(os.path.join(pk.LEAN, "Pk", "Props", "C19.lean"))
    ok, log = pk.lake_build([mod, "pkmodel"])
    ob.log = log
    if not ok:
        errs = re.findall(r"error: ([^\n]*)", log)
        # attribute errors inside Props/C19.lean to the theorem that contains the line
        pf = os.path.join(pk.LEAN, "Pk", "Props", "C19.lean")
        decl = []          # (line, theorem)
        for ln, text in enumerate(open(pf, encoding="utf8").read().split("\n"), 1):
            m = re.match(r"\s*theorem\s+([^\s:({\[]+)", text)
            if m:
                decl.append((ln, "Pk.Props.C19." + m.group(1)))
        culprits = {}
        for m in re.finditer(r"Pk/Props/C19\.lean:(\d+):\d+: ([^\n]*)", log):
            ln = int(m.group(1))
            owner = [t for (l, t) in decl if l <= ln]
            if owner:
                culprits.setdefault(owner[-1], m.group(2))
        for t, why in culprits.items():
            if t.endswith("gen_routes_as_expected"):
                why = "regenerated facts (lean/Pk/Gen/Routes.lean) differ from Expected.routes: " + why
            ob.failed.append((t, why))
        rest = "not checked: Pk.Props.C19 does not build (" + "; ".join(errs[:2]) + ")"
        ob.failed += [(n, rest) for n in ob.names if n not in culprits]
        if not ob.failed:
            ob.failed = [(mod, rest)]
        return ob
    hits = forbidden_in(import_closure([mod, "Pk.Driver.C19"]))
    if hits:
        ob.failed = [(n, "forbidden token: " + hits[0]) for n in ob.names]
        return ob
    res, _alog = pk.audit_axioms(mod, ob.names)
    for n in ob.names:
        ax = res.get(n)
        if ax is None:
            ob.failed.append((n, "theorem missing from compiled module"))
            continue
        bad = [a for a in ax if a not in pk.ALLOWED_AXIOMS]
        if bad:
            ob.failed.append((n, "depends on axioms %s" % bad))
        ob.axioms.update(ax)
    if leanchecker and ob.ok:
        rc, o, e = pk.sh(["lake", "env", "leanchecker", mod], cwd=pk.LEAN, timeout=3600)
        if rc != 0:
            ob.failed = [(n, "leanchecker rejected %s: %s" % (mod, (o + e)[-300:])) for n in ob.names]
    return ob


# ------------------------------------------------------------------------------------------------
# harness
# ------------------------------------------------------------------------------------------------

def build_http_harness():
    """cmd/pkappa2 of the working tree + injected init hook + stub frontend asset -> build/bin/c19http"""
    ov = pk.write_overlay()
    d = json.load(open(ov))
    d["Replace"][os.path.join(pk.REPO, "web", "dist", "index.html")] = os.path.join(
        pk.VERIF, "harness", "inject", "web", "dist", "index.html")
    ov2 = os.path.join(pk.BUILD, "overlay_c19.json")
    with open(ov2, "w") as fh:
        json.dump(d, fh, indent=1, sort_keys=True)
    out = os.path.join(pk.BIN, "c19http")
    os.makedirs(pk.BIN, exist_ok=True)
    if os.path.exists(out):
        os.remove(out)
    rc, o, e = pk.sh(["go", "build", "-tags", "verif", "-overlay", ov2, "-o", out, "./cmd/pkappa2"],
                     cwd=pk.REPO, env=pk.goenv(), timeout=900)
    if rc != 0 or not os.path.exists(out):
        return None, o + e
    return out, o + e


def canon_line(l):
    """a download that serves nothing is one outcome: WHICH error http.ServeFile / the OS pick for a name that
    cannot be opened (404 not found, 404 invalid name, 500 name too long — their precedence depends on
    net/http and os details such as UTF-8 validation before the open) is not part of the property and not
    modelled precisely"""
    m = re.match(r"down param=([0-9a-f]*) ", l)
    if m:
        try:
            bytes.fromhex(m.group(1)).decode("utf8")
        except UnicodeDecodeError:
            # http.Dir.Open refuses names that are not valid UTF-8 (io/fs.ValidPath) whether the file exists or not:
            # nothing is served; the model has no notion of UTF-8 (found by the thorough tier as a tie difference)
            return "down param=%s code=name-not-utf8" % m.group(1)
    if l.startswith("down ") and l.endswith(" body=-"):
        return re.sub(r" code=(404|500) body=-$", " code=nothing-served body=-", l)
    return l


class Tie(OpsTie):
    """OpsTie that prefixes every op list with the regenerated facts line"""

    def __init__(self, binpath, facts_line):
        OpsTie.__init__(self, binpath, "c19", run_args=("verif-c19", "run", "-scratch", pk.scratch()), timeout=600)
        self.facts_line = facts_line
        self.lock = threading.Lock()

    def impl(self, ops):
        with self.lock:
            self.n += 1
            n = self.n
        opath = os.path.join(pk.scratch(), "oracle_c19_%d.txt" % n)
        rc, o, e = pk.sh([self.bin] + self.run_args + ["-oracle", opath],
                         stdin="".join(l + "\n" for l in [self.facts_line] + list(ops)).encode(),
                         env=self.env, timeout=self.timeout)
        orc = []
        if os.path.exists(opath):
            orc = [l for l in open(opath).read().split("\n") if l]
            os.remove(opath)
        err = None
        if rc == -9:
            err = "hang"
        elif rc != 0:
            err = "crash rc=%d %s" % (rc, e[-500:])
        lines = o.split("\n")[:-1] if o.endswith("\n") else o.split("\n")
        return [canon_line(l) for l in lines[1:]], orc, err

    def model(self, ops):
        lines, err = OpsTie.model(self, [self.facts_line] + list(ops))
        return [canon_line(l) for l in lines[1:]], err


class WrongModelTie(Tie):
    """the implementation gets the regenerated facts, the model deliberately wrong ones"""
    WRONG = "facts upGuard=1 upCreate=1 upExcl=0 upTrunc=1 upRemove=1 upImports=2 downGuard=1"

    def model(self, ops):
        lines, err = OpsTie.model(self, [self.WRONG] + list(ops))
        return lines[1:], err


def gen_ops(genbin, seed, n, profile="mixed"):
    rc, o, e = pk.sh([genbin, "gen", "-seed", str(seed), "-n", str(n), "-profile", profile], env=pk.goenv(), timeout=120)
    if rc != 0:
        raise RuntimeError("generator failed: " + e)
    return [l for l in o.split("\n") if l]


def unhex(h):
    return b"" if h == "-" else bytes.fromhex(h)


def classify(shrunk_ops, complaints, known):
    """no known findings are recorded for C19; kept for the contract (specific matchers only)"""
    for k in known:
        if k.get("status") != "known":
            continue
        m = k.get("match", {})
        if m.get("classifier") == "ops-regex" and all(
                any(re.search(rx, op) for op in shrunk_ops) for rx in m.get("all", [])) and any(
                re.search(m.get("complaint", ""), c) for c in complaints):
            return k
    return None


def readable(ops):
    """ops with the hex fields decoded, for replay files"""
    out = []
    for op in ops:
        f = op.split()
        try:
            if f[0] == "req":
                out.append("%s path=%r rawpath=%r body=%s fail=%s" % (f[1], unhex(f[2]), unhex(f[3]), f[4], f[5]))
            elif f[0] == "wire":
                out.append("%s request-target=%r over TCP (path=%r rawpath=%r) body=%s" % (
                    f[1], unhex(f[2]), unhex(f[3]), unhex(f[4]), f[5]))
            elif f[0] == "race":
                out.append("race POST path=%r rawpath=%r bodies=%s,%s" % (unhex(f[1]), unhex(f[2]), f[3], f[4]))
            elif f[0] in ("seed", "mkdir", "base", "clean"):
                out.append("%s %r %s" % (f[0], unhex(f[1]), " ".join(f[2:])))
            elif f[0] == "join":
                out.append("join " + " ".join(repr(unhex(x)) for x in f[1:]))
            else:
                out.append(op)
        except Exception:
            out.append(op)
    return out


def run(tier, seed, replay=None):
    rep = pk.Report(PROP, tier, seed)
    for old in glob.glob(os.path.join(pk.VERIF, "replays", PROP + "-*.json")):
        os.remove(old)
    thorough = tier == "thorough"

    facts_line, routes, flog = regenerate_facts()
    if facts_line is None:
        # without facts neither the obligations nor the model can run; still try the oracle below
        rep.notes.append(flog)
        facts_line = "facts upGuard=1 upCreate=1 upExcl=1 upTrunc=0 upRemove=1 upImports=1 downGuard=1"
        with open(GEN_LEAN, "w") as fh:
            fh.write("import Pk.Model.Upload\nnamespace Pk.Gen.Routes\nopen Pk.Upload\n"
                     "def routes : Routes := ⟨[], [], [], \"\", [], [], [], [], ⟨false, false, false, false, false, 0, false⟩⟩\n"
                     "end Pk.Gen.Routes\n")
    ob = check_obligations(leanchecker=thorough)
    rep.coverage.update(pk.proof_coverage(
        ob, "cd /verif/lean && <regenerate Pk/Gen/Routes.lean> && lake build Pk.Props.C19 && lake env lean <#print axioms of every theorem>"
        + (" && lake env leanchecker Pk.Props.C19" if thorough else ""),
        ["Lean compiler/runtime for the executable model (pkmodel)",
         "go/ast extractor /verif/harness/cmd/c19extract (regenerated facts)",
         "correspondence harness /verif/harness/lib/c19h + injected init hook in package main + tools/checks/c19.py",
         "path/filepath, net/http.ServeFile, go-chi routing, the OS file system: modelled, exercised by the tie, not verified"]))
    rep.coverage["regenerated_facts"] = facts_line
    rep.assumptions = [
        "unix path semantics (filepath.Separator == '/'); the Windows build of the handlers is not covered",
        "no symbolic links inside the capture directory (requests cannot create any)",
        "dst.Close() does not fail (cannot be provoked in the harness); its error path is only covered by the regenerated facts",
        "requests reach the handlers through chi exactly as Mux.routeHTTP routes them (RawPath if set, else Path); "
        "HTTP/1.1 request-line parsing is covered by deriving Path/RawPath with url.ParseRequestURI in the generator",
    ]

    genbin, glog = pk.go_build("c19")
    httpbin, hlog = build_http_harness() if genbin else (None, "")
    if genbin is None or httpbin is None:
        rep.replay({"broken": "correspondence C19: harness does not build against /repo's working tree",
                    "log": (glog + hlog)[-3000:]}, no_input=True)
        rep.coverage.update({"evaluations": 0, "distinct_nontrivial": 0})
        return rep.finish()
    tie = Tie(httpbin, facts_line)

    if replay:
        data = json.load(open(replay))
        c = tie.run(Case("replay", data.get("ops", [])))
        print("oracle complaints:", c.oracle)
        print("first model/impl difference:", c.diff, c.error)
        if c.diff is not None:
            print(" op   :", c.ops[c.diff] if c.diff < len(c.ops) else None)
            print(" impl :", c.impl[c.diff] if c.diff < len(c.impl) else None)
            print(" model:", c.model[c.diff] if c.diff < len(c.model) else None)
        return 1 if (c.oracle or c.diff is not None or c.error) else 0

    cases = []
    for p in sorted(glob.glob(os.path.join(pk.VERIF, "corpus", PROP, "*.ops"))):
        cases.append(Case("corpus:" + os.path.basename(p),
                          [l for l in open(p).read().split("\n") if l and not l.startswith("#")]))
    ncases, nops = (48, 400) if not thorough else (900, 600)
    for i in range(ncases):
        cases.append(Case("seed:%d" % (seed * 1000003 + i), None))
    # exhaustive small scope for the path model: every string over {/ . a} up to this length
    small_len = 9 if not thorough else 12
    cases.append(Case("exhaustive:pathsmall:%d" % small_len,
                      [l for l in pk.sh([genbin, "gen", "-profile", "pathsmall", "-n", str(small_len)],
                                        env=pk.goenv(), timeout=600)[1].split("\n") if l]))
    rep.coverage["path_strings_exhaustive_up_to_len"] = small_len

    # --- self-test of the tie: the same corpus case against a deliberately wrong model (facts without
    #     O_EXCL) must be reported as a difference, otherwise the diff machinery is blind
    selftest_ok = None
    corpus_cases = [c for c in cases if c.name == "corpus:traversal_attempts.ops"]
    if corpus_cases:
        wrong = WrongModelTie(httpbin, facts_line)
        st = wrong.run(Case("selftest", list(corpus_cases[0].ops)))
        selftest_ok = st.diff is not None
        rep.coverage["selftest_wrong_model_detected"] = selftest_ok

    def work(c):
        if c.ops is None:
            c.ops = gen_ops(genbin, int(c.name.split(":")[1]), nops)
        return tie.run(c)

    with concurrent.futures.ThreadPoolExecutor(max_workers=min(12, os.cpu_count() or 4)) as ex:
        list(ex.map(work, cases))

    known = pk.known_findings(PROP)
    regimes = collections.Counter()
    opmix = collections.Counter()
    distinct = set()
    evaluations = 0
    diffs, oracle_fail = [], []
    sample = None
    for c in cases:
        evaluations += len(c.ops)
        existing = set()
        for op, out in zip(c.ops, c.impl):
            f = op.split()
            opmix[f[0]] += 1
            if f[0] == "wire":
                regimes["sent_over_tcp_through_net_http_server"] += 1
                if out.startswith("wire-"):
                    regimes["wire_" + out.split()[0]] += 1
                    continue
                f = ["req", f[1], f[3], f[4], f[5], "-"]
            if f[0] == "reset":
                regimes["dirflag_variant_" + f[1]] += 1
                existing = set()
            elif f[0] in ("seed", "mkdir"):
                existing.add(f[1])
            elif f[0] in ("base", "clean", "join"):
                if out != (f[1] if len(f) == 2 else None):
                    distinct.add(op)
                if f[0] == "clean" and b".." in unhex(f[1]):
                    regimes["clean_with_dotdot"] += 1
                if f[0] == "base" and unhex(f[1]).endswith(b"/"):
                    regimes["base_trailing_slash"] += 1
                if f[0] == "join" and "-" in f[1:]:
                    regimes["join_empty_element"] += 1
            elif f[0] == "req":
                path, raw = unhex(f[2]), unhex(f[3])
                o = out.split()
                if raw:
                    regimes["rawpath_set"] += 1
                    if raw.replace(b"%2f", b"/").replace(b"%2F", b"/") != raw:
                        regimes["encoded_slash"] += 1
                    if b"%2e" in raw.lower():
                        regimes["encoded_dot"] += 1
                    if b"%5c" in raw.lower():
                        regimes["encoded_backslash"] += 1
                if b".." in path.split(b"/"):
                    regimes["dotdot_segment_in_path"] += 1
                if b"//" in path:
                    regimes["double_slash"] += 1
                if b"\x00" in path:
                    regimes["nul_byte"] += 1
                if len(path) > 250:
                    regimes["very_long"] += 1
                if f[5] != "-":
                    regimes["body_read_failure"] += 1
                if o[0] == "other":
                    regimes["not_routed_to_file_handlers"] += 1
                    continue
                code = o[2].split("=")[1]
                regimes["%s_%s" % (o[0], code)] += 1
                if o[0] == "up" and code == "500" and o[1].split("=")[1] in existing:
                    regimes["up_conflict_existing_name"] += 1
                if o[0] == "up" and code == "200":
                    existing.add(o[1].split("=")[1])
                param = unhex(o[1].split("=")[1])
                if b"%2f" in param.lower() or b"\\" in param or param.startswith(b".."):
                    regimes["handler_param_with_separator_lookalike"] += 1
                if len(param) in (255, 256):
                    regimes["name_at_NAME_MAX_boundary"] += 1
                distinct.add((o[0], o[1], code))
            elif f[0] == "race":
                o = out.split()
                if o[0] == "race":
                    regimes["race_" + o[2].split("=")[1].replace(",", "_").replace(":", "_")] += 1
                    distinct.add(("race", o[1], o[2]))
        if sample is None and c.name.startswith("seed:"):
            sample = {"case": c.name, "ops": readable(c.ops[:14]), "impl": c.impl[:14]}
        if c.oracle or c.error:
            oracle_fail.append(c)
        elif c.diff is not None:
            diffs.append(c)

    reported = set()

    def tag(complaint):
        m = re.match(r"ORACLE line=\d+ (O\d)", complaint)
        return m.group(1) if m else "other"

    def report_oracle(ops, casename, want=None):
        """shrink w.r.t. the complaint class `want` (O1 escape, O2 leak, O3 stored entry touched, O4 success
        without exactly one stored body, O5 import queue) and write the replay"""
        def failing(xs):
            _l, orc, err = tie.impl(xs)
            if want is None or want == "crash":
                return bool(orc) or err is not None
            return any(tag(x) == want for x in orc)
        shrunk = pk.ddmin(list(ops), failing, 300)
        lines, orc, err = tie.impl(shrunk)
        k = classify(shrunk, orc, known)
        if k:
            rep.known_finding(k["text"])
            return
        key = pk.sha("\n".join(shrunk))
        if key in reported:
            return
        reported.add(key)
        rep.replay({"kind": "oracle", "class": want, "case": casename, "facts": facts_line, "ops": shrunk,
                    "ops_readable": readable(shrunk), "actual": lines, "complaints": orc[:10], "error": err,
                    "expected": "no oracle complaint: nothing outside the capture directory touched, stored captures "
                                "untouched, one new capture per successful upload queued for import exactly once"})

    def report_all(failing_cases):
        """one replay per complaint class, most serious first"""
        by_class = {}
        for c in failing_cases:
            for x in c.oracle:
                by_class.setdefault(tag(x), c)
            if c.error:
                by_class.setdefault("crash", c)
        for cls in sorted(by_class, key=lambda t: (t == "other", t == "crash", t)):
            if cls in reported:
                continue
            reported.add(cls)
            report_oracle(by_class[cls].ops, by_class[cls].name, cls)

    # --- property oracle failed on the implementation: concrete failing input
    report_all(oracle_fail)

    # --- facts / obligations / correspondence broke, oracle silent so far: search for a failing request
    broken = None
    if not rep.violations and not rep.known:
        if selftest_ok is False and "upExcl=1" in facts_line:
            broken = {"broken": "self-test of the C19 tie: a model run with wrong facts (no O_EXCL, two imports) was not "
                                "told apart from the implementation on corpus/C19/traversal_attempts.ops"}
        elif not ob.ok:
            broken = {"broken": "proof obligations of Pk.Props.C19 (incl. gen_routes_as_expected over the regenerated "
                                "lean/Pk/Gen/Routes.lean)", "failed": ob.failed[:4], "log": ob.log[-1500:],
                      "routes_changed": routes_diff(routes)}
        elif diffs:
            c = diffs[0]
            shrunk = tie.shrink_diff(c.ops)
            cc = tie.run(Case("shrunk", shrunk))
            d = cc.diff if cc.diff is not None else 0
            broken = {"broken": "correspondence C19 (model pkmodel c19 vs real router/filepath) no longer checks",
                      "facts": facts_line, "ops": shrunk, "ops_readable": readable(shrunk), "first_difference": d,
                      "op": shrunk[d] if d < len(shrunk) else None,
                      "impl": cc.impl[d] if d < len(cc.impl) else None,
                      "model": cc.model[d] if d < len(cc.model) else None}
    if broken:
        found = []
        budget = 150 if not thorough else 1500

        def probe(j):
            c = Case("search:%d" % j, gen_ops(genbin, seed * 7919 + 100000 + j, 500, "escape"))
            _l, c.oracle, c.error = tie.impl(c.ops)
            return c

        with concurrent.futures.ThreadPoolExecutor(max_workers=min(12, os.cpu_count() or 4)) as ex:
            for c in ex.map(probe, range(budget)):
                evaluations += len(c.ops)
                if c.oracle or c.error:
                    found.append(c)
        rep.coverage["search_cases"] = budget
        report_all(found)
        if not rep.violations and not rep.known:
            rep.replay(broken, no_input=True)

    rep.coverage.update({
        "evaluations": evaluations,
        "distinct_nontrivial": len(distinct),
        "rule": "cases generated by splitmix64 from VERIF_SEED: request targets built from route prefixes (exact and "
                "mutated), 1-4 name segments glued by raw/encoded separators (/ %2f \\ %5c // /./ /../ %252f), dot "
                "segments (.. %2e%2e .%2E ...), stored/sentinel names, long names around NAME_MAX, NUL/newline, odd "
                "suffixes; Path/RawPath derived with url.ParseRequestURI (80%) or set literally (20%); one request in "
                "eight sent as raw bytes over TCP through net/http's server (what the handler chain saw is compared "
                "with the derivation); body read failures; concurrent duplicate uploads; 6 spellings of the directory flags; plus filepath "
                "Base/Clean/Join on generated strings. A case counts as distinct+non-trivial when it is a distinct "
                "(handler, extracted parameter, status) triple that reached one of the two handlers, a distinct race "
                "outcome, or a path op whose result differs from its input. Additionally Base/Clean on EVERY string "
                "over {'/','.','a'} up to length 9 (quick) / 12 (thorough) and Join on every pair up to length 3",
        "samples": [sample] if sample else [],
        "cases": len(cases), "op_mix": dict(opmix), "regimes": dict(regimes),
        "model_impl_differences": len(diffs), "oracle_failures": len(oracle_fail),
    })
    return rep.finish()
