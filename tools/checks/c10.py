"""C10 — service-loop property; see tools/mgrfam.py and DESIGN.md §5 C10."""
import mgrfam


def run(tier, seed, replay=None):
    return mgrfam.run("C10", tier, seed, replay)
