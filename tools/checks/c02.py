"""
C02 — search returns exactly the streams the query denotes, ordered and paged.

obligations : theorems of lean/Pk/Props/C02.lean (kernel-checked, axioms audited)
tie         : generated (population spread over 1-4 REAL index files with shadowed versions, query AST,
              sort keys, limit, page, id restriction, tag tables) -> harness c02 (real index.Writer,
              real query.Parse, real index.SearchStreams, built from /repo's working tree) -> one line per
              case -> `pkmodel c02`:
                observable: the REAL result satisfies the Lean spec `validPage` against the match set
                            computed by the plain-semantics oracle,
                strict    : the Lean engine model (`search`: accumulator, scans, shadowing) run on the
                            real scan order of every file returns exactly the real result,
                the engine model's own result satisfies the spec, the model's shadowing = the oracle's.
              accept table: `c02 accept` runs the real search with hand-built TagConditions (masks 1..15, three tag
              tables: nothing undecided / undecided with agreeing / with stale recorded answers) -> `pkmodel c02`
              compares the returned ids with `tagAccept` and `tagAcceptSpec` (theorem filter_tag_accept_sound).
oracle      : Go, inside the harness, written from the property statement (plain evaluation of the AST
              per visible stream, positional comparison with the sorted match list); independent of
              the Lean model.
"""
import collections
import time
import copy
import glob
import json
import os
import re

import pk
from searchtie import CaseTie, greedy_shrink, node_variants

PROP = "C02"


def kind_of(complaint):
    for pat, k in ((r"returned twice", "duplicate"), (r"does not satisfy", "non-match"),
                   (r"shadowed", "shadowed-version"), (r"unknown stream", "unknown-stream"),
                   (r"streams returned", "page-length"), (r"position \d+ holds", "order"),
                   (r"more=", "more-flag"), (r"panic", "panic"), (r"rejected by the parser", "parse"),
                   (r"SearchStreams\(.*failed", "error"), (r"oracle cannot", "oracle-skip"),
                   (r"index build failed", "build")):
        if re.search(pat, complaint):
            return k
    return "other"


def failure_kinds(r):
    """property failures of one result (oracle complaints, Lean spec verdict, hang/crash)"""
    ks = [kind_of(c) for c in r.oracle]
    if r.error:
        ks.append("hang" if r.error == "hang" else "crash")
    mf = r.model_fields
    if mf.get("valid") == "0" and not ks:
        ks.append("lean-spec")
    return [k for k in ks if k != "oracle-skip"]


def tie_breaks(r):
    """model/implementation or Lean-spec/Go-oracle disagreements (no property failure by themselves)"""
    mf = r.model_fields
    out = []
    if r.impl is None or r.model is None or r.model.startswith("skip"):
        return out
    if not mf:
        return ["driver: " + str(r.model)[:200]]
    go_bad = bool([c for c in r.oracle if kind_of(c) != "oracle-skip"])
    if (mf.get("valid") == "0") != go_bad:
        out.append("Lean spec validPage and the Go oracle disagree (valid=%s, complaints=%d)" % (mf.get("valid"), len(r.oracle)))
    if mf.get("valid") == "1":
        if mf.get("same") != "1":
            out.append("engine model result %s more=%s differs from the real result %s more=%s" % (
                mf.get("eng"), mf.get("engmore"), r.impl.get("res"), r.impl.get("more")))
        if mf.get("engvalid") != "1":
            out.append("engine model result violates the spec")
        if mf.get("shadow") != "1":
            out.append("model shadowing differs from the oracle's visible set")
    return out


def candidates(case):
    c = case
    # fewer stream versions
    for i in range(len(c["versions"])):
        m = copy.deepcopy(c)
        del m["versions"][i]
        files = []
        for f in m["files"]:
            g = [x - 1 if x > i else x for x in f if x != i]
            if g:
                files.append(g)
        m["files"] = files
        if files:
            yield m
    # merge all files into one
    if len(c["files"]) > 1:
        for j in range(len(c["files"]) - 1):
            ids_a = {c["versions"][x]["id"] for x in c["files"][j]}
            if not any(c["versions"][x]["id"] in ids_a for x in c["files"][j + 1]):
                m = copy.deepcopy(c)
                m["files"][j] = m["files"][j] + m["files"][j + 1]
                del m["files"][j + 1]
                yield m
    for i in range(len(c.get("tags", []))):
        m = copy.deepcopy(c)
        del m["tags"][i]
        yield m
    for v in node_variants(c["query"]):
        m = copy.deepcopy(c)
        m["query"] = v
        yield m
    for i, t in enumerate(c.get("tags", [])):
        for v in node_variants(t["def"]):
            m = copy.deepcopy(c)
            m["tags"][i]["def"] = v
            yield m
        for f in ("m", "u"):
            for j in range(len(t.get(f, []))):
                m = copy.deepcopy(c)
                del m["tags"][i][f][j]
                yield m
    for i in range(len(c.get("sort", []))):
        m = copy.deepcopy(c)
        del m["sort"][i]
        yield m
    if c.get("hasids"):
        m = copy.deepcopy(c)
        m["hasids"], m["ids"] = False, []
        yield m
    if c.get("page"):
        m = copy.deepcopy(c)
        m["page"] = 0
        yield m
    if c.get("limit", 0) > 1:
        m = copy.deepcopy(c)
        m["limit"] = c["limit"] - 1 if c["limit"] < 10 else 3
        yield m
    for i, v in enumerate(c["versions"]):
        if v.get("data"):
            m = copy.deepcopy(c)
            m["versions"][i]["data"] = v["data"][:-1]
            yield m


def classify(case, kinds, known, tie):
    """attribute a SHRUNK failing case to a known finding"""
    for k in known:
        if k.get("status") != "known":
            continue
        m = k.get("match", {})
        if m.get("classifier") == "counterfactual-tag-age":
            aged = [t for t in case.get("tags", []) if t.get("age") and re.search(r'"key": "[fl]?time"', json.dumps(t["def"]))]
            if not aged:
                continue
            cf = copy.deepcopy(case)
            for t in cf["tags"]:
                t.pop("age", None)
            rr = tie.run_one(cf)
            if not failure_kinds(rr) and not tie_breaks(rr):
                return k
    return None


def regimes_of(r, reg):
    c, o = r.case, r.impl or {}
    if len(c["files"]) > 1:
        reg["several_files"] += 1
    ids = [v["id"] for v in c["versions"]]
    if len(ids) != len(set(ids)):
        reg["shadowed_versions"] += 1
    if o.get("sorted"):
        reg["sorted_scan_with_early_exit"] += 1
    if o.get("more"):
        reg["more_flag_set"] += 1
    if o.get("skip"):
        reg["page_gt_0"] += 1
    if c.get("hasids"):
        reg["id_restriction"] += 1
    if c.get("limit") == 0:
        reg["unlimited"] += 1
    if any(t.get("u") for t in c.get("tags", [])) and '"tag"' in json.dumps(c["query"]):
        reg["query_with_uncertain_tags"] += 1
    refs = o.get("filerefs") or []
    if len(set(refs)) > 1:
        reg["files_with_different_reference_times"] += 1
        if max(refs) - min(refs) >= 3600:
            reg["reference_times_an_hour_apart"] += 1
    if o.get("subquery"):
        reg["subquery"] += 1
        if len(set(refs)) > 1:
            reg["subquery_and_different_reference_times"] += 1
        if o.get("subcross"):
            reg["subquery_match_witnessed_only_from_another_file"] += 1
        q0 = json.dumps(c["query"])
        if re.search(r'"(lov|hiv)": "sub:[fl]time"', q0):
            reg["subquery_time_relation"] += 1
            if o.get("subcross") and len(set(refs)) > 1:
                reg["subquery_time_relation_across_files_with_different_reference_times"] += 1
        if re.search(r'"(lov|hiv)": "sub:(id|cport|sport|cbytes|sbytes)"', q0):
            reg["subquery_number_relation"] += 1
        if '"v": "sub:' in q0:
            reg["subquery_host_relation"] += 1
        if "@sub:protocol@" in q0:
            reg["subquery_protocol_relation"] += 1
        if '"sq": "sub"' in q0:
            reg["subquery_with_own_filters"] += 1
        if o.get("matches"):
            reg["subquery_nonempty_result"] += 1
    if len(c.get("sort", [])) >= 2:
        reg["secondary_sort_keys"] += 1
    if not c.get("sort"):
        reg["default_sort"] += 1
    ms = o.get("matches") or []
    keys = o.get("keys") or []
    if keys and len(ms) >= 2:
        f = {"id": "id", "ftime": "ft", "ltime": "lt", "cbytes": "cb", "sbytes": "sb", "chost": "ch", "shost": "sh",
             "cport": "cp", "sport": "sp"}[keys[0]["k"]]
        vals = [json.dumps(m[f]) for m in ms]
        if len(set(vals)) < len(vals):
            reg["primary_key_ties_among_matches"] += 1
    q = json.dumps(c["query"])
    if '"lov"' in q or '"hiv"' in q:
        reg["bound_relative_to_other_attribute"] += 1
    for key in ("id", "cport", "sport", "port", "cbytes", "sbytes", "bytes", "chost", "shost", "host", "protocol",
                "ftime", "ltime", "time", "tag", "cdata", "sdata", "data"):
        if '"key": "%s"' % key in q:
            reg["term_" + key] += 1
    for op in ("and", "or", "not"):
        if '"op": "%s"' % op in q:
            reg["op_" + op] += 1


def run(tier, seed, replay=None):
    rep = pk.Report(PROP, tier, seed)
    for old in glob.glob(os.path.join(pk.VERIF, "replays", PROP + "-*.json")):
        os.remove(old)
    thorough = tier == "thorough"
    phase = {}
    t0 = time.time()
    ob = pk.check_obligations(PROP, leanchecker=thorough)
    phase['obligations'] = round(time.time() - t0, 1)
    rep.coverage.update(pk.proof_coverage(
        ob, "cd /verif/lean && lake build Pk.Props.C02 && lake env lean <#print axioms of every theorem>"
        + (" && lake env leanchecker Pk.Props.C02" if thorough else ""),
        ["Lean compiler/runtime for the executable model (pkmodel c02)",
         "correspondence harness /verif/harness/cmd/c02 + harness/lib/search (plain query semantics) + tools/searchtie.py",
         "rsc.io/binaryregexp (used by the oracle for data terms)"]))
    rep.assumptions = [
        "query filters are abstracted in the Lean model as a predicate per stored stream version; lookups are assumed "
        "to be supersets of the matches (checked only differentially)",
        "limit = 0 is only used with page 0 (callers compute skip = page*limit)",
        "sub-queries: only ONE named sub-query with number/time/protocol/host relations to the main stream (no data variables, no tags "
        "inside the sub-query, no grouping); queries the engine rejects as not (fully) supported are an outcome `rejected`, not compared",
        "grouping, relative times and converter-specific data filters are not generated",
        "per index file at most one host group per address family (no more than 6 distinct hosts)"]

    binpath, blog = pk.go_build("c02")
    if binpath is None:
        rep.replay({"broken": "correspondence C02: harness does not build against /repo's working tree",
                    "log": blog[-3000:]}, no_input=True)
        rep.coverage.update({"evaluations": 0, "distinct_nontrivial": 0})
        return rep.finish()
    tie = CaseTie(binpath, "c02")

    # accept-table stage: the modelled switch `Pk.Search.tagAccept` (theorem filter_tag_accept_sound) against the
    # real filter, driven through index.SearchStreams with hand-built TagConditions (3 tables x masks 1..15)
    acc_bad, acc_n = [], 0
    rc, o, e = pk.sh([binpath, "accept"], timeout=120)
    acc_lines = [l for l in o.splitlines() if l.strip()]
    if rc != 0 or len(acc_lines) != 45:
        acc_bad.append({"line": None, "model": "harness `c02 accept` rc=%s, %d lines: %s" % (rc, len(acc_lines), e[-300:])})
    else:
        rc2, mo, me = pk.run_model("c02", "\n".join(acc_lines) + "\n", timeout=120)
        mls = mo.splitlines()
        for i, l in enumerate(acc_lines):
            acc_n += 1
            if i >= len(mls) or not mls[i].endswith("same=1"):
                acc_bad.append({"line": json.loads(l), "model": mls[i] if i < len(mls) else "missing (%s)" % me[-200:]})

    if replay:
        data = json.load(open(replay))
        if "accept_table" in data:
            for b in acc_bad:
                print("accept table:", json.dumps(b))
            return 1 if acc_bad else 0
        r = tie.run_one(data["case"] if "case" in data else data)
        print("query      :", (r.impl or {}).get("query"))
        print("real result:", (r.impl or {}).get("res"), "more=", (r.impl or {}).get("more"), "err=", (r.impl or {}).get("err"), r.error)
        print("oracle     :", r.oracle)
        print("lean       :", r.model)
        bad = failure_kinds(r) or tie_breaks(r)
        return 1 if bad else 0

    cases = []
    names = []
    for p in sorted(glob.glob(os.path.join(pk.VERIF, "corpus", PROP, "*.json"))):
        d = json.load(open(p))
        cases.append(d["case"] if "case" in d else d)
        names.append("corpus:" + os.path.basename(p))
    ncorpus = len(cases)
    n = 8000 if not thorough else 150000
    gen = tie.gen(seed, n - n // 6) + tie.gen(seed * 7919 + 13, n // 6, ["-wide"])
    cases += gen
    names += ["seed:%d#%d" % (seed, i) for i in range(len(gen))]

    t0 = time.time()
    results = tie.run(cases)
    phase['run_cases'] = round(time.time() - t0, 1)
    t0 = time.time()
    known = pk.known_findings(PROP)
    reg = collections.Counter()
    distinct = set()
    fails, breaks = [], []
    skipped = collections.Counter()
    for name, r in zip(names, results):
        if r.impl is not None and r.impl.get("err"):
            skipped[r.impl["err"]] += 1
        ks = failure_kinds(r)
        if ks:
            fails.append((name, r, ks))
            continue
        tb = tie_breaks(r)
        if tb:
            breaks.append((name, r, tb))
            continue
        if r.impl is None or r.impl.get("err"):
            continue
        regimes_of(r, reg)
        o = r.impl
        nvis = len({v["id"] for v in r.case["versions"]})
        if o.get("res") and (len(o.get("matches") or []) < nvis or o.get("more") or o.get("skip")):
            distinct.add(pk.sha(json.dumps([o.get("query"), o.get("limit"), o.get("skip"), o.get("files"), r.case.get("ids")], sort_keys=True)))

    def subquery_referred(case):
        """a shrink candidate must stay inside the generated language: filters of the sub-query only together with a
        relating term at the top-level AND whose every alternative refers to it (the engine does not evaluate a
        sub-query nobody refers to; what such a query should mean is not defined)"""
        q = case.get("query") or {}
        txt = json.dumps(q)
        if '"sq"' not in txt:
            return True
        tops = q.get("k", []) if q.get("op") == "and" else [q]
        for t in tops:
            if t.get("op") == "not" and len(t.get("k", [])) == 1:
                t = t["k"][0]
            if t.get("op") != "term" or t.get("sq"):
                continue
            if t.get("p") is not None:
                if t["p"] and all(str(x).startswith("@sub:") for x in t["p"]):
                    return True
                continue
            if "sub:" in json.dumps(t):
                return True
        return False

    def still_fails(kinds):
        def f(cand):
            if not subquery_referred(cand):
                return False
            rr = tie.run_one(cand)
            return bool(set(failure_kinds(rr)) & set(kinds))
        return f

    # failures that a counterfactual run attributes to a known finding are set aside (one of them is
    # shrunk and must still match in its shrunk form); every other failure is shrunk and reported
    reported = set()
    attributed, fresh = [], []
    for name, r, ks in fails:
        (attributed if classify(r.case, ks, known, tie) else fresh).append((name, r, ks))
    for name, r, ks in attributed[:1] + fresh[: (6 if not thorough else 12)]:
        shrunk = greedy_shrink(r.case, candidates, still_fails(ks), budget=200)
        rr = tie.run_one(shrunk)
        ks2 = failure_kinds(rr) or ks
        k = classify(shrunk, ks2, known, tie)
        if k:
            rep.known_finding(k["text"])
            continue
        key = pk.sha(json.dumps(shrunk, sort_keys=True))
        if key in reported:
            continue
        reported.add(key)
        rep.replay({"kind": "oracle", "source": name, "failure": ks2, "case": shrunk,
                    "query": (rr.impl or {}).get("query"), "limit": shrunk.get("limit"), "page": shrunk.get("page"),
                    "actual": {"result": (rr.impl or {}).get("res"), "more": (rr.impl or {}).get("more"), "error": rr.error},
                    "expected": "a valid page of the match set %s under sort %s" % (
                        [m["id"] for m in ((rr.impl or {}).get("matches") or [])], (rr.impl or {}).get("keys")),
                    "complaints": rr.oracle[:6], "lean": rr.model,
                    "statement": "real index.SearchStreams result is not a valid page of the streams the query denotes"})
    if breaks and not rep.violations:
        name, r, tb = breaks[0]

        def still_breaks(cand):
            rr = tie.run_one(cand)
            return bool(tie_breaks(rr)) and not failure_kinds(rr)
        shrunk = greedy_shrink(r.case, candidates, still_breaks, budget=150)
        rr = tie.run_one(shrunk)
        # the property oracle ran on every generated case of this run (search); nothing failed
        rep.replay({"broken": "correspondence C02 (engine model `Pk.Search.search` vs real index.SearchStreams / Lean spec vs Go oracle) no longer checks",
                    "source": name, "case": shrunk, "query": (rr.impl or {}).get("query"),
                    "first_difference": tie_breaks(rr) or tb, "impl": {"res": (rr.impl or {}).get("res"), "more": (rr.impl or {}).get("more")},
                    "model": rr.model, "searched": len(cases)}, no_input=True)
    if acc_bad and not rep.violations:
        rep.replay({"broken": "correspondence C02 accept table (`Pk.Search.tagAccept` / `tagAcceptSpec` vs the tag filter of the real "
                              "search for hand-built accept masks) no longer checks",
                    "accept_table": acc_bad[:8], "bits": "1 matching, 2 failing, 4 undecided+matching, 8 undecided+failing",
                    "searched": len(cases)}, no_input=True)
    if not ob.ok and not rep.violations:
        rep.replay({"broken": "proof obligations of Pk.Props.C02", "failed": ob.failed[:20], "log": ob.log[-2000:],
                    "searched": len(cases)}, no_input=True)

    sample = None
    for r in results[ncorpus:]:
        if r.impl and r.impl.get("res") and not r.impl.get("err"):
            sample = {"query": r.impl["query"], "limit": r.impl["limit"], "skip": r.impl["skip"],
                      "files": [[v["id"] for v in f] for f in r.impl["files"]], "matches": [m["id"] for m in r.impl["matches"]],
                      "real_result": r.impl["res"], "more": r.impl["more"], "lean": r.model}
            break
    phase['classify_shrink'] = round(time.time() - t0, 1)
    rep.coverage.update({
        "phase_s": phase,
        "evaluations": len(cases),
        "distinct_nontrivial": len(distinct),
        "rule": "cases generated by splitmix64 from VERIF_SEED: 1-8 (wide: 1-14) stream ids with attributes from small "
                "domains (ports/times/bytes/hosts tie), spread over 1-4 real index files in random insertion order with "
                "shadowed older versions; query ASTs of depth <= 3 over id/port/bytes/host/protocol/time/tag/data terms with "
                "lists, ranges, AND/OR/NOT (normal form bounded to 24 conjuncts); 0-3 sort keys; limit in {0,1,2,3,100}; "
                "page 0-2; id restriction; tag tables with uncertain bits and definitions; in 1/4 of the cases a sub-query: filters "
                "`@sub:key:value` of one named sub-query plus main terms relating to its stream (`ftime:\"@sub:ltime@+7s:\"`, `cport:@sub:sport@`, "
                "`protocol:@sub:protocol@`, `chost:@sub:shost@/24`, negated / ranges / offsets) with the plain meaning 'some visible stream "
                "matching the sub-query makes the term hold'; in 1/3 of the multi-file cases whole files are shifted by 7 s or 1 h so that "
                "index files have different reference times. The Lean engine model covers sub-query cases too (the filter predicate per "
                "stored version is computed by the oracle). A case counts as non-trivial "
                "when the result is non-empty and the query is selective or the page cuts the match list; distinct by "
                "(query text, limit, skip, file contents in scan order, id restriction)",
        "samples": [sample] if sample else [],
        "cases": len(cases), "corpus_cases": ncorpus, "regimes": dict(reg), "skipped": dict(skipped),
        "accept_table_entries": acc_n, "accept_table_differences": len(acc_bad),
        "model_impl_differences": len(breaks), "oracle_failures": len(fails),
        "oracle_failures_attributed_to_known_findings": len(attributed),
    })
    return rep.finish()
