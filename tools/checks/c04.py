"""
C04 — payload filters agree with plain regular-expression matching.

obligations : theorems of lean/Pk/Props/C04.lean (kernel-checked, axioms audited)
tie         : generated (regular expressions from a small AST, payloads over a 4-letter alphabet split into
              chunks in both directions, 0-3 converter outputs, data conditions alone / negated / AND-ed /
              OR-ed / THEN-chained up to 4 / sharing expressions) -> harness c04 (real index.Writer, fake
              ConverterAccess, real query.Parse, real index.SearchStreams, real progressVariant.find through an
              injected accessor) -> one line per case -> `pkmodel c04`:
                strict    : the Lean `find` (shortcuts as a function of the facts and a matcher table) returns
                            exactly what the real find returned on every (expression, source, offset);
                            the Lean filter decision = the real selection of the stream
                observable: decision of the Lean model with the PLAIN scan = the Go oracle's verdict
oracle      : Go, inside the harness: binaryregexp FindSubmatchIndex on the remaining bytes in conversation
              order, per data source, evaluated on the surface AST; and plain FindSubmatchIndex vs the real find.
"""
import collections
import time
import copy
import glob
import json
import os
import re

import pk
from searchtie import CaseTie, greedy_shrink, node_variants

PROP = "C04"


def kind_of(c):
    for pat, k in ((r"^find\(", "find"), (r"stream selected=", "select"), (r"panic", "panic"),
                   (r"rejected by the parser", "parse"), (r"SearchStreams\(.*failed", "error"),
                   (r"oracle cannot", "oracle-skip"), (r"index build failed", "build")):
        if re.search(pat, c):
            return k
    return "other"


def failure_kinds(r):
    ks = [kind_of(c) for c in r.oracle]
    if r.error:
        ks.append("hang" if r.error == "hang" else "crash")
    return sorted({k for k in ks if k != "oracle-skip"})


def tie_breaks(r):
    mf = r.model_fields
    out = []
    if r.impl is None or r.model is None or r.model.startswith("skip") or r.impl.get("vars"):
        return out
    if not mf:
        return ["driver: " + str(r.model)[:200]]
    a, t = mf.get("find", "0/0").split("/")
    if a != t:
        i = int(mf.get("firstbad", "-1"))
        f = r.impl["finds"][i] if 0 <= i < len(r.impl.get("finds", [])) else None
        out.append("model find differs from the real find on call %s" % json.dumps(f))
    if mf.get("same") != "1":
        out.append("model filter decision sel=%s differs from the real selection %s" % (mf.get("sel"), r.impl.get("real")))
    go_find = len([c for c in r.oracle if kind_of(c) == "find"])
    if int(mf.get("plaindiff", "0")) != go_find:
        out.append("Lean find-vs-plain differences (%s) and Go oracle find complaints (%d) disagree" % (mf.get("plaindiff"), go_find))
    if not [c for c in r.oracle if kind_of(c) == "find"] and mf.get("specsame") == "1" and mf.get("sel") != mf.get("plainsel"):
        out.append("model decisions with shortcut scan and plain scan differ although every find agrees with the plain scan")
    return out


def hb(x):
    """payload, table keys and literal prefix / suffix come from the harness as hex strings: bytes, not characters"""
    return bytes.fromhex(x)


def plain_of(o, f):
    """plain scan result for a find record, from the matcher table"""
    rx, s = o["regexes"][f["re"]], o["sources"][f["src"]]
    buf = hb(s["c"] if f["dir"] == 0 else s["s"])
    rest = buf[f["off"][f["dir"]]:]
    for e in rx["t"]:
        if hb(e["b"]) == rest:
            return None if e["e"] < 0 else (e["s"], e["e"], rest)
    return None


def unsound_fact(o, f):
    """does the plain match of this find call violate the facts the real code derived for the expression"""
    rx = o["regexes"][f["re"]]
    p = plain_of(o, f)
    if p is None:
        return None
    s, e, rest = p
    m = rest[s:e]
    if len(m) < rx["min"]:
        return "minimum length %d but %r matches %r" % (rx["min"], rx["expr"], m)
    if len(m) > rx["max"]:
        return "maximum length %d but %r matches %r" % (rx["max"], rx["expr"], m)
    if not m.startswith(hb(rx["p"])):
        return "prefix %r but %r matches %r" % (hb(rx["p"]), rx["expr"], m)
    if not m.endswith(hb(rx["x"])):
        return "suffix %r but %r matches %r" % (hb(rx["x"]), rx["expr"], m)
    return None


def find_diffs(o):
    """find records on which the real (shortcut) find differs from the plain scan"""
    out = []
    for f in o.get("finds", []):
        p = plain_of(o, f)
        d = f["dir"]
        real = None if not f["res"] else (f["noff"][d] + f["res"][0], f["noff"][d] + f["res"][1])
        plain = None if p is None else (f["off"][d] + p[0], f["off"][d] + p[1])
        if real != plain:
            out.append(f)
    return out


def single_source_variants(case, o):
    """the same query on every evaluated data source alone (as the raw payload of a stream without converters)"""
    vs = []
    for s in o.get("sources", []):
        chunks, pc, ps = [], 0, 0
        try:
            for a, b in s["bl"][1:]:
                if a > pc:
                    chunks.append({"d": 0, "b": hb(s["c"])[pc:a].decode("utf-8")})
                if b > ps:
                    chunks.append({"d": 1, "b": hb(s["s"])[ps:b].decode("utf-8")})
                pc, ps = a, b
        except UnicodeDecodeError:
            continue    # a block boundary inside a character: this source cannot be written as a case of its own
        # the writer merges bursts of one direction
        merged = []
        for ch in chunks:
            if merged and merged[-1]["d"] == ch["d"]:
                merged[-1]["b"] += ch["b"]
            else:
                merged.append(dict(ch))
        m = copy.deepcopy(case)
        m["stream"]["data"] = merged
        m["stream"].pop("conv", None)
        m["convs"] = []

        def noconv(n):
            if n.get("op") == "term":
                n.pop("cv", None)
            for k in n.get("k", []):
                noconv(k)
        noconv(m["query"])
        vs.append(m)
    return vs


_CF_CACHE = {}


def prefetch_counterfactuals(fails, tie):
    """run the single-source variants of all failing cases in one parallel batch"""
    vs = []
    for _name, r, ks in fails:
        o = r.impl or {}
        if ks == ["select"] and len(o.get("sources", [])) >= 2 and not find_diffs(o):
            vs.extend(single_source_variants(r.case, o))
    vs = list({json.dumps(v, sort_keys=True): v for v in vs}.values())
    for v, rr in zip(vs, tie.run(vs) if vs else []):
        _CF_CACHE[json.dumps(v, sort_keys=True)] = (not failure_kinds(rr) and not tie_breaks(rr))


def classify(r, known, tie):
    """attribute the failures of one (shrunk) result to known findings; returns entry or None"""
    o = r.impl or {}
    kinds = failure_kinds(r)
    if not kinds or set(kinds) - {"find", "select"}:
        return None
    mf = r.model_fields
    for k in known:
        if k.get("status") != "known":
            continue
        cl = k.get("match", {}).get("classifier")
        diffs = find_diffs(o)
        if cl == "unsound-regex-fact":
            # every shortcut/plain difference is explained by a fact of regexAnalysis that the plain match violates,
            # and the selection differs only as far as these differences explain it (model with real finds = real)
            if diffs and all(unsound_fact(o, f) for f in diffs) and mf.get("same") == "1" and mf.get("specsame") == "1":
                return k
        if cl == "empty-width-assertion":
            if diffs and all(o["regexes"][f["re"]].get("assert") for f in diffs) and mf.get("same") == "1" and mf.get("specsame") == "1":
                return k
        if cl == "negated-chain-multi-source":
            q = json.dumps(r.case.get("query"))
            neg_chain = re.search(r'"op": "not", "k": \[\{"op": "then"', q) or re.search(r'"k": \[\{"k": \[.*\], "op": "then"\}\], "op": "not"', q)
            if (not diffs and kinds == ["select"] and len(o.get("sources", [])) >= 2 and neg_chain
                    and mf.get("same") == "1" and mf.get("specsame") == "0"):
                vs = single_source_variants(r.case, o)
                keys = [json.dumps(v, sort_keys=True) for v in vs]
                miss = [v for v, kk in zip(vs, keys) if kk not in _CF_CACHE]
                for v, rr in zip(miss, tie.run(miss) if miss else []):
                    _CF_CACHE[json.dumps(v, sort_keys=True)] = (not failure_kinds(rr) and not tie_breaks(rr))
                if all(_CF_CACHE[kk] for kk in keys):
                    return k
    return None


def candidates(case):
    c = case
    for v in node_variants(c["query"]):
        m = copy.deepcopy(c)
        m["query"] = v
        yield m
    st = c["stream"]
    for name in list((st.get("conv") or {}).keys()):
        m = copy.deepcopy(c)
        del m["stream"]["conv"][name]
        yield m
    if c.get("convs"):
        used = set((st.get("conv") or {}).keys())
        unused = [x for x in c["convs"] if x not in used]
        if unused and '"cv": "%s"' % unused[-1] not in json.dumps(c["query"]):
            m = copy.deepcopy(c)
            m["convs"] = [x for x in c["convs"] if x != unused[-1]]
            yield m

    def chunk_variants(chunks):
        for i in range(len(chunks)):
            yield chunks[:i] + chunks[i + 1:]
        for i, ch in enumerate(chunks):
            if len(ch["b"]) > 1:
                yield chunks[:i] + [{"d": ch["d"], "b": ch["b"][1:]}] + chunks[i + 1:]
                yield chunks[:i] + [{"d": ch["d"], "b": ch["b"][:-1]}] + chunks[i + 1:]
    for v in chunk_variants(st.get("data") or []):
        m = copy.deepcopy(c)
        # keep raw bursts alternating (the writer merges them)
        merged = []
        for ch in v:
            if merged and merged[-1]["d"] == ch["d"]:
                merged[-1]["b"] += ch["b"]
            else:
                merged.append(dict(ch))
        m["stream"]["data"] = merged
        yield m
    for name, chunks in (st.get("conv") or {}).items():
        for v in chunk_variants(chunks):
            m = copy.deepcopy(c)
            m["stream"]["conv"][name] = v
            yield m


def regimes_of(r, reg):
    c, o = r.case, r.impl or {}
    q = json.dumps(c["query"])
    if '"op": "then"' in q:
        reg["then_chain"] += 1
    if '"op": "not"' in q:
        reg["negation"] += 1
    if '"op": "and"' in q:
        reg["and"] += 1
    if '"op": "or"' in q:
        reg["or"] += 1
    if o.get("vars"):
        reg["variables_bound_by_captures"] += 1
    if '"key": "data"' in q:
        reg["either_direction_term"] += 1
    reg["sources_%d" % len(o.get("sources", []))] += 1
    exprs = [x["expr"] for x in o.get("regexes", [])]
    occ = sum(len(cd["els"]) for p in o.get("parts", []) for cd in p)
    if exprs and occ > len(exprs):
        reg["shared_expression"] += 1
    for x in o.get("regexes", []):
        if x["p"]:
            reg["fact_literal_prefix"] += 1
        if x["x"]:
            reg["fact_constant_suffix"] += 1
        if x["min"] == x["max"] and not x["p"] and x["x"]:
            reg["fact_fixed_length_window"] += 1
        if x["min"] == x["max"]:
            reg["fact_fixed_length"] += 1
        if x.get("assert"):
            reg["expr_with_assertion"] += 1
        if re.match(r"\(\?[ims]+\)", x["expr"]):
            reg["expr_flags"] += 1
        if "|" in x["expr"]:
            reg["expr_alternation"] += 1
        if re.search(r"[*+?}]", x["expr"]):
            reg["expr_repetition"] += 1
        if re.search(r"\((?!\?)", x["expr"]):
            reg["expr_capture"] += 1
    if o.get("real"):
        reg["stream_selected"] += 1
    if any(f["res"] and f["noff"] != f["off"] for f in o.get("finds", [])):
        reg["find_skipped_prefix_or_window"] += 1
    if any(len(s["bl"]) > 2 for s in o.get("sources", [])):
        reg["multi_chunk_source"] += 1


def run(tier, seed, replay=None):
    rep = pk.Report(PROP, tier, seed)
    for old in glob.glob(os.path.join(pk.VERIF, "replays", PROP + "-*.json")):
        os.remove(old)
    thorough = tier == "thorough"
    phase = {}
    t0 = time.time()
    ob = pk.check_obligations(PROP, leanchecker=thorough)
    phase['obligations'] = round(time.time() - t0, 1)
    rep.coverage.update(pk.proof_coverage(
        ob, "cd /verif/lean && lake build Pk.Props.C04 && lake env lean <#print axioms of every theorem>"
        + (" && lake env leanchecker Pk.Props.C04" if thorough else ""),
        ["Lean compiler/runtime for the executable model (pkmodel c04)",
         "correspondence harness /verif/harness/cmd/c04 + harness/lib/search (plain chain semantics) + tools/searchtie.py",
         "rsc.io/binaryregexp: the regex engine is third-party; the Lean model receives it as a table (matcher parameter)"]))
    rep.assumptions = [
        "the regular expression engine is an abstract matcher in the theorems; facts (prefix, suffix, lengths) are hypotheses "
        "(their soundness is property C18)",
        "sub-query variants, variables bound by captures and precondition states are not modelled nor generated",
        "all data terms of one query use the same converter selection (the engine rejects mixtures)",
        "converter outputs are served by a fake ConverterAccess that builds chunk sizes like converters.cacheFile.DataForSearch"]

    binpath, blog = pk.go_build("c04")
    if binpath is None:
        rep.replay({"broken": "correspondence C04: harness does not build against /repo's working tree",
                    "log": blog[-3000:]}, no_input=True)
        rep.coverage.update({"evaluations": 0, "distinct_nontrivial": 0})
        return rep.finish()
    tie = CaseTie(binpath, "c04", chunk=100)

    if replay:
        data = json.load(open(replay))
        r = tie.run_one(data["case"] if "case" in data else data)
        print("query   :", (r.impl or {}).get("query"))
        print("selected:", (r.impl or {}).get("real"), " plain scan:", (r.impl or {}).get("oracle"), r.error)
        print("oracle  :", r.oracle)
        print("lean    :", r.model)
        return 1 if (failure_kinds(r) or tie_breaks(r)) else 0

    cases, names = [], []
    for p in sorted(glob.glob(os.path.join(pk.VERIF, "corpus", PROP, "*.json"))):
        d = json.load(open(p))
        cases.append(d["case"] if "case" in d else d)
        names.append("corpus:" + os.path.basename(p))
    ncorpus = len(cases)
    n = 40000 if not thorough else 600000
    gen = tie.gen(seed, n - n // 5) + tie.gen(seed * 7919 + 13, n // 5, ["-wide"])
    cases += gen
    names += ["seed:%d#%d" % (seed, i) for i in range(len(gen))]

    t0 = time.time()
    results = tie.run(cases)
    phase['run_cases'] = round(time.time() - t0, 1)
    t0 = time.time()
    known = pk.known_findings(PROP)
    reg = collections.Counter()
    distinct = set()
    fails, breaks = [], []
    skipped = collections.Counter()
    nfinds = 0
    for name, r in zip(names, results):
        if r.impl is not None and r.impl.get("err"):
            skipped[r.impl["err"]] += 1
        ks = failure_kinds(r)
        if ks:
            fails.append((name, r, ks))
            continue
        tb = tie_breaks(r)
        if tb:
            breaks.append((name, r, tb))
            continue
        if r.impl is None or r.impl.get("err"):
            continue
        regimes_of(r, reg)
        o = r.impl
        nfinds += len(o.get("finds", []))
        if any(f["res"] for f in o.get("finds", [])) and (o.get("real") or any(len(cd["els"]) > 1 or cd["inv"] for p in o.get("parts", []) for cd in p)):
            distinct.add(pk.sha(json.dumps([o.get("query"), o.get("sources")], sort_keys=True)))

    def still_fails(kinds):
        def f(cand):
            rr = tie.run_one(cand)
            return bool(set(failure_kinds(rr)) & set(kinds))
        return f

    attributed, fresh = [], []
    per_finding = collections.Counter()
    prefetch_counterfactuals(fails, tie)
    for name, r, ks in fails:
        k = classify(r, known, tie)
        if k:
            attributed.append((name, r, ks, k["id"]))
            per_finding[k["id"]] += 1
        else:
            fresh.append((name, r, ks))
    reported = set()
    first_of = {}
    for name, r, ks, fid in attributed:
        first_of.setdefault(fid, (name, r, ks))
    for name, r, ks in list(first_of.values()) + fresh[: (6 if not thorough else 12)]:
        shrunk = greedy_shrink(r.case, candidates, still_fails(ks), budget=200, seconds=60)
        rr = tie.run_one(shrunk)
        k = classify(rr, known, tie)
        if k:
            rep.known_finding(k["text"])
            continue
        key = pk.sha(json.dumps(shrunk, sort_keys=True))
        if key in reported:
            continue
        reported.add(key)
        rep.replay({"kind": "oracle", "source": name, "failure": failure_kinds(rr) or ks, "case": shrunk,
                    "query": (rr.impl or {}).get("query"),
                    "actual": {"selected": (rr.impl or {}).get("real"), "error": rr.error},
                    "expected": {"selected": (rr.impl or {}).get("oracle")},
                    "complaints": rr.oracle[:6], "lean": rr.model,
                    "statement": "the data filter selects the stream iff a plain left-to-right regular expression scan says so"})
    if breaks and not rep.violations:
        name, r, tb = breaks[0]

        def still_breaks(cand):
            rr = tie.run_one(cand)
            return bool(tie_breaks(rr)) and not failure_kinds(rr)
        shrunk = greedy_shrink(r.case, candidates, still_breaks, budget=150, seconds=60)
        rr = tie.run_one(shrunk)
        rep.replay({"broken": "correspondence C04 (Lean `find`/filter model vs real progressVariant.find / index.SearchStreams) no longer checks",
                    "source": name, "case": shrunk, "query": (rr.impl or {}).get("query"),
                    "first_difference": tie_breaks(rr) or tb, "impl": {"selected": (rr.impl or {}).get("real")},
                    "model": rr.model, "searched": len(cases)}, no_input=True)
    if not ob.ok and not rep.violations:
        rep.replay({"broken": "proof obligations of Pk.Props.C04", "failed": ob.failed[:20], "log": ob.log[-2000:],
                    "searched": len(cases)}, no_input=True)

    sample = None
    for r in results[ncorpus:]:
        o = r.impl
        if o and o.get("real") and not o.get("err") and len(o.get("sources", [])) > 1:
            sample = {"query": o["query"], "sources": o["sources"], "facts": [{k: x[k] for k in ("expr", "p", "x", "min", "max")} for x in o["regexes"]],
                      "parts": o["parts"], "selected": o["real"], "plain_scan": o["oracle"], "find_calls": len(o["finds"]), "lean": r.model}
            break
    phase['classify_shrink'] = round(time.time() - t0, 1)
    rep.coverage.update({
        "phase_s": phase,
        "evaluations": len(cases),
        "distinct_nontrivial": len(distinct),
        "rule": "cases generated by splitmix64 from VERIF_SEED: one stream with 0-4 payload bursts of 1-3 (wide: 1-4) bytes over "
                "{a,b,c,d} (+ occasional ' ', '.', 'A', 'x') in both directions, 0-3 converters with cached outputs (other bytes, "
                "or the same bytes re-chunked at random positions), expressions from a regex AST (literals, classes, '.', "
                "concatenation, alternation, greedy/lazy/counted repetition, captures, literal prefixes/suffixes, in 1/5 of "
                "the cases ^ $ \\b \\B), conditions alone / negated / AND / OR / THEN chains of 2-4 elements, expressions reused "
                "inside a query. Every (expression, source, direction, offset) is additionally run through the real find. A case "
                "counts as non-trivial when some find call matches and (the stream is selected or a chain / negated condition "
                "is involved); distinct by (query text, data sources)",
        "samples": [sample] if sample else [],
        "cases": len(cases), "corpus_cases": ncorpus, "find_calls_compared": nfinds, "regimes": dict(reg), "skipped": dict(skipped),
        "model_impl_differences": len(breaks), "oracle_failures": len(fails),
        "oracle_failures_attributed_to_known_findings": dict(per_finding),
    })
    return rep.finish()
