"""
C03 — query normalisation never changes what a query means.

obligations : theorems of lean/Pk/Props/C03.lean (kernel-checked, axioms audited)
tie         : generated expression ASTs are rendered to query text and parsed by the REAL
              query.Parse (harness c03, built from /repo's working tree); the resulting
              ConditionsSet is dumped structurally and compared (strict stream, conjunct order of
              the set ignored) with `Clean (translate e)` of the Lean model (pkmodel c03)
oracle      : independent of the model, inside the harness: meaning of the surface expression vs
              meaning of the real normal form on synthetic stream environments aimed at the
              constants of the expression; "impossible" must be unsatisfiable
"""
import collections
import concurrent.futures
import glob
import json
import os

import pk
import qtie

PROP = "C03"
STATEMENT = ("for every stream environment the normalised conditions returned by query.Parse accept the stream "
             "iff the expression as written accepts it; Parse reports 'matches nothing' only for unsatisfiable queries")


def load_corpus(prop):
    cases = []
    for p in sorted(glob.glob(os.path.join(pk.VERIF, "corpus", prop, "*.case"))):
        for l in open(p, encoding="utf8").read().split("\n"):
            l = l.strip()
            if l and not l.startswith("#"):
                cases.append(("corpus:" + os.path.basename(p), l))
    return cases


class Result:
    def __init__(self):
        self.names, self.cases, self.refs, self.impl, self.model = [], [], [], [], []
        self.complaints = {}
        self.errors = []


def evaluate(tie, named_cases, envs, workers=12, chunk=100):
    """run implementation (+oracle) and model on all cases, chunked and in parallel"""
    res = Result()
    chunks = [named_cases[i:i + chunk] for i in range(0, len(named_cases), chunk)]

    def work(ch):
        cs = [c for _n, c in ch]
        refs, dumps, comp, err = tie.impl(cs, envs=envs)
        mo, merr = tie.model(cs, refs)
        if mo is None or len(mo) != len(cs):
            mo = tie.model_each(cs, refs)
        return ch, refs, dumps, comp, err, mo, merr

    with concurrent.futures.ThreadPoolExecutor(max_workers=workers) as ex:
        for ch, refs, dumps, comp, err, mo, merr in ex.map(work, chunks):
            base = len(res.cases)
            for (n, c), r, d, m in zip(ch, refs, dumps, mo):
                res.names.append(n)
                res.cases.append(c)
                res.refs.append(r)
                res.impl.append(d)
                res.model.append(m)
            for k, v in comp.items():
                res.complaints[base + k] = v
            if err:
                res.errors.append(err)
    return res


def oracle_fails(tie, kind, envs):
    def failing(lines):
        _r, dumps, comp, _e = tie.impl(lines, envs=envs, timeout=120)
        out = []
        for i in range(len(lines)):
            cs = comp.get(i, [])
            out.append(any(qtie.complaint_kind(c) == kind for c in cs) or
                       (kind in ("hang", "panic") and i < len(dumps) and dumps[i] == kind))
        return out
    return failing


def diff_fails(tie):
    def failing(lines):
        refs, dumps, _c, _e = tie.impl(lines, envs=0, timeout=120)
        mo, _err = tie.model(lines, refs, timeout=60)
        if mo is None or len(mo) != len(lines):
            mo = tie.model_each(lines, refs)
        return [qtie.canon(d) != qtie.canon(m) for d, m in zip(dumps, mo)]
    return failing


def report_oracle_failures(rep, tie, res, known, envs, limit=4):
    """shrink, classify, write replays; returns number of genuine (unclassified) failures"""
    seen, fresh = set(), 0
    idxs = sorted(res.complaints.keys())
    # skipped-too-big is a statistic, not a failure
    idxs = [i for i in idxs if any(qtie.complaint_kind(c) != "skipped-too-big" for c in res.complaints[i])]
    by_kind = collections.OrderedDict()
    for i in idxs:
        by_kind.setdefault(qtie.complaint_kind(res.complaints[i][0]), []).append(i)
    for kind, lst in by_kind.items():
        for i in lst[:limit]:
            shrunk = qtie.shrink_case(res.cases[i], oracle_fails(tie, kind, envs))
            _r, dumps, comp, _e = tie.impl([shrunk], envs=envs, timeout=120)
            text = tie.render([shrunk])[0]
            complaints = comp.get(0, []) or res.complaints[i]
            k = qtie.classify(text, complaints, known)
            if k:
                rep.known_finding(k["text"])
                continue
            if text in seen:
                continue
            seen.add(text)
            fresh += 1
            rep.replay({"kind": "oracle", "statement": STATEMENT, "case_name": res.names[i], "query": text,
                        "case": json.loads(shrunk), "actual_normal_form": dumps[0] if dumps else None,
                        "complaints": [c[:1500] for c in complaints[:3]],
                        "original_query": tie.render([res.cases[i]])[0]})
    return fresh


def coverage_counters(tie, res):
    reg = collections.Counter()
    outcomes = collections.Counter()
    nontrivial = set()
    texts = tie.render(res.cases)
    for c, d, t in zip(res.cases, res.impl, texts):
        e = json.loads(c)["e"]
        qtie.regimes(e, reg)
        kind = d if d in ("err", "false", "panic", "hang", "true") else "set"
        outcomes[kind] += 1
        if kind in ("set", "false", "true") and qtie.has_operator(e):
            nontrivial.add(t)
        if kind == "set":
            n = d.count(" | ") + 1
            reg["normal-form-conjuncts>=4"] += n >= 4
            reg["normal-form-has-X"] += " X" in d
    return reg, outcomes, nontrivial, texts


def plan(tier, seed):
    """(level, seed, n) generation plan"""
    if tier == "thorough":
        return [(lv, seed * 1000003 + 17 * j + lv, 2500) for j in range(8) for lv in (0, 1, 2)]
    return [(0, seed * 1000003, 2000), (1, seed * 1000003 + 1, 2200), (2, seed * 1000003 + 2, 1800)]


def run(tier, seed, replay=None, prop=PROP):
    rep = pk.Report(prop, tier, seed)
    for old in glob.glob(os.path.join(pk.VERIF, "replays", prop + "-*.json")):
        os.remove(old)
    thorough = tier == "thorough"
    ob = pk.check_obligations(prop, leanchecker=thorough)
    rep.coverage.update(pk.proof_coverage(
        ob, "cd /verif/lean && lake build Pk.Props.%s pkmodel && lake env lean <#print axioms of every theorem>" % prop
        + (" && lake env leanchecker Pk.Props.%s" % prop if thorough else ""),
        ["Lean compiler/runtime for the executable model (pkmodel c03)",
         "correspondence harness /verif/harness/cmd/c03 + lib/qh (generator, renderer, dump, oracle) + tools/qtie.py",
         "participle lexer/parser (not modelled: the model starts at the lexed AST; covered by the tie only)"]))
    rep.assumptions = [
        "numbers stay below 2^40 (Go int arithmetic is modelled by Int)",
        "pc.timezone is UTC (harness runs with TZ=UTC); reference time is taken from the returned Query",
        "payload filters are given an abstract deterministic semantics (step function per element); regexes are opaque",
        "THEN is defined on unsimplified alternatives (continuation of the left operand's payload chains)"]

    binpath, blog = pk.go_build("c03")
    if binpath is None:
        rep.replay({"broken": "correspondence %s: harness c03 does not build against /repo's working tree" % prop,
                    "log": blog[-3000:]}, no_input=True)
        rep.coverage.update({"evaluations": 0, "distinct_nontrivial": 0})
        return rep.finish()
    tie = qtie.QTie(binpath)
    envs = 48 if not thorough else 96
    known = pk.known_findings(prop)

    if replay:
        data = json.load(open(replay))
        case = json.dumps({"style": 0, "e": data["case"]["e"]}, separators=(",", ":"))
        res = evaluate(tie, [("replay", case)], envs)
        print("query            :", tie.render([case])[0])
        print("real normal form :", res.impl[0])
        print("model normal form:", res.model[0])
        print("oracle complaints:", res.complaints.get(0, []))
        bad = bool(res.complaints.get(0)) or qtie.canon(res.impl[0]) != qtie.canon(res.model[0])
        return 1 if bad else 0

    named = load_corpus(prop)
    ncorpus = len(named)
    for lv, sd, n in plan(tier, seed):
        for j, c in enumerate(tie.gen(sd, n, lv)):
            named.append(("gen:level%d:seed%d:%d" % (lv, sd, j), c))
    res = evaluate(tie, named, envs)

    diffs = [i for i in range(len(res.cases)) if qtie.canon(res.impl[i]) != qtie.canon(res.model[i])]
    fresh = report_oracle_failures(rep, tie, res, known, envs)
    evaluations = len(res.cases) * (1 + envs)

    # --- model and implementation differ although the oracle is silent on everything reported so far
    if diffs and not rep.violations:
        i = diffs[0]
        shrunk = qtie.shrink_case(res.cases[i], diff_fails(tie))
        r2 = evaluate(tie, [("shrunk", shrunk)], envs)
        found = None
        # search 1: the differing cases themselves (and the shrunk one) on many more environments
        again = [("differs", shrunk)] + [("differs", res.cases[k]) for k in diffs[:40]]
        r4 = evaluate(tie, again, envs * 40)
        evaluations += len(again) * (1 + 40 * envs)
        if any(qtie.complaint_kind(c[0]) != "skipped-too-big" for c in r4.complaints.values()):
            found = r4
        # search 2: more generated cases, oracle only, wider environments
        for j in range(0 if found is not None else (6 if not thorough else 40)):
            extra = [("search", c) for c in tie.gen(seed * 7919 + 100000 + j, 400, j % 3)]
            r3 = evaluate(tie, extra, envs * 2)
            evaluations += len(extra) * (1 + 2 * envs)
            if any(qtie.complaint_kind(c[0]) != "skipped-too-big" for c in r3.complaints.values()):
                found = r3
                break
        if found is not None and report_oracle_failures(rep, tie, found, known, envs * 2, limit=2):
            pass
        elif not rep.violations:
            rep.replay({"broken": "correspondence %s (strict stream: canonical dump of Query.Conditions vs model "
                                  "Clean(translate e)) no longer checks" % prop,
                        "differing_cases": len(diffs), "query": tie.render([shrunk])[0], "case": json.loads(shrunk),
                        "impl": r2.impl[0], "model": r2.model[0]}, no_input=True)
    if res.errors and not rep.violations:
        rep.replay({"broken": "harness run failed", "errors": res.errors[:3]}, no_input=True)
    if not ob.ok and not rep.violations:
        rep.replay({"broken": "proof obligations of Pk.Props.%s" % prop, "failed": ob.failed[:20],
                    "log": ob.log[-2000:]}, no_input=True)

    reg, outcomes, nontrivial, texts = coverage_counters(tie, res)
    skipped = sum(1 for v in res.complaints.values() if any(qtie.complaint_kind(c) == "skipped-too-big" for c in v))
    rep.coverage.update({
        "evaluations": evaluations,
        "distinct_nontrivial": len(nontrivial),
        "rule": "expression ASTs generated by splitmix64 from VERIF_SEED in the shape of the grammar (depth <= 5, "
                "atom pools of 3-9 values per kind, predicted DNF size <= 40), three sub-languages (0: tag/protocol/"
                "host/number/time, 1: + payload filters and THEN, 2: + sub-queries and variables); each case is "
                "parsed by the real query.Parse, compared structurally with the model and evaluated against the "
                "surface meaning on %d synthetic environments; a case counts as distinct+non-trivial when Parse "
                "accepts it, the expression contains at least one operator (NOT or a list with >= 2 operands) and "
                "its query text was not seen before in this run" % envs,
        "samples": [{"query": texts[i], "real_normal_form": res.impl[i][:600]} for i in
                    (ncorpus, ncorpus + 1, len(res.cases) - 1) if i < len(res.cases)],
        "cases": len(res.cases), "corpus_cases": ncorpus, "outcomes": dict(outcomes), "regimes": dict(reg),
        "model_impl_differences": len(diffs), "oracle_failures": fresh,
        "oracle_skipped_too_big": skipped, "environments_per_case": envs,
    })
    return rep.finish()
