"""
C01 — index files return every stored stream exactly as written.

obligations : theorems of lean/Pk/Props/C01.lean (kernel-checked, axioms audited)
tie         : generated stream sets are written by the REAL index.Writer (harness c01, built from the
              repository's working tree) and by the Lean model (pkmodel c01); strict lines = writer
              tables after every AddStream and the sections of the finished file (parsed by the harness'
              own parser); observable lines = every reader accessor
oracle      : round trip — what the real reader returns is compared with the input in Go
"""
import re

import idxtie

PROP = "C01"


def nontrivial(op, out):
    if op == "obs" and out.startswith("found=1"):
        return "obs " + re.sub(r"^found=1 idx=\d+ ", "", out)
    if op == "src" and out.startswith("found=1"):
        return None
    if op == "dig":
        return "dig " + out
    return None


CFG = {
    "prop": PROP, "harness": "c01", "model_arg": "c01",
    "ncases": lambda tier: 60 if tier == "quick" else 300,
    "thorough_seeds": 10,
    "first_small": 3,
    "statement": "what the real reader returns for a written stream set differs from the input (round trip)",
    "assumptions": [
        "well-formed stream sets (DESIGN §5 C01 WF): distinct ids, >= 1 packet with >= 1 source reference, client and server "
        "address of the same length 4 or 16, chunks on distinct existing packets in packet order, non-decreasing timestamps "
        "(1970..2200) with consecutive gaps < 2^32 us, distinct source packets, at least one stream per file",
        "record counts below the 2^32 / 2^16 capacity limits; I/O-error undo paths of AddStream are not driven",
        "sort.Slice is modelled by a stable merge sort; lookups are compared as key sequences",
        "the order of names inside the import-filename section (Go map iteration) is not compared, only resolved names",
    ],
    "rule": "case i of a run picks a regime by i (0: >4096 IPv6 hosts, 1: >16384 IPv4 hosts, 2: >4096 IPv6 hosts with odd boundary; "
            "then mixed/chunks/skip/wrap/burst/many/tiny round robin), every value from splitmix64(VERIF_SEED, i). Each case: "
            "new, add*, fin, dig[, dump], ids, all, obs per id (+absent ids), src per first source packet (+near misses). "
            "distinct_nontrivial = number of distinct `obs` lines with found=1 (a stored stream read back through every accessor; "
            "the stream index is masked) plus distinct file digests",
    "required_regimes": ["ipv4_ipv6_mixed", "second_host_group_v6", "second_host_group_v4", "sparse_unordered_ids", "id_above_2^32",
                         "chunk_0", "chunk_1", "chunk_65535", "chunk_65536", "chunk_gt_64k", "dataless_run_ge_255", "time_wraps_1",
                         "several_capture_files", "index_around_2^32", "server_first", "multi_ref_packet",
                         "boundary_parity_odd"],
    "out_regimes": [(r"^found=0", "lookup_absent"), (r"^found=1 id=", "lookup_by_source_hit"), (r"data=[2-9]\d*:\[", "multi_chunk_payload")],
    "nontrivial": nontrivial,
}


def run(tier, seed, replay=None):
    return idxtie.run_check(CFG, tier, seed, replay)
