"""C06 — service-loop property; see tools/mgrfam.py and DESIGN.md §5 C06."""
import mgrfam


def run(tier, seed, replay=None):
    return mgrfam.run("C06", tier, seed, replay)
