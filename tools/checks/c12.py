"""
C12 — state survives restart and a crash at any point.

obligations : theorems of lean/Pk/Props/C12.lean (state-file selection, crash prefixes of saveState, partial
              index files ignored) and lean/Pk/Props/C12Idx.lean (import/merge crash safety at the level of
              stream ids and versions, which cuts are reachable, id stability over histories)
tie         : `crashcheck` experiments of the scenario harness: a second REAL manager is started on a copy of
              the data directory taken while all jobs are parked (optionally with the index file under
              construction cut, or — `crashcheck 100/101/102` — at a proper prefix of the file operations of the
              state save just made, in the order harness/cmd/c12extract (go/ast) reads from the source of
              saveState on every run; that order must equal the modelled `saveOps`); the files found there are described to the Lean recovery
              models (pkmodel c12: Pk.Model.Recover + RecoverIdx), whose prediction (index stack in name order,
              tags of the newest parsable state file, next stream id, the file serving each stream id) is
              compared with what the real restart loaded
oracle      : the property statement evaluated on the recovered service (restart succeeds, acknowledged
              tags, streams of completed imports under their old ids with their data, tags converge)
"""
import glob
import json
import os

import mgrfam
import pk

PROP = "C12"


def canon(x):
    return json.dumps(x, sort_keys=True)


def run(tier, seed, replay=None):
    rep = pk.Report(PROP, tier, seed)
    for old in glob.glob(os.path.join(pk.VERIF, "replays", PROP + "-*.json")):
        if not replay or os.path.abspath(old) != os.path.abspath(replay):
            os.remove(old)
    thorough = tier == "thorough"
    ob = pk.check_obligations(PROP, leanchecker=thorough)
    rep.coverage.update(pk.proof_coverage(
        ob, "cd /verif/lean && lake build Pk.Props.C12 pkmodel && lake env lean <#print axioms of every theorem>",
        ["Lean compiler/runtime for the executable model (pkmodel c12)",
         "scenario harness /verif/harness/cmd/mgr (crash.go) and tools/mgrfam.py",
         "the OS applies file operations in program order and a closed file is durable (no fsync reasoning)"]))
    rep.assumptions = ["crash points = every gate position / after every API call; additionally (a) the index file under "
                       "construction (most recently modified, not yet in the served list) with its header still the zero "
                       "placeholder + any body prefix, since Finalize writes the header last (Pk/Props/C12Idx.lean "
                       "crash_cut_newest_only: these are exactly reachable disks); (b) directly after a call that saved state, "
                       "every proper prefix of the file operations of that save in the order read from the source of saveState "
                       "(new file absent / empty / half written / complete, old file still there or already removed); the restart "
                       "may then show the settings as before or as after that call (it was not acknowledged yet), every tag as acknowledged; every restart is followed by a clean shutdown and a second restart, in every second experiment "
                       "with one more acknowledged call in between; answers that depend on converter output are not judged after a crash",
                       "captures handed to ImportPcaps but not yet imported are outside the statement (import queue is memory-only: finding F19)"]
    binpath, blog = pk.go_build("mgr")
    if binpath is None:
        rep.replay({"broken": "correspondence C12: scenario harness does not build", "log": blog[-3000:]}, no_input=True)
        rep.coverage.update({"evaluations": 0, "distinct_nontrivial": 0})
        return rep.finish()
    # the order of the file operations of saveState, read from the source on every run: the crash states inside a
    # state save that the harness emulates are the prefixes of THIS order (VERIF_SAVE_ORDER), and the modelled order
    # (`saveOps` of Pk/Model/Recover.lean, theorem saveState_crash_safe) has to be the same
    save_order, order_diff = None, None
    xbin, xlog = pk.go_build("c12extract")
    if xbin is None:
        order_diff = "extractor does not build: " + xlog[-1000:]
    else:
        rc, o, e = pk.sh([xbin, "-src", os.path.join(pk.REPO, "internal", "index", "manager", "manager.go")], env=pk.goenv(), timeout=60)
        try:
            save_order = json.loads(o)["order"]
        except Exception:
            order_diff = "extractor failed: " + (o + e)[-500:]
    model_order = None
    rc, o, e = pk.sh([pk.PKMODEL, "c12"], stdin=b'{"saveorder":true}\n', timeout=60)
    try:
        model_order = json.loads(o.strip().split("\n")[0])["saveorder"].split(",")
    except Exception:
        order_diff = order_diff or "driver did not report the modelled order: " + (o + e)[-300:]
    if save_order is not None and model_order is not None:
        abstract = [{"create": "createPartial", "close": "complete", "remove": "remove"}[x] for x in save_order if x != "write"]
        wr_ok = "write" in save_order and "create" in save_order and "close" in save_order and \
            save_order.index("create") < save_order.index("write") < save_order.index("close")
        if sorted(save_order) != ["close", "create", "remove", "write"] or not wr_ok or abstract != model_order:
            order_diff = "saveState performs %s, the model (saveOps) %s" % (save_order, model_order)
        if sorted(save_order) == ["close", "create", "remove", "write"]:
            os.environ["VERIF_SAVE_ORDER"] = ",".join(save_order)
    if replay:
        data = json.load(open(replay))
        sc = mgrfam.run_impl(binpath, mgrfam.Scenario("replay", data.get("ops", [])))
        print("oracle complaints:", mgrfam.complaints_for(sc, PROP)[:10], sc.error)
        return 1 if (mgrfam.complaints_for(sc, PROP) or sc.error) else 0

    nsc, nops = (60, 40) if not thorough else (600, 60)
    # stage 1: crash experiments with the property oracle (violations are reported by the stage)
    mgrfam.stage(rep, PROP, tier, seed, gen_args=["-crash"], nsc=nsc, nops=nops, label="crash")
    # stage 2: the recovery model against what the real restarts loaded (same scenarios, re-run)
    disks, diffs, nontriv = 0, [], set()
    for i in range(min(nsc, 40) if not thorough else 200):
        sd = seed * 1000003 + 77 + i
        rc, o, e = pk.sh([binpath, "gen", "-seed", str(sd), "-n", str(nops), "-crash"], env=pk.goenv(), timeout=60)
        sc = mgrfam.run_impl(binpath, mgrfam.Scenario("seed:%d" % sd, [l for l in o.split("\n") if l]))
        evs = [l["ev"] for l in sc.lines if l.get("ev", {}).get("op") == "crashcheck" and l["ev"].get("restart") == "ok"
               and "recovered_names" in l["ev"]]
        if not evs:
            continue
        rc, o, e = pk.sh([pk.PKMODEL, "c12"], stdin="".join(json.dumps(ev["disk"]) + "\n" for ev in evs).encode(), timeout=120)
        outs = [json.loads(l) for l in o.split("\n") if l.strip()]
        for ev, out in zip(evs, outs):
            disks += 1
            d = ev["disk"]
            if len(d["idx"]) >= 2 or any(not s["parsable"] for s in d["states"]) or any(not x["complete"] for x in d["idx"]):
                nontriv.add(canon(d))
            got = ev["recovered_names"]
            got = {"idx": got["idx"], "tags": sorted(got["tags"], key=lambda t: t["name"]),
                   "next": got.get("next"), "view": got.get("view")}
            if canon(got) != canon(out):
                diffs.append({"case": sc.name, "disk": d, "impl": got, "model": out, "cut": ev.get("cut")})
    if diffs and not rep.violations:
        rep.replay({"broken": "correspondence C12 (recovery model vs real manager.New on a crash copy) no longer checks",
                    "first": diffs[0]}, no_input=True)
    if order_diff and not rep.violations:
        rep.replay({"broken": "correspondence C12 (order of the file operations of saveState, read from the source, vs the modelled "
                              "`saveOps` that theorem saveState_crash_safe is about) no longer checks",
                    "difference": order_diff, "source_order": save_order, "model_order": model_order,
                    "searched": "crash experiments at every prefix of the source order (stage crash)"}, no_input=True)
    if not ob.ok and not rep.violations:
        rep.replay({"broken": "proof obligations of Pk.Props.C12", "failed": ob.failed[:20], "log": ob.log[-2000:]}, no_input=True)
    rep.coverage.update({
        "distinct_nontrivial": len(nontriv),
        "rule": "scenarios as in C06 with `crashcheck K` ops inserted (K=0: copy of the data directory while all jobs are "
                "parked; 0<K<100: additionally the index file under construction — most recently modified and not yet in the served list — gets its header zeroed and is cut; K=100: directly after a call that saved state, the state file it replaced is put back, i.e. a kill inside the state save; every restart is followed by a clean shutdown and a second restart, in every second experiment with one more acknowledged call in between); evaluations = events; "
                "non-trivial = distinct crash disks with >= 2 index files or an unreadable file",
        "samples": [diffs[0]] if diffs else [{"note": "see crash_stage.event_mix for the number of restarts"}],
        "recovery_model_disks_compared": disks, "recovery_model_differences": len(diffs),
        "save_order_from_source": save_order, "save_order_of_model": model_order, "save_order_difference": order_diff,
    })
    return rep.finish()
