"""
C07 — merging index files is invisible.

obligations : theorems of lean/Pk/Props/C07.lean (kernel-checked, axioms audited)
tie         : stacks of 2-6 real index files (overlapping ids / host sets / reference seconds) are written by the
              REAL index.Writer, runs of them merged by the REAL index.Merge (harness c07, built from the repository's
              working tree); the Lean model (pkmodel c07: Writer.addIndex / merge of Pk/Model/Merge.lean) executes the
              same ops; strict lines = sections of the merged file, observable lines = every reader accessor on it
              and the view (newest version per id) of the stack before and after
oracle      : observable equality of the stack before and after merging any suffix, repeatedly (visible ids, metadata,
              payload, packets, a handful of SearchStreams queries), and round trip of the merged file against the
              newest written version of every id — in Go, independent of the model
"""
import re

import idxtie

PROP = "C07"


def nontrivial(op, out):
    if op == "eqv" and re.match(r"n=[1-9]", out):
        return "eqv " + out
    if op == "obs" and out.startswith("found=1"):
        return "obs " + re.sub(r"^found=1 idx=\d+ ", "", out)
    return None


CFG = {
    "prop": PROP, "harness": "c07", "model_arg": "c07",
    "ncases": lambda tier: 50 if tier == "quick" else 200,
    "thorough_seeds": 8,
    "first_small": 2,
    "statement": "an observable of the stack of index files (visible streams = newest version per id, metadata, payload, "
                 "packets, search results) differs before and after index.Merge of a suffix",
    "assumptions": [
        "every input file is a well-formed stream set (C01 WF); ids are distinct inside one file",
        "record counts below the 2^32 / 2^16 capacity limits, so index.Merge produces one output file",
        "searches are compared as ordered id lists for queries sorted by id (free of tie order): id/port/host/bytes/"
        "protocol/data filters derived from visible streams",
        "the view of the stack before the merge is read after index.Merge returned (the inputs stay open), so a merge that "
        "damages its inputs in memory is reported as well",
    ],
    "rule": "case i of a run picks a regime by i (0: IPv6 host table near the 4096-host capacity inside the merged run, "
            "1: newest file with two IPv6 host groups whose first is not full; then overlap/reftime/hosts/repeat/pair/payload "
            "round robin), every value from splitmix64(VERIF_SEED, i). Each case: 2-6 files (new, add*, fin), 1-3 rounds of "
            "merge <suffix> + eqv <stack before> <stack after> + dig/ids/all/obs on the merged file. distinct_nontrivial = "
            "number of distinct non-empty stack views compared (eqv lines) plus distinct streams read back from merged files",
    "required_regimes": ["host_table_near_capacity", "big_file_two_groups_first_not_full", "id_in_several_files",
                         "newer_file_earlier_reference", "newer_file_later_reference", "merge_proper_suffix", "merge_whole_stack",
                         "merge_of_merged_file", "ipv4_ipv6_mixed", "files_2", "files_6"],
    "out_regimes": [(r"eq=1$", "views_equal"), (r"^n=1$", "merge_single_output")],
    "nontrivial": nontrivial,
}


def run(tier, seed, replay=None):
    return idxtie.run_check(CFG, tier, seed, replay)
