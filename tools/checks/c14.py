"""
C14 — the query parser is total.

obligations : theorems of lean/Pk/Props/C14.lean (outcome of the model is ok|err on the parser's inputs,
              named loop terminations, DNF size bound; kernel-checked, axioms audited)
tie         : (a) outcome correspondence: generated ASTs of the full sub-language through the real
                  query.Parse and the Lean model; the outcome kinds (ok / err / panic / hang-diverged)
                  and the normal forms must agree (harness c03 + pkmodel c03);
              (b) fuzz stream against the real query.Parse in CHILD PROCESSES under a watchdog
                  (harness c14): random bytes, token soup of the lexer rule set, long value lists,
                  deep nesting, arithmetic on variables, malformed values, rendered generator cases;
              (c) every input is parsed twice; the two results must be equal modulo reference time.
oracle      : the fuzz stream itself: a hang, a panic or two different results is a failing input.
"""
import glob
import json
import os
import re

import pk
import qtie
from checks import c03 as base

PROP = "C14"
STATEMENT = ("query.Parse returns a query or an error for every input string (no panic, no hang), promptly for "
             "moderate normal forms, and parsing the same text twice gives equal queries modulo the reference time")


def run_fuzz(binpath, seed, n, timeout_s, workers=12):
    env = pk.goenv()
    env["TZ"] = "UTC"
    rc, o, e = pk.sh([binpath, "fuzz", "-seed", str(seed), "-n", str(n), "-workers", str(workers),
                      "-timeout", "%ds" % timeout_s], env=env, timeout=3000)
    findings, summary = [], None
    for l in o.split("\n"):
        if l.startswith("FINDING "):
            f = dict(kv.split("=", 1) for kv in l[len("FINDING "):].split(" ") if "=" in kv)
            findings.append(f)
        elif l.startswith("SUMMARY "):
            summary = json.loads(l[len("SUMMARY "):])
    return rc, findings, summary, e


def one(binpath, text_bytes, timeout_s):
    env = pk.goenv()
    env["TZ"] = "UTC"
    rc, o, e = pk.sh([binpath, "one", "-hex", text_bytes.hex(), "-timeout", "%ds" % timeout_s], env=env,
                     timeout=timeout_s * 3 + 30)
    return (o.strip().split(" ", 1) + [""])[0] if o.strip() else "crash"


def shrink_input(binpath, data, kind, timeout_s, budget=120):
    """ddmin over the bytes of a failing input"""
    def failing(xs):
        return one(binpath, bytes(xs), timeout_s) == kind
    return bytes(pk.ddmin(list(data), failing, budget))


def classify(text, kind, known):
    for k in known:
        if k.get("status") != "known":
            continue
        m = k.get("match", {})
        if m.get("classifier") == "input-regex" and m.get("kind") == kind and re.search(m.get("regex", "$^"), text):
            return k
    return None


def run(tier, seed, replay=None):
    rep = pk.Report(PROP, tier, seed)
    for old in glob.glob(os.path.join(pk.VERIF, "replays", PROP + "-*.json")):
        os.remove(old)
    thorough = tier == "thorough"
    ob = pk.check_obligations(PROP, leanchecker=thorough)
    rep.coverage.update(pk.proof_coverage(
        ob, "cd /verif/lean && lake build Pk.Props.C14 pkmodel && lake env lean <#print axioms of every theorem>"
        + (" && lake env leanchecker Pk.Props.C14" if thorough else ""),
        ["Lean compiler/runtime for the executable model (pkmodel c03)",
         "harnesses /verif/harness/cmd/c14 (fuzz, child processes, watchdog) and cmd/c03 + tools/qtie.py",
         "participle lexer / PEG engine and the value sub-parsers: not modelled, fuzzed only"]))
    rep.assumptions = [
        "the model starts at the lexed AST: totality of participle's lexing/parsing layer rests on the fuzz stream",
        "promptness is measured (wall time per input in the child, watchdog), not proved for the Go code; the "
        "formal part is the DNF size bound of the model",
        "generated inputs keep negated disjunctions small (the normal form is exponential there by construction)"]
    known = pk.known_findings(PROP)
    timeout_s = 30

    b14, log14 = pk.go_build("c14")
    b03, log03 = pk.go_build("c03")
    if b14 is None or b03 is None:
        rep.replay({"broken": "correspondence C14: harness does not build against /repo's working tree",
                    "log": (log14 + log03)[-3000:]}, no_input=True)
        rep.coverage.update({"evaluations": 0, "distinct_nontrivial": 0})
        return rep.finish()

    if replay:
        data = json.load(open(replay))
        if "input_hex" in data:
            k = one(b14, bytes.fromhex(data["input_hex"]), timeout_s)
            print("input  :", bytes.fromhex(data["input_hex"])[:300])
            print("outcome:", k)
            return 1 if k not in ("ok", "err") else 0
        return base.run(tier, seed, replay, prop=PROP)

    # ---- corpus (fuzz inputs: one per line, hex) -------------------------------------------------
    corpus = []
    for p in sorted(glob.glob(os.path.join(pk.VERIF, "corpus", PROP, "*.hex"))):
        for l in open(p).read().split("\n"):
            l = l.strip()
            if l and not l.startswith("#"):
                corpus.append((os.path.basename(p), bytes.fromhex(l)))
    bad_corpus = []
    for name, data in corpus:
        k = one(b14, data, timeout_s)
        if k not in ("ok", "err"):
            bad_corpus.append((name, data, k))

    # ---- (b)+(c) fuzz ----------------------------------------------------------------------------
    n = 16000 if not thorough else 160000
    rc, findings, summary, ferr = run_fuzz(b14, seed, n, timeout_s)
    if summary is None:
        rep.replay({"broken": "fuzz harness c14 produced no summary", "rc": rc, "stderr": ferr[-2000:]}, no_input=True)
        summary = {"inputs": 0, "distinct_accepted": 0}
    reported = set()
    for name, data, k in bad_corpus:
        findings.insert(0, {"kind": k, "class": "corpus:" + name, "input": data.hex()})
    for f in findings[:3]:
        data = bytes.fromhex(f.get("input", ""))
        kind = f.get("kind")
        shrunk = data
        if kind in ("panic", "nondeterministic"):
            shrunk = shrink_input(b14, data, kind, timeout_s)
        elif kind == "hang":
            # shrink with a short watchdog (an input that is still silent after 3 s), then confirm
            cand = shrink_input(b14, data, kind, 3, budget=60)
            if one(b14, cand, timeout_s) == "hang":
                shrunk = cand
        text = shrunk.decode("utf8", "replace")
        k = classify(text, kind, known)
        if k:
            rep.known_finding(k["text"])
            continue
        if shrunk in reported:
            continue
        reported.add(shrunk)
        detail = f.get("detail", "")
        try:
            detail = bytes.fromhex(detail).decode("utf8", "replace")
        except ValueError:
            pass
        rep.replay({"kind": "fuzz", "statement": STATEMENT, "outcome": kind, "class": f.get("class"),
                    "input": text, "input_hex": shrunk.hex(), "original_input_hex": data.hex(),
                    "detail": detail[:2000], "expected": "ok or err, twice the same, within the watchdog",
                    "actual": kind})

    # ---- (a) outcome correspondence with the model -----------------------------------------------
    tie = qtie.QTie(b03)
    named = base.load_corpus("C03") + base.load_corpus(PROP)
    plan = [(2, seed * 1000003 + 5, 500), (1, seed * 1000003 + 6, 200)]
    if thorough:
        plan = [(lv, seed * 1000003 + 31 * j + lv, 500) for j in range(4) for lv in (0, 1, 2)]
    for lv, sd, cnt in plan:
        for j, c in enumerate(tie.gen(sd, cnt, lv)):
            named.append(("gen:level%d:seed%d:%d" % (lv, sd, j), c))
    res = base.evaluate(tie, named, envs=0)
    kind = lambda d: d if d in ("err", "panic", "hang", "diverged") else "ok"
    diffs = [i for i in range(len(res.cases)) if qtie.canon(res.impl[i]) != qtie.canon(res.model[i])]
    kind_diffs = [i for i in diffs if kind(res.impl[i]) != kind(res.model[i])]
    bad = [i for i in range(len(res.cases)) if res.impl[i] in ("panic", "hang")]
    for i in bad[:3]:
        text = tie.render([res.cases[i]])[0]
        k = classify(text, res.impl[i], known)
        if k:
            rep.known_finding(k["text"])
            continue
        shrunk = qtie.shrink_case(res.cases[i], base.oracle_fails(tie, res.impl[i], 0), budget=150)
        rep.replay({"kind": "fuzz", "statement": STATEMENT, "outcome": res.impl[i], "class": "structured",
                    "query": tie.render([shrunk])[0], "case": json.loads(shrunk),
                    "input_hex": tie.render([shrunk])[0].encode().hex()})
    if diffs and not rep.violations:
        i = (kind_diffs or diffs)[0]
        shrunk = qtie.shrink_case(res.cases[i], base.diff_fails(tie))
        r2 = base.evaluate(tie, [("shrunk", shrunk)], 0)
        rep.replay({"broken": "correspondence C14 (outcome and normal form of query.Parse vs the Lean model) no longer "
                              "checks; the fuzz stream found no failing input",
                    "differing_cases": len(diffs), "outcome_kind_differs": len(kind_diffs),
                    "query": tie.render([shrunk])[0], "case": json.loads(shrunk),
                    "impl": r2.impl[0], "model": r2.model[0]}, no_input=True)
    if not ob.ok and not rep.violations:
        rep.replay({"broken": "proof obligations of Pk.Props.C14", "failed": ob.failed[:20], "log": ob.log[-2000:]},
                   no_input=True)

    outcomes = {}
    for d in res.impl:
        outcomes[kind(d)] = outcomes.get(kind(d), 0) + 1
    rep.coverage.update({
        "evaluations": int(summary.get("inputs", 0)) * 2 + len(res.cases) + len(corpus),
        "distinct_nontrivial": int(summary.get("distinct_accepted", 0)),
        "rule": "fuzz inputs generated by splitmix64 from VERIF_SEED in 9 classes (random bytes, query alphabet, token "
                "soup of the lexer rule set, long value lists, deep nesting, arithmetic on variables incl. the "
                "systematic common-factor grid, malformed values and their mutations, rendered generator cases with "
                "predicted DNF size <= 24); each input is parsed twice by the real query.Parse in a child process under "
                "a %d s watchdog; distinct+non-trivial = distinct input texts (not of class `bytes`) that Parse "
                "accepted, i.e. that went through translation and normalisation" % timeout_s,
        "samples": summary.get("samples", []),
        "fuzz": summary, "fuzz_findings": len(findings), "watchdog_s": timeout_s,
        "correspondence_cases": len(res.cases), "correspondence_outcomes": outcomes,
        "model_impl_differences": len(diffs), "corpus_inputs": len(corpus),
    })
    return rep.finish()
