"""
Shared pipeline of the two pcap-import checks C05 and C08 (see c05.py / c08.py).

  obligations : theorems of lean/Pk/Props/<PROP>.lean (kernel-checked, axioms audited)
  tie         : every generated / corpus case (conversations -> packets -> capture files -> import plan, one
                JSON line) is executed by the REAL builder.New / Builder.FromPcap (harness cmd/<prop>, built
                from /repo's working tree, results read back through index.Reader) and by the Lean model
                (pkmodel <prop>: feedOrder, reference reassembler, assignIDs, snapshots); the canonical result
                lines are compared (this is also the validation of the reassembler assumption record on
                everything generated)
  oracle      : inside the harness, written from the property statements: ground truth of the generated
                conversations (C05) and one-shot import of every prefix of the import history, ID stability,
                no packet under two IDs (C08)
"""
import collections
import concurrent.futures
import copy
import glob
import json
import os
import re

import pk

TIMEOUT_US = 300_000_000
Q1, Q3 = 0x3FFFFFFF, 0xFFFFFFFF - 0x3FFFFFFF


# ------------------------------------------------------------------------------------------------
# running cases
# ------------------------------------------------------------------------------------------------

class Runner:
    def __init__(self, prop, binpath):
        self.prop, self.bin = prop, binpath
        self.env = pk.goenv()
        self.env["GOMEMLIMIT"] = "6GiB"
        self.n = 0

    def gen(self, seed, n, big=0):
        rc, o, e = pk.sh([self.bin, "gen", "-seed", str(seed), "-n", str(n), "-big", str(big)], env=self.env, timeout=300)
        if rc != 0:
            raise RuntimeError("generator failed: " + e[-500:])
        return [l for l in o.split("\n") if l]

    def impl(self, lines, timeout=900):
        """-> (result lines, {line index: [complaints]}, error)"""
        self.n += 1
        tag = "%d_%d" % (os.getpid(), self.n)
        opath = os.path.join(pk.scratch(), "oracle_%s.txt" % tag)
        sdir = os.path.join(pk.scratch(), "run_%s" % tag)
        rc, o, e = pk.sh([self.bin, "run", "-oracle", opath, "-scratch", sdir],
                         stdin="".join(l + "\n" for l in lines).encode(), env=self.env, timeout=timeout)
        orc = collections.defaultdict(list)
        if os.path.exists(opath):
            for l in open(opath).read().split("\n"):
                m = re.match(r"ORACLE line=(\d+) (.*)", l)
                if m:
                    orc[int(m.group(1)) - 1].append(m.group(2))
            os.remove(opath)
        pk.sh(["rm", "-rf", sdir])
        err = None
        if rc == -9:
            err = "hang"
        elif rc != 0:
            err = "crash rc=%d %s" % (rc, e[-500:])
        out = o.split("\n")
        if out and out[-1] == "":
            out = out[:-1]
        return out, orc, err

    def model(self, lines, timeout=900):
        rc, o, e = pk.run_model(self.prop.lower(), "".join(l + "\n" for l in lines), timeout=timeout)
        out = o.split("\n")
        if out and out[-1] == "":
            out = out[:-1]
        return out, (None if rc == 0 else "model rc=%d %s" % (rc, e[-300:]))

    def complaints(self, case):
        """oracle complaints of one case (dict) on the real code"""
        out, orc, err = self.impl([json.dumps(case, separators=(",", ":"))], timeout=300)
        cs = list(orc.get(0, []))
        if err:
            cs.append("HARNESS kind=%s conv=-1 %s" % ("hang" if err == "hang" else "crash", err))
        return cs


def kind_of(complaint):
    m = re.match(r"(\w+) kind=([\w-]+)", complaint)
    return (m.group(1) + ":" + m.group(2)) if m else "other"


def convs_of(complaint):
    m = re.search(r"\bconvs?=([-\d,]*)", complaint)
    if not m or not m.group(1):
        return []
    return [int(x) for x in m.group(1).split(",") if x]


def step_of(complaint):
    m = re.search(r"\bstep=(\d+)", complaint)
    return int(m.group(1)) if m else None


# ------------------------------------------------------------------------------------------------
# case analysis used by the known-finding classifiers (computed from the case JSON alone)
# ------------------------------------------------------------------------------------------------

def expand(pk_):
    rep = max(1, pk_.get("rep", 1) or 1)
    return [pk_["t"] + k * (pk_.get("step", 0) or 0) for k in range(rep)]


def import_steps(case):
    """[(files put so far, files imported in this step, restarts so far with unindexed captures present)]"""
    steps, put, imported = [], [], []
    known_unindexed = set()
    for op in case["plan"]:
        if op["op"] == "put":
            put += op.get("files", [])
        elif op["op"] == "new":
            known_unindexed |= {f for f in put if f not in imported}
        elif op["op"] == "import":
            steps.append({"files": list(op.get("files", [])), "before": list(imported),
                          "known_unindexed": set(known_unindexed) - set(imported) - set(op.get("files", []))})
            imported += op.get("files", [])
    return steps


def conv_times(case, conv, files):
    ts = []
    for f in case["files"]:
        if f["name"] in files:
            for p in f["pkts"]:
                if p["conv"] == conv:
                    ts += expand(p)
    return sorted(ts)


def segments(ts):
    segs, cur = [], []
    for t in ts:
        if cur and t - cur[-1] > TIMEOUT_US:
            segs.append(cur)
            cur = []
        cur.append(t)
    if cur:
        segs.append(cur)
    return segs


def joined_convs(case):
    """conversations for which some import delivers packets that bridge an inactivity gap (> 5 min) between
    packets that were already indexed as two separate streams: {conv: first such step}"""
    res = {}
    steps = import_steps(case)
    for k, st in enumerate(steps):
        if k == 0:
            continue
        for cv in range(len(case["convs"])):
            if cv in res:
                continue
            t0 = conv_times(case, cv, set(st["before"]))
            new = conv_times(case, cv, set(st["files"]))
            if len(t0) < 2 or not new:
                continue
            s0 = segments(t0)
            if len(s0) < 2:
                continue
            s1 = segments(sorted(t0 + new))
            seg_of = {}
            for i, sg in enumerate(s1):
                for t in sg:
                    seg_of[t] = i
            firsts = [sg[0] for sg in s0]
            if len({seg_of[t] for t in firsts}) < len(firsts):
                res[cv] = k
    return res


def wrap_retransmission_convs(case):
    """TCP conversations disturbed across the 2^32 sequence wrap: (a) a data segment that starts in the top
    quarter of the sequence space is seen again after the sender's sequence numbers have wrapped into the
    bottom quarter, or (b) a data segment in the bottom quarter arrives before a (new) data segment of the
    top quarter, i.e. segments are reordered across the wrap"""
    res = set()
    wire = []
    for fi, f in enumerate(case["files"]):
        for pi, p in enumerate(f["pkts"]):
            wire.append((p["t"], fi, pi, p))
    wire.sort(key=lambda x: (x[0], x[1], x[2]))
    seen = collections.defaultdict(list)   # (conv, d) -> [(seq, len)]
    for _t, _fi, _pi, p in wire:
        cv = p["conv"]
        if case["convs"][cv]["proto"] != "tcp":
            continue
        ln = len(p.get("pl", "")) // 2
        if ln == 0:
            continue
        key = (cv, p["d"])
        seq = p["seq"]
        if seq > Q3 and (seq, ln) in seen[key]:
            i = seen[key].index((seq, ln))
            if any(((s + l) % (1 << 32)) < Q1 for s, l in seen[key][i:]):
                res.add(cv)
        if seq > Q3 and (seq, ln) not in seen[key] and any(s < Q1 for s, _l in seen[key]):
            res.add(cv)
        seen[key].append((seq, ln))
    # (c) any reordering / duplication of data segments in a direction whose sequence numbers cross the
    #     wrap: gopacket buffers the out-of-order segment and computes its distance to the expected
    #     sequence number with Sequence.Difference, which is off by one across the wrap
    for (cv, d), segs in seen.items():
        crosses = any(s > Q3 for s, _l in segs) and any(s < Q1 or ((s + l) % (1 << 32)) < Q1 for s, l in segs)
        if not crosses:
            continue
        exp = None
        disturbed = False
        for s, l in segs:
            if exp is not None and s != exp:
                disturbed = True
            exp = (s + l) % (1 << 32)
        if disturbed:
            res.add(cv)
    return res


CLASSIFIERS = {}


def classifier(name):
    def deco(f):
        CLASSIFIERS[name] = f
        return f
    return deco


@classifier("late-capture-joins-split-flow")
def _cl_join(case, complaints, params):
    """every complaint is about a conversation whose two already indexed parts are joined by a capture that
    arrives later, and is of a kind this defect produces"""
    jc = joined_convs(case)
    if not jc:
        return False
    kinds = {"C08:two-ids", "C08:differs-from-one-shot", "C05:not-one-stream", "C08:id-not-kept", "C08:stream-lost"}
    for c in complaints:
        if kind_of(c) not in kinds:
            return False
        cs = convs_of(c)
        if not cs or any(cv not in jc for cv in cs):
            return False
        st = step_of(c)
        if st is not None and any(st < jc[cv] for cv in cs):
            return False
    return True


@classifier("retransmission-across-sequence-wrap")
def _cl_wrap(case, complaints, params):
    wc = wrap_retransmission_convs(case)
    if not wc:
        return False
    kinds = {"C05:payload", "C05:direction-order", "C08:differs-from-one-shot"}
    for c in complaints:
        if kind_of(c) not in kinds:
            return False
        cs = convs_of(c)
        if not cs or any(cv not in wc for cv in cs):
            return False
    return True


def known_before_import_convs(case):
    """{conv: first import step during which one of the captures holding its packets is `known` to the
    builder (it was in the capture directory at a builder start) without having been indexed before}"""
    res = {}
    put, imported, known_unindexed, k = [], [], set(), 0
    for op in case["plan"]:
        if op["op"] == "put":
            put += op.get("files", [])
        elif op["op"] == "new":
            known_unindexed |= {f for f in put if f not in imported}
        elif op["op"] == "import":
            for cv in range(len(case["convs"])):
                if cv not in res and known_unindexed and conv_times(case, cv, known_unindexed):
                    res[cv] = k
            imported += op.get("files", [])
            known_unindexed -= set(op.get("files", []))
            k += 1
    return res


@classifier("capture-known-before-import")
def _cl_f19(case, complaints, params):
    """every complaint is about a conversation with packets in a capture that the builder regarded as known
    before it was imported (uploaded before a builder start), at or after the first import made in that
    situation, and of a kind this defect produces (extra packets while the capture is unindexed; second ID
    once it is imported)"""
    kc = known_before_import_convs(case)
    if not kc:
        return False
    kinds = {"C08:differs-from-one-shot", "C08:two-ids", "C05:not-one-stream", "C08:id-not-kept"}
    for c in complaints:
        if kind_of(c) not in kinds:
            return False
        cs = convs_of(c)
        if not cs or any(cv not in kc for cv in cs):
            return False
        st = step_of(c)
        if st is not None and any(st < kc[cv] for cv in cs):
            return False
    return bool(complaints)


def stalled_convs(case):
    """{conv: first import step} — TCP conversations that, among the captures imported up to that step, hold
    a data segment whose preceding bytes do not all arrive within the inactivity timeout (the reassembler
    then skips the hole when a later packet makes it flush)"""
    res = {}
    isn = {}
    for f in case["files"]:
        for p in f["pkts"]:
            if "S" in (p.get("fl") or ""):
                isn[(p["conv"], p["d"])] = p["seq"]
    imported = set()
    for k, st in enumerate(import_steps(case)):
        imported |= set(st["files"])
        segs = collections.defaultdict(list)
        for f in case["files"]:
            if f["name"] not in imported:
                continue
            for p in f["pkts"]:
                ln = len(p.get("pl", "")) // 2
                key = (p["conv"], p["d"])
                if ln and case["convs"][p["conv"]]["proto"] == "tcp" and key in isn:
                    segs[key].append((p["t"], (p["seq"] - isn[key] - 1) % (1 << 32), ln))
        for (cv, _d), ss in segs.items():
            if cv in res:
                continue
            for (t, off, _ln) in ss:
                reach = 0
                for (_t2, o2, l2) in sorted((x for x in ss if x[0] <= t + TIMEOUT_US), key=lambda x: x[1]):
                    if o2 > reach:
                        break
                    reach = max(reach, o2 + l2)
                if reach < off:
                    res[cv] = k
                    break
    return res


@classifier("pending-out-of-order-data-flushed-by-later-import")
def _cl_stall(case, complaints, params):
    sc = stalled_convs(case)
    if not sc:
        return False
    kinds = {"C08:differs-from-one-shot"}
    for c in complaints:
        if kind_of(c) not in kinds:
            return False
        cs = convs_of(c)
        if not cs or any(cv not in sc for cv in cs):
            return False
        st = step_of(c)
        if st is not None and any(st < sc[cv] for cv in cs):
            return False
    return bool(complaints)


def classify(case, complaints, known):
    """every complaint must be explained by a recorded finding (each complaint on its own; one case may show
    several findings).  Returns the list of findings, or None if some complaint is unexplained."""
    if not complaints:
        return None
    found = []
    for c in complaints:
        hit = None
        for k in known:
            if k.get("status") != "known":
                continue
            m = k.get("match", {})
            f = CLASSIFIERS.get(m.get("classifier"))
            if f and f(case, [c], m):
                hit = k
                break
        if hit is None:
            return None
        if hit not in found:
            found.append(hit)
    return found


# ------------------------------------------------------------------------------------------------
# structural shrinking of one case
# ------------------------------------------------------------------------------------------------

def drop_convs(case, keep):
    """case restricted to the conversations in `keep` (indices renumbered), empty captures removed"""
    keep = sorted(keep)
    ren = {old: new for new, old in enumerate(keep)}
    c = copy.deepcopy(case)
    c["convs"] = [case["convs"][i] for i in keep]
    files = []
    for f in c["files"]:
        f["pkts"] = [dict(p, conv=ren[p["conv"]]) for p in f["pkts"] if p["conv"] in ren]
        if f["pkts"]:
            files.append(f)
    names = {f["name"] for f in files}
    c["files"] = files
    plan = []
    for op in c["plan"]:
        if op["op"] in ("put", "import"):
            op = dict(op, files=[n for n in op.get("files", []) if n in names])
            if not op["files"]:
                continue
        plan.append(op)
    c["plan"] = plan
    return c


def shrink_case(case, failing, budget=120, drop_packets=False):
    """smallest variant (fewer conversations, fewer restarts, fewer messages) on which failing(case) holds"""
    calls = [0]

    def test(c):
        calls[0] += 1
        return calls[0] <= budget and bool(c["convs"]) and failing(c)

    convs = pk.ddmin(list(range(len(case["convs"]))), lambda keep: test(drop_convs(case, keep)), budget=budget)
    cur = drop_convs(case, convs) if len(convs) < len(case["convs"]) else copy.deepcopy(case)
    if not failing(cur):
        cur = copy.deepcopy(case)
    # drop restarts (every `new` but the first)
    i = len(cur["plan"]) - 1
    while i > 0 and calls[0] < budget * 2:
        if cur["plan"][i]["op"] == "new" and any(op["op"] == "new" for op in cur["plan"][:i]):
            cand = copy.deepcopy(cur)
            del cand["plan"][i]
            if test(cand):
                cur = cand
        i -= 1
    # drop single packets from the end of each capture (only for model/implementation differences: it
    # invalidates the ground truth the C05 oracle compares with)
    changed = drop_packets
    while changed and calls[0] < budget * 3:
        changed = False
        for fi in range(len(cur["files"])):
            while len(cur["files"][fi]["pkts"]) > 1 and calls[0] < budget * 3:
                cand = copy.deepcopy(cur)
                cand["files"][fi]["pkts"].pop()
                cand["no_truth"] = True
                if test(cand):
                    cur, changed = cand, True
                else:
                    break
    cur["tags"] = sorted(set(cur.get("tags", [])) | {"shrunk"})
    return cur


# ------------------------------------------------------------------------------------------------
# the check
# ------------------------------------------------------------------------------------------------

def load_corpus(prop):
    cases = []
    for p in sorted(glob.glob(os.path.join(pk.VERIF, "corpus", prop, "*.jsonl"))):
        for n, l in enumerate(open(p).read().split("\n")):
            l = l.strip()
            if l and not l.startswith("#"):
                cases.append(("corpus:%s:%d" % (os.path.basename(p), n + 1), l))
    return cases


def split(xs, n):
    k = max(1, (len(xs) + n - 1) // n)
    return [xs[i:i + k] for i in range(0, len(xs), k)]


def run_all(runner, lines, workers=8):
    """impl + model over all lines in parallel chunks -> (impl lines, model lines, {idx: complaints}, errors)"""
    chunks = split(list(enumerate(lines)), workers)
    impl, model, orc, errs = {}, {}, {}, []

    def work(chunk):
        ls = [l for _i, l in chunk]
        io, o, ierr = runner.impl(ls)
        mo, merr = runner.model(ls)
        return chunk, io, o, ierr, mo, merr

    with concurrent.futures.ThreadPoolExecutor(max_workers=workers) as ex:
        for chunk, io, o, ierr, mo, merr in ex.map(work, chunks):
            for j, (i, _l) in enumerate(chunk):
                impl[i] = io[j] if j < len(io) else None
                model[i] = mo[j] if j < len(mo) else None
                if j in o:
                    orc[i] = o[j]
            if ierr:
                errs.append("impl: " + ierr)
            if merr:
                errs.append("model: " + merr)
    return impl, model, orc, errs


def run(prop, tier, seed, replay, cfg):
    rep = pk.Report(prop, tier, seed)
    if not replay:
        for old in glob.glob(os.path.join(pk.VERIF, "replays", prop + "-*.json")):
            os.remove(old)
    thorough = tier == "thorough"
    ob = pk.check_obligations(prop, leanchecker=thorough)
    rep.coverage.update(pk.proof_coverage(
        ob, "cd /verif/lean && lake build Pk.Props.%s && lake env lean <#print axioms of every theorem>" % prop
        + (" && lake env leanchecker Pk.Props.%s" % prop if thorough else ""),
        ["Lean compiler/runtime for the executable model (pkmodel)",
         "correspondence harness /verif/harness/lib/importh + tools/checks/importcheck.py (differential, generated traffic)",
         "gopacket (layers, pcapgo, reassembly, libpcap reader) — third party; the theorems assume the record "
         "ReasmRecovers/ReasmLaws, validated by the differential run against the Lean reference reassembler"]))
    rep.assumptions = cfg["assumptions"]

    binpath, blog = pk.go_build(prop.lower())
    if binpath is None:
        rep.replay({"broken": "correspondence %s: harness does not build against /repo's working tree" % prop,
                    "log": blog[-3000:]}, no_input=True)
        rep.coverage.update({"evaluations": 0, "distinct_nontrivial": 0})
        return rep.finish()
    runner = Runner(prop, binpath)
    known = pk.known_findings(prop)

    if replay:
        data = json.load(open(replay))
        case = data.get("case")
        if case is None:
            print("replay file holds no case (", data.get("broken"), ")")
            return 1
        line = json.dumps(case, separators=(",", ":"))
        io, orc, err = runner.impl([line])
        mo, merr = runner.model([line])
        cs = orc.get(0, [])
        print("oracle complaints:")
        for c in cs:
            print("  ", c[:600])
        k = classify(case, cs, known) if cs else None
        if k:
            print("matches known finding(s):", [x["id"] for x in k])
        same = io[:1] == mo[:1]
        print("model == implementation:", same, err or "", merr or "")
        if not same and io and mo:
            a, b = io[0].split(" | "), mo[0].split(" | ")
            for x, y in zip(a, b):
                if x != y:
                    print(" impl :", x[:800])
                    print(" model:", y[:800])
                    break
        return 1 if ((cs and not k) or not same or err or merr) else 0

    # ---- cases: corpus first, then generated
    named = load_corpus(prop)
    ncases, nbig = cfg["thorough"] if thorough else cfg["quick"]
    seeds = [seed * 1000003 + 17 * i for i in range(cfg["seeds_thorough"] if thorough else 1)]
    per = max(1, ncases // len(seeds))
    for si, sd in enumerate(seeds):
        gl = runner.gen(sd, per, nbig if si == 0 else 0)
        named += [("seed:%d:%d" % (sd, i), l) for i, l in enumerate(gl)]
    lines = [l for _n, l in named]
    impl, model, orc, errs = run_all(runner, lines, workers=cfg.get("workers", 8))

    tags = collections.Counter()
    distinct = set()
    unmodelled = 0
    diffs, fails = [], []
    for i, (name, l) in enumerate(named):
        case = json.loads(l)
        for t in case.get("tags", []):
            tags[t] += 1
        if i in orc or impl.get(i) in (None, "panic", "error", "bad-case"):
            fails.append(i)
        if impl.get(i) != model.get(i):
            if model.get(i) is not None and " UNMODELLED" in model[i]:
                unmodelled += 1   # outside the reference reassembler (flagged by the model itself)
            else:
                diffs.append(i)
        if cfg["nontrivial"](case) and impl.get(i):
            distinct.add(pk.sha(impl[i].split(" | ", 1)[-1]))

    # ---- oracle failures: shrink, classify, report
    reported = set()
    budget = 12 if thorough else 6
    by_kind = collections.OrderedDict()
    for i in fails:
        ks = tuple(sorted({kind_of(c) for c in orc.get(i, [])})) or ("HARNESS:" + str(impl.get(i)),)
        by_kind.setdefault(ks, []).append(i)
    fresh = []
    for ks, idxs in by_kind.items():
        for i in idxs:
            case = json.loads(named[i][1])
            cs = orc.get(i, []) or ["HARNESS kind=%s conv=-1" % impl.get(i)]
            k = classify(case, cs, known)
            if k:
                for x in k:
                    rep.known_finding(x["text"])
            else:
                fresh.append((i, case, cs))
    for i, case, cs in fresh[:budget]:
        want = {kind_of(c) for c in cs}

        def failing(c):
            got = runner.complaints(c)
            return bool(got) and bool({kind_of(x) for x in got} & want) and classify(c, got, known) is None
        shrunk = shrink_case(case, failing) if len(json.dumps(case)) < 2_000_000 else case
        got = runner.complaints(shrunk)
        if not got:          # flaky or shrink artefact: report the original
            shrunk, got = case, cs
        key = pk.sha(json.dumps(shrunk, sort_keys=True))
        if key in reported:
            continue
        reported.add(key)
        il, _o, _e = runner.impl([json.dumps(shrunk)])
        ml, _me = runner.model([json.dumps(shrunk)])
        rep.replay({"kind": "oracle", "origin": named[i][0], "case": shrunk, "complaints": got[:12],
                    "statement": cfg["statement"], "actual": (il or [None])[0], "model": (ml or [None])[0]})
    if len(fresh) > budget:
        rep.notes.append("%d further failing cases not shrunk (budget)" % (len(fresh) - budget))

    # ---- model and implementation differ, oracle silent: search, else no-failing-input-found
    if (diffs or errs) and not rep.violations:
        found = None
        for j in range(4 if not thorough else 20):
            gl = runner.gen(seed * 7919 + 100000 + j, 150)
            _io, o2, _err = runner.impl(gl)
            for idx in sorted(o2):
                case = json.loads(gl[idx])
                if classify(case, o2[idx], known) is None:
                    found = (case, o2[idx])
                    break
            if found:
                break
        if found:
            case, cs = found
            want = {kind_of(c) for c in cs}
            shrunk = shrink_case(case, lambda c: bool({kind_of(x) for x in runner.complaints(c)} & want))
            rep.replay({"kind": "oracle", "case": shrunk, "complaints": runner.complaints(shrunk)[:12],
                        "statement": cfg["statement"]})
        elif diffs:
            i = diffs[0]
            case = json.loads(named[i][1])

            def differs(c):
                l = json.dumps(c)
                a, _o, _e = runner.impl([l])
                b, _m = runner.model([l])
                return a[:1] != b[:1] and not (b and " UNMODELLED" in b[0])
            shrunk = shrink_case(case, differs, drop_packets=True)
            l = json.dumps(shrunk)
            a, _o, _e = runner.impl([l])
            b, _m = runner.model([l])
            pa, pb = (a or [""])[0].split(" | "), (b or [""])[0].split(" | ")
            d = next((n for n, (x, y) in enumerate(zip(pa, pb)) if x != y), min(len(pa), len(pb)))
            rep.replay({"broken": "correspondence %s (canonical result line of the import model vs the real builder) "
                                  "no longer checks" % prop, "origin": named[i][0], "case": shrunk,
                        "first_difference": "part %d of the result line" % d,
                        "impl": pa[d][:2000] if d < len(pa) else None,
                        "model": pb[d][:2000] if d < len(pb) else None}, no_input=True)
        else:
            rep.replay({"broken": "correspondence %s: harness or model run failed" % prop, "errors": errs[:5]}, no_input=True)
    # ---- proof obligations
    if not ob.ok and not rep.violations:
        rep.replay({"broken": "proof obligations of Pk.Props.%s" % prop, "failed": ob.failed[:20], "log": ob.log[-2000:]},
                   no_input=True)

    sample = json.loads(named[-1][1])
    rep.coverage.update({
        "evaluations": len(named),
        "distinct_nontrivial": len(distinct),
        "rule": cfg["rule"],
        "samples": [{"case": named[-1][0], "tags": sample.get("tags"), "plan": sample.get("plan"),
                     "result": (impl.get(len(named) - 1) or "")[:600]}],
        "cases": len(named), "corpus_cases": len(load_corpus(prop)),
        "regimes": dict(tags), "model_impl_differences": len(diffs), "oracle_failures": len(fails),
        "outside_reference_reassembler": unmodelled,
    })
    return rep.finish()
