"""
C15 — the converter cache behaves like a map from stream to latest output.

obligations : theorems of lean/Pk/Props/C15.lean (kernel-checked, axioms audited)
tie         : op sequences (store / invalidate / reset / reopen / truncating reopen / reads) executed by the REAL
              cacheFile (harness c15, built from the repository's working tree, injected accessor in package
              converters) and by the Lean model (pkmodel c15); one output line per op, diffed.
              strict part  : file length, FNV-1a of the file bytes (commutative checksum when Go map order makes
                             the bytes nondeterministic), fileSize/freeSize/freeStart, the offset table
              observable   : Data / DataForSearch / Contains / StreamCount results
oracle      : plain Go map id -> latest chunks inside the harness, compared with EVERY read of EVERY id after
              every op (independent of the Lean model)
"""
import collections
import concurrent.futures
import glob
import json
import os
import re

import pk
from opstie import OpsTie, Case

PROP = "C15"
MUT = ("store", "inval", "reset", "reopen", "cut", "cutat")


def classify(shrunk_ops, complaints, known):
    """attribute a shrunk oracle failure to a recorded finding (all C15 findings are fixed: nothing matches)"""
    for k in known:
        if k.get("status") != "known":
            continue
        m = k.get("match", {})
        if m.get("classifier") == "ops-regex" and all(
                any(re.search(rx, op) for op in shrunk_ops) for rx in m.get("all", [])) and any(
                re.search(m.get("complaint", ""), c) for c in complaints):
            return k
    return None


def gen_ops(binpath, seed, n, mode):
    rc, o, e = pk.sh([binpath, "gen", "-seed", str(seed), "-n", str(n), "-mode", mode], env=pk.goenv(), timeout=120)
    if rc != 0:
        raise RuntimeError("generator failed: " + e)
    return [l for l in o.split("\n") if l]


def split(line):
    a, _, b = line.partition(" || ")
    return a, b


def run(tier, seed, replay=None):
    rep = pk.Report(PROP, tier, seed)
    for old in glob.glob(os.path.join(pk.VERIF, "replays", PROP + "-*.json")):
        os.remove(old)
    thorough = tier == "thorough"
    ob = pk.check_obligations(PROP, leanchecker=thorough)
    rep.coverage.update(pk.proof_coverage(
        ob, "cd /verif/lean && lake build Pk.Props.C15 && lake env lean <#print axioms of every theorem>"
        + (" && lake env leanchecker Pk.Props.C15" if thorough else ""),
        ["Lean compiler/runtime for the executable model (pkmodel)",
         "correspondence harness /verif/harness/cmd/c15 + accessor zz_verif_cachefile.go + tools/opstie.py "
         "(differential, generated op sequences)"]))
    rep.assumptions = [
        "os.File / bufio semantics: a file is a byte list, WriteAt/Truncate/append are atomic steps; a crash during "
        "a store is modelled as a byte prefix of the file (every truncation point)",
        "stream ids < 2^64-1 (2^64-1 marks deleted records), sizes < 2^63, chunk times less than 292 years apart",
        "chunks without content are not representable in the file format; the repaired code drops them at store "
        "time and the oracle compares with the stored list without them",
        "timestamps: a read-back time must be within 1 microsecond of the stored time",
        "the order of the content-type entries of one record follows Go map iteration; files containing a record "
        "with two or more content types are compared by length, commutative checksum and offset table only",
    ]

    binpath, blog = pk.go_build("c15")
    if binpath is None:
        rep.replay({"broken": "correspondence C15: harness does not build against the repository's working tree",
                    "log": blog[-3000:]}, no_input=True)
        rep.coverage.update({"evaluations": 0, "distinct_nontrivial": 0})
        return rep.finish()
    tie = OpsTie(binpath, "c15", timeout=900, extra_env={"VERIF_SCRATCH": pk.scratch()})

    if replay:
        data = json.load(open(replay))
        c = tie.run(Case("replay", data.get("ops", [])))
        print("oracle complaints:", c.oracle)
        print("first model/impl difference:", c.diff, c.error)
        if c.diff is not None:
            print(" op   :", c.ops[c.diff][:300] if c.diff < len(c.ops) else None)
            print(" impl :", c.impl[c.diff][:600] if c.diff < len(c.impl) else None)
            print(" model:", c.model[c.diff][:600] if c.diff < len(c.model) else None)
        return 1 if (c.oracle or c.diff is not None or c.error) else 0

    cases = []
    for p in sorted(glob.glob(os.path.join(pk.VERIF, "corpus", PROP, "*.ops"))):
        cases.append(Case("corpus:" + os.path.basename(p),
                          [l for l in open(p).read().split("\n") if l and not l.startswith("#")]))
    plan = [("small", 170, 60), ("big", 2, 6), ("half", 1, 4), ("sweep", 3, 0)] if not thorough else \
           [("small", 2500, 80), ("big", 14, 12), ("half", 5, 8), ("sweep", 60, 0)]
    k = 0
    for mode, count, n in plan:
        for _ in range(count):
            cases.append(Case("%s:%d" % (mode, seed * 1000003 + k), None))
            cases[-1].n = n
            k += 1

    def work(c):
        if c.ops is None:
            mode, s = c.name.split(":")
            c.ops = gen_ops(binpath, int(s), c.n, mode)
        return tie.run(c)

    # big cases first (they take longest), everything in parallel
    order = sorted(range(len(cases)), key=lambda i: 0 if cases[i].name.startswith(("half", "big")) else 1)
    with concurrent.futures.ThreadPoolExecutor(max_workers=min(12, os.cpu_count() or 4)) as ex:
        list(ex.map(work, [cases[i] for i in order]))

    known = pk.known_findings(PROP)
    opmix = collections.Counter()
    regimes = collections.Counter()
    states = set()
    evaluations = 0
    diffs, oracle_fail = [], []
    for c in cases:
        evaluations += len(c.ops)
        live = {}
        prev_len = 8
        for op, out in zip(c.ops, c.impl):
            f = op.split()
            res, strict = split(out)
            opmix[f[0]] += 1
            m = re.search(r"len=(\d+) .*free=(\d+) fstart=(\d+) infos=\[([^\]]*)\]", strict)
            if not m:
                regimes["closed_or_unparsed"] += 1
                continue
            ln, free, infos = int(m.group(1)), int(m.group(2)), m.group(4)
            if f[0] in MUT and (infos or ln != prev_len):
                states.add(pk.sha(f[0] + "|" + strict))
            if f[0] == "store":
                toks = f[3:]
                dirs = [t[0] for t in toks]
                if toks and dirs[0] == "s":
                    regimes["server_first"] += 1
                if any(a == b for a, b in zip(dirs, dirs[1:])):
                    regimes["same_direction_run"] += 1
                cts = {t.split(":")[3] for t in toks if t.split(":")[1]} - {""}
                if len(cts) >= 2:
                    regimes["record_with_2plus_content_types"] += 1
                if any(t.split(":")[3] for t in toks[8:]):
                    regimes["content_type_bitmask_2plus_bytes"] += 1
                if any(t.split(":")[1] == "" for t in toks):
                    regimes["empty_content_chunk"] += 1
                if not toks:
                    regimes["empty_chunk_list"] += 1
                ts = [int(f[2])] + [int(t.split(":")[2]) for t in toks]
                if any(b < a for a, b in zip(ts, ts[1:])):
                    regimes["time_goes_backwards"] += 1
                if any((b - a) % 1000 for a, b in zip(ts, ts[1:])):
                    regimes["sub_microsecond_delta"] += 1
                if f[1] in live:
                    regimes["store_replaces_live_record"] += 1
                if ln < prev_len:
                    regimes["compaction_inside_store"] += 1
                if int(f[1]) >= 2 ** 32:
                    regimes["stream_id_above_32_bits"] += 1
            elif f[0] == "inval":
                if res != "inv=[]":
                    regimes["invalidate_hits"] += 1
                else:
                    regimes["invalidate_misses"] += 1
            elif f[0] in ("cut", "cutat", "reopen"):
                if ln < prev_len and f[0] != "reopen" and (prev_len - ln) != (int(f[1]) if f[0] == "cut" else -1):
                    regimes["reopen_dropped_partial_record_or_compacted"] += 1
                if f[0] == "reopen" and ln < prev_len:
                    regimes["compaction_at_load"] += 1
                if f[0] == "cut" and int(f[1]) >= prev_len - 8 or f[0] == "cutat" and int(f[1]) < 8:
                    regimes["cut_inside_file_header"] += 1
                if f[0] != "reopen":
                    regimes["truncating_reopen"] += 1
            if free > 0:
                regimes["ops_with_dead_space"] += 1
            live = dict((e.split(":")[0], 1) for e in infos.split(",") if e)
            prev_len = ln
        if c.oracle or (c.error and "model" not in c.error):
            oracle_fail.append(c)
        elif c.diff is not None or c.error:
            diffs.append(c)

    # --- property oracle failed on the implementation: concrete failing input
    reported = set()
    for c in oracle_fail[:4]:
        shrunk = tie.shrink_oracle(c.ops, budget=150) if len(c.ops) < 400 else c.ops
        _l, orc, err = tie.impl(shrunk)
        if not (orc or err):
            shrunk = c.ops
            _l, orc, err = tie.impl(shrunk)
        kf = classify(shrunk, orc, known)
        if kf:
            rep.known_finding(kf["text"])
            continue
        key = pk.sha("\n".join(shrunk))
        if key in reported:
            continue
        reported.add(key)
        rep.replay({"kind": "oracle", "case": c.name, "ops": shrunk, "complaints": orc[:10], "error": err,
                    "statement": "a read of the real cache file differs from the map id -> latest stored chunks "
                                 "(expected = the map, actual = see complaints)"})
    # --- model and implementation differ, oracle silent: search, else no-failing-input-found
    if diffs and not rep.violations:
        c = min(diffs, key=lambda x: (x.name.startswith(("big", "half")), len(x.ops)))
        ops = c.ops[:c.diff + 1] if c.diff is not None else c.ops      # nothing after the first difference matters
        heavy = c.name.startswith(("big", "half")) or len(ops) >= 400
        shrunk = ops if heavy else tie.shrink_diff(ops, budget=120)
        cc = tie.run(Case("shrunk", shrunk))
        if cc.diff is None:
            cc = c
            shrunk = c.ops
        found = None
        for j in range(150 if not thorough else 1500):      # search: fresh seeds, oracle only
            ops = gen_ops(binpath, seed * 7919 + 100000 + j, 80, "small")
            _l, orc, err = tie.impl(ops)
            evaluations += len(ops)
            if orc or err:
                found = tie.shrink_oracle(ops, budget=150)
                break
        if found:
            _l, orc, err = tie.impl(found)
            kf = classify(found, orc, known)
            if kf:
                rep.known_finding(kf["text"])
            else:
                rep.replay({"kind": "oracle", "ops": found, "complaints": orc[:10], "error": err})
        else:
            d = cc.diff if cc.diff is not None else 0
            io, ist = split(cc.impl[d]) if d < len(cc.impl) else (None, None)
            mo, mst = split(cc.model[d]) if d < len(cc.model) else (None, None)
            stream = "observable (read results)" if io != mo else "strict (file bytes / accounting / offset table)"
            rep.replay({"broken": "correspondence C15, %s stream: Lean model Pk.Model.CacheFile and the real cacheFile "
                                  "disagree" % stream,
                        "case": c.name, "ops": shrunk, "first_difference": d, "error": cc.error,
                        "op": shrunk[d] if d < len(shrunk) else None,
                        "impl": cc.impl[d][:2000] if d < len(cc.impl) else None,
                        "model": cc.model[d][:2000] if d < len(cc.model) else None}, no_input=True)
    # --- proof obligations
    if not ob.ok and not rep.violations:
        rep.replay({"broken": "proof obligations of Pk.Props.C15", "failed": ob.failed[:20], "log": ob.log[-2000:]},
                   no_input=True)

    sample = next((c for c in cases if c.name.startswith("small")), cases[-1])
    rep.coverage.update({
        "evaluations": evaluations,
        "distinct_nontrivial": len(states),
        "rule": "op sequences generated by splitmix64 from VERIF_SEED: small (<=7 ids incl. one above 2^32, 0-9/17-20/"
                "55-66 chunks, same-direction runs, server first, content types on any subset, ns time parts, "
                "negative deltas, empty chunks, truncating reopen near the last records), big/half (dead space placed "
                "exactly on the 16 MiB and 50% compaction thresholds), sweep (truncation at every byte of the last two "
                "records); an op counts as non-trivial+distinct when it is a mutating op (store/inval/reset/reopen/"
                "cut) that leaves a non-empty offset table or changes the file length and its (op kind, file length, "
                "file hash, accounting, offset table) was not seen before in this run",
        "samples": [{"case": sample.name, "ops": [o[:200] for o in sample.ops[:8]],
                     "impl": [o[:300] for o in sample.impl[:8]]}],
        "cases": len(cases), "op_mix": dict(opmix), "regimes": dict(regimes),
        "model_impl_differences": len(diffs), "oracle_failures": len(oracle_fail),
    })
    return rep.finish()
