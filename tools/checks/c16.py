"""C16 — service-loop property; see tools/mgrfam.py and DESIGN.md §5 C16.
A second, oracle-only stage adds on-demand conversions through views (StreamContext.Data caches output for any
converter, attached or not), which the service-loop model does not contain; a third one holds conversions in flight (slow converter)."""
import mgrfam
import pk


def run(tier, seed, replay=None):
    if replay:
        return mgrfam.run("C16", tier, seed, replay)
    finish = pk.Report.finish
    holder = {}

    def capture(self):
        holder["rep"] = self
        return 0
    pk.Report.finish = capture          # run the family check, keep the report open for the second stage
    try:
        mgrfam.run("C16", tier, seed, None)
    finally:
        pk.Report.finish = finish
    rep = holder["rep"]
    mgrfam.stage(rep, "C16", tier, seed, gen_args=["-ondemand"], nsc=60 if tier != "thorough" else 600, nops=50,
                 label="ondemand", fields=[])
    # third, oracle-only stage: a SLOW converter — conversions stay in flight across imports, tag edits and detaches
    # (`convhold on … off`); the service-loop model converts when the job starts and cannot express this interleaving
    mgrfam.stage(rep, "C16", tier, seed, gen_args=["-slowconv"], nsc=60 if tier != "thorough" else 600, nops=50,
                 label="slowconv", fields=[])
    return rep.finish()
