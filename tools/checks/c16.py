"""C16 — service-loop property; see tools/mgrfam.py and DESIGN.md §5 C16."""
import mgrfam


def run(tier, seed, replay=None):
    return mgrfam.run("C16", tier, seed, replay)
