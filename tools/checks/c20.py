"""
C20 — no data races on shared service state (partial by design, DESIGN §5 C20).

(B) static   : harness/cmd/c20extract (go/ast + go/types, offline) regenerates lean/Pk/Gen/Access.lean
               from $VERIF_REPO on EVERY run (stale file deleted first): one row per (field, goroutine
               context, read|write, guaranteed lockset).  Obligations = theorems of Pk/Props/C20.lean,
               incl. `gen_access_ok` (the regenerated table satisfies the ownership discipline, decided by
               the kernel) and `discipline_implies_race_free`.  The same rows are fed to the executable
               model (`pkmodel c20`) which names the offending rows, and to an independent
               re-implementation of the discipline in this file (model / python tie).
(A) dynamic  : the scenario harness (harness/cmd/mgr) built with -race runs corpus + generated scenarios,
               gated ones and ones with a free-running tail (`free`: gates pass-through, API calls from
               several goroutines, listeners, pcap-over-ip endpoint, converter resets, watcher events).
               Every `WARNING: DATA RACE` report is canonicalised (tools/racerep.py) to the pair of
               innermost repository frames and classified against known_findings.json.
verdict      : unknown race pair → VIOLATION with the (shrunk) scenario as replay + the report text;
               discipline / obligations broken and no race found by the search → VIOLATION …
               no-failing-input-found naming `gen_access_ok` and the offending rows.
"""
import collections
import concurrent.futures
import glob
import json
import os
import re
import shutil

import pk
import racerep

PROP = "C20"
GEN_LEAN = os.path.join(pk.LEAN, "Pk", "Gen", "Access.lean")
CTXS = ["pre", "init", "loop", "job:import", "job:merge", "job:tag", "job:convert", "watcher", "worker", "api"]
MAIN = {"pre", "init"}
SERIAL = {"job:import", "job:merge", "job:tag", "job:convert"}


# ------------------------------------------------------------------------------------------------
# (B) static part
# ------------------------------------------------------------------------------------------------

def regenerate():
    """returns (facts dict | None, log)"""
    if os.path.exists(GEN_LEAN):
        os.remove(GEN_LEAN)          # never check against a stale file
    os.makedirs(os.path.dirname(GEN_LEAN), exist_ok=True)
    binpath, log = pk.go_build("c20extract")
    if binpath is None:
        return None, "extractor does not build: " + log[-2000:]
    js = os.path.join(pk.scratch(), "c20_access.json")
    rc, o, e = pk.sh([binpath, "-repo", pk.REPO, "-lean", GEN_LEAN, "-json", js], env=pk.goenv(), timeout=300)
    if rc != 0 or not os.path.exists(js) or not os.path.exists(GEN_LEAN):
        return None, "extractor failed: " + (o + e)[-2000:]
    return json.load(open(js)), ""


def write_stub_gen():
    with open(GEN_LEAN, "w") as fh:
        fh.write("/- stub: the extractor failed on this run -/\nimport Pk.Model.Access\nnamespace Pk.Gen.Access\nopen Pk.Access\n"
                 "def fieldNames : List String := [\"extractor-failed\"]\ndef lockNames : List String := []\n"
                 "def table : Table := [⟨0, .worker, true, []⟩]\nend Pk.Gen.Access\n")


def same_thread(c1, c2):
    return (c1 in MAIN and c2 in MAIN) or (c1 == "loop" and c2 == "loop")


def birth_ordered(c1, c2):
    return (c1 == "pre" and c2 not in MAIN) or (c1 == "init" and c2 not in MAIN and c2 != "watcher")


def common_lock(l1, l2):
    return any(a["Name"] == b["Name"] and (a["Mode"] == "w" or b["Mode"] == "w") for a in l1 for b in l2)


def safe_pair(r1, r2):
    c1, c2 = r1["ctx"], r2["ctx"]
    return (same_thread(c1, c2) or (c1 == c2 and c1 in SERIAL) or birth_ordered(c1, c2) or birth_ordered(c2, c1)
            or common_lock(r1["locks"], r2["locks"]))


def py_unsafe(rows, exceptions):
    """independent re-implementation of Pk.Access.unsafePairs (exceptions by field NAME)"""
    bad = []
    for r1 in rows:
        for r2 in rows:
            if r1["field"] != r2["field"] or not (r1["write"] or r2["write"]) or safe_pair(r1, r2):
                continue
            if any(f == r1["field"] and {a, b} == {r1["ctx"], r2["ctx"]} for (f, a, b) in exceptions):
                continue
            bad.append((r1, r2))
    return bad


def model_unsafe(facts, exceptions):
    """the same through the executable Lean model; returns (count | None, raw line)"""
    fid = {f: i for i, f in enumerate(facts["fields"])}
    lid = {l: i for i, l in enumerate(facts["locks"])}
    lines = []
    for r in facts["rows"]:
        ls = ",".join("%d:%s" % (lid[l["Name"]], l["Mode"]) for l in r["locks"]) or "-"
        lines.append("row %d %s %s %s" % (fid[r["field"]], r["ctx"], "w" if r["write"] else "r", ls))
    for (f, a, b) in exceptions:
        if f in fid:
            lines.append("exc %d %s %s" % (fid[f], a, b))
    lines.append("check")
    rc, o, e = pk.run_model("c20", "".join(l + "\n" for l in lines), timeout=300)
    out = [l for l in o.split("\n") if l]
    if rc != 0 or len(out) != len(lines) or any(l != "ok" for l in out[:-1]):
        return None, "driver rc=%d out=%s err=%s" % (rc, out[-1:] if out else "", e[-300:])
    last = out[-1]
    if last.startswith("ok "):
        return 0, last
    m = re.match(r"unsafe (\d+) :", last)
    return (int(m.group(1)) if m else None), last


def expected_exceptions():
    """(field name, ctx, ctx) triples of Expected.exceptions in Pk/Props/C20.lean (diagnostics mirror;
    the obligation itself is the Lean theorem gen_access_ok)"""
    src = pk.strip_comments(open(os.path.join(pk.LEAN, "Pk", "Props", "C20.lean"), encoding="utf8").read())
    m = re.search(r"def exceptions : Exceptions :=\s*\[(.*?)\]", src, re.S)
    res = []
    if m:
        lean2ctx = {"pre": "pre", "init": "init", "loop": "loop", "jobImport": "job:import", "jobMerge": "job:merge",
                    "jobTag": "job:tag", "jobConvert": "job:convert", "watcher": "watcher", "worker": "worker", "api": "api"}
        for t in re.finditer(r"\(\s*(?:Pk\.Gen\.Access\.)?F_(\w+)\s*,\s*\.(\w+)\s*,\s*\.(\w+)\s*\)", m.group(1)):
            res.append((t.group(1), lean2ctx.get(t.group(2), t.group(2)), lean2ctx.get(t.group(3), t.group(3))))
    return res


def check_obligations(leanchecker=False):
    ob = pk.Obligations()
    mod = "Pk.Props.C20"
    pf = os.path.join(pk.LEAN, "Pk", "Props", "C20.lean")
    ob.names = pk.theorem_names(pf)
    ok, log = pk.lake_build([mod, "pkmodel"])
    ob.log = log
    if not ok:
        errs = re.findall(r"error: ([^\n]*)", log)
        decl = []
        for ln, text in enumerate(open(pf, encoding="utf8").read().split("\n"), 1):
            m = re.match(r"\s*theorem\s+([^\s:({\[]+)", text)
            if m:
                decl.append((ln, "Pk.Props.C20." + m.group(1)))
        culprits = {}
        for m in re.finditer(r"Pk/Props/C20\.lean:(\d+):\d+: ([^\n]*)", log):
            owner = [t for (l, t) in decl if l <= int(m.group(1))]
            if owner:
                culprits.setdefault(owner[-1], m.group(2))
        for t, why in culprits.items():
            if t.endswith("gen_access_ok"):
                why = "the regenerated access table (lean/Pk/Gen/Access.lean) violates the discipline: " + why
            ob.failed.append((t, why))
        rest = "not checked: Pk.Props.C20 does not build (" + "; ".join(errs[:2]) + ")"
        ob.failed += [(n, rest) for n in ob.names if n not in culprits]
        if not ob.failed:
            ob.failed = [(mod, rest)]
        return ob
    hits = pk.forbidden_tokens([mod, "Pk.Driver.C20"])
    if hits:
        ob.failed = [(n, "forbidden token in lean/Pk: " + hits[0]) for n in ob.names]
        return ob
    res, _alog = pk.audit_axioms(mod, ob.names)
    for n in ob.names:
        ax = res.get(n)
        if ax is None:
            ob.failed.append((n, "theorem missing from compiled module"))
            continue
        bad = [a for a in ax if a not in pk.ALLOWED_AXIOMS]
        if bad:
            ob.failed.append((n, "depends on axioms %s" % bad))
        ob.axioms.update(ax)
    if leanchecker and ob.ok:
        rc, o, e = pk.sh(["lake", "env", "leanchecker", mod], cwd=pk.LEAN, timeout=3600)
        if rc != 0:
            ob.failed = [(n, "leanchecker rejected %s: %s" % (mod, (o + e)[-300:])) for n in ob.names]
    return ob


# ------------------------------------------------------------------------------------------------
# (A) dynamic part
# ------------------------------------------------------------------------------------------------

class Scn:
    def __init__(self, name, ops):
        self.name, self.ops = name, ops
        self.reports = []        # canonicalised RaceReport objects (key != None)
        self.ignored = collections.Counter()
        self.error = None
        self.stderr = ""
        self.lines = []


_ctr = [0]


def run_race(binpath, sc, timeout=420):
    _ctr[0] += 1
    d = os.path.join(pk.scratch(), "c20_%d_%d" % (os.getpid(), _ctr[0]))
    os.makedirs(d, exist_ok=True)
    env = pk.goenv()
    env["VERIF_SCRATCH"] = d
    env["GOMEMLIMIT"] = "3GiB"
    env["GORACE"] = "halt_on_error=0 log_path=%s" % os.path.join(d, "race")
    env["GOMAXPROCS"] = "4"
    rc, o, e = pk.sh([binpath, "run", "-oracle", os.path.join(d, "oracle.txt")],
                     stdin="".join(l + "\n" for l in sc.ops).encode(), env=env, timeout=timeout)
    sc.stderr = e[-3000:]
    text = ""
    for f in sorted(glob.glob(os.path.join(d, "race.*"))):
        text += open(f, errors="replace").read() + "\n"
    text += e if "WARNING: DATA RACE" in e else ""
    sc.reports, sc.ignored = [], collections.Counter()
    for r in racerep.parse_reports(text):
        racerep.canonicalise(r, pk.REPO)
        if r.key is None:
            sc.ignored[r.ignored] += 1
        else:
            sc.reports.append(r)
    sc.lines = []
    for l in o.split("\n"):
        if l.strip():
            try:
                sc.lines.append(json.loads(l))
            except ValueError:
                pass
    sc.error = None
    if rc == -9:
        sc.error = "hang"
    elif rc not in (0, 66):
        sc.error = "crash rc=%d" % rc
    if re.search(r"fatal error: concurrent map|concurrent map (read|writes|iteration)", e):
        sc.error = "concurrent map access detected by the runtime"
    shutil.rmtree(d, ignore_errors=True)
    return sc


def gen(binpath, seed, n, free=None):
    cmd = [binpath, "gen", "-seed", str(seed), "-n", str(n)]
    if free is not None:
        cmd += ["-free", str(free)]
    rc, o, e = pk.sh(cmd, env=pk.goenv(), timeout=120)
    if rc != 0:
        raise RuntimeError("generator failed: " + e)
    return [l for l in o.split("\n") if l]


def classify(rep_, known):
    """known finding whose matcher fits this canonical race pair, or None"""
    (fa, _), (fb, _) = rep_.key
    for k in known:
        if k.get("status") != "known":
            continue
        m = k.get("match", {})
        if m.get("classifier") != "race-pair":
            continue
        a, b = m.get("a", "$^"), m.get("b", "$^")
        pair = (re.search(a, fa) and re.search(b, fb)) or (re.search(a, fb) and re.search(b, fa))
        if pair and all(re.search(rx, rep_.text) for rx in m.get("text_all", [])):
            return k
    return None


def pair_str(key):
    return "%s [%s]  ×  %s [%s]" % (key[0][0], key[0][1], key[1][0], key[1][1])


def explain(key, facts):
    """fields that both functions of a race pair touch according to the static table (one of them writing)"""
    if not facts:
        return []
    fns = facts.get("functions", {})
    fa, fb = fns.get(key[0][0], {}).get("fields") or {}, fns.get(key[1][0], {}).get("fields") or {}
    return sorted(f for f in fa if f in fb and "w" in (fa[f], fb[f]))


# ------------------------------------------------------------------------------------------------

def run(tier, seed, replay=None):
    rep = pk.Report(PROP, tier, seed)
    for old in glob.glob(os.path.join(pk.VERIF, "replays", PROP + "-*.json")):
        os.remove(old)
    thorough = tier == "thorough"

    # ---- (B) regenerate facts, obligations, model/python tie
    facts, flog = regenerate()
    if facts is None:
        rep.notes.append(flog)
        write_stub_gen()
    ob = check_obligations(leanchecker=thorough)
    rep.coverage.update(pk.proof_coverage(
        ob, "cd /verif/lean && <regenerate Pk/Gen/Access.lean with harness/cmd/c20extract> && lake build Pk.Props.C20 pkmodel "
            "&& lake env lean <#print axioms of every theorem>" + (" && lake env leanchecker Pk.Props.C20" if thorough else ""),
        ["Lean compiler/runtime for the executable model (pkmodel c20)",
         "go/ast+go/types extractor /verif/harness/cmd/c20extract (regenerated access table: contexts by call graph, locksets by Lock/Unlock patterns)",
         "Go race detector (ThreadSanitizer runtime) and its report format; tools/racerep.py; tools/checks/c20.py",
         "scenario harness /verif/harness/cmd/mgr (+ free.go)"]))
    rep.assumptions = [
        "facts about goroutine structure assumed by the model (fields of `Threads`): one service-loop goroutine; New starts only "
        "watcher goroutines before it finished initialising; at most one instance of each background job at a time; API callers "
        "obtained the manager from New",
        "the static table is per field declaration: sharing of slice backing arrays / pointers handed out in events / function values "
        "stored in fields is invisible to it; lock identity is per declaration, not per object",
        "a func literal that is neither sent to mgr.jobs, started with go, passed to time.AfterFunc nor invoked on the spot runs in "
        "the context of the function creating it",
        "the race detector only sees interleavings that were executed",
    ]
    exceptions = expected_exceptions()
    static_bad, model_line, tie_problem = [], "", None
    if facts is not None:
        exc_named = [(f.replace("_", ".", 1), a, b) for (f, a, b) in exceptions]
        static_bad = py_unsafe(facts["rows"], exc_named)
        n_model, model_line = model_unsafe(facts, exc_named)
        if n_model is None:
            tie_problem = "executable model (pkmodel c20) failed on the regenerated table: " + model_line
        elif n_model != len(static_bad):
            tie_problem = ("discipline evaluated by the Lean model (%d unsafe pairs) and by the independent python "
                           "re-implementation (%d) disagree" % (n_model, len(static_bad)))
        st = facts["stats"]
        ctxrows = collections.Counter(r["ctx"] for r in facts["rows"])
        rep.coverage["access_table"] = {
            "rows": st["rows"], "fields": st["fields"], "functions_and_literals": st["nodes"], "rows_per_context": dict(ctxrows),
            "rows_with_locks": sum(1 for r in facts["rows"] if r["locks"]),
            "write_rows": sum(1 for r in facts["rows"] if r["write"]), "locks": facts["locks"],
            "constructor_accesses_skipped": st.get("constructor_accesses_skipped"),
            "unreached_functions": facts.get("unreached", []), "importer": st.get("importer"),
            "new_first_spawn_line": st.get("new_first_spawn_line"), "new_loop_start_line": st.get("new_loop_start_line"),
            "unsafe_pairs": len(static_bad), "model_verdict": model_line[:300], "exceptions": exceptions,
        }

    # ---- (A) race detector
    binpath, blog = pk.go_build("mgr", race=True)
    if binpath is None:
        rep.replay({"broken": "C20: scenario harness does not build with -race against the working tree", "log": blog[-3000:]},
                   no_input=True)
        rep.coverage.update({"evaluations": 0, "distinct_nontrivial": 0})
        return rep.finish()
    known = pk.known_findings(PROP)

    if replay:
        data = json.load(open(replay))
        ops = data.get("ops", [])
        seen = collections.Counter()
        unknown_seen, shown = False, False
        for i in range(int(os.environ.get("C20_REPLAY_RUNS", "5"))):
            sc = run_race(binpath, Scn("replay", ops))
            for r in sc.reports:
                k = classify(r, known)
                seen[("known %s: " % k["id"] if k else "UNKNOWN: ") + pair_str(r.key)] += 1
                unknown_seen = unknown_seen or k is None
                if k is None and not shown:
                    shown = True
                    print(racerep.scrub(r.text)[:3000])
            if sc.error:
                seen["error: " + sc.error] += 1
                unknown_seen = True
        for k, v in seen.items():
            print("%4d  %s" % (v, k))
        return 1 if unknown_seen else 0

    scenarios = []
    for p in sorted(glob.glob(os.path.join(pk.VERIF, "corpus", PROP, "*.sc"))):
        scenarios.append(Scn("corpus:" + os.path.basename(p),
                             [l for l in open(p).read().split("\n") if l and not l.startswith("#")]))
    n_gated, n_free = (20, 64) if not thorough else (200, 700)
    for i in range(n_gated):
        sd = seed * 1000003 + i
        scenarios.append(Scn("gated:%d" % sd, None))
    for i in range(n_free):
        sd = seed * 1000003 + 5000 + i
        scenarios.append(Scn("free:%d:%d" % (sd, [0, 12, 25][i % 3]), None))

    def work(sc):
        if sc.ops is None:      # generated inside the pool: a -race binary needs ~1 s to start
            f = sc.name.split(":")
            sc.ops = gen(binpath, int(f[1]), 45, free=None) if f[0] == "gated" else \
                gen(binpath, int(f[1]), 45 if not thorough else 70, free=int(f[2]))
        return run_race(binpath, sc)

    workers = max(2, min(12, (os.cpu_count() or 4) // 2))
    with concurrent.futures.ThreadPoolExecutor(max_workers=workers) as ex:
        list(ex.map(work, scenarios))

    # ---- classification
    st = collections.Counter()
    ignored = collections.Counter()
    pairs = {}                         # key -> (scenario, report)
    errors = []
    nontriv = set()
    events = 0
    for sc in scenarios:
        events += len(sc.lines)
        ignored.update(sc.ignored)
        completions = 0
        for l in sc.lines:
            ev = l.get("ev", {})
            op = ev.get("op", "?")
            if ev.get("free"):
                st["free:" + op] += 1
                if op == "freestats":
                    for j in ("import", "tag", "convert", "merge"):
                        st["free-job-completions:" + j] += int(ev.get(j, 0))
                        completions += int(ev.get(j, 0))
                    st["pcap-over-ip-connections-served"] += int(ev.get("served", 0))
            else:
                evs = [ev[k] for k in sorted(ev) if k.startswith("sub")] if op == "settle" else [ev]
                for e2 in evs:
                    if not e2.get("noop"):
                        st["gated:" + e2.get("op", "?")] += 1
                        if e2.get("op") == "rel":
                            completions += 1
        if completions:
            nontriv.add(pk.sha("\n".join(sc.ops)))
        if sc.error:
            errors.append(sc)
        for r in sc.reports:
            st["race-reports"] += 1
            pairs.setdefault(r.key, (sc, r))

    def reproduces(key, tries=3):
        def failing(ops):
            for _ in range(tries):
                s = run_race(binpath, Scn("shrink", ops), timeout=200)
                if any(r.key == key for r in s.reports):
                    return True
            return False
        return failing

    unknown = []
    for key, (sc, r) in sorted(pairs.items()):
        k = classify(r, known)
        if k:
            rep.known_finding(k["text"])
            st["known-race-pairs"] += 1
        else:
            unknown.append((key, sc, r))
    def shrink(ops, key, budget, tries=3):
        """races are schedule dependent and every run costs seconds: shortest reproducing prefix by bisection,
        then a small delta-debugging pass"""
        failing = reproduces(key, tries)
        lo, hi = 1, len(ops)
        while lo < hi and hi - lo > 2:
            mid = (lo + hi) // 2
            if failing(ops[:mid]):
                hi = mid
            else:
                lo = mid + 1
        cand = ops[:hi]
        if len(cand) > 4 and budget:
            cand = pk.ddmin(cand, failing, budget=budget)
        return cand if failing(cand) else list(ops)

    for n_rep, (key, sc, r) in enumerate(unknown[:3]):
        # full effort for the first pair, prefix bisection only for the others (each run costs seconds)
        shrunk = shrink(list(sc.ops), key, (3 if not thorough else 10) if n_rep == 0 else 0, 3 if n_rep == 0 else 2)
        rep.replay({"kind": "race", "case": sc.name, "ops": shrunk, "race_pair": pair_str(key), "access_kinds": list(r.kinds),
                    "fields_both_functions_touch_in_the_static_table": explain(key, facts),
                    "report": racerep.scrub(r.text)[:6000],
                    "all_unknown_race_pairs_of_this_run": [pair_str(k2) for (k2, _s, _r) in unknown],
                    "statement": "two goroutines access the same service state without synchronisation (Go race detector, "
                                 "binary built from the working tree); expected: no report outside known_findings.json",
                    "how_to_replay": "./check C20 --replay <this file>  (runs the scenario 5 times under the race detector)"})
    for sc in errors[:2]:
        if "concurrent map" in (sc.error or ""):
            rep.replay({"kind": "race", "case": sc.name, "ops": sc.ops, "error": sc.error, "stderr": sc.stderr[-2500:]})
    other_errors = [sc for sc in errors if "concurrent map" not in (sc.error or "")]
    if other_errors:
        rep.notes.append("%d scenario(s) ended with a harness error that is not a race report (%s); first: %s; stderr: %s" % (
            len(other_errors), other_errors[0].error, other_errors[0].name, other_errors[0].stderr[-1200:]))
    if len(other_errors) * 2 > len(scenarios) and not rep.violations:
        sc = other_errors[0]
        rep.replay({"broken": "C20 race stage: more than half of the scenarios did not run to the end — the stage is blind",
                    "case": sc.name, "ops": sc.ops[:80], "error": sc.error, "stderr": sc.stderr[-2000:]}, no_input=True)

    # ---- static part broke: search with more scenarios for a concrete race, else name the obligation
    broken = None
    if facts is None:
        broken = {"broken": "C20 facts: the extractor harness/cmd/c20extract failed on the working tree", "log": flog[-2000:]}
    elif static_bad:
        def desc(r):
            return "%s %s %s locks=[%s] at %s" % (r["field"], r["ctx"], "write" if r["write"] else "read",
                                                   ",".join(l["Name"] + ":" + l["Mode"] for l in r["locks"]), " ".join(r["sites"][:4]))
        seen_f = []
        for a, b in static_bad:
            d = {"field": a["field"], "row_a": desc(a), "row_b": desc(b)}
            if (a["field"], a["ctx"], b["ctx"]) not in [(x["field"], x.get("_c1"), x.get("_c2")) for x in seen_f] and \
                    (a["field"], b["ctx"], a["ctx"]) not in [(x["field"], x.get("_c1"), x.get("_c2")) for x in seen_f]:
                d["_c1"], d["_c2"] = a["ctx"], b["ctx"]
                seen_f.append(d)
        for d in seen_f:
            d.pop("_c1", None)
            d.pop("_c2", None)
        broken = {"broken": "theorem Pk.Props.C20.gen_access_ok: the access table regenerated from the working tree violates the "
                            "ownership discipline (a field is accessed from two goroutine contexts without a common lock)",
                  "offending_rows": seen_f[:12], "model": model_line[:1500],
                  "failed_obligations": ob.failed[:4]}
    elif not ob.ok:
        broken = {"broken": "proof obligations of Pk.Props.C20", "failed": ob.failed[:6], "log": ob.log[-1500:]}
    elif tie_problem:
        broken = {"broken": "correspondence C20: " + tie_problem}
    if broken and not rep.violations:
        budget = 40 if not thorough else 300
        extra = [Scn("search:%d" % j, None) for j in range(budget)]

        def work2(sc):
            j = int(sc.name.split(":")[1])
            sc.ops = gen(binpath, seed * 7919 + 900000 + j, 60, free=[0, 8][j % 2])
            return run_race(binpath, sc)

        with concurrent.futures.ThreadPoolExecutor(max_workers=workers) as ex:
            list(ex.map(work2, extra))
        found = {}
        for sc in extra:
            events += len(sc.lines)
            for r in sc.reports:
                if not classify(r, known):
                    found.setdefault(r.key, (sc, r))
        rep.coverage["search_scenarios"] = budget
        for key, (sc, r) in sorted(found.items())[:3]:
            shrunk = shrink(list(sc.ops), key, 3)
            rep.replay({"kind": "race", "found_by": "search after: " + broken["broken"][:160], "case": sc.name, "ops": shrunk,
                        "race_pair": pair_str(key), "fields_both_functions_touch_in_the_static_table": explain(key, facts),
                        "offending_rows": broken.get("offending_rows", [])[:6],
                        "report": racerep.scrub(r.text)[:6000]})
        if not rep.violations:
            rep.replay(broken, no_input=True)

    sample = next((s for s in scenarios if s.name.startswith("free:")), scenarios[-1])
    rep.coverage.update({
        "evaluations": events,
        "distinct_nontrivial": len(nontriv),
        "rule": "scenarios from splitmix64(VERIF_SEED) run on the real manager built with -race: gated ones (jobs parked at the "
                "verif gates, completions delivered in generated orders) and ones with a free-running tail after 0/12/25 gated "
                "ops (gates pass-through; imports, tag edits, marks, converter attach/reset/chmod, views reading streams and "
                "converter output on their own goroutines, Status/KnownPcaps/ListTags/ListConverters/ListPcapOverIPEndpoints, "
                "event listeners, webhooks, a pcap-over-ip endpoint served by a local TCP listener, > 1 s of run time so that the "
                "periodic tag-update worker fires). evaluations = ops executed; a scenario is non-trivial when at least one "
                "background job completed during it (distinct by content)",
        "samples": [{"case": sample.name, "ops": sample.ops[-25:]}],
        "scenarios": len(scenarios), "op_mix": dict(st),
        "race_pairs_seen": [pair_str(k) for k in sorted(pairs)],
        "race_reports_ignored_as_verification_code": dict(ignored),
        "harness_errors": len(errors),
    })
    return rep.finish()
