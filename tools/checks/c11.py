"""
C11 — tag management calls are total, atomic and keep the tag graph well-formed.

obligations : theorems of lean/Pk/Props/C11.lean (kernel-checked, axioms audited)
tie         : generated call sequences (AddTag / DelTag / UpdateTag of every kind) executed by REAL managers
              (harness c11: one child process per case, watchdog, observation when the service is quiet)
              and by the Lean model (pkmodel c11); outputs compared line by line as JSON
              (return class + ListTags fields + strict definition / match set through a read-only accessor;
              a `null` of the model = value depends on query evaluation, not compared)
oracle      : inside the harness, from the property statement: graph recomputed from the definitions with the
              real parser (closed, acyclic, Referenced mirrors it), error => nothing changed, success => the
              change is applied and nothing else, referenced tags are neither deleted nor renamed, mark
              add/del changes exactly the given existing ids, the service answers (no hang, no crash)
"""
import collections
import glob
import json
import os
import re

import pk
from opstie import OpsTie, Case

PROP = "C11"
CMP_ALWAYS = ("n", "d", "c", "ref", "cv")
CMP_IF_MODEL_KNOWS = ("sd", "m")


def same_line(impl, model):
    """canonical comparison of one output line (see module doc)"""
    if impl == model:
        return True
    try:
        a, b = json.loads(impl), json.loads(model)
    except (ValueError, TypeError):
        return False
    if not isinstance(a, dict) or not isinstance(b, dict) or a.get("r") != b.get("r"):
        return False
    ta, tb = a.get("tags"), b.get("tags")
    if ta is None or tb is None:
        return a == b
    if len(ta) != len(tb):
        return False
    for x, y in zip(ta, tb):
        if any(x.get(k) != y.get(k) for k in CMP_ALWAYS):
            return False
        if any(y.get(k) is not None and x.get(k) != y.get(k) for k in CMP_IF_MODEL_KNOWS):
            return False
    return True


class Tie(OpsTie):
    def run(self, case):
        case.impl, case.oracle, ierr = self.impl(case.ops)
        case.model, merr = self.model(case.ops)
        case.error = ierr or merr
        case.diff = None
        for i in range(min(len(case.impl), len(case.model))):
            if not same_line(case.impl[i], case.model[i]):
                case.diff = i
                break
        if case.diff is None and not (len(case.impl) == len(case.model) == len(case.ops)):
            case.diff = min(len(case.impl), len(case.model))
        return case


def is_new(line):
    return line.startswith('{"op":"new"')


def split_cases(ops):
    """[(first line index, [lines])] — a case is a `new` op and what follows"""
    res = []
    for i, l in enumerate(ops):
        if not res or is_new(l):
            res.append((i, []))
        res[-1][1].append(l)
    return res


def strip_facts(line):
    try:
        o = json.loads(line)
    except ValueError:
        return line
    o.pop("p", None)
    o.pop("x", None)
    return json.dumps(o, sort_keys=True)


def annotate(binpath, lines):
    rc, o, e = pk.sh([binpath, "annotate"], stdin="".join(l + "\n" for l in lines).encode(), env=pk.goenv(), timeout=300)
    if rc != 0:
        raise RuntimeError("annotate failed: " + e[-500:])
    return [l for l in o.split("\n") if l]


def gen_ops(binpath, seed, n):
    rc, o, e = pk.sh([binpath, "gen", "-seed", str(seed), "-n", str(n)], env=pk.goenv(), timeout=300)
    if rc != 0:
        raise RuntimeError("generator failed: " + e[-500:])
    return [l for l in o.split("\n") if l]


def classify(shrunk_ops, complaints, known):
    """attribute a shrunk failing case to a recorded finding (status=known) — specific matchers only"""
    for k in known:
        if k.get("status") != "known":
            continue
        m = k.get("match", {})
        if m.get("classifier") == "ops-regex" and all(
                any(re.search(rx, op) for op in shrunk_ops) for rx in m.get("all", [])) and any(
                re.search(m.get("complaint", ""), c) for c in complaints) and len(shrunk_ops) <= m.get("max_ops", 99):
            return k
    return None


def shrink_case(tie, lines, failing_of):
    """ddmin over the ops of one case, the `new` line is kept"""
    head, body = lines[:1], lines[1:]
    if not is_new(head[0]):
        head, body = [], lines

    def failing(xs):
        return failing_of(head + xs)
    if not body:
        return lines
    return head + pk.ddmin(list(body), failing, 40)


def run(tier, seed, replay=None):
    rep = pk.Report(PROP, tier, seed)
    for old in glob.glob(os.path.join(pk.VERIF, "replays", PROP + "-*.json")):
        os.remove(old)
    thorough = tier == "thorough"
    ob = pk.check_obligations(PROP, leanchecker=thorough)
    rep.coverage.update(pk.proof_coverage(
        ob, "cd /verif/lean && lake build Pk.Props.C11 && lake env lean <#print axioms of every theorem>"
        + (" && lake env leanchecker Pk.Props.C11" if thorough else ""),
        ["Lean compiler/runtime for the executable model (pkmodel)",
         "correspondence harness /verif/harness/cmd/c11 (+ read-only accessor zz_verif_c11.go) and tools/checks/c11.py",
         "query.Parse / Features / StreamIDs results are inputs of the model (supplied by the harness from the real parser)"]))
    rep.assumptions = [
        "one UpdateTag operation per call (the exported constructors); stream ids < 2^63",
        "converter.Reset() and saveState() do not fail (I/O faults are outside the property)",
        "the number of streams does not change while tags are managed (imports are C06/C08/C10)",
        "what a finished tagging job leaves for a plain id filter is Conditions.StreamIDs; other match sets are not compared",
        "uncertainty propagation (inheritTagUncertainty) is tied only through its termination behaviour and the settled "
        "match sets, not set by set (the background job consumes it at an unobservable time)"]

    binpath, blog = pk.go_build("c11")
    if binpath is None:
        rep.replay({"broken": "correspondence C11: harness does not build against /repo's working tree",
                    "log": blog[-3000:]}, no_input=True)
        rep.coverage.update({"evaluations": 0, "distinct_nontrivial": 0})
        return rep.finish()
    tie = Tie(binpath, "c11", timeout=1500, extra_env={"VERIF_SCRATCH": pk.scratch()})

    if replay:
        data = json.load(open(replay))
        ops = annotate(binpath, data.get("ops", []))
        c = tie.run(Case("replay", ops))
        print("oracle complaints:", c.oracle)
        print("first model/impl difference:", c.diff, c.error)
        if c.diff is not None:
            print(" op   :", c.ops[c.diff] if c.diff < len(c.ops) else None)
            print(" impl :", c.impl[c.diff] if c.diff < len(c.impl) else None)
            print(" model:", c.model[c.diff] if c.diff < len(c.model) else None)
        return 1 if (c.oracle or c.diff is not None or c.error) else 0

    # ---- inputs: corpus (facts recomputed), then generated cases
    ops = []
    ncorpus = 0
    for p in sorted(glob.glob(os.path.join(pk.VERIF, "corpus", PROP, "*.ops"))):
        lines = [l for l in open(p).read().split("\n") if l and not l.startswith("#")]
        ops += annotate(binpath, lines)
        ncorpus += 1
    ncases = 1500 if not thorough else 16000
    batches = [seed * 1000003 + i * 982451653 for i in range(1 if not thorough else 4)]  # far apart: lib.RNG streams of consecutive seeds overlap
    for b in batches:
        ops += gen_ops(binpath, b, ncases // len(batches))

    known = pk.known_findings(PROP)
    c = tie.run(Case("all", ops))
    cases = split_cases(ops)
    case_of_line = {}
    for ci, (start, lines) in enumerate(cases):
        for j in range(len(lines)):
            case_of_line[start + j] = ci

    # ---- statistics
    opmix, results, intents, regimes = (collections.Counter() for _ in range(4))
    nontrivial = set()
    for ci, (start, lines) in enumerate(cases):
        flags = set()
        prev_tags = {}
        for j, l in enumerate(lines):
            try:
                o = json.loads(l)
                out = json.loads(c.impl[start + j]) if start + j < len(c.impl) else {}
            except ValueError:
                continue
            opmix[o.get("op", "?")] += 1
            results[o.get("op", "?") + ":" + str(out.get("r"))] += 1
            if o.get("x"):
                intents[o["x"]] += 1
            if o.get("op") == "new":
                regimes["streams=%d" % o.get("next", 0)] += 1
                regimes["converters=%d" % len(o.get("convs", []))] += 1
                continue
            r = out.get("r")
            if r == "err":
                flags.add("error-return")
                regimes["error_returns"] += 1
            t = prev_tags.get(o.get("name"))
            if t is not None and t.get("ref"):
                regimes["call_on_referenced_tag:" + o["op"]] += 1
                if o["op"] in ("query", "rename", "del", "markadd", "markdel", "color", "conv"):
                    flags.add("update-of-referenced-tag")
            if o.get("op") in ("markadd", "markdel") and r == "ok" and o.get("ids"):
                regimes["mark_update_applied"] += 1
                if 0 in o["ids"]:
                    regimes["mark_update_applied_stream0"] += 1
            if o.get("op") == "query" and r == "ok":
                regimes["query_update_applied"] += 1
            if o.get("op") == "conv" and r == "ok" and o.get("convs"):
                regimes["converters_attached"] += 1
            if "tags" in out:
                prev_tags = {x["n"]: x for x in out["tags"]}
                regimes["max_tags"] = max(regimes["max_tags"], len(out["tags"]))
                if any(x.get("ref") for x in out["tags"]):
                    flags.add("has-references")
        if flags & {"error-return", "update-of-referenced-tag"}:
            nontrivial.add(pk.sha("\n".join(strip_facts(l) for l in lines)))
        for f in flags:
            regimes["cases_with_" + f] += 1

    # ---- oracle failures (property fails on the real code): shrink, classify, replay
    bad_cases = collections.OrderedDict()
    for line in c.oracle:
        m = re.match(r"ORACLE line=(\d+) (.*)", line)
        if m:
            bad_cases.setdefault(case_of_line.get(int(m.group(1)) - 1, 0), []).append(m.group(2))
    reported = set()
    for ci, complaints in list(bad_cases.items())[:6]:
        start, lines = cases[ci]

        def oracle_fails(xs):
            _l, orc, err = tie.impl(xs)
            return bool(orc) or err is not None
        shrunk = shrink_case(tie, lines, oracle_fails)
        _l, orc, err = tie.impl(shrunk)
        if not orc and err is None:          # not reproducible after shrinking: report the full case
            shrunk, orc = lines, ["ORACLE " + x for x in complaints]
        k = classify(shrunk, orc, known)
        if k:
            rep.known_finding(k["text"])
            continue
        key = pk.sha(re.sub(r"line=\d+", "", "\n".join(orc[:1])) + str(len(shrunk)))
        if key in reported:
            continue
        reported.add(key)
        rep.replay({"kind": "oracle", "case": "line %d" % (start + 1), "ops": [strip_facts(l) for l in shrunk],
                    "complaints": orc[:10], "error": err, "impl": _l,
                    "statement": "a tag management call must apply its change or reject it leaving all tags unchanged, never "
                                 "crash or hang, and keep the tag graph closed, acyclic and mirrored by Referenced"})
    # ---- model and implementation differ, oracle silent: search, else no-failing-input-found
    if c.diff is not None and not bad_cases:
        ci = case_of_line.get(c.diff, 0)
        start, lines = cases[ci]

        def differs(xs):
            return tie.run(Case("shrink", xs)).diff is not None
        shrunk = shrink_case(tie, lines, differs)
        cc = tie.run(Case("shrunk", shrunk))
        if cc.diff is None:
            shrunk = lines
            cc = tie.run(Case("case", shrunk))
        found = None
        for j in range(2 if not thorough else 10):       # search: fresh seeds, oracle only
            more = gen_ops(binpath, seed * 7919 + 100000 + j, ncases)
            _l, orc, err = tie.impl(more)
            if orc or err:
                mm = re.match(r"ORACLE line=(\d+)", orc[0]) if orc else None
                cs = split_cases(more)
                pick = cs[0][1]
                if mm:
                    for s, ls in cs:
                        if s <= int(mm.group(1)) - 1 < s + len(ls):
                            pick = ls

                def oracle_fails2(xs):
                    _l2, orc2, err2 = tie.impl(xs)
                    return bool(orc2) or err2 is not None
                found = shrink_case(tie, pick, oracle_fails2)
                break
        if found:
            _l, orc, err = tie.impl(found)
            k = classify(found, orc, known)
            if k:
                rep.known_finding(k["text"])
            else:
                rep.replay({"kind": "oracle", "ops": [strip_facts(l) for l in found], "complaints": orc[:10], "error": err})
        else:
            d = cc.diff if cc.diff is not None else 0
            rep.replay({"broken": "correspondence C11 (return class + ListTags + strict definition/match set after each call) "
                                  "no longer checks",
                        "ops": [strip_facts(l) for l in shrunk], "first_difference": d,
                        "op": strip_facts(shrunk[d]) if d < len(shrunk) else None,
                        "impl": cc.impl[d] if d < len(cc.impl) else None,
                        "model": cc.model[d] if d < len(cc.model) else None}, no_input=True)
    if c.error and not rep.violations and not bad_cases:
        rep.replay({"broken": "correspondence C11: harness or model run failed", "error": c.error}, no_input=True)
    # ---- proof obligations
    if not ob.ok and not rep.violations:
        rep.replay({"broken": "proof obligations of Pk.Props.C11", "failed": ob.failed[:20], "log": ob.log[-2000:]},
                   no_input=True)

    sample_case = cases[-1][1] if cases else []
    rep.coverage.update({
        "evaluations": len(ops),
        "distinct_nontrivial": len(nontrivial),
        "rule": "call sequences of 1-30 calls generated by splitmix64 from VERIF_SEED over a pool of 5 (+4) valid and 8 "
                "invalid names, definitions referencing existing / missing / own / mutually referencing tags (main and "
                "sub-query references, negated), id filters, unparsable and rejected definitions, marks on ids 0..next and "
                "unknown ids, 0-3 converters; evaluations = calls executed on a real manager; a case (whole sequence, "
                "facts stripped) counts as distinct+non-trivial when it contains an update of a referenced tag or an "
                "error return",
        "samples": [{"ops": [strip_facts(l) for l in sample_case[:8]],
                     "impl": c.impl[cases[-1][0]:cases[-1][0] + 8] if cases else []}],
        "cases": len(cases), "corpus_files": ncorpus, "op_mix": dict(opmix), "results": dict(results),
        "generator_intents": dict(intents), "regimes": dict(regimes),
        "model_impl_first_difference": c.diff, "oracle_complaints": len(c.oracle),
    })
    # second stage: the same property under scheduled completions of background jobs (a tagging job of an
    # earlier incarnation of a tag may still be in flight while the tag API is used)
    import mgrfam
    mgrfam.stage(rep, PROP, tier, seed)
    return rep.finish()
