"""
C17 — bitmask containers behave like sets of integers.

obligations : theorems of lean/Pk/Props/C17.lean (kernel-checked, axioms audited)
tie         : register-machine ops executed by the real Go types (harness c17, built from /repo's
              working tree) and by the Lean model (pkmodel c17); outputs diffed line by line
              (strict: representation; observable: OnesCount/Len/IsZero/IsSet/Equal/Next/Extract)
oracle      : integer-set model inside the harness (independent of the Lean model)
"""
import collections
import glob
import json
import os
import re

import pk
from opstie import OpsTie, Case

PROP = "C17"
MUT = ("set", "unset", "flip", "or", "and", "xor", "sub", "orc", "andc", "xorc", "subc", "copy", "shrink",
       "inject", "extract", "mk")


def classify(shrunk_ops, complaints, known):
    """attribute a shrunk oracle failure to a known finding (none are recorded for C17)"""
    for k in known:
        if k.get("status") != "known":
            continue
        m = k.get("match", {})
        if m.get("classifier") == "ops-regex" and all(
                any(re.search(rx, op) for op in shrunk_ops) for rx in m.get("all", [])) and any(
                re.search(m.get("complaint", ""), c) for c in complaints):
            return k
    return None


def gen_ops(binpath, seed, n):
    rc, o, e = pk.sh([binpath, "gen", "-seed", str(seed), "-n", str(n)], env=pk.goenv(), timeout=120)
    if rc != 0:
        raise RuntimeError("generator failed: " + e)
    return [l for l in o.split("\n") if l]


def run(tier, seed, replay=None):
    rep = pk.Report(PROP, tier, seed)
    for old in glob.glob(os.path.join(pk.VERIF, "replays", PROP + "-*.json")):
        os.remove(old)
    thorough = tier == "thorough"
    ob = pk.check_obligations(PROP, leanchecker=thorough)
    rep.coverage.update(pk.proof_coverage(
        ob, "cd /verif/lean && lake build Pk.Props.C17 && lake env lean <#print axioms of every theorem>"
        + (" && lake env leanchecker Pk.Props.C17" if thorough else ""),
        ["Lean compiler/runtime for the executable model (pkmodel)",
         "correspondence harness /verif/harness/cmd/c17 + tools/opstie.py (differential, generated ops)"]))
    rep.assumptions = ["bit positions < 2^32 (Go uint arithmetic is modelled by Nat)",
                       "ConnectedBitmask operands are produced by the container's own operations from "
                       "MakeConnectedBitmask(lo<=hi)"]

    binpath, blog = pk.go_build("c17")
    if binpath is None:
        rep.replay({"broken": "correspondence C17: harness does not build against /repo's working tree",
                    "log": blog[-3000:]}, no_input=True)
        rep.coverage.update({"evaluations": 0, "distinct_nontrivial": 0})
        return rep.finish()
    tie = OpsTie(binpath, "c17")

    if replay:
        data = json.load(open(replay))
        c = tie.run(Case("replay", data.get("ops", [])))
        print("oracle complaints:", c.oracle)
        print("first model/impl difference:", c.diff, c.error)
        if c.diff is not None:
            print(" op   :", c.ops[c.diff] if c.diff < len(c.ops) else None)
            print(" impl :", c.impl[c.diff] if c.diff < len(c.impl) else None)
            print(" model:", c.model[c.diff] if c.diff < len(c.model) else None)
        return 1 if (c.oracle or c.diff is not None or c.error) else 0

    cases = []
    for p in sorted(glob.glob(os.path.join(pk.VERIF, "corpus", PROP, "*.ops"))):
        cases.append(Case("corpus:" + os.path.basename(p), [l for l in open(p).read().split("\n") if l and not l.startswith("#")]))
    ncases, nops = (40, 5000) if not thorough else (400, 10000)
    for i in range(ncases):
        cases.append(Case("seed:%d" % (seed * 1000003 + i), None))

    known = pk.known_findings(PROP)
    opmix = collections.Counter()
    regimes = collections.Counter()
    states = set()
    evaluations = 0
    diffs, oracle_fail = [], []
    for c in cases:
        if c.ops is None:
            c.ops = gen_ops(binpath, int(c.name.split(":")[1]), nops)
        tie.run(c)
        evaluations += len(c.ops)
        for op, out in zip(c.ops, c.impl):
            f = op.split()
            opmix[f[0] + ":" + f[1]] += 1
            if f[0] in MUT and not out.startswith("[]") and out != "bad-op":
                states.add(f[1] + out.split(" ")[0])
            if f[1] == "c" and out.count("-") >= 2:
                regimes["conn_multi_run"] += 1
            if f[0] in ("set", "unset", "flip", "inject", "extract") and int(f[3]) % 64 in (0, 63):
                regimes["word_boundary_bit"] += 1
            if out.startswith("[]"):
                regimes["empty_mask"] += 1
            if f[0] == "equal" and out == "ret=1":
                regimes["equal_true"] += 1
        if c.oracle or c.error:
            oracle_fail.append(c)
        elif c.diff is not None:
            diffs.append(c)

    # --- property oracle failed on the implementation: concrete failing input
    reported = set()
    for c in oracle_fail[:5]:
        shrunk = tie.shrink_oracle(c.ops)
        _l, orc, err = tie.impl(shrunk)
        k = classify(shrunk, orc, known)
        if k:
            rep.known_finding(k["text"])
            continue
        key = pk.sha("\n".join(shrunk))
        if key in reported:
            continue
        reported.add(key)
        rep.replay({"kind": "oracle", "case": c.name, "ops": shrunk, "complaints": orc[:10], "error": err,
                    "statement": "integer-set oracle disagrees with the real container"})
    # --- model and implementation differ, oracle silent: search, else no-failing-input-found
    if diffs and not rep.violations:
        c = diffs[0]
        shrunk = tie.shrink_diff(c.ops)
        cc = tie.run(Case("shrunk", shrunk))
        found = None
        for j in range(60 if not thorough else 600):       # search: fresh seeds, oracle only
            ops = gen_ops(binpath, seed * 7919 + 100000 + j, 4000)
            _l, orc, err = tie.impl(ops)
            evaluations += len(ops)
            if orc or err:
                found = tie.shrink_oracle(ops)
                break
        if found:
            _l, orc, err = tie.impl(found)
            k = classify(found, orc, known)
            if k:
                rep.known_finding(k["text"])
            else:
                rep.replay({"kind": "oracle", "ops": found, "complaints": orc[:10], "error": err})
        else:
            d = cc.diff if cc.diff is not None else 0
            rep.replay({"broken": "correspondence C17 (strict stream: representation after each op) no longer checks",
                        "ops": shrunk, "first_difference": d,
                        "op": shrunk[d] if d < len(shrunk) else None,
                        "impl": cc.impl[d] if d < len(cc.impl) else None,
                        "model": cc.model[d] if d < len(cc.model) else None}, no_input=True)
    # --- proof obligations
    if not ob.ok and not rep.violations:
        rep.replay({"broken": "proof obligations of Pk.Props.C17", "failed": ob.failed[:20], "log": ob.log[-2000:]},
                   no_input=True)

    rep.coverage.update({
        "evaluations": evaluations,
        "distinct_nontrivial": len(states),
        "rule": "ops generated by splitmix64 from VERIF_SEED over 8 registers x 3 container kinds (bits biased to "
                "word boundaries 0/63/64/127/128 and adjacent runs); a case counts as non-trivial+distinct when a "
                "mutating op leaves a non-empty mask whose (kind, representation) was not seen before in this run",
        "samples": [{"case": cases[-1].name, "ops": cases[-1].ops[:12], "impl": cases[-1].impl[:12]}],
        "cases": len(cases), "op_mix": dict(opmix), "regimes": dict(regimes),
        "model_impl_differences": len(diffs), "oracle_failures": len(oracle_fail),
    })
    return rep.finish()
