"""C13 — service-loop property; see tools/mgrfam.py and DESIGN.md §5 C13."""
import mgrfam


def run(tier, seed, replay=None):
    return mgrfam.run("C13", tier, seed, replay)
