"""C09 — service-loop property; see tools/mgrfam.py and DESIGN.md §5 C09."""
import mgrfam


def run(tier, seed, replay=None):
    return mgrfam.run("C09", tier, seed, replay)
