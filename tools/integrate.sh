#!/bin/sh
# integrate.sh <ws-name> <relative paths...>: copy deliverables of a builder workspace into /verif
n=$1; shift
for p in "$@"; do
  src=/var/tmp/ws/$n/verif/$p
  if [ -d "$src" ]; then mkdir -p /verif/$p; rsync -a "$src/" /verif/$p/; else mkdir -p $(dirname /verif/$p); cp "$src" /verif/$p; fi
  echo "copied $p"
done
