#!/usr/bin/env python3
"""design_tables.py   regenerates the generated blocks of DESIGN.md (between <!-- BEGIN x --> / <!-- END x -->):
   findings  from known_findings.json,   seeded  from seeded/*/{meta,result,verified}.json"""
import glob, json, os, re
V = "/verif"


def findings():
    k = json.load(open(V + "/known_findings.json"))["findings"]
    rows = ["| id | property | disposition | commit | what fails (witness) |", "|---|---|---|---|---|"]
    for f in k:
        t = f["text"]
        t = re.sub(r"^(fixed|known): property=\S+ (\S+ )?", "", t) if t.startswith(("fixed:", "known:")) else t
        t = t.replace("|", "/").replace("\n", " ")
        if len(t) > 230:
            t = t[:227] + "…"
        w = f.get("witness", "")
        rows.append("| %s | %s | %s | %s | %s%s |" % (f.get("id", ""), f["property"], f["status"], f.get("commit", "—"), t,
                                                    (" (`%s`)" % w) if w else ""))
    return "\n".join(rows)


def seeded():
    rows = ["| id | change (one line) | needs | result of the quick checks on the changed tree |", "|---|---|---|---|"]
    for d in sorted(glob.glob(V + "/seeded/*/")):
        mid = os.path.basename(d.rstrip("/"))
        try:
            meta = json.load(open(d + "meta.json"))
        except Exception:
            continue
        res = json.load(open(d + "result.json")) if os.path.exists(d + "result.json") else {"checks": {}}
        ver = json.load(open(d + "verified.json")) if os.path.exists(d + "verified.json") else {}
        caught = []
        for p, r in sorted(res["checks"].items()):
            v = [l for l in r["lines"] if l.startswith("VIOLATION")]
            if v:
                caught.append(p + (" tie only (no-failing-input-found)" if all("no-failing-input-found" in l for l in v) else " replay"))
            else:
                caught.append(p + " silent")
        cut = lambda s, n: (s[:n - 1] + "…") if len(s) > n else s
        summ = cut(str(meta.get("summary", "")).replace("\n", " ").replace("|", "/"), 200)
        needs = cut(str(meta.get("needs", "")).replace("\n", " ").replace("|", "/"), 160)
        note = meta.get("status_note") or meta.get("limit_note")
        rows.append("| %s%s | %s | %s | %s |" % (mid, "" if ver.get("confirmed") else (" (superseded)" if meta.get("status_note") else " (unconfirmed)"), summ, needs,
                                                 ", ".join(caught) + ((" — " + cut(note, 230)) if note else "")))
    return "\n".join(rows)


def main():
    p = V + "/DESIGN.md"
    s = open(p, encoding="utf8").read()
    for name, fn in (("findings", findings), ("seeded", seeded)):
        b, e = "<!-- BEGIN %s -->" % name, "<!-- END %s -->" % name
        if b in s and e in s:
            s = s[:s.index(b) + len(b)] + "\n" + fn() + "\n" + s[s.index(e):]
    open(p, "w", encoding="utf8").write(s)


if __name__ == "__main__":
    main()
