#!/usr/bin/env python3
"""prints the markdown table of seeded changes (seeded/*/meta.json, result.json, verified.json)"""
import glob, json, os
rows = []
for d in sorted(glob.glob("/verif/seeded/*/")):
    mid = os.path.basename(d.rstrip("/"))
    try:
        meta = json.load(open(d + "meta.json"))
    except Exception:
        continue
    res = json.load(open(d + "result.json")) if os.path.exists(d + "result.json") else {"checks": {}}
    ver = json.load(open(d + "verified.json")) if os.path.exists(d + "verified.json") else {}
    caught = []
    for p, r in sorted(res["checks"].items()):
        v = [l for l in r["lines"] if l.startswith("VIOLATION")]
        if v:
            caught.append(p + (" (tie only: no-failing-input-found)" if all("no-failing-input-found" in l for l in v) else " (replay)"))
        else:
            caught.append(p + " MISSED")
    summ = str(meta.get("summary", "")).replace("\n", " ").replace("|", "/")
    needs = str(meta.get("needs", "")).replace("\n", " ").replace("|", "/")
    rows.append("| %s | %s | %s | %s | %s |" % (mid, summ[:170], needs[:170], "yes" if ver.get("confirmed") else "no", ", ".join(caught)))
print("| id | change | needs | confirmed independently | checks (after strengthening) |\n|---|---|---|---|---|")
print("\n".join(rows))
