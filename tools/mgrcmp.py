import json,subprocess,sys
def canon(x): return json.dumps(x,sort_keys=True)
def compare(path, verbose=True):
    lines=[json.loads(l) for l in open(path) if l.strip()]
    lines=[l for l in lines if 'ev' in l]
    evs="".join(json.dumps(l['ev'])+"\n" for l in lines)
    p=subprocess.run(['/verif/lean/.lake/build/bin/pkmodel','mgr','conv1'],input=evs.encode(),stdout=subprocess.PIPE)
    outs=[json.loads(l) for l in p.stdout.decode().split('\n') if l]
    for i,(a,b) in enumerate(zip(lines,outs)):
        st=dict(b['st']); div=st.pop('diverged');bad=st.pop('badchoice')
        if canon(a['st'])!=canon(st) or div or bad:
            if verbose:
                print(path,'DIFF at',i,json.dumps(a['ev'])[:300], 'div',div,'bad',bad)
                for k in a['st']:
                    if canon(a['st'][k])!=canon(st.get(k)): print('  ',k,'impl=',a['st'][k],'model=',st.get(k))
            return i
        r=a['ev'].get('res')
        if r and r!=b['res']:
            if verbose: print(path,'RES diff',i,a['ev'],b['res'])
            return i
    return None
if __name__=='__main__':
    n=0
    for p in sys.argv[1:]:
        if compare(p) is not None: n+=1
    print('differing:',n,'of',len(sys.argv)-1)
