#!/usr/bin/env python3
"""
seeded.py <id> <Cxx> [<Cyy> ...]   apply /verif/seeded/<id>/patch.diff to /repo, run the quick checks of the
                                    given properties, undo the change, and record what each check said in
                                    /verif/seeded/<id>/result.json.
The change is never committed to /repo; `git checkout -- .` (and removal of new files) follows at once.
"""
import json
import os
import subprocess
import sys
import time

VERIF = "/verif"
# default: a scratch worktree of /repo (checks follow VERIF_REPO), so that /repo itself — which background
# sweeps may be using — is never changed; `SEEDED_IN_PLACE=1` applies the patch to /repo itself instead
IN_PLACE = os.environ.get("SEEDED_IN_PLACE") == "1"
REPO = "/repo"


def sh(cmd, cwd=None, timeout=3600):
    p = subprocess.run(cmd, cwd=cwd, shell=isinstance(cmd, str), stdout=subprocess.PIPE, stderr=subprocess.STDOUT, timeout=timeout)
    return p.returncode, p.stdout.decode("utf8", "replace")


def main():
    global REPO
    mid, props = sys.argv[1], sys.argv[2:]
    d = os.path.join(VERIF, "seeded", mid)
    patch = os.path.join(d, "patch.diff")
    if not IN_PLACE:
        REPO = "/var/tmp/seeded-" + mid
        sh(["git", "-C", "/repo", "worktree", "remove", "--force", REPO])
        rc, out = sh(["git", "-C", "/repo", "worktree", "add", "-q", "--detach", REPO, "HEAD"])
        if rc != 0:
            print("cannot create worktree:\n" + out)
            return 2
        os.environ["VERIF_REPO"] = REPO
    rc, out = sh(["git", "-C", REPO, "status", "--porcelain"])
    if out.strip():
        print("refusing: %s has uncommitted changes:\n" % REPO + out)
        return 2
    rc, out = sh(["git", "-C", REPO, "apply", "--3way", patch])
    if rc != 0:
        rc, out = sh(["git", "-C", REPO, "apply", patch])
    if rc != 0:
        print("patch does not apply:\n" + out)
        sh(["git", "-C", REPO, "checkout", "--", "."])
        return 2
    results = {}
    # evidence files describe runs on the unchanged tree: keep them, the runs below are on a changed one
    saved = {}
    for p in props:
        ep = os.path.join(VERIF, "evidence", p + ".json")
        if os.path.exists(ep):
            saved[ep] = open(ep, "rb").read()
    try:
        for p in props:
            t0 = time.time()
            rc, out = sh(["./check", p, "quick"], cwd=VERIF)
            lines = [l for l in out.split("\n") if l.startswith("VIOLATION") or l.startswith("KNOWN-FINDING")]
            replay = None
            for l in lines:
                if "replay=" in l:
                    path = l.split("replay=")[1].split()[0]
                    try:
                        replay = json.load(open(path))
                    except Exception:  # noqa: BLE001
                        replay = None
                    break
            results[p] = {"exit": rc, "lines": lines, "wall_s": round(time.time() - t0, 1),
                          "replay_excerpt": json.dumps(replay)[:1500] if replay else None}
            print(p, "exit", rc, lines[:3])
    finally:
        sh(["git", "-C", REPO, "reset", "-q", "--hard", "HEAD"])
        sh(["git", "-C", REPO, "clean", "-fdq"])
        for ep, data in saved.items():
            open(ep, "wb").write(data)
    json.dump({"mutant": mid, "checks": results, "at_repo_commit": sh(["git", "-C", REPO, "rev-parse", "--short", "HEAD"])[1].strip()},
              open(os.path.join(d, "result.json"), "w"), indent=1)
    # (at_repo_commit is taken before the worktree is removed)
    rc, out = sh(["git", "-C", REPO, "status", "--porcelain"])
    if out.strip():
        print("WARNING: %s not clean after undo:\n" % REPO + out)
    if not IN_PLACE:
        sh(["git", "-C", "/repo", "worktree", "remove", "--force", REPO])
    return 0


if __name__ == "__main__":
    sys.exit(main())
