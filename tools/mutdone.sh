#!/bin/bash
# mutdone.sh <id> <props...>   collect a finished mutant, remove its worktree, confirm independently, run the checks on it
id=$1; shift
cd /verif && mkdir -p seeded/$id && cp -r /var/tmp/mut/$id/_mutant/* seeded/$id/ && git -C /repo worktree remove --force /var/tmp/mut/$id; git -C /repo branch -D mut-$id -q
python3 tools/verify_seeded.py $id 2>&1 | tail -1
python3 tools/seeded.py $id "$@" 2>&1 | tail -${#@}
