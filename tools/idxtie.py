#!/usr/bin/env python3
"""
Shared pipeline of the index-file checks C01 and C07 (DESIGN §1.3): obligations -> corpus ->
generated cases through the register machine (real index.Writer/Reader/Merge vs `pkmodel`) ->
oracle failures shrunk and classified -> model/impl differences searched -> evidence.

A case is a list of op lines (see lean/Pk/Driver/Index.lean); lines starting with '#' are comments
(the generator's regime counters).
"""
import collections
import concurrent.futures
import glob
import itertools
import json
import os
import re
import shutil
import threading
import time

import pk
from opstie import OpsTie, Case


# ------------------------------------------------------------------------------------------
# obligations: the forbidden-token scan is restricted to the import closure of the property
# (other properties' files in lean/Pk are not this property's obligations)
# ------------------------------------------------------------------------------------------

def import_closure(module):
    seen, todo = set(), [module]
    while todo:
        m = todo.pop()
        if m in seen or not m.startswith("Pk."):
            continue
        path = os.path.join(pk.LEAN, *m.split(".")) + ".lean"
        if not os.path.exists(path):
            continue
        seen.add(m)
        for line in open(path, encoding="utf8"):
            mm = re.match(r"\s*import\s+(\S+)", line)
            if mm:
                todo.append(mm.group(1))
    return sorted(seen)


def forbidden_in(modules):
    hits = []
    for m in modules:
        p = os.path.join(pk.LEAN, *m.split(".")) + ".lean"
        txt = pk.strip_comments(open(p, encoding="utf8").read())
        for n, line in enumerate(txt.split("\n"), 1):
            l2 = re.sub(r'"(\\.|[^"\\])*"', '""', line)
            if pk.FORBIDDEN.search(l2):
                hits.append("%s:%d: %s" % (os.path.relpath(p, pk.LEAN), n, line.strip()))
    return hits


def check_obligations(prop, driver_modules=(), leanchecker=False):
    """theorems of Pk/Props/<prop>.lean and of the modules pk.EXTRA_PROPS lists for it"""
    return pk.check_obligations(prop, extra_modules=driver_modules, leanchecker=leanchecker)


# ------------------------------------------------------------------------------------------
# tie
# ------------------------------------------------------------------------------------------

class IdxTie(OpsTie):
    """every harness call gets its own scratch directory for index files (thread safe)"""

    _ctr = itertools.count(1)
    _lock = threading.Lock()

    def __init__(self, harness_bin, model_arg, timeout=900, search=False):
        OpsTie.__init__(self, harness_bin, model_arg, timeout=timeout)
        self.search = search

    def impl(self, ops):
        with IdxTie._lock:
            n = next(IdxTie._ctr)
        d = os.path.join(pk.scratch(), "run%d" % n)
        os.makedirs(d, exist_ok=True)
        opath = os.path.join(d, "oracle.txt")
        args = [self.bin, "run", "-dir", d, "-oracle", opath]
        text = "".join(l + "\n" for l in ops if not l.startswith("#"))
        rc, o, e = pk.sh(args, stdin=text.encode(), env=self.env, timeout=self.timeout)
        orc = []
        if os.path.exists(opath):
            orc = [l for l in open(opath).read().split("\n") if l]
        shutil.rmtree(d, ignore_errors=True)
        err = None
        if rc == -9:
            err = "hang"
        elif rc != 0:
            err = "crash rc=%d %s" % (rc, e[-500:])
        lines = o.split("\n")[:-1] if o.endswith("\n") else o.split("\n")
        return lines, orc, err

    def model(self, ops):
        return OpsTie.model(self, [l for l in ops if not l.startswith("#")])

    def run(self, case):
        ops = [l for l in case.ops if not l.startswith("#")]
        case.impl, case.oracle, ierr = self.impl(ops)
        case.model, merr = self.model(ops)
        case.error = ierr or merr
        case.diff = pk.first_diff(case.impl, case.model)
        if case.diff is None and len(case.impl) != len(ops):
            case.diff = len(case.impl)
        return case


STRUCT = ("new", "fin", "merge")


def shrink_oracle(tie, ops, budget_s=90):
    """smallest op list on which the property oracle still complains (or the run crashes/hangs)"""
    ops = [l for l in ops if not l.startswith("#")]
    t0 = time.time()

    def failing(xs):
        if time.time() - t0 > budget_s:
            return False
        _l, orc, err = tie.impl(xs)
        return bool(orc) or err is not None

    # 1. keep only the first complained observer op plus everything that builds state
    _l, orc, err = tie.impl(ops)
    lines = sorted({int(m.group(1)) for c in orc for m in [re.match(r"ORACLE line=(\d+)", c)] if m})
    if lines:
        keep = lines[0] - 1
        cand = [l for i, l in enumerate(ops) if i == keep or l.split(" ", 1)[0] in ("new", "add", "fin", "merge")]
        if failing(cand):
            ops = cand
    # 2. delta debugging over the remaining lines
    return pk.ddmin(list(ops), failing, budget=250)


def shrink_diff(tie, ops, budget_s=90):
    ops = [l for l in ops if not l.startswith("#")]
    t0 = time.time()

    def failing(xs):
        if time.time() - t0 > budget_s:
            return False
        c = tie.run(Case("shrink", xs))
        return c.diff is not None

    return pk.ddmin(list(ops), failing, budget=150)


def classify(shrunk_ops, complaints, known):
    """attribute a shrunk oracle failure to a recorded (status=known) finding"""
    for k in known:
        if k.get("status") != "known":
            continue
        m = k.get("match", {})
        if m.get("classifier") != "complaint-regex":
            continue
        if not complaints or not all(re.search(m.get("complaint", "$^"), c) for c in complaints):
            continue
        if all(any(re.search(rx, op) for op in shrunk_ops) for rx in m.get("ops_all", [])):
            return k
    return None


def gen_case(binpath, seed, idx, tier):
    rc, o, e = pk.sh([binpath, "gen", "-seed", str(seed), "-case", str(idx), "-tier", tier], env=pk.goenv(), timeout=300)
    if rc != 0:
        raise RuntimeError("generator failed: " + e[-500:])
    return [l for l in o.split("\n") if l]


def header_regimes(ops, counter):
    kind = "corpus"
    for l in ops:
        if l.startswith("# kind="):
            parts = l[2:].split()
            kind = parts[0].split("=", 1)[1]
            for p in parts[1:]:
                k, _, v = p.partition("=")
                try:
                    counter[k] += int(v)
                except ValueError:
                    pass
    counter["case_kind_" + kind] += 1
    return kind


def run_check(cfg, tier, seed, replay=None):
    """cfg: dict(prop, harness, model_arg, ncases(tier)->int, assumptions, rule, required_regimes, search(bool),
    nontrivial(op, out)->key|None, statement)"""
    PROP = cfg["prop"]
    rep = pk.Report(PROP, tier, seed)
    for old in glob.glob(os.path.join(pk.VERIF, "replays", PROP + "-*.json")):
        os.remove(old)
    thorough = tier == "thorough"
    ob = check_obligations(PROP, driver_modules=["Pk.Driver.%s" % PROP], leanchecker=thorough)
    rep.coverage.update(pk.proof_coverage(
        ob, "cd /verif/lean && lake build Pk.Props.%s pkmodel && lake env lean <#print axioms of every theorem>" % PROP
        + (" && lake env leanchecker Pk.Props.%s" % PROP if thorough else ""),
        ["Lean compiler/runtime for the executable model (pkmodel %s)" % cfg["model_arg"],
         "correspondence harness /verif/harness/cmd/%s + harness/lib/idx + tools/idxtie.py (differential, generated cases)" % cfg["harness"],
         "independent Go parser of the index file layout in harness/lib/idx/file.go (strict stream)"]))
    rep.assumptions = cfg["assumptions"]

    binpath, blog = pk.go_build(cfg["harness"])
    if binpath is None:
        rep.replay({"broken": "correspondence %s: harness does not build against the repository's working tree" % PROP,
                    "log": blog[-3000:]}, no_input=True)
        rep.coverage.update({"evaluations": 0, "distinct_nontrivial": 0, "rule": cfg["rule"], "samples": []})
        return rep.finish()
    tie = IdxTie(binpath, cfg["model_arg"])
    if cfg.get("search"):
        tie.env["VERIF_IDX_SEARCH"] = "1"

    if replay:
        data = json.load(open(replay))
        c = tie.run(Case("replay", data.get("ops", [])))
        print("oracle complaints:", c.oracle[:10])
        print("first model/impl difference:", c.diff, c.error)
        if c.diff is not None:
            ops = [l for l in c.ops if not l.startswith("#")]
            print(" op   :", ops[c.diff][:300] if c.diff < len(ops) else None)
            print(" impl :", c.impl[c.diff][:600] if c.diff < len(c.impl) else None)
            print(" model:", c.model[c.diff][:600] if c.diff < len(c.model) else None)
        return 1 if (c.oracle or c.diff is not None or c.error) else 0

    cases = []
    for p in sorted(glob.glob(os.path.join(pk.VERIF, "corpus", PROP, "*.ops"))):
        cases.append(Case("corpus:" + os.path.basename(p), [l for l in open(p).read().split("\n") if l]))
    ncorpus = len(cases)
    n = cfg["ncases"](tier)
    gens = [(seed, i) for i in range(n)]
    if thorough:
        # several derived seeds for the small regimes
        for k in range(1, cfg.get("thorough_seeds", 3) + 1):
            gens += [(seed * 1000 + k, i) for i in range(cfg.get("first_small", 0), n)]
    regimes = collections.Counter()

    def work(item):
        if isinstance(item, Case):
            c = item
        else:
            s, i = item
            c = Case("gen:%d:%d" % (s, i), gen_case(binpath, s, i, tier))
        return tie.run(c)

    with concurrent.futures.ThreadPoolExecutor(max_workers=min(14, os.cpu_count() or 4)) as ex:
        done = list(ex.map(work, cases + gens))
    cases = done

    known = pk.known_findings(PROP)
    opmix = collections.Counter()
    nontrivial = set()
    evaluations = 0
    diffs, oracle_fail = [], []
    for c in cases:
        header_regimes(c.ops, regimes)
        ops = [l for l in c.ops if not l.startswith("#")]
        evaluations += len(ops)
        for op, out in zip(ops, c.impl):
            o = op.split(" ", 1)[0]
            opmix[o] += 1
            k = cfg["nontrivial"](o, out)
            if k is not None:
                nontrivial.add(k)
            for rx, name in cfg.get("out_regimes", []):
                if re.search(rx, out):
                    regimes[name] += 1
        if c.oracle or c.error:
            oracle_fail.append(c)
        elif c.diff is not None:
            diffs.append(c)

    # --- property oracle failed on the implementation: concrete failing input
    reported = set()
    for c in oracle_fail[:4]:
        shrunk = shrink_oracle(tie, c.ops)
        _l, orc, err = tie.impl(shrunk)
        if not orc and err is None:          # shrinking budget ran out on a flaky reduction: fall back to the full case
            shrunk = [l for l in c.ops if not l.startswith("#")]
            _l, orc, err = tie.impl(shrunk)
        k = classify(shrunk, orc, known)
        if k:
            rep.known_finding(k["text"])
            continue
        key = pk.sha(" ".join(re.sub(r"\d+", "N", x.split(" ", 2)[-1]) for x in orc[:1]) + str(err))
        if key in reported:
            continue
        reported.add(key)
        rep.replay({"kind": "oracle", "case": c.name, "ops": shrunk, "complaints": orc[:10], "error": err,
                    "statement": cfg["statement"]})
    # --- model and implementation differ, oracle silent: search, else no-failing-input-found
    if diffs and not rep.violations:
        c = diffs[0]
        shrunk = shrink_diff(tie, c.ops)
        cc = tie.run(Case("shrunk", shrunk))
        if cc.diff is None:
            shrunk = [l for l in c.ops if not l.startswith("#")]
            cc = tie.run(Case("full", shrunk))
        found = None
        nsearch = 40 if not thorough else 400
        base = 100000

        def probe(j):
            ops = gen_case(binpath, seed * 7919 + base + j, cfg.get("first_small", 0) + j % 23, tier)
            _l, orc, err = tie.impl(ops)
            return ops, orc, err

        with concurrent.futures.ThreadPoolExecutor(max_workers=min(14, os.cpu_count() or 4)) as ex:
            for ops, orc, err in ex.map(probe, range(nsearch)):
                evaluations += len(ops)
                if (orc or err) and found is None:
                    found = ops
        if found:
            found = shrink_oracle(tie, found)
            _l, orc, err = tie.impl(found)
            k = classify(found, orc, known)
            if k:
                rep.known_finding(k["text"])
            else:
                rep.replay({"kind": "oracle", "ops": found, "complaints": orc[:10], "error": err, "statement": cfg["statement"]})
        else:
            d = cc.diff if cc.diff is not None else 0
            rep.replay({"broken": "correspondence %s (model vs implementation, strict and observable lines of the register machine) "
                                  "no longer checks" % PROP,
                        "case": c.name, "ops": shrunk, "first_difference": d,
                        "op": shrunk[d][:2000] if d < len(shrunk) else None,
                        "impl": cc.impl[d][:4000] if d < len(cc.impl) else None,
                        "model": cc.model[d][:4000] if d < len(cc.model) else None,
                        "error": cc.error}, no_input=True)
    # --- proof obligations
    if not ob.ok and not rep.violations:
        rep.replay({"broken": "proof obligations of Pk.Props.%s" % PROP, "failed": ob.failed[:20], "log": ob.log[-2000:]},
                   no_input=True)
    # --- generator quality: every required regime must have been exercised
    missing = [r for r in cfg.get("required_regimes", []) if regimes.get(r, 0) == 0]
    if missing:
        rep.notes.append("regimes not reached in this run: %s" % ", ".join(missing))

    sample = next((c for c in cases[ncorpus:] if len(c.ops) < 60), cases[-1])
    rep.coverage.update({
        "evaluations": evaluations,
        "distinct_nontrivial": len(nontrivial),
        "rule": cfg["rule"],
        "samples": [{"case": sample.name, "ops": [o[:400] for o in sample.ops[:14]], "impl": [o[:400] for o in sample.impl[:13]]}],
        "cases": len(cases), "corpus_cases": ncorpus, "op_mix": dict(opmix), "regimes": dict(sorted(regimes.items())),
        "model_impl_differences": len(diffs), "oracle_failures": len(oracle_fail),
    })
    return rep.finish()
