"""
Shared check for the service-loop properties (C06, C09, C10, C13, C16): one scenario harness
(harness/cmd/mgr, real manager with the four background jobs parked at the `verif` gates), one Lean
model (Pk/Model/Manager.lean through `pkmodel mgr`), property-specific obligations, state fields and
oracle complaints.
"""
import collections
import concurrent.futures
import glob
import json
import os
import re

import pk

FIELDS = {
    "C11": ["tags"],
    "C12": [],
    "C06": ["tags", "upd", "rst", "add", "all", "next"],
    "C09": ["queue", "merge", "tag", "convert", "unm", "toconv", "nrec"],
    "C10": ["idx", "files", "next"],  # (the builder's list of known captures is C08's business: empty captures are not listed)
    "C13": ["files", "idx"],
    "C16": ["cached", "toconv", "convs", "tags"],
}
CONVS = ["conv1"]


def canon(x):
    return json.dumps(x, sort_keys=True)


class Scenario:
    def __init__(self, name, ops):
        self.name, self.ops = name, ops
        self.lines = []          # parsed harness output
        self.oracle = []         # complaints (all properties)
        self.error = None
        self.diff = None         # (index, field, impl, model)
        self.stderr = ""


def gen_scenario(binpath, seed, n):
    rc, o, e = pk.sh([binpath, "gen", "-seed", str(seed), "-n", str(n)], env=pk.goenv(), timeout=60)
    if rc != 0:
        raise RuntimeError("generator failed: " + e)
    return [l for l in o.split("\n") if l]


_counter = [0]


def run_impl(binpath, sc, timeout=300):
    _counter[0] += 1
    opath = os.path.join(pk.scratch(), "mgr_oracle_%d_%d.txt" % (os.getpid(), _counter[0]))
    env = pk.goenv()
    env["VERIF_SCRATCH"] = pk.scratch()
    env["GOMEMLIMIT"] = "2GiB"
    rc, o, e = pk.sh([binpath, "run", "-oracle", opath], stdin="".join(l + "\n" for l in sc.ops).encode(), env=env,
                     timeout=timeout)
    sc.stderr = e[-3000:]
    sc.oracle = []
    if os.path.exists(opath):
        sc.oracle = [l for l in open(opath).read().split("\n") if l]
        os.remove(opath)
    sc.lines = []
    for l in o.split("\n"):
        if l.strip():
            try:
                sc.lines.append(json.loads(l))
            except ValueError:
                sc.error = "unparsable harness output"
    if rc == -9:
        sc.error = "hang"
    elif rc != 0:
        sc.error = "crash rc=%d" % rc
    return sc


def run_model(sc, fields):
    """replays the observed events through the Lean model; sets sc.diff to the first disagreement"""
    lines = [l for l in sc.lines if "ev" in l]
    evs = "".join(json.dumps(l["ev"]) + "\n" for l in lines)
    rc, o, e = pk.sh([pk.PKMODEL, "mgr"] + CONVS, stdin=evs.encode(), timeout=300)
    outs = [json.loads(l) for l in o.split("\n") if l.strip()]
    sc.diff = None
    if rc != 0 or len(outs) != len(lines):
        sc.diff = (len(outs), "driver", "rc=%d" % rc, e[-300:])
        return sc
    for i, (a, b) in enumerate(zip(lines, outs)):
        pairs = [(a["st"], b["st"])]
        if a["ev"].get("op") == "settle":
            subs = [a["ev"][k]["st"] for k in sorted(a["ev"]) if k.startswith("sub")]
            pairs = list(zip(subs, b.get("subs", []))) + pairs
            if len(subs) != len(b.get("subs", [])):
                sc.diff = (i, "settle-length", len(subs), len(b.get("subs", [])))
                return sc
        for (sa, sb) in pairs:
            if sb.get("diverged") or sb.get("badchoice"):
                sc.diff = (i, "diverged" if sb.get("diverged") else "badchoice", None, True)
                return sc
            for k in fields:
                if canon(sa.get(k)) != canon(sb.get(k)):
                    sc.diff = (i, k, sa.get(k), sb.get(k))
                    return sc
        r = a["ev"].get("res")
        if r and r != b["res"]:
            sc.diff = (i, "res", r, b["res"])
            return sc
    return sc


def complaints_for(sc, prop):
    return [c for c in sc.oracle if ("prop=%s " % prop) in c or "prop=ANY " in c]


def stats_of(sc, st):
    for l in sc.lines:
        ev = l.get("ev", {})
        evs = [ev]
        if ev.get("op") == "settle":
            evs = [ev[k] for k in sorted(ev) if k.startswith("sub")]
        for e in evs:
            if e.get("noop"):
                st["noop"] += 1
                continue
            key = e.get("op", "?")
            if key == "rel":
                key = "rel-" + e.get("job", "?")
            st[key] += 1
            for j in (e.get("started") or {}):
                st["started-" + j] += 1
            if e.get("res") == "err":
                st["api-error"] += 1
            if e.get("op") == "rel" and e.get("job") == "import":
                if e.get("upd"):
                    st["import-updates-streams"] += 1
                if e.get("rst"):
                    st["import-resets-streams"] += 1


def nontrivial_key(sc):
    """a scenario is non-trivial when an invalidation (import completion, mark update, tag edit,
    converter completion) is delivered while a tagging job is parked, or a view is held across a merge"""
    tagging = False
    hit = []
    views = 0
    for l in sc.lines:
        ev = l.get("ev", {})
        if ev.get("noop"):
            continue
        op = ev.get("op")
        if op == "vopen":
            views += 1
        if op == "vrel":
            views = max(0, views - 1)
        if tagging and (op in ("markadd", "markdel", "updq", "addtag", "deltag") or
                        (op == "rel" and ev.get("job") in ("import", "convert"))):
            hit.append("inval-during-tagjob:" + op + ":" + str(ev.get("job", "")))
        if views and op == "rel" and ev.get("job") == "merge":
            hit.append("merge-under-view")
        st = l.get("st", {})
        tagging = bool(st.get("tag"))
    return hit


def run(prop, tier, seed, replay, obligations_extra=()):
    rep = pk.Report(prop, tier, seed)
    for old in glob.glob(os.path.join(pk.VERIF, "replays", prop + "-*.json")):
        os.remove(old)
    thorough = tier == "thorough"
    ob = pk.check_obligations(prop, leanchecker=thorough)
    rep.coverage.update(pk.proof_coverage(
        ob, "cd /verif/lean && lake build Pk.Props.%s pkmodel && lake env lean <#print axioms of every theorem>" % prop
        + (" && lake env leanchecker Pk.Props.%s" % prop if thorough else ""),
        ["Lean compiler/runtime for the executable model (pkmodel mgr)",
         "scenario harness /verif/harness/cmd/mgr (+ injected accessor) and tools/mgrfam.py",
         "payloads taken from the real system: query.Parse facts, builder results, search results of tagging "
         "jobs, merge outputs, the tag picked by startTaggingJobIfNeeded"]))
    rep.assumptions = [
        "truth of a tag definition on a stream is evaluated by the harness' own evaluator for the generated "
        "definition family (port/bytes/data/id/tag references)",
        "job completions are delivered in the order the scenario chooses (gates); what happens inside a job "
        "before its completion is posted is not interleaved with other events",
    ]
    binpath, blog = pk.go_build("mgr")
    if binpath is None:
        rep.replay({"broken": "correspondence %s: scenario harness does not build against /repo's working tree" % prop,
                    "log": blog[-3000:]}, no_input=True)
        rep.coverage.update({"evaluations": 0, "distinct_nontrivial": 0})
        return rep.finish()
    fields = FIELDS[prop]

    if replay:
        data = json.load(open(replay))
        sc = run_model(run_impl(binpath, Scenario("replay", data.get("ops", []))), fields)
        print("oracle complaints:", complaints_for(sc, prop)[:10])
        print("first model/impl difference:", sc.diff, sc.error)
        return 1 if (complaints_for(sc, prop) or sc.diff or sc.error) else 0

    scenarios = []
    for p in sorted(glob.glob(os.path.join(pk.VERIF, "corpus", "mgr", "*.sc")) +
                    glob.glob(os.path.join(pk.VERIF, "corpus", prop, "*.sc"))):
        scenarios.append(Scenario("corpus:" + os.path.basename(p),
                                  [l for l in open(p).read().split("\n") if l and not l.startswith("#")]))
    nsc, nops = (120, 60) if not thorough else (1500, 80)
    for i in range(nsc):
        scenarios.append(Scenario("seed:%d" % (seed * 1000003 + i), None))
    for sc in scenarios:
        if sc.ops is None:
            sc.ops = gen_scenario(binpath, int(sc.name.split(":")[1]), nops)

    def work(sc):
        return run_model(run_impl(binpath, sc), fields)

    with concurrent.futures.ThreadPoolExecutor(max_workers=min(12, os.cpu_count() or 4)) as ex:
        scenarios = list(ex.map(work, scenarios))

    known = pk.known_findings(prop)
    foreign = [k for k in json.load(open(os.path.join(pk.VERIF, "known_findings.json"))).get("findings", [])
               if k.get("property") != prop]
    st = collections.Counter()
    nontriv = set()
    events = 0
    fails, diffs = [], []
    for sc in scenarios:
        stats_of(sc, st)
        events += len(sc.lines)
        for h in nontrivial_key(sc):
            nontriv.add(sc.name + "|" + h)
        if complaints_for(sc, prop) or sc.error:
            fails.append(sc)
        elif sc.diff is not None:
            diffs.append(sc)

    def failing(ops):
        s = run_impl(binpath, Scenario("shrink", ops))
        return bool(complaints_for(s, prop)) or s.error is not None

    reported = set()
    for sc in fails[:4]:
        # (a scenario that ends in a harness timeout — work left behind without a job — costs 20 s per replay: it is
        # cut after the op it stopped at and shrunk with a small budget)
        ops0 = list(sc.ops)
        if sc.error:
            ops0 = ops0[:len(sc.lines) + 1]
        shrunk = pk.ddmin(ops0, failing, budget=150 if not sc.error else 14)
        s2 = run_impl(binpath, Scenario("shrunk", shrunk))
        comp = complaints_for(s2, prop)
        k = classify(prop, shrunk, comp, s2, known)
        if k:
            rep.known_finding(k["text"])
            continue
        fk = classify(prop, shrunk, comp, s2, foreign)
        if fk and s2.error and not comp:
            # the service died of a recorded defect that belongs to another property's check
            rep.notes.append("scenario %s ends in recorded finding %s of %s; not attributed to %s" % (sc.name, fk["id"], fk["property"], prop))
            continue
        sig = pk.sha(re.sub(r"\d+", "N", (comp[0] if comp else str(s2.error))))
        if sig in reported:
            continue
        reported.add(sig)
        rep.replay({"kind": "oracle", "case": sc.name, "ops": shrunk, "complaints": comp[:10], "error": s2.error,
                    "stderr": s2.stderr[-1500:] if s2.error else "",
                    "statement": "the real service violates the property on this scenario (independent oracle)"})
    if diffs and not rep.violations:
        sc = diffs[0]

        def differing(ops):
            s = run_model(run_impl(binpath, Scenario("shrink", ops)), fields)
            return s.diff is not None

        shrunk = pk.ddmin(list(sc.ops), differing, budget=120)
        s2 = run_model(run_impl(binpath, Scenario("shrunk", shrunk)), fields)
        found = None
        # search 1: the differing scenarios themselves, cut right after the first differing event (and whole),
        # followed by `settle` (all parked jobs delivered, quiescence oracles evaluated): a difference that later
        # operations happen to heal is often a violation when nothing else follows
        for dsc in [Scenario("shrunk", shrunk)] + diffs[:8]:
            dd = (run_model(run_impl(binpath, dsc), fields).diff if dsc.name == "shrunk" else dsc.diff)
            cuts = [len(dsc.ops)]
            if dd is not None and isinstance(dd[0], int):
                cuts = [dd[0] + 1, dd[0] + 2, len(dsc.ops)]
            for c in cuts:
                s3 = run_impl(binpath, Scenario("search-settle", list(dsc.ops[:c]) + ["settle"]))
                events += len(s3.lines)
                if complaints_for(s3, prop) or s3.error:
                    found = s3
                    break
            if found is not None:
                break
        # search 2: more scenarios, oracle only
        for j in range(0 if found is not None else (150 if not thorough else 1500)):
            s3 = run_impl(binpath, Scenario("search", gen_scenario(binpath, seed * 7919 + 500000 + j, nops)))
            events += len(s3.lines)
            if complaints_for(s3, prop) or s3.error:
                found = s3
                break
        if found is not None:
            shr = pk.ddmin(list(found.ops), failing, budget=150)
            s4 = run_impl(binpath, Scenario("shrunk", shr))
            k = classify(prop, shr, complaints_for(s4, prop), s4, known)
            if k:
                rep.known_finding(k["text"])
            else:
                rep.replay({"kind": "oracle", "ops": shr, "complaints": complaints_for(s4, prop)[:10], "error": s4.error})
        else:
            d = s2.diff or sc.diff
            rep.replay({"broken": "correspondence %s (service-loop model vs real manager, fields %s) no longer checks" % (prop, fields),
                        "ops": shrunk, "first_difference_event": d[0], "field": d[1], "impl": d[2], "model": d[3]},
                       no_input=True)
    if not ob.ok and not rep.violations:
        rep.replay({"broken": "proof obligations of Pk.Props.%s" % prop, "failed": ob.failed[:20], "log": ob.log[-2000:]},
                   no_input=True)

    sample = scenarios[-1]
    rep.coverage.update({
        "evaluations": events,
        "distinct_nontrivial": len(nontriv),
        "rule": "scenarios (captures with UDP flows that extend / reset earlier streams, tag add/update/delete over a "
                "pool of 6 names with references (also inside a sub-query `@s:…`, also payload words that occur in converter output only), marks, converter attach, views, and `rel <job>` ops that deliver "
                "parked job completions in the generated order) from splitmix64(VERIF_SEED); evaluations = events "
                "executed; non-trivial = distinct (scenario, kind) where an invalidation is delivered while a "
                "tagging job is parked, or a merge completes under a held view",
        "samples": [{"case": sample.name, "ops": sample.ops[:25]}],
        "scenarios": len(scenarios), "event_mix": dict(st),
        "model_impl_differences": len(diffs), "oracle_failures": len(fails),
        "fields_compared": fields,
    })
    return rep.finish()


def classify(prop, shrunk_ops, complaints, sc, known):
    for k in known:
        if k.get("status") != "known":
            continue
        m = k.get("match", {})
        if m.get("classifier") == "mgr-regex":
            ops_ok = all(any(re.search(rx, op) for op in shrunk_ops) for rx in m.get("ops_all", []))
            text = "\n".join(complaints) + "\n" + (sc.error or "") + "\n" + (sc.stderr or "")
            if ops_ok and re.search(m.get("complaint", "$^"), text):
                return k
    return None


def stage(rep, prop, tier, seed, gen_args=(), nsc=None, nops=None, label="scheduled", fields=None):
    """run the scenario harness as an additional stage of another property's check (C11: tag graph under
    scheduled job completions; C12: crash/restart experiments): oracle complaints of `prop` become
    violations of `rep`, model/implementation differences on FIELDS[prop] are searched / reported."""
    thorough = tier == "thorough"
    binpath, blog = pk.go_build("mgr")
    if binpath is None:
        rep.replay({"broken": "correspondence %s (%s stage): scenario harness does not build against /repo's working tree" % (prop, label),
                    "log": blog[-3000:]}, no_input=True)
        return
    if fields is None:
        fields = FIELDS[prop]
    if nsc is None:
        nsc, nops = (100, 60) if not thorough else (1200, 80)
    scenarios = []
    for p in sorted(glob.glob(os.path.join(pk.VERIF, "corpus", "mgr", "*.sc")) +
                    glob.glob(os.path.join(pk.VERIF, "corpus", prop, "*.sc")) +
                    glob.glob(os.path.join(pk.VERIF, "corpus", prop + "-" + label, "*.sc"))):
        scenarios.append(Scenario("corpus:" + os.path.basename(p),
                                  [l for l in open(p).read().split("\n") if l and not l.startswith("#")]))
    for i in range(nsc):
        sd = seed * 1000003 + 77 + i
        rc, o, e = pk.sh([binpath, "gen", "-seed", str(sd), "-n", str(nops)] + list(gen_args), env=pk.goenv(), timeout=60)
        scenarios.append(Scenario("seed:%d" % sd, [l for l in o.split("\n") if l]))

    def work(sc):
        run_impl(binpath, sc)
        return run_model(sc, fields) if fields else sc

    with concurrent.futures.ThreadPoolExecutor(max_workers=min(12, os.cpu_count() or 4)) as ex:
        scenarios = list(ex.map(work, scenarios))
    known = pk.known_findings(prop)
    st = collections.Counter()
    events = 0
    fails, diffs = [], []
    for sc in scenarios:
        stats_of(sc, st)
        events += len(sc.lines)
        for l in sc.lines:
            if l.get("ev", {}).get("op") == "crashcheck":
                st["crashcheck"] += 1
                if l["ev"].get("cut"):
                    st["crashcheck-with-cut-file"] += 1
        if complaints_for(sc, prop) or sc.error:
            fails.append(sc)
        elif sc.diff is not None:
            diffs.append(sc)

    def failing(ops):
        s = run_impl(binpath, Scenario("shrink", ops))
        return bool(complaints_for(s, prop)) or s.error is not None

    reported = set()
    for sc in fails[:4]:
        shrunk = pk.ddmin(list(sc.ops), failing, budget=150)
        s2 = run_impl(binpath, Scenario("shrunk", shrunk))
        comp = complaints_for(s2, prop)
        k = classify(prop, shrunk, comp, s2, known)
        if k:
            rep.known_finding(k["text"])
            continue
        sig = pk.sha(re.sub(r"\d+", "N", (comp[0] if comp else str(s2.error))))
        if sig in reported:
            continue
        reported.add(sig)
        rep.replay({"kind": "oracle", "stage": label, "harness": "mgr", "case": sc.name, "ops": shrunk, "complaints": comp[:10],
                    "error": s2.error, "stderr": s2.stderr[-1500:] if s2.error else ""})
    if diffs and not rep.violations:
        sc = diffs[0]
        rep.replay({"broken": "correspondence %s (%s stage: service-loop model vs real manager, fields %s) no longer checks" % (prop, label, fields),
                    "ops": sc.ops, "first_difference_event": sc.diff[0], "field": sc.diff[1], "impl": sc.diff[2], "model": sc.diff[3]},
                   no_input=True)
    rep.coverage[label + "_stage"] = {"scenarios": len(scenarios), "events": events, "event_mix": dict(st),
                                      "oracle_failures": len(fails), "model_impl_differences": len(diffs)}
    rep.coverage["evaluations"] = rep.coverage.get("evaluations", 0) + events
