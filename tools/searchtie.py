"""
Case-based tie used by C02 and C04: a harness binary executes generated CASES (one JSON object per
line) on the real code and prints, per case, one JSON line that is the input of the Lean driver
(`pkmodel <prop>`); its independent property oracle writes complaints to a side file.

Cases are run in parallel child processes with timeouts (a hanging case is an outcome of its own).
"""
import concurrent.futures
import copy
import itertools
import json
import os
import re

import pk


class Result:
    """outcome of one case"""
    __slots__ = ("case", "impl", "model", "oracle", "error")

    def __init__(self, case):
        self.case = case          # dict
        self.impl = None          # dict (harness output line) or None
        self.model = None         # str (driver output line) or None
        self.oracle = []          # complaints
        self.error = None         # "hang" | "crash ..." | None

    @property
    def model_fields(self):
        if not self.model:
            return {}
        return dict(f.split("=", 1) for f in self.model.split() if "=" in f)


class CaseTie:
    def __init__(self, harness_bin, model_arg, chunk=60, timeout=180, workers=None):
        self.bin, self.model_arg, self.chunk, self.timeout = harness_bin, model_arg, chunk, timeout
        self.workers = workers or min(16, os.cpu_count() or 4)
        self.env = pk.goenv()
        self.env["GOMEMLIMIT"] = "2GiB"
        self.env["GOMAXPROCS"] = "2"
        self.env["VERIF_SCRATCH_DIR"] = pk.scratch()
        self._ctr = itertools.count(1)

    def gen(self, seed, n, extra=()):
        rc, o, e = pk.sh([self.bin, "gen", "-seed", str(seed), "-n", str(n)] + list(extra), env=self.env, timeout=300)
        if rc != 0:
            raise RuntimeError("generator failed: " + e[-2000:])
        return [json.loads(l) for l in o.split("\n") if l]

    def _run_chunk(self, cases, timeout):
        opath = os.path.join(pk.scratch(), "oracle_%d_%d.txt" % (os.getpid(), next(self._ctr)))
        stdin = "".join(json.dumps(c, separators=(",", ":")) + "\n" for c in cases).encode()
        rc, o, e = pk.sh([self.bin, "run", "-oracle", opath], stdin=stdin, env=self.env, timeout=timeout)
        lines = [l for l in o.split("\n") if l]
        orc = {}
        if os.path.exists(opath):
            for l in open(opath, errors="replace").read().split("\n"):
                m = re.match(r"ORACLE line=(\d+) (.*)", l)
                if m:
                    orc.setdefault(int(m.group(1)), []).append(m.group(2))
            os.remove(opath)
        return rc, lines, orc, e

    def _impl(self, cases):
        """run cases on the implementation; a chunk that hangs or crashes is re-run case by case"""
        res = [Result(c) for c in cases]
        rc, lines, orc, err = self._run_chunk(cases, self.timeout)
        if rc == 0 and len(lines) == len(cases):
            for i, r in enumerate(res):
                r.impl = json.loads(lines[i])
                r.oracle = orc.get(i + 1, [])
            return res
        if len(cases) == 1:
            res[0].error = "hang" if rc == -9 else "crash rc=%d %s" % (rc, err[-400:])
            res[0].oracle = orc.get(1, [])
            return res
        out = []
        for c in cases:
            rc1, l1, o1, e1 = self._run_chunk([c], 30)
            r = Result(c)
            if rc1 == 0 and len(l1) == 1:
                r.impl = json.loads(l1[0])
                r.oracle = o1.get(1, [])
            else:
                r.error = "hang" if rc1 == -9 else "crash rc=%d %s" % (rc1, e1[-400:])
                r.oracle = o1.get(1, [])
            out.append(r)
        return out

    def _model(self, results):
        todo = [r for r in results if r.impl is not None]
        if not todo:
            return
        text = "".join(json.dumps(r.impl, separators=(",", ":")) + "\n" for r in todo)
        rc, o, e = pk.run_model(self.model_arg, text, timeout=600)
        lines = o.split("\n")
        for i, r in enumerate(todo):
            r.model = lines[i] if i < len(lines) and rc == 0 else "model-error rc=%d %s" % (rc, e[-200:])

    def run(self, cases):
        chunks = [cases[i:i + self.chunk] for i in range(0, len(cases), self.chunk)]
        results = []
        with concurrent.futures.ThreadPoolExecutor(max_workers=self.workers) as ex:
            for part in ex.map(self._impl, chunks):
                results.extend(part)
        self._model(results)
        return results

    def run_one(self, case):
        return self.run([case])[0]


def greedy_shrink(case, candidates, failing, budget=250, seconds=90):
    """structural shrinking: repeatedly replace the case by the first smaller candidate that still fails"""
    import time
    calls = 0
    improved = True
    deadline = time.time() + seconds
    while improved and calls < budget and time.time() < deadline:
        improved = False
        for cand in candidates(case):
            calls += 1
            if calls > budget or time.time() > deadline:
                break
            if failing(cand):
                case = cand
                improved = True
                break
    return case


def node_variants(n):
    """smaller variants of a query AST node (dict with op/k/...)"""
    if n.get("op") in ("and", "or", "then", "not"):
        for k in n.get("k", []):
            yield copy.deepcopy(k)
        ks = n.get("k", [])
        if n["op"] != "not" and len(ks) > 2:
            for i in range(len(ks)):
                m = copy.deepcopy(n)
                del m["k"][i]
                yield m
        for i, k in enumerate(ks):
            for v in node_variants(k):
                m = copy.deepcopy(n)
                m["k"][i] = v
                yield m
    else:
        for f in ("n", "h", "p", "t", "g"):
            xs = n.get(f)
            if xs and len(xs) > 1:
                for i in range(len(xs)):
                    m = copy.deepcopy(n)
                    del m[f][i]
                    yield m
        for i, h in enumerate(n.get("h", [])):
            if h.get("m"):
                m = copy.deepcopy(n)
                m["h"][i].pop("m")
                yield m
