#!/bin/bash
# sweep.sh <tier> <seed-from> <seed-to> [props...]   run the checks on the current tree under several seeds;
# one line per run; failing runs keep their output and replay under /var/tmp/sweepfail/
tier=$1; from=$2; to=$3; shift 3
props=${@:-C01 C02 C03 C04 C05 C06 C07 C08 C09 C10 C11 C12 C13 C14 C15 C16 C17 C18 C19 C20}
cd "$(dirname "$0")/.." || exit 2
python3 tools/setup.py >/dev/null 2>&1
mkdir -p /var/tmp/sweepfail
for s in $(seq $from $to); do for p in $props; do
  t0=$(date +%s)
  VERIF_SEED=$s ./check $p $tier > /var/tmp/sweepfail/cur.txt 2>&1; rc=$?
  echo "seed $s $p $tier rc=$rc $(( $(date +%s) - t0 ))s $(grep -c '^KNOWN-FINDING' /var/tmp/sweepfail/cur.txt) known"
  if [ $rc != 0 ]; then
    cp /var/tmp/sweepfail/cur.txt /var/tmp/sweepfail/$p-$s-$tier.txt
    r=$(grep -m1 -o 'replay=[^ ]*' /var/tmp/sweepfail/cur.txt | cut -d= -f2); [ -n "$r" ] && cp "$r" /var/tmp/sweepfail/$p-$s-$tier.replay
    grep -m2 '^VIOLATION' /var/tmp/sweepfail/cur.txt
  fi
done; done
