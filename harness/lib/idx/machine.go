package idx

import (
	"bufio"
	"bytes"
	"context"
	"encoding/hex"
	"encoding/json"
	"fmt"
	"io"
	"log"
	"net"
	"os"
	"sort"
	"strconv"
	"strings"
	"time"

	"github.com/spq/pkappa2/internal/index"
	"github.com/spq/pkappa2/internal/query"
	pcapmetadata "github.com/spq/pkappa2/internal/tools/pcapMetadata"
)

// File is a register: a real reader plus what the property says it must contain.
type File struct {
	R     *index.Reader
	Exp   map[uint64]*StreamIn // id -> stream as written (newest version for merged files)
	Order []uint64
}

type Machine struct {
	Dir    string
	Out    *bufio.Writer
	Orc    io.Writer // oracle complaints (may be nil)
	Search bool      // run SearchStreams comparisons in eqv (C07)
	line   int
	w      *index.Writer
	wExp   map[uint64]*StreamIn
	wOrder []uint64
	infos  map[string]*pcapmetadata.PcapInfo
	regs   map[int]*File
}

func NewMachine(dir string, out *bufio.Writer, orc io.Writer) *Machine {
	log.SetOutput(io.Discard)
	return &Machine{Dir: dir, Out: out, Orc: orc, regs: map[int]*File{}, infos: map[string]*pcapmetadata.PcapInfo{}}
}

func (m *Machine) complain(format string, a ...interface{}) {
	if m.Orc != nil {
		fmt.Fprintf(m.Orc, "ORACLE line=%d %s\n", m.line, fmt.Sprintf(format, a...))
	}
}

// Run executes ops from in, one output line per op.
func (m *Machine) Run(in io.Reader) {
	sc := bufio.NewScanner(in)
	sc.Buffer(make([]byte, 1<<20), 1<<30)
	for sc.Scan() {
		m.line++
		line := sc.Text()
		res := m.safeStep(line)
		m.Out.WriteString(res)
		m.Out.WriteByte('\n')
	}
	m.Out.Flush()
}

func (m *Machine) safeStep(line string) (res string) {
	defer func() {
		if r := recover(); r != nil {
			res = "panic"
			m.complain("panic in %q: %v", cut(line, 60), r)
		}
	}()
	return m.step(line)
}

func cut(s string, n int) string {
	if len(s) > n {
		return s[:n] + "..."
	}
	return s
}

func (m *Machine) reg(s string) (*File, bool) {
	n, err := strconv.Atoi(s)
	if err != nil {
		return nil, false
	}
	f, ok := m.regs[n]
	return f, ok
}

func (m *Machine) regList(s string) ([]*File, bool) {
	var fs []*File
	if s == "-" {
		return nil, true
	}
	for _, p := range strings.Split(s, ",") {
		f, ok := m.reg(p)
		if !ok {
			return nil, false
		}
		fs = append(fs, f)
	}
	return fs, true
}

func (m *Machine) step(line string) string {
	op, rest, _ := strings.Cut(line, " ")
	switch op {
	case "new":
		if m.w != nil {
			m.w.Close()
			os.Remove(m.w.Filename())
		}
		w, err := index.NewWriter(fmt.Sprintf("%s/w%d.idx", m.Dir, m.line))
		if err != nil {
			return "err"
		}
		m.w, m.wExp, m.wOrder = w, map[uint64]*StreamIn{}, nil
		return "ok"
	case "add":
		if m.w == nil {
			return "bad-op"
		}
		s, err := ParseStream(rest)
		if err != nil {
			return "bad-op"
		}
		ok, err := m.w.AddStream(s.Build(m.infos), s.ID)
		if err != nil {
			return "err"
		}
		if ok {
			if _, dup := m.wExp[s.ID]; !dup {
				m.wOrder = append(m.wOrder, s.ID)
			}
			m.wExp[s.ID] = s
		} else {
			m.complain("AddStream refused stream %d", s.ID)
		}
		st := m.w.VerifState()
		var sb strings.Builder
		fmt.Fprintf(&sb, "added=%d hg=[", b2i(ok))
		for i := range st.HostGroupBytes {
			if i > 0 {
				sb.WriteByte(',')
			}
			fmt.Fprintf(&sb, "%d/%d", st.HostGroupBytes[i], st.HostGroupSize[i])
		}
		fmt.Fprintf(&sb, "] ni=%d np=%d ns=%d ref=%d", st.Imports, st.Packets, st.Streams, st.Ref)
		return sb.String()
	case "fin":
		n, err := strconv.Atoi(rest)
		if err != nil || m.w == nil || len(m.wOrder) == 0 {
			// Finalize of an empty writer cannot be reopened (excluded input, DESIGN §6)
			return "bad-op"
		}
		w := m.w
		m.w = nil
		r, err := w.Finalize()
		if err != nil {
			m.complain("Finalize failed: %v", err)
			return "err"
		}
		m.closeReg(n)
		m.regs[n] = &File{R: r, Exp: m.wExp, Order: m.wOrder}
		return "ok"
	case "close":
		n, err := strconv.Atoi(rest)
		if err != nil {
			return "bad-op"
		}
		if _, ok := m.regs[n]; !ok {
			return "bad-op"
		}
		m.closeReg(n)
		return "ok"
	case "dig", "dump":
		f, ok := m.reg(rest)
		if !ok {
			return "bad-op"
		}
		raw, err := ParseRaw(f.R.Filename())
		if err != nil {
			m.complain("file of register %s does not parse: %v", rest, err)
			return "err"
		}
		if op == "dump" {
			return raw.Dump()
		}
		d, _ := raw.Digest()
		return d
	case "ids":
		f, ok := m.reg(rest)
		if !ok {
			return "bad-op"
		}
		return m.opIDs(f)
	case "all":
		f, ok := m.reg(rest)
		if !ok {
			return "bad-op"
		}
		return m.opAll(f)
	case "obs":
		a := strings.Fields(rest)
		if len(a) != 2 {
			return "bad-op"
		}
		f, ok := m.reg(a[0])
		id, err := strconv.ParseUint(a[1], 10, 64)
		if !ok || err != nil {
			return "bad-op"
		}
		return m.opObs(f, id)
	case "src":
		a := strings.Fields(rest)
		if len(a) != 3 {
			return "bad-op"
		}
		f, ok := m.reg(a[0])
		idx, err := strconv.ParseUint(a[1], 10, 64)
		if !ok || err != nil {
			return "bad-op"
		}
		return m.opSrc(f, a[2], idx)
	case "merge":
		a := strings.Fields(rest)
		if len(a) != 2 {
			return "bad-op"
		}
		dst, err := strconv.Atoi(a[0])
		fs, ok := m.regList(a[1])
		if err != nil || !ok || len(fs) == 0 {
			return "bad-op"
		}
		return m.opMerge(dst, fs)
	case "eqv":
		a := strings.Fields(rest)
		if len(a) != 2 {
			return "bad-op"
		}
		fa, ok1 := m.regList(a[0])
		fb, ok2 := m.regList(a[1])
		if !ok1 || !ok2 {
			return "bad-op"
		}
		return m.opEqv(fa, fb)
	}
	return "bad-op"
}

func (m *Machine) closeReg(n int) {
	if f, ok := m.regs[n]; ok {
		f.R.Close()
		delete(m.regs, n)
	}
}

func b2i(b bool) int {
	if b {
		return 1
	}
	return 0
}

// ---------------------------------------------------------------------------------------------
// observations (canonical text, identical in the Lean driver)
// ---------------------------------------------------------------------------------------------

type obsResult struct {
	text    string // canonical line without the idx field
	idx     uint32
	err     bool
	packets []index.Packet
	data    []index.Data
}

func observe(s *index.Stream) obsResult {
	res := obsResult{idx: s.Index()}
	c, sv := s.VerifHosts()
	var sb strings.Builder
	fmt.Fprintf(&sb, "c=%x:%d s=%x:%d proto=%s first=%d last=%d cb=%d sb=%d", c, s.ClientPort, sv, s.ServerPort, s.Protocol(),
		s.FirstPacket().UnixNano(), s.LastPacket().UnixNano(), s.ClientBytes, s.ServerBytes)
	pk, err := s.Packets()
	if err != nil {
		res.err = true
		sb.WriteString(" pk=err")
	} else {
		res.packets = pk
		fmt.Fprintf(&sb, " pk=%d:[", len(pk))
		for i, p := range pk {
			if i > 0 {
				sb.WriteByte(';')
			}
			fmt.Fprintf(&sb, "%s/%d/%d/%d", p.PcapFilename, p.PcapIndex, int(p.Direction), p.Timestamp.UnixNano())
		}
		sb.WriteString("]")
	}
	d, err := s.Data()
	if err != nil {
		res.err = true
		sb.WriteString(" data=err")
	} else {
		res.data = d
		fmt.Fprintf(&sb, " data=%d:[", len(d))
		for i, c := range d {
			if i > 0 {
				sb.WriteByte(';')
			}
			fmt.Fprintf(&sb, "%d/%d/%x/%d", int(c.Direction), len(c.Content), Fnv(FnvInit, c.Content), c.Time.UnixNano())
		}
		sb.WriteString("]")
	}
	res.text = sb.String()
	return res
}

func (m *Machine) opObs(f *File, id uint64) string {
	s, err := f.R.StreamByID(id)
	exp := f.Exp[id]
	if err != nil {
		m.complain("StreamByID(%d) failed: %v", id, err)
		return "err"
	}
	if s == nil {
		if exp != nil {
			m.complain("stream %d was written but StreamByID does not find it", id)
		}
		return "found=0"
	}
	if exp == nil {
		m.complain("StreamByID(%d) finds a stream that was never written", id)
	}
	o := observe(s)
	if exp != nil {
		m.checkStream(s, &o, exp)
	}
	return fmt.Sprintf("found=1 idx=%d %s", o.idx, o.text)
}

func (m *Machine) opIDs(f *File) string {
	ids := f.R.StreamIDs()
	keys := make([]uint64, 0, len(ids))
	for id := range ids {
		keys = append(keys, id)
	}
	sort.Slice(keys, func(a, b int) bool { return keys[a] < keys[b] })
	h := FnvInit
	for _, id := range keys {
		h = Fnv(h, le64(id))
		h = Fnv(h, le64(uint64(ids[id])))
	}
	// oracle: exactly the written ids, min and max
	if len(ids) != len(f.Exp) {
		m.complain("StreamIDs has %d entries, %d streams were written", len(ids), len(f.Exp))
	}
	mn, mx := ^uint64(0), uint64(0)
	for id := range f.Exp {
		if _, ok := ids[id]; !ok {
			m.complain("StreamIDs misses written stream %d", id)
		}
		if id < mn {
			mn = id
		}
		if id > mx {
			mx = id
		}
	}
	if len(f.Exp) != 0 && (f.R.MinStreamID() != mn || f.R.MaxStreamID() != mx) {
		m.complain("Min/MaxStreamID = %d/%d, written ids span %d/%d", f.R.MinStreamID(), f.R.MaxStreamID(), mn, mx)
	}
	return fmt.Sprintf("n=%d min=%d max=%d h=%x", len(ids), f.R.MinStreamID(), f.R.MaxStreamID(), h)
}

func (m *Machine) opAll(f *File) string {
	h := FnvInit
	n := 0
	seen := map[uint64]bool{}
	err := f.R.AllStreams(func(s *index.Stream) error {
		h = Fnv(h, le64(s.ID()))
		n++
		if seen[s.ID()] {
			m.complain("AllStreams visits stream %d twice", s.ID())
		}
		seen[s.ID()] = true
		if _, ok := f.Exp[s.ID()]; !ok {
			m.complain("AllStreams visits stream %d which was never written", s.ID())
		}
		return nil
	})
	if err != nil {
		m.complain("AllStreams failed: %v", err)
		return "err"
	}
	for id := range f.Exp {
		if !seen[id] {
			m.complain("AllStreams does not visit written stream %d", id)
		}
	}
	return fmt.Sprintf("n=%d h=%x", n, h)
}

func (m *Machine) opSrc(f *File, file string, idx uint64) string {
	s, err := f.R.StreamByFirstPacketSource(file, idx)
	if err != nil {
		m.complain("StreamByFirstPacketSource(%s,%d) failed: %v", file, idx, err)
		return "err"
	}
	// oracle: found iff some written stream has this first source packet, and then it is that stream
	var want *StreamIn
	nwant := 0
	for _, e := range f.Exp {
		if fs := e.FirstSource(); fs.File == file && fs.Index == idx {
			want = e
			nwant++
		}
	}
	if s == nil {
		if nwant != 0 {
			m.complain("stream %d has first source packet (%s,%d) but the lookup does not find it", want.ID, file, idx)
		}
		return "found=0"
	}
	if nwant == 0 {
		m.complain("lookup by first source packet (%s,%d) returns stream %d which does not start there", file, idx, s.ID())
	} else if nwant == 1 && want.ID != s.ID() {
		m.complain("lookup by first source packet (%s,%d) returns stream %d, stored stream is %d", file, idx, s.ID(), want.ID)
	}
	return fmt.Sprintf("found=1 id=%d", s.ID())
}

// ---------------------------------------------------------------------------------------------
// C01 oracle: what was read back equals what was written (written from the property statement)
// ---------------------------------------------------------------------------------------------

type run struct {
	dir int
	n   int
}

func mergeRuns(rs []run) []run {
	var out []run
	for _, r := range rs {
		if r.n == 0 {
			continue
		}
		if len(out) > 0 && out[len(out)-1].dir == r.dir {
			out[len(out)-1].n += r.n
		} else {
			out = append(out, r)
		}
	}
	return out
}

func protoName(fl uint8) string {
	if fl&2 != 0 {
		return "UDP"
	}
	return "TCP"
}

func (m *Machine) checkStream(s *index.Stream, o *obsResult, e *StreamIn) {
	id := e.ID
	if got, want := s.ClientHostIP(), net.IP(e.c).String(); got != want {
		m.complain("stream %d: ClientHostIP %s, written %s", id, got, want)
	}
	if got, want := s.ServerHostIP(), net.IP(e.s).String(); got != want {
		m.complain("stream %d: ServerHostIP %s, written %s", id, got, want)
	}
	if s.ClientPort != e.CP || s.ServerPort != e.SP {
		m.complain("stream %d: ports %d/%d, written %d/%d", id, s.ClientPort, s.ServerPort, e.CP, e.SP)
	}
	if got, want := s.Protocol(), protoName(e.Fl); got != want {
		m.complain("stream %d: protocol %s, written %s", id, got, want)
	}
	if got, want := s.FirstPacket().UnixNano(), e.P[0].Ts; got != want {
		m.complain("stream %d: first packet time %d, written %d", id, got, want)
	}
	if got, want := s.LastPacket().UnixNano(), e.P[len(e.P)-1].Ts; got != want {
		m.complain("stream %d: last packet time %d, written %d", id, got, want)
	}
	// payload per direction
	var want [2][]byte
	var wruns []run
	for i := range e.D {
		d := e.P[e.D[i].Pos].Dir
		want[d] = append(want[d], e.D[i].Bytes()...)
		wruns = append(wruns, run{d, len(e.D[i].Bytes())})
	}
	if s.ClientBytes != uint64(len(want[0])) || s.ServerBytes != uint64(len(want[1])) {
		m.complain("stream %d: byte counts %d/%d, written %d/%d", id, s.ClientBytes, s.ServerBytes, len(want[0]), len(want[1]))
	}
	if o.data == nil && !o.err {
		o.data = []index.Data{}
	}
	if o.err {
		m.complain("stream %d: Data/Packets returned an error", id)
	} else {
		var got [2][]byte
		var gruns []run
		for _, c := range o.data {
			got[c.Direction] = append(got[c.Direction], c.Content...)
			gruns = append(gruns, run{int(c.Direction), len(c.Content)})
		}
		for d := 0; d < 2; d++ {
			if !bytes.Equal(got[d], want[d]) {
				m.complain("stream %d: payload of direction %d differs (%d bytes read, %d written)", id, d, len(got[d]), len(want[d]))
			}
		}
		a, b := mergeRuns(gruns), mergeRuns(wruns)
		if fmt.Sprint(a) != fmt.Sprint(b) {
			m.complain("stream %d: order of direction changes differs: read %v, written %v", id, cut(fmt.Sprint(a), 200), cut(fmt.Sprint(b), 200))
		}
		// source packet references
		refs, dirs, ts := e.WrittenRefs()
		if len(o.packets) != len(refs) {
			m.complain("stream %d: %d packet references read, %d written", id, len(o.packets), len(refs))
		} else {
			for i, p := range o.packets {
				wantTs := e.P[0].Ts + ((ts[i]-e.P[0].Ts)/1000)*1000
				if p.PcapFilename != refs[i].File || p.PcapIndex != refs[i].Index || int(p.Direction) != dirs[i] || p.Timestamp.UnixNano() != wantTs {
					m.complain("stream %d: packet %d read as (%s,%d,dir %d,t %d), written (%s,%d,dir %d,t %d)", id, i,
						p.PcapFilename, p.PcapIndex, int(p.Direction), p.Timestamp.UnixNano(), refs[i].File, refs[i].Index, dirs[i], wantTs)
					break
				}
			}
		}
	}
	// MarshalJSON
	js, err := s.MarshalJSON()
	if err != nil {
		m.complain("stream %d: MarshalJSON failed: %v", id, err)
		return
	}
	var v struct {
		ID             uint64
		Protocol       string
		Client, Server struct {
			Host  string
			Port  uint16
			Bytes uint64
		}
		FirstPacket, LastPacket time.Time
	}
	if err := json.Unmarshal(js, &v); err != nil {
		m.complain("stream %d: MarshalJSON output does not parse: %v", id, err)
		return
	}
	if v.ID != id || v.Protocol != protoName(e.Fl) || v.Client.Host != net.IP(e.c).String() || v.Server.Host != net.IP(e.s).String() ||
		v.Client.Port != e.CP || v.Server.Port != e.SP || v.Client.Bytes != uint64(len(want[0])) || v.Server.Bytes != uint64(len(want[1])) ||
		v.FirstPacket.UnixNano() != e.P[0].Ts || v.LastPacket.UnixNano() != e.P[len(e.P)-1].Ts {
		m.complain("stream %d: MarshalJSON %s differs from what was written", id, cut(string(js), 300))
	}
}

// ---------------------------------------------------------------------------------------------
// C07: merge and view equality
// ---------------------------------------------------------------------------------------------

func (m *Machine) opMerge(dst int, fs []*File) string {
	rs := make([]*index.Reader, len(fs))
	for i, f := range fs {
		rs[i] = f.R
	}
	dir := fmt.Sprintf("%s/m%d", m.Dir, m.line)
	if err := os.MkdirAll(dir, 0o755); err != nil {
		return "err"
	}
	out, err := index.Merge(dir, rs)
	if err != nil {
		m.complain("Merge failed: %v", err)
		return "err"
	}
	// what the property demands of the merged run: newest version of every id
	exp := map[uint64]*StreamIn{}
	var order []uint64
	for i := len(fs) - 1; i >= 0; i-- {
		for _, id := range fs[i].Order {
			if _, ok := exp[id]; !ok {
				exp[id] = fs[i].Exp[id]
				order = append(order, id)
			}
		}
	}
	// each output file holds a part of the merged set
	got := map[uint64]bool{}
	for i, r := range out {
		m.closeReg(dst + i)
		f := &File{R: r, Exp: map[uint64]*StreamIn{}}
		for id := range r.StreamIDs() {
			if got[id] {
				m.complain("merge output holds stream %d in two files", id)
			}
			got[id] = true
			if e, ok := exp[id]; ok {
				f.Exp[id] = e
				f.Order = append(f.Order, id)
			} else {
				m.complain("merge output holds stream %d which is in none of the inputs", id)
			}
		}
		sort.Slice(f.Order, func(a, b int) bool { return f.Order[a] < f.Order[b] })
		m.regs[dst+i] = f
	}
	for id := range exp {
		if !got[id] {
			m.complain("merge output lost stream %d", id)
		}
	}
	return fmt.Sprintf("n=%d", len(out))
}

// view: newest file (last in the list) containing the id
func viewOf(fs []*File) (ids []uint64, text map[uint64]string, errs []string) {
	text = map[uint64]string{}
	for i := len(fs) - 1; i >= 0; i-- {
		f := fs[i]
		for id := range f.R.StreamIDs() {
			if _, ok := text[id]; ok {
				continue
			}
			s, err := f.R.StreamByID(id)
			if err != nil || s == nil {
				errs = append(errs, fmt.Sprintf("StreamByID(%d) failed on a listed id", id))
				text[id] = "err"
			} else {
				text[id] = observe(s).text
			}
			ids = append(ids, id)
		}
	}
	sort.Slice(ids, func(a, b int) bool { return ids[a] < ids[b] })
	return
}

func viewHash(ids []uint64, text map[uint64]string) uint64 {
	h := FnvInit
	for _, id := range ids {
		h = Fnv(h, []byte(strconv.FormatUint(id, 10)))
		h = Fnv(h, []byte{' '})
		h = Fnv(h, []byte(text[id]))
		h = Fnv(h, []byte{'\n'})
	}
	return h
}

func (m *Machine) opEqv(fa, fb []*File) string {
	ia, ta, ea := viewOf(fa)
	ib, tb, eb := viewOf(fb)
	for _, e := range append(ea, eb...) {
		m.complain("%s", e)
	}
	eq := len(ia) == len(ib)
	seen := map[uint64]bool{}
	for _, id := range ia {
		seen[id] = true
		t, ok := tb[id]
		if !ok {
			eq = false
			m.complain("stream %d is visible before the merge and not after", id)
		} else if t != ta[id] {
			eq = false
			m.complain("stream %d changes under merge: before %s | after %s", id, cut(firstDiffCtx(ta[id], t), 300), cut(firstDiffCtx(t, ta[id]), 300))
		}
	}
	for _, id := range ib {
		if !seen[id] {
			eq = false
			m.complain("stream %d is visible after the merge and not before", id)
		}
	}
	if m.Search {
		m.compareSearches(fa, fb, ia, ta)
	}
	return fmt.Sprintf("n=%d h=%x eq=%d", len(ia), viewHash(ia, ta), b2i(eq))
}

func firstDiffCtx(a, b string) string {
	i := 0
	for i < len(a) && i < len(b) && a[i] == b[i] {
		i++
	}
	st := i - 40
	if st < 0 {
		st = 0
	}
	return a[st:]
}

func search(fs []*File, q string) ([]uint64, error) {
	pq, err := query.Parse(q)
	if err != nil {
		return nil, fmt.Errorf("parse %q: %v", q, err)
	}
	rs := make([]*index.Reader, len(fs))
	for i, f := range fs {
		rs[i] = f.R
	}
	res, _, _, err := index.SearchStreams(context.Background(), rs, nil, pq.ReferenceTime, pq.Conditions, pq.Grouping, pq.Sorting, 100000, 0, nil, nil, false)
	if err != nil {
		return nil, err
	}
	ids := make([]uint64, 0, len(res))
	for _, s := range res {
		ids = append(ids, s.ID())
	}
	return ids, nil
}

// compareSearches: a handful of queries derived from the visible streams; result lists (sorted by
// id, so free of tie order) must be the same over both stacks.
func (m *Machine) compareSearches(fa, fb []*File, ids []uint64, text map[uint64]string) {
	qs := []string{"sort:id", "cbytes:>0 sort:id", "sbytes:0 sort:id", "protocol:udp sort:id", "sort:-id"}
	pick := func(k int) (uint64, bool) {
		if len(ids) == 0 {
			return 0, false
		}
		return ids[(k*7919)%len(ids)], true
	}
	for k := 0; k < 4; k++ {
		id, ok := pick(k)
		if !ok {
			break
		}
		// locate the stream in fa to derive query constants
		for i := len(fa) - 1; i >= 0; i-- {
			s, err := fa[i].R.StreamByID(id)
			if err != nil || s == nil {
				continue
			}
			switch k {
			case 0:
				qs = append(qs, fmt.Sprintf("id:%d sort:id", id))
			case 1:
				qs = append(qs, fmt.Sprintf("cport:%d sort:id", s.ClientPort))
			case 2:
				qs = append(qs, fmt.Sprintf("chost:%s sort:id", s.ClientHostIP()))
			case 3:
				qs = append(qs, fmt.Sprintf("shost:%s sport:%d sort:id", s.ServerHostIP(), s.ServerPort))
			}
			if d, err := s.Data(); err == nil {
				for _, c := range d {
					if len(c.Content) >= 3 && c.Direction == index.DirectionClientToServer {
						qs = append(qs, fmt.Sprintf("cdata:\"\\x{%s}\" sort:id", hexEsc(c.Content[:3])))
						break
					}
				}
			}
			break
		}
	}
	for _, q := range qs {
		ra, ea := search(fa, q)
		rb, eb := search(fb, q)
		if (ea != nil) != (eb != nil) {
			m.complain("search %q: error before merge %v, after %v", q, ea, eb)
			continue
		}
		if ea != nil {
			continue
		}
		if fmt.Sprint(ra) != fmt.Sprint(rb) {
			m.complain("search %q: result before merge %s, after %s", q, cut(fmt.Sprint(ra), 200), cut(fmt.Sprint(rb), 200))
		}
	}
}

func hexEsc(b []byte) string {
	return strings.Join(func() []string {
		r := []string{}
		for _, c := range b {
			r = append(r, hex.EncodeToString([]byte{c}))
		}
		return r
	}(), "}\\x{")
}
