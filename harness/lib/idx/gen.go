package idx

import (
	"encoding/hex"
	"fmt"
	"sort"
	"strings"

	"github.com/spq/pkappa2/internal/verifh/lib"
)

// Gen produces well-formed stream sets (WF of DESIGN §5 C01): distinct ids per file, >= 1 packet,
// same-length addresses, chunks on distinct existing packets in packet order, non-decreasing
// timestamps with consecutive gaps < 2^32 us, distinct source packets.
type Gen struct {
	R       *lib.RNG
	Files   []string
	next    map[string]uint64
	Regimes map[string]int
	Lines   []string
	used    map[string]bool // (file, index) pairs handed out
	jumpy   bool
}

const wrapNs = int64(1) << 32 * 1000 // 2^32 us in ns

func NewGen(r *lib.RNG) *Gen {
	g := &Gen{R: r, next: map[string]uint64{}, Regimes: map[string]int{}}
	nf := r.Range(1, 4)
	names := []string{"a.pcap", "b-long-capture-name.pcap", "c.pcapng", "a.pcap.1"}
	for i := 0; i < nf; i++ {
		g.Files = append(g.Files, names[i])
	}
	for i, f := range g.Files {
		switch (i + r.Intn(3)) % 3 {
		case 0:
			g.next[f] = 0
		case 1:
			g.next[f] = (1 << 32) - uint64(r.Range(1, 6)) // crosses 2^32 inside the case
			g.Regimes["index_around_2^32"]++
		default:
			g.next[f] = uint64(r.Range(2, 5))<<32 + uint64(r.Intn(1000))
			g.Regimes["index_above_2^32"]++
		}
	}
	if nf > 1 {
		g.Regimes["several_capture_files"]++
	}
	return g
}

func (g *Gen) Emit(format string, a ...interface{}) {
	g.Lines = append(g.Lines, fmt.Sprintf(format, a...))
}

func (g *Gen) ref() Ref {
	f := lib.Pick(g.R, g.Files)
	if g.used == nil {
		g.used = map[string]bool{}
		g.jumpy = g.R.Chance(1, 3)
	}
	key := func(i uint64) string { return fmt.Sprintf("%s#%d", f, i) }
	// one case in three: packet indexes of a capture jump between the 2^32 windows in any order (a stream from late
	// in a huge capture is written before one from its beginning), so import entries are not created in window order
	if g.jumpy && g.R.Chance(1, 4) {
		for try := 0; try < 20; try++ {
			i := uint64(g.R.Intn(4))<<32 + uint64(g.R.Intn(40))
			if !g.used[key(i)] {
				g.used[key(i)] = true
				g.Regimes["index_windows_out_of_order"]++
				return Ref{File: f, Index: i}
			}
		}
	}
	i := g.next[f]
	for g.used[key(i)] {
		i++
	}
	g.used[key(i)] = true
	g.next[f] = i + 1 + uint64(g.R.Intn(3))
	return Ref{File: f, Index: i}
}

func Addr4(n uint32) []byte { return []byte{10, byte(n >> 16), byte(n >> 8), byte(n)} }
func Addr6(n uint32) []byte {
	b := make([]byte, 16)
	b[0], b[1] = 0x20, 0x01
	b[12], b[13], b[14], b[15] = byte(n>>24), byte(n>>16), byte(n>>8), byte(n)
	return b
}

type StreamOpt struct {
	Base      int64 // first packet time ns
	NData     int   // data-carrying packets
	Sizes     []int // candidate chunk sizes
	Gaps      []int64
	Dataless  []int // candidate lengths of payload-less packet runs
	MultiRef  bool
	SrvFirst  bool
	UDP       bool
	AsciiData bool
}

// Stream generates one stream.
func (g *Gen) Stream(id uint64, c, s []byte, o StreamOpt) *StreamIn {
	r := g.R
	st := &StreamIn{ID: id, C: hex.EncodeToString(c), S: hex.EncodeToString(s), CP: uint16(r.Intn(65536)), SP: uint16(lib.Pick(r, []int{80, 443, 22, 0, 65535, 8080})), c: c, s: s}
	if o.UDP {
		st.Fl = 2
	}
	if r.Chance(1, 2) {
		st.Fl |= 1 // complete
	}
	t := o.Base
	addPacket := func(dir int) int {
		p := PacketIn{Ts: t, Dir: dir}
		p.Refs = append(p.Refs, g.ref())
		if o.MultiRef && r.Chance(1, 6) {
			p.Refs = append(p.Refs, g.ref())
			g.Regimes["multi_ref_packet"]++
		}
		st.P = append(st.P, p)
		return len(st.P) - 1
	}
	gap := func() {
		if len(o.Gaps) == 0 {
			t += int64(r.Intn(2000000))
			return
		}
		d := lib.Pick(r, o.Gaps)
		if d < 0 {
			d = int64(r.Intn(int(-d)))
		}
		t += d
	}
	dir := 0
	if o.SrvFirst {
		dir = 1
		g.Regimes["server_first"]++
	}
	// handshake-like packet without payload
	addPacket(0)
	for k := 0; k < o.NData; k++ {
		if len(o.Dataless) != 0 {
			n := lib.Pick(r, o.Dataless)
			if n >= 255 {
				g.Regimes["dataless_run_ge_255"]++
			} else if n > 0 {
				g.Regimes["dataless_run_lt_255"]++
			}
			for j := 0; j < n; j++ {
				gap()
				addPacket(r.Intn(2))
			}
		}
		gap()
		pos := addPacket(dir)
		size := lib.Pick(r, o.Sizes)
		ch := ChunkIn{Pos: pos}
		switch {
		case size == 0:
			g.Regimes["chunk_0"]++
		case size <= 48 && o.AsciiData:
			b := make([]byte, size)
			for i := range b {
				b[i] = "abcdefghijklmnopqrstuvwxyz0123456789"[r.Intn(36)]
			}
			ch.Hex = hex.EncodeToString(b)
		case size <= 48:
			b := make([]byte, size)
			for i := range b {
				b[i] = byte(r.U64())
			}
			ch.Hex = hex.EncodeToString(b)
		default:
			ch.N, ch.G = size, r.Intn(256)
		}
		switch {
		case size == 1:
			g.Regimes["chunk_1"]++
		case size == 65535:
			g.Regimes["chunk_65535"]++
		case size == 65536:
			g.Regimes["chunk_65536"]++
		case size > 65536:
			g.Regimes["chunk_gt_64k"]++
		}
		st.D = append(st.D, ch)
		if r.Chance(2, 3) {
			dir ^= 1
		}
	}
	// trailing payload-less packets
	for j := r.Intn(3); j > 0; j-- {
		gap()
		addPacket(r.Intn(2))
	}
	span := st.P[len(st.P)-1].Ts - st.P[0].Ts
	if w := span / wrapNs; w > 0 {
		g.Regimes[fmt.Sprintf("time_wraps_%d", min(int(w), 3))]++
	}
	if len(c) == 4 {
		g.Regimes["ipv4_stream"]++
	} else {
		g.Regimes["ipv6_stream"]++
	}
	return st
}

func min(a, b int) int {
	if a < b {
		return a
	}
	return b
}

// IDs returns n distinct ids of the given flavour.
func (g *Gen) IDs(n int, sparse bool) []uint64 {
	r := g.R
	seen := map[uint64]bool{}
	var ids []uint64
	for len(ids) < n {
		var id uint64
		if !sparse {
			id = uint64(len(ids))
		} else {
			switch r.Intn(6) {
			case 0:
				id = uint64(r.Intn(50))
			case 1:
				id = (1 << 32) + uint64(r.Intn(5)) - 2
			case 2:
				id = r.U64()
			case 3:
				id = ^uint64(0) - uint64(r.Intn(3))
			case 4:
				id = uint64(r.Intn(100000))
			default:
				id = (1 << 63) + uint64(r.Intn(3))
			}
		}
		if !seen[id] {
			seen[id] = true
			ids = append(ids, id)
		}
	}
	if sparse {
		g.Regimes["sparse_unordered_ids"]++
		for _, id := range ids {
			if id > 1<<32 {
				g.Regimes["id_above_2^32"]++
				break
			}
		}
	}
	return ids
}

func (g *Gen) Header(kind string) string {
	keys := make([]string, 0, len(g.Regimes))
	for k := range g.Regimes {
		keys = append(keys, k)
	}
	sort.Strings(keys)
	parts := []string{}
	for _, k := range keys {
		parts = append(parts, fmt.Sprintf("%s=%d", k, g.Regimes[k]))
	}
	return "# kind=" + kind + " " + strings.Join(parts, " ")
}

var (
	GapsBurst = []int64{0, 1000, 999, 1, 10e6, 49999e3, 50e6, 50001e3, -2000000}
	GapsMixed = []int64{0, 1000, 10e6, 49999e3, 50e6, 1e9, 1000e9, -2000000, -3000000000}
	GapsWrap  = []int64{4294e9, wrapNs - 1000, 2000e9, 1e9, 50e6, 0, 4294967e6}
)
