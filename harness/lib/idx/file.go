package idx

import (
	"bytes"
	"encoding/binary"
	"fmt"
	"os"
	"strings"
)

// Independent parser of the on-disk format (the harness' own copy of the layout of format.go:
// a representation change in /repo shows up as a strict-stream difference).

const (
	secData = iota
	secPackets
	secV6
	secV4
	secHostGroups
	secImports
	secImportNames
	secStreams
	secByID
	secBySrc
	secByFt
	secByLt
	secCount
)

const headerSize = 16 + 8 + 16*secCount

type RawStream struct {
	ID, First, Last, DataStart, CB, SB uint64
	PStart                             uint32
	Flags, HG, CH, SH, CP, SP          uint16
}

type RawPacket struct {
	Rel, Imp, Idx uint32
	Size          uint16
	Skip, Flags   uint8
}

type RawFile struct {
	Magic   string
	Ref     uint64
	Secs    [secCount][2]uint64
	Size    int
	Sec     [secCount][]byte
	Imports []struct {
		Name string
		Off  uint64
	}
	HG [][3]uint64 // start,count,flags
	St []RawStream
	Pk []RawPacket
	Lk [4][]uint32
}

func ParseRaw(path string) (*RawFile, error) {
	b, err := os.ReadFile(path)
	if err != nil {
		return nil, err
	}
	if len(b) < headerSize {
		return nil, fmt.Errorf("short file")
	}
	f := &RawFile{Magic: string(b[:16]), Ref: binary.LittleEndian.Uint64(b[16:]), Size: len(b)}
	for i := 0; i < secCount; i++ {
		f.Secs[i][0] = binary.LittleEndian.Uint64(b[24+16*i:])
		f.Secs[i][1] = binary.LittleEndian.Uint64(b[32+16*i:])
		if f.Secs[i][0] > f.Secs[i][1] || f.Secs[i][1] > uint64(len(b)) {
			return nil, fmt.Errorf("section %d out of range", i)
		}
		f.Sec[i] = b[f.Secs[i][0]:f.Secs[i][1]]
	}
	imp := f.Sec[secImports]
	for o := 0; o+16 <= len(imp); o += 16 {
		nameOff := binary.LittleEndian.Uint64(imp[o:])
		off := binary.LittleEndian.Uint64(imp[o+8:])
		names := f.Sec[secImportNames]
		name := "?"
		if nameOff <= uint64(len(names)) {
			if z := bytes.IndexByte(names[nameOff:], 0); z >= 0 {
				name = string(names[nameOff : int(nameOff)+z])
			}
		}
		f.Imports = append(f.Imports, struct {
			Name string
			Off  uint64
		}{name, off})
	}
	hg := f.Sec[secHostGroups]
	for o := 0; o+8 <= len(hg); o += 8 {
		f.HG = append(f.HG, [3]uint64{uint64(binary.LittleEndian.Uint32(hg[o:])), uint64(binary.LittleEndian.Uint16(hg[o+4:])), uint64(binary.LittleEndian.Uint16(hg[o+6:]))})
	}
	st := f.Sec[secStreams]
	for o := 0; o+64 <= len(st); o += 64 {
		u64 := func(k int) uint64 { return binary.LittleEndian.Uint64(st[o+k:]) }
		u16 := func(k int) uint16 { return binary.LittleEndian.Uint16(st[o+k:]) }
		f.St = append(f.St, RawStream{ID: u64(0), First: u64(8), Last: u64(16), DataStart: u64(24), CB: u64(32), SB: u64(40),
			PStart: binary.LittleEndian.Uint32(st[o+48:]), Flags: u16(52), HG: u16(54), CH: u16(56), SH: u16(58), CP: u16(60), SP: u16(62)})
	}
	pk := f.Sec[secPackets]
	for o := 0; o+16 <= len(pk); o += 16 {
		f.Pk = append(f.Pk, RawPacket{Rel: binary.LittleEndian.Uint32(pk[o:]), Imp: binary.LittleEndian.Uint32(pk[o+4:]),
			Idx: binary.LittleEndian.Uint32(pk[o+8:]), Size: binary.LittleEndian.Uint16(pk[o+12:]), Skip: pk[o+14], Flags: pk[o+15]})
	}
	for k := 0; k < 4; k++ {
		l := f.Sec[secByID+k]
		for o := 0; o+4 <= len(l); o += 4 {
			f.Lk[k] = append(f.Lk[k], binary.LittleEndian.Uint32(l[o:]))
		}
	}
	return f, nil
}

func le64(v uint64) []byte {
	b := make([]byte, 8)
	binary.LittleEndian.PutUint64(b, v)
	return b
}

// lookupKeyHash hashes the key sequence of lookup k (ties in the sort key leave the writer's
// unstable sort free to permute stream indexes; the key sequence is canonical).
func (f *RawFile) lookupKeyHash(k int) (uint64, string) {
	h := FnvInit
	bad := ""
	seen := make([]bool, len(f.St))
	if len(f.Lk[k]) != len(f.St) {
		bad = fmt.Sprintf("lookup %d has %d entries for %d streams", k, len(f.Lk[k]), len(f.St))
	}
	for _, si := range f.Lk[k] {
		if int(si) >= len(f.St) {
			bad = fmt.Sprintf("lookup %d refers to stream index %d of %d", k, si, len(f.St))
			h = Fnv(h, []byte("!"))
			continue
		}
		if seen[si] {
			bad = fmt.Sprintf("lookup %d lists stream index %d twice", k, si)
		}
		seen[si] = true
		s := &f.St[si]
		switch k {
		case 0:
			h = Fnv(h, le64(s.ID))
		case 1:
			if int(s.PStart) < len(f.Pk) && int(f.Pk[s.PStart].Imp) < len(f.Imports) {
				p := f.Pk[s.PStart]
				im := f.Imports[p.Imp]
				h = Fnv(h, []byte(im.Name))
				h = Fnv(h, []byte{0})
				h = Fnv(h, le64(im.Off+uint64(p.Idx)))
			} else {
				h = Fnv(h, []byte("!"))
			}
		case 2:
			h = Fnv(h, le64(s.First))
		case 3:
			h = Fnv(h, le64(s.Last))
		}
	}
	return h, bad
}

func secHash(b []byte) string { return fmt.Sprintf("%d:%x", len(b), Fnv(FnvInit, b)) }

// Digest is the strict-stream line of a file (same text as the Lean driver's `dig`).
func (f *RawFile) Digest() (string, []string) {
	var sb strings.Builder
	var bad []string
	fmt.Fprintf(&sb, "ref=%d size=%d secs=[", f.Ref, f.Size)
	for i := 0; i < secCount; i++ {
		if i > 0 {
			sb.WriteByte(',')
		}
		fmt.Fprintf(&sb, "%d-%d", f.Secs[i][0], f.Secs[i][1])
	}
	fmt.Fprintf(&sb, "] data=%s imports=[", secHash(f.Sec[secData]))
	for i, im := range f.Imports {
		if i > 0 {
			sb.WriteByte(',')
		}
		fmt.Fprintf(&sb, "%s@%d", im.Name, im.Off)
	}
	fmt.Fprintf(&sb, "] packets=%s v4=%s v6=%s hg=[", secHash(f.Sec[secPackets]), secHash(f.Sec[secV4]), secHash(f.Sec[secV6]))
	for i, g := range f.HG {
		if i > 0 {
			sb.WriteByte(',')
		}
		fmt.Fprintf(&sb, "%d/%d/%d", g[0], g[1], g[2])
	}
	fmt.Fprintf(&sb, "] streams=%s", secHash(f.Sec[secStreams]))
	for k, n := range []string{"lkid", "lksrc", "lkft", "lklt"} {
		h, b := f.lookupKeyHash(k)
		if b != "" {
			bad = append(bad, b)
		}
		fmt.Fprintf(&sb, " %s=%x", n, h)
	}
	return sb.String(), bad
}

// Dump is the readable strict-stream line (used for small files).
func (f *RawFile) Dump() string {
	var sb strings.Builder
	sb.WriteString("streams=[")
	for i, s := range f.St {
		if i > 0 {
			sb.WriteByte(',')
		}
		fmt.Fprintf(&sb, "%d/%d/%d/%d/%d/%d/%d/%d/%d/%d/%d/%d/%d", s.ID, s.First, s.Last, s.DataStart, s.CB, s.SB, s.PStart, s.Flags, s.HG, s.CH, s.SH, s.CP, s.SP)
	}
	sb.WriteString("] packets=[")
	for i, p := range f.Pk {
		if i > 0 {
			sb.WriteByte(',')
		}
		fmt.Fprintf(&sb, "%d/%d/%d/%d/%d/%d", p.Rel, p.Imp, p.Idx, p.Size, p.Skip, p.Flags)
	}
	fmt.Fprintf(&sb, "] v4=%x v6=%x", f.Sec[secV4], f.Sec[secV6])
	// lookups as key sequences
	for k, n := range []string{"lkid", "lksrc", "lkft", "lklt"} {
		fmt.Fprintf(&sb, " %s=[", n)
		for i, si := range f.Lk[k] {
			if i > 0 {
				sb.WriteByte(',')
			}
			if int(si) >= len(f.St) {
				sb.WriteString("!")
				continue
			}
			s := &f.St[si]
			switch k {
			case 0:
				fmt.Fprintf(&sb, "%d", s.ID)
			case 1:
				if int(s.PStart) < len(f.Pk) && int(f.Pk[s.PStart].Imp) < len(f.Imports) {
					p := f.Pk[s.PStart]
					im := f.Imports[p.Imp]
					fmt.Fprintf(&sb, "%s/%d", im.Name, im.Off+uint64(p.Idx))
				} else {
					sb.WriteString("!")
				}
			case 2:
				fmt.Fprintf(&sb, "%d", s.First)
			case 3:
				fmt.Fprintf(&sb, "%d", s.Last)
			}
		}
		sb.WriteString("]")
	}
	return sb.String()
}
