package search

// Query ASTs of the surface language, their rendering to query text (for the real parser) and their
// PLAIN semantics per stream (the property oracle of C02/C04; written from the documented meaning of
// the query language, not from the engine).

import (
	"bytes"
	"fmt"
	"net/netip"
	"regexp"
	"strings"
	"time"

	"rsc.io/binaryregexp"
)

type (
	// Range is an inclusive range; nil side = open.
	// A bound may be relative to another attribute of the same stream: LoVar/HiVar name it
	// (id cport sport cbytes sbytes for number filters, ftime ltime for time filters); Lo/Hi is then the
	// constant added to it (seconds for times).
	Range struct {
		Lo    *int64 `json:"lo,omitempty"`
		Hi    *int64 `json:"hi,omitempty"`
		LoVar string `json:"lov,omitempty"`
		HiVar string `json:"hiv,omitempty"`
	}
	HostPat struct {
		IP    string `json:"ip,omitempty"`
		Var   string `json:"v,omitempty"` // instead of IP: host of a sub-query stream, "sub:chost" / "sub:shost"
		Masks []int  `json:"m,omitempty"` // "/n" suffixes
	}
	// Node is a node of the surface AST.
	//   op = and | or | not | then | term
	//   term keys: id cport sport port cbytes sbytes bytes (Nums) | chost shost host (Hosts) |
	//              protocol (Protos) | ftime ltime time (Times, seconds after T0) | tag mark (Tags) |
	//              cdata sdata data (Regex, Conv)
	Node struct {
		Op     string    `json:"op"`
		Kids   []*Node   `json:"k,omitempty"`
		Key    string    `json:"key,omitempty"`
		Nums   []Range   `json:"n,omitempty"`
		Hosts  []HostPat `json:"h,omitempty"`
		Protos []string  `json:"p,omitempty"`
		Times  []Range   `json:"t,omitempty"`
		Tags   []string  `json:"g,omitempty"`
		Regex  string    `json:"re,omitempty"`
		Conv   string    `json:"cv,omitempty"`
		// Sub: the term is a filter of the named sub-query (`@sub:key:value`), it speaks about the
		// sub-query's stream. Terms of the main query refer to that stream through variables
		// `@sub:attr@` (Range.LoVar/HiVar = "sub:attr", HostPat.Var, Protos entry "@sub:protocol@").
		Sub string `json:"sq,omitempty"`
	}
	// Tag is a tag table entry: truth for certain streams from Matches, for uncertain ones from Def.
	Tag struct {
		Name      string   `json:"name"` // e.g. "tag/a"
		Def       *Node    `json:"def"`
		Matches   []uint64 `json:"m,omitempty"`
		Uncertain []uint64 `json:"u,omitempty"`
		// AgeSec: the tag definition was parsed this many seconds before the searching query
		AgeSec int64 `json:"age,omitempty"`
	}
	SortKey struct {
		Key  string `json:"k"`
		Desc bool   `json:"d,omitempty"`
	}
)

func I64(v int64) *int64 { return &v }

// ---------------------------------------------------------------------------------------
// rendering
// ---------------------------------------------------------------------------------------

func renderBound(v *int64, name string, f func(int64) string, dur bool) string {
	if v == nil {
		return ""
	}
	if name == "" {
		return f(*v)
	}
	s := "@" + name + "@"
	switch {
	case *v > 0 && dur:
		s += fmt.Sprintf("+%ds", *v)
	case *v < 0 && dur:
		s += fmt.Sprintf("-%ds", -*v)
	case *v > 0:
		s += fmt.Sprintf("+%d", *v)
	case *v < 0:
		s += fmt.Sprintf("-%d", -*v)
	}
	return s
}

func renderRange(r Range, f func(int64) string, dur bool) string {
	if r.Lo != nil && r.Hi != nil && *r.Lo == *r.Hi && r.LoVar == r.HiVar {
		return renderBound(r.Lo, r.LoVar, f, dur)
	}
	return renderBound(r.Lo, r.LoVar, f, dur) + ":" + renderBound(r.Hi, r.HiVar, f, dur)
}

func TimeText(sec int64) string {
	return T0.Add(time.Duration(sec) * time.Second).Format("2006-01-02 150405")
}

func (n *Node) valueText() string {
	parts := []string{}
	switch n.Key {
	case "id", "cport", "sport", "port", "cbytes", "sbytes", "bytes":
		for _, r := range n.Nums {
			parts = append(parts, renderRange(r, func(v int64) string { return fmt.Sprint(v) }, false))
		}
	case "chost", "shost", "host":
		for _, h := range n.Hosts {
			s := h.IP
			if h.Var != "" {
				s = "@" + h.Var + "@"
			}
			for _, m := range h.Masks {
				s += fmt.Sprintf("/%d", m)
			}
			parts = append(parts, s)
		}
	case "protocol":
		parts = n.Protos
	case "ftime", "ltime", "time":
		for _, r := range n.Times {
			parts = append(parts, renderRange(r, TimeText, true))
		}
	case "tag", "mark", "service", "generated":
		parts = n.Tags
	case "cdata", "sdata", "data":
		return n.Regex
	}
	return strings.Join(parts, ",")
}

// Render produces query text. Every term value is quoted (`"` doubled), groups are bracketed.
func (n *Node) Render() string {
	switch n.Op {
	case "term":
		k := n.Key
		if n.Sub != "" {
			k = "@" + n.Sub + ":" + k
		}
		if n.Conv != "" {
			k += "." + n.Conv
		}
		return k + `:"` + strings.ReplaceAll(n.valueText(), `"`, `""`) + `"`
	case "not":
		return "-" + n.Kids[0].renderAtom()
	case "and", "or", "then":
		sep := map[string]string{"and": " ", "or": " or ", "then": " then "}[n.Op]
		ps := []string{}
		for _, k := range n.Kids {
			ps = append(ps, k.renderAtom())
		}
		return strings.Join(ps, sep)
	}
	return "?"
}

func (n *Node) renderAtom() string {
	if n.Op == "term" || n.Op == "not" {
		return n.Render()
	}
	return "(" + n.Render() + ")"
}

func RenderSort(ks []SortKey) string {
	if len(ks) == 0 {
		return ""
	}
	ps := []string{}
	for _, k := range ks {
		if k.Desc {
			ps = append(ps, "-"+k.Key)
		} else {
			ps = append(ps, k.Key)
		}
	}
	return "sort:" + strings.Join(ps, ",")
}

// ---------------------------------------------------------------------------------------
// plain semantics
// ---------------------------------------------------------------------------------------

// Env is what a query is evaluated against besides the stream itself.
type Env struct {
	Tags map[string]*Tag
	// ConvNames lists the converters that exist (a data filter without converter name searches the
	// raw payload and the output of every converter that has cached output for the stream).
	ConvNames []string
	// Sub binds sub-query names to the stream they currently stand for (see EvalQuery)
	Sub      map[string]*StreamV
	reCache  map[string]*binaryregexp.Regexp
	Err      error // first evaluation problem (unknown tag, bad regex): the case is then skipped
	ChainErr int   // != 0: some chain uses an undefined variable / binds a variable twice (the engine reports an error)
	depth    int
}

func attr(s *StreamV, name string) int64 {
	switch name {
	case "id":
		return int64(s.ID)
	case "cport":
		return int64(s.CPort)
	case "sport":
		return int64(s.SPort)
	case "cbytes":
		return int64(s.CBytes())
	case "sbytes":
		return int64(s.SBytes())
	case "ftime":
		return s.FTms
	case "ltime":
		return s.LTms
	}
	panic("attribute " + name)
}

// bound resolves one side of a range for a stream; unit = 1 for numbers, 1000 for times (ms per second)
func (e *Env) bound(s *StreamV, v *int64, name string, unit int64) (int64, bool) {
	if v == nil {
		return 0, false
	}
	if name == "" {
		return *v * unit, true
	}
	if i := strings.Index(name, ":"); i >= 0 {
		// attribute of the stream a sub-query stands for
		t := e.Sub[name[:i]]
		if t == nil {
			if e.Err == nil {
				e.Err = fmt.Errorf("unbound sub-query %q", name[:i])
			}
			return 0, true
		}
		return attr(t, name[i+1:]) + *v*unit, true
	}
	return attr(s, name) + *v*unit, true
}

func (e *Env) inRangeOf(s *StreamV, r Range, v, unit int64) bool {
	if lo, ok := e.bound(s, r.Lo, r.LoVar, unit); ok && v < lo {
		return false
	}
	if hi, ok := e.bound(s, r.Hi, r.HiVar, unit); ok && v > hi {
		return false
	}
	return true
}

func (e *Env) inAnyOf(s *StreamV, rs []Range, v int64) bool {
	for _, r := range rs {
		if e.inRangeOf(s, r, v, 1) {
			return true
		}
	}
	return false
}

// MaskBits computes the netmask of a host pattern for an address of nbits bits, from the
// documentation: "/n" keeps the first n bits, "/-n" the last n bits, several suffixes toggle
// ("/16/-8" = 255.255.0.255).
func MaskBits(masks []int, nbits int) []bool {
	m := make([]bool, nbits)
	if len(masks) == 0 {
		for i := range m {
			m[i] = true
		}
		return m
	}
	for _, n := range masks {
		if n > 0 {
			for i := 0; i < n && i < nbits; i++ {
				m[i] = !m[i]
			}
		} else if n < 0 && -n <= nbits {
			for i := nbits + n; i < nbits; i++ {
				m[i] = !m[i]
			}
		}
	}
	return m
}

func (e *Env) hostMatches(p HostPat, host string) bool {
	ip := p.IP
	if p.Var != "" {
		i := strings.Index(p.Var, ":")
		t := e.Sub[p.Var[:i]]
		if t == nil {
			if e.Err == nil {
				e.Err = fmt.Errorf("unbound sub-query in %q", p.Var)
			}
			return false
		}
		ip = t.CHost
		if p.Var[i+1:] == "shost" {
			ip = t.SHost
		}
	}
	a, _ := netip.ParseAddr(ip)
	h, _ := netip.ParseAddr(host)
	ab, hb := a.AsSlice(), h.AsSlice()
	if len(ab) != len(hb) {
		return false
	}
	m := MaskBits(p.Masks, len(ab)*8)
	for i := range m {
		if !m[i] {
			continue
		}
		if (ab[i/8]^hb[i/8])>>(7-uint(i%8))&1 != 0 {
			return false
		}
	}
	return true
}

func (e *Env) regex(s string) *binaryregexp.Regexp {
	if e.reCache == nil {
		e.reCache = map[string]*binaryregexp.Regexp{}
	}
	if r, ok := e.reCache[s]; ok {
		return r
	}
	r, err := binaryregexp.Compile(s)
	if err != nil {
		if e.Err == nil {
			e.Err = err
		}
		r = nil
	}
	e.reCache[s] = r
	return r
}

// Sources lists the chunk sequences a data filter with converter selection conv searches.
func (e *Env) Sources(s *StreamV, conv string) [][]Chunk {
	src := [][]Chunk{}
	if conv == "" || conv == "none" {
		src = append(src, s.Chunks)
	}
	if conv != "none" {
		for _, c := range e.ConvNames {
			if conv != "" && conv != c {
				continue
			}
			if out, ok := s.Conv[c]; ok {
				src = append(src, out)
			}
		}
	}
	return src
}

// ChainElem is one element of a THEN chain: a regular expression searched in one direction.
type ChainElem struct {
	Dir   int
	Regex string
}

// convPos is a position in a conversation: before byte Off of chunk Chunk.
type convPos struct{ chunk, off int }

// remaining returns the bytes of direction dir that lie after position p, with, for every byte, the
// position just behind it.
func remaining(chunks []Chunk, p convPos, dir int) ([]byte, []convPos) {
	b, ps := []byte{}, []convPos{}
	for k := p.chunk; k < len(chunks); k++ {
		if chunks[k].Dir != dir {
			continue
		}
		start := 0
		if k == p.chunk {
			start = p.off
		}
		for o := start; o < len(chunks[k].Data); o++ {
			b = append(b, chunks[k].Data[o])
			ps = append(ps, convPos{k, o + 1})
		}
	}
	return b, ps
}

var varRef = regexp.MustCompile(`(?i)@(?:[a-z0-9]+:)?[a-z0-9]+@`)

// ChainError is an outcome of its own: the engine refuses such a chain with an error.
const (
	ChainErrUndefinedVar = -1
	ChainErrVarSeenTwice = -2
)

// PlainChainProgress: how many elements of the chain match one after the other on one source, every
// element on the bytes of its direction that follow the previous match in conversation order, each
// found by a plain leftmost regular expression search. A named capture binds a variable; a later
// element sees `@name@` replaced by the captured bytes, quoted. Negative results: ChainErr*.
func (e *Env) PlainChainProgress(chunks []Chunk, chain []ChainElem) int {
	// drop empty chunks, they carry no bytes
	cs := []Chunk{}
	for _, c := range chunks {
		if len(c.Data) != 0 {
			cs = append(cs, c)
		}
	}
	pos := convPos{0, 0}
	vars := map[string]string{}
	for i, el := range chain {
		expr := el.Regex
		undefined := false
		if strings.Contains(expr, "@") {
			expr = varRef.ReplaceAllStringFunc(expr, func(ref string) string {
				v, ok := vars[strings.Trim(ref, "@")]
				if !ok {
					undefined = true
				}
				return "(?:" + quoteBytes(v) + ")"
			})
		}
		if undefined {
			return ChainErrUndefinedVar
		}
		re := e.regex(expr)
		if re == nil {
			return i
		}
		buf, ps := remaining(cs, pos, el.Dir)
		m := re.FindSubmatchIndex(buf)
		if m == nil {
			return i
		}
		for gi, name := range re.SubexpNames() {
			if gi == 0 || name == "" {
				continue
			}
			if _, seen := vars[name]; seen {
				return ChainErrVarSeenTwice
			}
			if m[2*gi] >= 0 {
				vars[name] = string(buf[m[2*gi]:m[2*gi+1]])
			} else {
				vars[name] = ""
			}
		}
		if m[1] != 0 {
			pos = ps[m[1]-1]
		}
	}
	return len(chain)
}

// chainHolds: a chain holds for a stream iff some searched source completes it.
func (e *Env) chainHolds(s *StreamV, conv string, chain []ChainElem) bool {
	for _, src := range e.Sources(s, conv) {
		n := e.PlainChainProgress(src, chain)
		if n < 0 {
			e.ChainErr = n
		}
		if n == len(chain) {
			return true
		}
	}
	return false
}

func dirsOf(key string) []int {
	switch key {
	case "cdata":
		return []int{0}
	case "sdata":
		return []int{1}
	}
	return []int{0, 1}
}

// thenChains expands a THEN node whose operands are data terms into its chains (a `data` operand
// stands for either direction).
func thenChains(kids []*Node) (conv string, chains [][]ChainElem, ok bool) {
	chains = [][]ChainElem{{}}
	for i, k := range kids {
		if k.Op != "term" || (k.Key != "cdata" && k.Key != "sdata" && k.Key != "data") {
			return "", nil, false
		}
		if i == 0 {
			conv = k.Conv
		} else if conv != k.Conv {
			return "", nil, false
		}
		next := [][]ChainElem{}
		for _, c := range chains {
			for _, d := range dirsOf(k.Key) {
				next = append(next, append(append([]ChainElem(nil), c...), ChainElem{d, k.Regex}))
			}
		}
		chains = next
	}
	return conv, chains, true
}

// Eval is the plain truth value of the query for one stream version.
func (e *Env) Eval(n *Node, s *StreamV) bool {
	switch n.Op {
	case "and":
		for _, k := range n.Kids {
			if !e.Eval(k, s) {
				return false
			}
		}
		return true
	case "or":
		for _, k := range n.Kids {
			if e.Eval(k, s) {
				return true
			}
		}
		return false
	case "not":
		return !e.Eval(n.Kids[0], s)
	case "then":
		conv, chains, ok := thenChains(n.Kids)
		if !ok {
			if e.Err == nil {
				e.Err = fmt.Errorf("unsupported THEN operands")
			}
			return false
		}
		for _, c := range chains {
			if e.chainHolds(s, conv, c) {
				return true
			}
		}
		return false
	}
	if n.Sub != "" {
		t := e.Sub[n.Sub]
		if t == nil {
			if e.Err == nil {
				e.Err = fmt.Errorf("unbound sub-query %q", n.Sub)
			}
			return false
		}
		s = t
	}
	switch n.Key {
	case "id":
		return e.inAnyOf(s, n.Nums, int64(s.ID))
	case "cport":
		return e.inAnyOf(s, n.Nums, int64(s.CPort))
	case "sport":
		return e.inAnyOf(s, n.Nums, int64(s.SPort))
	case "port":
		return e.inAnyOf(s, n.Nums, int64(s.CPort)) || e.inAnyOf(s, n.Nums, int64(s.SPort))
	case "cbytes":
		return e.inAnyOf(s, n.Nums, int64(s.CBytes()))
	case "sbytes":
		return e.inAnyOf(s, n.Nums, int64(s.SBytes()))
	case "bytes":
		return e.inAnyOf(s, n.Nums, int64(s.CBytes())) || e.inAnyOf(s, n.Nums, int64(s.SBytes()))
	case "chost", "shost", "host":
		for _, p := range n.Hosts {
			if n.Key != "shost" && e.hostMatches(p, s.CHost) {
				return true
			}
			if n.Key != "chost" && e.hostMatches(p, s.SHost) {
				return true
			}
		}
		return false
	case "protocol":
		for _, p := range n.Protos {
			if (p == "tcp" && !s.UDP) || (p == "udp" && s.UDP) {
				return true
			}
			if strings.HasPrefix(p, "@") { // "@sub:protocol@": same protocol as the sub-query's stream
				name := strings.Trim(p, "@")
				if t := e.Sub[name[:strings.Index(name, ":")]]; t != nil && t.UDP == s.UDP {
					return true
				}
			}
		}
		return false
	case "ftime", "ltime", "time":
		// bounds are whole seconds (or another time of the stream plus whole seconds), stream times have
		// millisecond resolution
		for _, r := range n.Times {
			switch n.Key {
			case "ftime":
				if e.inRangeOf(s, r, s.FTms, 1000) {
					return true
				}
			case "ltime":
				if e.inRangeOf(s, r, s.LTms, 1000) {
					return true
				}
			default: // any packet in the range: the stream's life span overlaps it
				if e.inRangeOf(s, Range{Lo: r.Lo, LoVar: r.LoVar}, s.LTms, 1000) && e.inRangeOf(s, Range{Hi: r.Hi, HiVar: r.HiVar}, s.FTms, 1000) {
					return true
				}
			}
		}
		return false
	case "tag", "mark", "service", "generated":
		for _, name := range n.Tags {
			if e.tagHolds(n.Key+"/"+name, s) {
				return true
			}
		}
		return false
	case "cdata", "sdata", "data":
		for _, d := range dirsOf(n.Key) {
			if e.chainHolds(s, n.Conv, []ChainElem{{d, n.Regex}}) {
				return true
			}
		}
		return false
	}
	if e.Err == nil {
		e.Err = fmt.Errorf("unknown term %q", n.Key)
	}
	return false
}

// SubQueryNames lists the sub-queries a query speaks about (`@name:` filters and `@name:attr@` variables).
func (n *Node) SubQueryNames() []string {
	seen := map[string]bool{}
	names := []string{}
	add := func(x string) {
		if x != "" && !seen[x] {
			seen[x] = true
			names = append(names, x)
		}
	}
	pre := func(v string) string {
		if i := strings.Index(v, ":"); i >= 0 {
			return v[:i]
		}
		return ""
	}
	n.Walk(func(k *Node) {
		add(k.Sub)
		for _, r := range append(append([]Range(nil), k.Nums...), k.Times...) {
			add(pre(r.LoVar))
			add(pre(r.HiVar))
		}
		for _, h := range k.Hosts {
			add(pre(h.Var))
		}
		for _, p := range k.Protos {
			if strings.HasPrefix(p, "@") {
				add(pre(strings.Trim(p, "@")))
			}
		}
	})
	return names
}

// EvalQuery is the plain truth value of a query that may speak about sub-queries: a sub-query name
// stands for SOME visible stream; the query holds for s iff the names can be bound to visible streams
// (any, also s itself) such that it holds. Sub-query filters speak about the bound stream, `@name:attr@`
// is that stream's attribute. The id restriction of a search does not apply to sub-query streams.
func (e *Env) EvalQuery(n *Node, s *StreamV, visible []*StreamV) bool {
	names := n.SubQueryNames()
	if len(names) == 0 {
		return e.Eval(n, s)
	}
	e.Sub = map[string]*StreamV{}
	defer func() { e.Sub = nil }()
	var rec func(i int) bool
	rec = func(i int) bool {
		if i == len(names) {
			return e.Eval(n, s)
		}
		for _, t := range visible {
			e.Sub[names[i]] = t
			if rec(i + 1) {
				return true
			}
		}
		return false
	}
	return rec(0)
}

func has(xs []uint64, v uint64) bool {
	for _, x := range xs {
		if x == v {
			return true
		}
	}
	return false
}

// tagHolds: a decided stream has the truth value recorded in the tag's match table; an undecided
// (uncertain) stream has the truth value of the tag's own definition.
func (e *Env) tagHolds(name string, s *StreamV) bool {
	t, ok := e.Tags[name]
	if !ok {
		if e.Err == nil {
			e.Err = fmt.Errorf("unknown tag %q", name)
		}
		return false
	}
	if !has(t.Uncertain, s.ID) {
		return has(t.Matches, s.ID)
	}
	e.depth++
	defer func() { e.depth-- }()
	if e.depth > 20 {
		if e.Err == nil {
			e.Err = fmt.Errorf("tag cycle")
		}
		return false
	}
	return e.Eval(t.Def, s)
}

// Walk visits every node.
func (n *Node) Walk(f func(*Node)) {
	f(n)
	for _, k := range n.Kids {
		k.Walk(f)
	}
}

func (n *Node) Clone() *Node {
	c := *n
	c.Kids = nil
	for _, k := range n.Kids {
		c.Kids = append(c.Kids, k.Clone())
	}
	return &c
}

var _ = bytes.Compare

// quoteBytes: an expression that matches exactly the bytes of v. Written from the meaning of a variable ("the
// bytes the group captured"), not with binaryregexp.QuoteMeta: the pattern text is read as UTF-8 whose runes up
// to 0xff stand for single bytes, so a captured byte >= 0x80 left as it is would be read as (part of) another rune.
func quoteBytes(v string) string {
	var b strings.Builder
	for i := 0; i < len(v); i++ {
		c := v[i]
		switch {
		case c >= 'a' && c <= 'z', c >= 'A' && c <= 'Z', c >= '0' && c <= '9':
			b.WriteByte(c)
		default:
			fmt.Fprintf(&b, `\x%02x`, c)
		}
	}
	return b.String()
}
