package search

// Stream populations, real index files built with the real index.Writer, fake converter caches.
// Shared by the C02 and C04 harnesses.

import (
	"fmt"
	"net/netip"
	"os"
	"path/filepath"
	"time"

	"github.com/gopacket/gopacket"
	"github.com/gopacket/gopacket/reassembly"
	"github.com/spq/pkappa2/internal/index"
	"github.com/spq/pkappa2/internal/index/streams"
	pcapmetadata "github.com/spq/pkappa2/internal/tools/pcapMetadata"
)

// T0 is the base time of every generated population (2020-01-01T12:00:00Z).
var T0 = time.Date(2020, 1, 1, 12, 0, 0, 0, time.UTC)

type (
	// Chunk is one burst of payload in one direction (0 = client to server, 1 = server to client).
	Chunk struct {
		Dir  int    `json:"d"`
		Data string `json:"b"`
	}
	// StreamV is one stored version of a stream.
	StreamV struct {
		ID     uint64             `json:"id"`
		CHost  string             `json:"ch"`
		SHost  string             `json:"sh"`
		CPort  uint16             `json:"cp"`
		SPort  uint16             `json:"sp"`
		FTms   int64              `json:"ft"` // first packet, ms after T0
		LTms   int64              `json:"lt"` // last packet, ms after T0 (>= FTms)
		UDP    bool               `json:"udp,omitempty"`
		Chunks []Chunk            `json:"data,omitempty"`
		Conv   map[string][]Chunk `json:"conv,omitempty"` // cached converter outputs (absent = not cached)
	}
)

func (s *StreamV) FT() time.Time { return T0.Add(time.Duration(s.FTms) * time.Millisecond) }
func (s *StreamV) LT() time.Time { return T0.Add(time.Duration(s.LTms) * time.Millisecond) }

// Bytes returns the concatenated payload of one direction.
func DirBytes(chunks []Chunk, dir int) []byte {
	b := []byte{}
	for _, c := range chunks {
		if c.Dir == dir {
			b = append(b, c.Data...)
		}
	}
	return b
}

func (s *StreamV) CBytes() uint64 { return uint64(len(DirBytes(s.Chunks, 0))) }
func (s *StreamV) SBytes() uint64 { return uint64(len(DirBytes(s.Chunks, 1))) }

func HostBytes(h string) []byte {
	a, err := netip.ParseAddr(h)
	if err != nil {
		panic(err)
	}
	return a.AsSlice()
}

// ToIndexStream builds the writer input the way the importer does: one packet per payload chunk, a
// leading and a trailing packet without payload.
func (s *StreamV) ToIndexStream() *streams.Stream {
	n := len(s.Chunks)
	pcapinfo := &pcapmetadata.PcapInfo{
		Filename:           fmt.Sprintf("s%d_%d.pcap", s.ID, s.FTms),
		Filesize:           123,
		PacketTimestampMin: s.FT(),
		PacketTimestampMax: s.LT(),
		ParseTime:          s.LT().Add(time.Minute),
		PacketCount:        uint(n) + 2,
	}
	packets := []gopacket.CaptureInfo{{Timestamp: s.FT(), CaptureLength: 60, Length: 60}}
	dirs := []reassembly.TCPFlowDirection{reassembly.TCPDirClientToServer}
	data := []streams.StreamData(nil)
	for i, c := range s.Chunks {
		// payload packets lie between first and last packet
		ts := s.FT()
		if n > 0 {
			ts = ts.Add(time.Duration(int64(s.LT().Sub(s.FT())) * int64(i+1) / int64(n+1)))
		}
		packets = append(packets, gopacket.CaptureInfo{Timestamp: ts, CaptureLength: 60, Length: 60})
		d := reassembly.TCPDirClientToServer
		if c.Dir == 1 {
			d = reassembly.TCPDirServerToClient
		}
		dirs = append(dirs, d)
		data = append(data, streams.StreamData{Bytes: []byte(c.Data), PacketIndex: uint64(i + 1)})
	}
	packets = append(packets, gopacket.CaptureInfo{Timestamp: s.LT(), CaptureLength: 60, Length: 60})
	dirs = append(dirs, reassembly.TCPDirClientToServer)
	for i := range packets {
		pcapmetadata.AddPcapMetadata(&packets[i], pcapinfo, uint64(i))
	}
	fl := streams.StreamFlagsComplete | streams.StreamFlagsProtocolTCP
	if s.UDP {
		fl = streams.StreamFlagsComplete | streams.StreamFlagsProtocolUDP
	}
	return &streams.Stream{
		ClientAddr:       HostBytes(s.CHost),
		ServerAddr:       HostBytes(s.SHost),
		ClientPort:       s.CPort,
		ServerPort:       s.SPort,
		Packets:          packets,
		PacketDirections: dirs,
		Data:             data,
		Flags:            fl,
	}
}

// BuildIndex writes the given stream versions (in this order) with the real writer.
func BuildIndex(dir string, ordinal int, vs []*StreamV) (*index.Reader, error) {
	fn := filepath.Join(dir, fmt.Sprintf("f%03d.idx", ordinal))
	os.Remove(fn)
	w, err := index.NewWriter(fn)
	if err != nil {
		return nil, err
	}
	for _, v := range vs {
		ok, err := w.AddStream(v.ToIndexStream(), v.ID)
		if err != nil {
			return nil, err
		}
		if !ok {
			return nil, fmt.Errorf("writer refused stream %d", v.ID)
		}
	}
	return w.Finalize()
}

// FakeConverter serves cached converter outputs the way converters.cacheFile.DataForSearch does:
// cumulative chunk sizes (one entry per non-empty chunk, leading {0,0}) and the per-direction bytes.
type FakeConverter struct {
	Out map[uint64][]Chunk
}

func (c *FakeConverter) Data(stream *index.Stream, moreDetails bool) ([]index.Data, uint64, uint64, bool, error) {
	return nil, 0, 0, false, nil
}

func SizesOf(chunks []Chunk) ([2][]byte, [][2]int) {
	data := [2][]byte{{}, {}}
	sizes := [][2]int{{}}
	for _, ch := range chunks {
		if len(ch.Data) == 0 {
			continue
		}
		data[ch.Dir] = append(data[ch.Dir], ch.Data...)
		sizes = append(sizes, [2]int{len(data[0]), len(data[1])})
	}
	return data, sizes
}

func (c *FakeConverter) DataForSearch(streamID uint64) ([2][]byte, [][2]int, uint64, uint64, bool, error) {
	d, ok := c.Out[streamID]
	if !ok {
		return [2][]byte{}, [][2]int{}, 0, 0, false, nil
	}
	data, sizes := SizesOf(d)
	return data, sizes, uint64(len(data[0])), uint64(len(data[1])), true, nil
}
