// Package importh is the shared correspondence harness of properties C05 and C08 (pcap import).
//
// A *case* (one JSON line) holds generated conversations (ground truth), the packets they put on
// the wire (already segmented, disturbed, interleaved and cut into capture files) and an import
// plan (builder restarts, uploads, FromPcap calls).  `Run` executes the plan on the REAL
// builder.New / Builder.FromPcap, reads everything back through index.Reader and prints one
// canonical line per case; the Lean model driver (pkmodel c05 / c08) prints the same line from
// the same JSON.  The property oracles (written from the property statements, independent of the
// Lean model) write their complaints to the oracle file.
package importh

import (
	"encoding/hex"
	"fmt"
	"os"
	"strings"
)

type (
	Msg struct {
		D int    `json:"d"` // 0 = client->server, 1 = server->client
		B string `json:"b"` // payload, hex
		// Rep > 1: the message was sent Rep times (Rep datagrams with the same payload)
		Rep int `json:"rep,omitempty"`
	}
	Conv struct {
		Proto string `json:"proto"` // "tcp" | "udp"
		C     int    `json:"c"`     // index into Hosts
		S     int    `json:"s"`
		CP    int    `json:"cp"`
		SP    int    `json:"sp"`
		Msgs  []Msg  `json:"msgs"`
	}
	// Pkt is one packet on the wire.  Rep > 1 stands for Rep copies (UDP only) with timestamps
	// T, T+Step, T+2*Step, ... (keeps the > 100 000 packet cases small).
	Pkt struct {
		T    int64  `json:"t"`    // microseconds after 2020-01-01T00:00:00Z
		Conv int    `json:"conv"` // index into Convs
		D    int    `json:"d"`    // 0 = sent by the client of the conversation, 1 = by the server
		Fl   string `json:"fl"`   // TCP flags, subset of "SAFRP"; "" for UDP
		Seq  uint32 `json:"seq"`
		Ack  uint32 `json:"ack"`
		Pl   string `json:"pl"` // payload, hex
		Rep  int    `json:"rep,omitempty"`
		Step int64  `json:"step,omitempty"`
	}
	File struct {
		Name string `json:"name"`
		Pkts []Pkt  `json:"pkts"`
	}
	// Op is one step of the import plan:
	//   new    : builder.New on the directories (Cached: hand the previous builder's KnownPcaps in,
	//            as the manager does from its state file)
	//   put    : the named capture files appear in the capture directory (upload)
	//   import : Builder.FromPcap(files) against all index files produced so far
	Op struct {
		Op     string   `json:"op"`
		Files  []string `json:"files,omitempty"`
		Cached bool     `json:"cached,omitempty"`
	}
	Case struct {
		Name  string   `json:"name"`
		Hosts []string `json:"hosts"` // raw addresses, hex (8 or 32 digits)
		Convs []Conv   `json:"convs"`
		Files []File   `json:"files"`
		Plan  []Op     `json:"plan"`
		// generator annotations (not used by the model): regime tags
		Tags []string `json:"tags,omitempty"`
		// NoTruth: packets were removed by the shrinker, Convs[].Msgs no longer describe the wire
		// (the C05 ground-truth oracle is skipped, the C08 oracle and the model comparison are not)
		NoTruth bool `json:"no_truth,omitempty"`
	}
)

func unhex(s string) []byte {
	b, err := hex.DecodeString(s)
	if err != nil {
		panic(fmt.Sprintf("bad hex %q", s))
	}
	return b
}

// fnv1a64 is the payload digest printed by both sides.
func fnv1a64(b []byte) uint64 {
	h := uint64(0xcbf29ce484222325)
	for _, c := range b {
		h ^= uint64(c)
		h *= 0x100000001b3
	}
	return h
}

// compactLimit: VERIF_FULL=1 prints everything (debugging aid; pair with `pkmodel c05-full`)
var compactLimit = func() int {
	if os.Getenv("VERIF_FULL") != "" {
		return 1 << 40
	}
	return 600
}()

// compact keeps the canonical line short: long lists are replaced by length and digest.
func compact(s string) string {
	if len(s) > compactLimit {
		return fmt.Sprintf("#%d:%x", len(s), fnv1a64([]byte(s)))
	}
	return s
}

// ---- canonical stream description (identical text is produced by Pk/Driver/C05.lean) ----

type (
	PktRef struct {
		File string
		Idx  uint64
		Dir  int
	}
	Run struct {
		Dir int
		N   int
		H   uint64
	}
	StreamObs struct {
		ID           uint64
		Proto        string
		CHost, SHost string // hex raw address
		CPort, SPort int
		Pkts         []PktRef
		Runs         []Run // payload as direction runs (adjacent chunks of one direction merged)
		Bytes        [2][]byte
	}
)

func dirCh(d int) string {
	if d == 0 {
		return ">"
	}
	return "<"
}

func (s *StreamObs) String() string {
	ps := make([]string, len(s.Pkts))
	for i, p := range s.Pkts {
		ps[i] = fmt.Sprintf("%s#%d%s", p.File, p.Idx, dirCh(p.Dir))
	}
	rs := make([]string, len(s.Runs))
	for i, r := range s.Runs {
		rs[i] = fmt.Sprintf("%s%d:%x", dirCh(r.Dir), r.N, r.H)
	}
	return fmt.Sprintf("%d/%s/%s:%d>%s:%d/P[%s]/D[%s]", s.ID, s.Proto, s.CHost, s.CPort, s.SHost, s.SPort,
		compact(strings.Join(ps, ",")), compact(strings.Join(rs, ",")))
}

func joinU(xs []uint64) string {
	ss := make([]string, len(xs))
	for i, x := range xs {
		ss[i] = fmt.Sprint(x)
	}
	return strings.Join(ss, ",")
}
