package importh

import (
	"bufio"
	"encoding/json"
	"flag"
	"fmt"
	"io"
	"log"
	"os"
	"path/filepath"

	"github.com/spq/pkappa2/internal/verifh/lib"
)

// Main implements the two modes of the c05 / c08 harness binaries:
//
//	<prop> gen -seed S -n N [-big K]      write N generated cases (+ K cases with > 100 000 packets), one JSON line each
//	<prop> run -oracle FILE -scratch DIR  execute the cases from stdin on the real builder; one canonical line per case
func Main(profile string) {
	if len(os.Args) < 2 {
		fmt.Fprintf(os.Stderr, "usage: %s gen|run ...\n", profile)
		os.Exit(2)
	}
	fs := flag.NewFlagSet(os.Args[1], flag.ExitOnError)
	seed := fs.Uint64("seed", 1, "seed")
	n := fs.Int("n", 20, "number of cases")
	big := fs.Int("big", 0, "number of snapshot-sized cases")
	oracle := fs.String("oracle", "", "oracle complaint file")
	scratch := fs.String("scratch", "", "scratch directory")
	fs.Parse(os.Args[2:])
	switch os.Args[1] {
	case "gen":
		// lib.NewRNG(seed) and lib.NewRNG(seed+1) produce the same stream shifted by one draw;
		// scramble the seed first so that consecutive VERIF_SEEDs give unrelated cases
		z := (*seed + 0x632BE59BD9B4E019) * 0xD6E8FEB86659FD93
		z ^= z >> 32
		z *= 0xD6E8FEB86659FD93
		z ^= z >> 32
		r := lib.NewRNG(z)
		w := bufio.NewWriter(os.Stdout)
		defer w.Flush()
		enc := json.NewEncoder(w)
		for i := 0; i < *big; i++ {
			enc.Encode(GenBig(r.Fork(), fmt.Sprintf("%s-big-%d-%d", profile, *seed, i)))
		}
		for i := 0; i < *n; i++ {
			enc.Encode(GenCase(r.Fork(), fmt.Sprintf("%s-%d-%d", profile, *seed, i), profile))
		}
	case "run":
		os.Exit(run(profile, *oracle, *scratch))
	default:
		fmt.Fprintln(os.Stderr, "unknown mode")
		os.Exit(2)
	}
}

func run(profile, oraclePath, scratch string) int {
	log.SetOutput(io.Discard)
	if scratch == "" {
		d, err := os.MkdirTemp("/var/tmp", "verif-import-")
		if err != nil {
			fmt.Fprintln(os.Stderr, err)
			return 2
		}
		scratch = d
		defer os.RemoveAll(d)
	}
	var of *os.File
	if oraclePath != "" {
		f, err := os.Create(oraclePath)
		if err != nil {
			fmt.Fprintln(os.Stderr, err)
			return 2
		}
		of = f
		defer f.Close()
	}
	in := bufio.NewReaderSize(os.Stdin, 1<<20)
	out := bufio.NewWriter(os.Stdout)
	defer out.Flush()
	for line := 1; ; line++ {
		text, err := in.ReadBytes('\n')
		if len(text) == 0 && err != nil {
			break
		}
		complain := func(msg string) {
			if of != nil {
				fmt.Fprintf(of, "ORACLE line=%d %s\n", line, msg)
			}
		}
		res := func() (res string) {
			defer func() {
				if e := recover(); e != nil {
					res = "panic"
					complain(fmt.Sprintf("HARNESS kind=panic conv=-1 %v", e))
				}
			}()
			var c Case
			if err := json.Unmarshal(text, &c); err != nil {
				return "bad-case"
			}
			root := filepath.Join(scratch, fmt.Sprintf("case%d", line))
			os.RemoveAll(root) // never start on the leftovers of a killed run
			defer os.RemoveAll(root)
			r, err := Execute(&c, filepath.Join(root, "main"))
			if err != nil {
				complain("HARNESS kind=error conv=-1 " + err.Error())
				return "error"
			}
			imported := map[string]bool{}
			for _, st := range r.Steps {
				if !st.Err {
					for _, f := range st.Files {
						imported[f] = true
					}
				}
			}
			if !c.NoTruth {
				oracleC05(&c, imported, r.Final, complain)
			}
			oracleC08(&c, r, root, complain)
			return r.Line
		}()
		fmt.Fprintln(out, res)
		if err != nil {
			break
		}
	}
	return 0
}
