package importh

import (
	"encoding/hex"
	"fmt"
	"net"
	"os"
	"path/filepath"
	"sort"
	"strings"
	"time"

	"github.com/gopacket/gopacket"
	"github.com/gopacket/gopacket/layers"
	"github.com/gopacket/gopacket/pcapgo"
	"github.com/spq/pkappa2/internal/index"
	"github.com/spq/pkappa2/internal/index/builder"
	"github.com/spq/pkappa2/internal/tools/bitmask"
	pcapmetadata "github.com/spq/pkappa2/internal/tools/pcapMetadata"
)

var baseTime = time.Date(2020, 1, 1, 0, 0, 0, 0, time.UTC)

// ---------------------------------------------------------------------------------------------
// wire: abstract packets -> bytes -> capture files
// ---------------------------------------------------------------------------------------------

func serialize(c *Case, p *Pkt) []byte {
	cv := &c.Convs[p.Conv]
	src, dst := unhex(c.Hosts[cv.C]), unhex(c.Hosts[cv.S])
	sp, dp := cv.CP, cv.SP
	if p.D == 1 {
		src, dst, sp, dp = dst, src, dp, sp
	}
	eth := &layers.Ethernet{SrcMAC: net.HardwareAddr{2, 0, 0, 0, 0, 1}, DstMAC: net.HardwareAddr{2, 0, 0, 0, 0, 2}}
	var nl gopacket.NetworkLayer
	var ls []gopacket.SerializableLayer
	proto := layers.IPProtocolTCP
	if cv.Proto == "udp" {
		proto = layers.IPProtocolUDP
	}
	if len(src) == 4 {
		eth.EthernetType = layers.EthernetTypeIPv4
		ip := &layers.IPv4{Version: 4, TTL: 64, SrcIP: src, DstIP: dst, Protocol: proto}
		nl = ip
		ls = []gopacket.SerializableLayer{eth, ip}
	} else {
		eth.EthernetType = layers.EthernetTypeIPv6
		ip := &layers.IPv6{Version: 6, HopLimit: 64, SrcIP: src, DstIP: dst, NextHeader: proto}
		nl = ip
		ls = []gopacket.SerializableLayer{eth, ip}
	}
	if cv.Proto == "udp" {
		u := &layers.UDP{SrcPort: layers.UDPPort(sp), DstPort: layers.UDPPort(dp)}
		if err := u.SetNetworkLayerForChecksum(nl); err != nil {
			panic(err)
		}
		ls = append(ls, u)
	} else {
		t := &layers.TCP{SrcPort: layers.TCPPort(sp), DstPort: layers.TCPPort(dp), Seq: p.Seq, Ack: p.Ack, Window: 65535,
			SYN: strings.Contains(p.Fl, "S"), ACK: strings.Contains(p.Fl, "A"), FIN: strings.Contains(p.Fl, "F"),
			RST: strings.Contains(p.Fl, "R"), PSH: strings.Contains(p.Fl, "P")}
		if err := t.SetNetworkLayerForChecksum(nl); err != nil {
			panic(err)
		}
		ls = append(ls, t)
	}
	ls = append(ls, gopacket.Payload(unhex(p.Pl)))
	buf := gopacket.NewSerializeBuffer()
	if err := gopacket.SerializeLayers(buf, gopacket.SerializeOptions{ComputeChecksums: true, FixLengths: true}, ls...); err != nil {
		panic(err)
	}
	return append([]byte(nil), buf.Bytes()...)
}

func writeCapture(c *Case, f *File, dir string) error {
	fh, err := os.Create(filepath.Join(dir, f.Name))
	if err != nil {
		return err
	}
	defer fh.Close()
	w := pcapgo.NewWriter(fh)
	if err := w.WriteFileHeader(65536, layers.LinkTypeEthernet); err != nil {
		return err
	}
	for i := range f.Pkts {
		p := &f.Pkts[i]
		data := serialize(c, p)
		rep := p.Rep
		if rep < 1 {
			rep = 1
		}
		for k := 0; k < rep; k++ {
			ts := baseTime.Add(time.Duration(p.T+int64(k)*p.Step) * time.Microsecond)
			if err := w.WritePacket(gopacket.CaptureInfo{Timestamp: ts, CaptureLength: len(data), Length: len(data)}, data); err != nil {
				return err
			}
		}
	}
	return nil
}

// ---------------------------------------------------------------------------------------------
// reading results back
// ---------------------------------------------------------------------------------------------

func ipHex(s string) string {
	ip := net.ParseIP(s)
	if v4 := ip.To4(); v4 != nil && !strings.Contains(s, ":") {
		return hex.EncodeToString(v4)
	}
	return hex.EncodeToString(ip.To16())
}

func observe(s *index.Stream) (*StreamObs, error) {
	o := &StreamObs{ID: s.ID(), Proto: strings.ToLower(s.Protocol()), CHost: ipHex(s.ClientHostIP()), SHost: ipHex(s.ServerHostIP()),
		CPort: int(s.ClientPort), SPort: int(s.ServerPort)}
	pkts, err := s.Packets()
	if err != nil {
		return nil, err
	}
	for _, p := range pkts {
		o.Pkts = append(o.Pkts, PktRef{File: p.PcapFilename, Idx: p.PcapIndex, Dir: int(p.Direction)})
	}
	data, err := s.Data()
	if err != nil {
		return nil, err
	}
	type acc struct {
		dir int
		b   []byte
	}
	runs := []acc{}
	for _, d := range data {
		if os.Getenv("VERIF_DEBUG_DATA") != "" {
			fmt.Fprintf(os.Stderr, "stream %d chunk dir=%d len=%d t=%v h=%x\n", s.ID(), d.Direction, len(d.Content), d.Time.UnixMicro(), fnv1a64(d.Content))
		}
		if len(d.Content) == 0 {
			continue
		}
		dir := int(d.Direction)
		o.Bytes[dir] = append(o.Bytes[dir], d.Content...)
		if n := len(runs); n > 0 && runs[n-1].dir == dir {
			runs[n-1].b = append(runs[n-1].b, d.Content...)
		} else {
			runs = append(runs, acc{dir, append([]byte(nil), d.Content...)})
		}
	}
	for _, r := range runs {
		o.Runs = append(o.Runs, Run{Dir: r.dir, N: len(r.b), H: fnv1a64(r.b)})
	}
	return o, nil
}

func bits(bm *bitmask.LongBitmask) []uint64 {
	res := []uint64{}
	if bm == nil {
		return res
	}
	for b := uint(0); bm.Next(&b); b++ {
		res = append(res, uint64(b))
	}
	return res
}

// visible streams of a stack of readers: for every ID the stream of the LAST reader that holds it
// (manager.View.Stream walks the index list from the end).
func visible(stack []*index.Reader) ([]*StreamObs, error) {
	ids := map[uint64]*index.Reader{}
	for _, r := range stack {
		for id := range r.StreamIDs() {
			ids[id] = r
		}
	}
	keys := make([]uint64, 0, len(ids))
	for id := range ids {
		keys = append(keys, id)
	}
	sort.Slice(keys, func(i, j int) bool { return keys[i] < keys[j] })
	res := []*StreamObs{}
	for _, id := range keys {
		s, err := ids[id].StreamByID(id)
		if err != nil || s == nil {
			return nil, fmt.Errorf("StreamByID(%d): %v", id, err)
		}
		o, err := observe(s)
		if err != nil {
			return nil, err
		}
		res = append(res, o)
	}
	return res, nil
}

func snapsString(b *builder.Builder) string {
	parts := []string{}
	for _, s := range b.VerifSnapshots() {
		fs := []string{}
		for i, fn := range s.Files {
			fs = append(fs, fmt.Sprintf("%s:[%s]", fn, compact(joinU(s.Refs[i]))))
		}
		parts = append(parts, fmt.Sprintf("%d*%d{%s}", s.TimestampMicro, s.ChunkCount, strings.Join(fs, ",")))
	}
	return "[" + strings.Join(parts, ";") + "]"
}

func knownString(b *builder.Builder) string {
	ns := []string{}
	for _, p := range b.KnownPcaps() {
		ns = append(ns, fmt.Sprintf("%s(%d)", p.Filename, p.PacketCount))
	}
	return "[" + strings.Join(ns, ",") + "]"
}

// ---------------------------------------------------------------------------------------------
// executing a plan
// ---------------------------------------------------------------------------------------------

type (
	// StepObs is what the oracles see after one import.
	StepObs struct {
		Files   []string
		Err     bool
		Visible []*StreamObs
	}
	Result struct {
		Line  string
		Steps []StepObs
		Final []*StreamObs
	}
)

// Execute runs the plan of c on the real builder inside a fresh directory tree under root.
func Execute(c *Case, root string) (res *Result, err error) {
	pcapDir, indexDir, snapDir := filepath.Join(root, "pcap"), filepath.Join(root, "index"), filepath.Join(root, "snap")
	for _, d := range []string{pcapDir, indexDir, snapDir} {
		if err := os.MkdirAll(d, 0o755); err != nil {
			return nil, err
		}
	}
	files := map[string]*File{}
	for i := range c.Files {
		files[c.Files[i].Name] = &c.Files[i]
	}
	var b *builder.Builder
	var cached []*pcapmetadata.PcapInfo
	stack := []*index.Reader{}
	defer func() {
		for _, r := range stack {
			r.Close()
		}
	}()
	res = &Result{}
	parts := []string{c.Name}
	for _, op := range c.Plan {
		switch op.Op {
		case "new":
			var ck []*pcapmetadata.PcapInfo
			if op.Cached {
				ck = cached
			}
			nb, err := builder.New(pcapDir, indexDir, snapDir, ck)
			if err != nil {
				return nil, fmt.Errorf("builder.New: %v", err)
			}
			b = nb
			cached = append([]*pcapmetadata.PcapInfo(nil), b.KnownPcaps()...)
			parts = append(parts, fmt.Sprintf("N known=%s snaps=%s", knownString(b), snapsString(b)))
		case "put":
			for _, fn := range op.Files {
				f := files[fn]
				if f == nil {
					return nil, fmt.Errorf("plan names unknown file %q", fn)
				}
				if err := writeCapture(c, f, pcapDir); err != nil {
					return nil, err
				}
			}
			parts = append(parts, "P")
		case "import":
			if b == nil {
				return nil, fmt.Errorf("import before new")
			}
			n, used, created, upd, reset, added, err := b.FromPcap(pcapDir, op.Files, append([]*index.Reader(nil), stack...))
			st := StepObs{Files: op.Files}
			if err != nil {
				st.Err = true
				parts = append(parts, "I err")
				res.Steps = append(res.Steps, st)
				continue
			}
			idxParts := []string{}
			for _, r := range created {
				ss := []string{}
				if err := r.AllStreams(func(s *index.Stream) error {
					o, err := observe(s)
					if err != nil {
						return err
					}
					ss = append(ss, o.String())
					return nil
				}); err != nil {
					return nil, fmt.Errorf("reading created index: %v", err)
				}
				idxParts = append(idxParts, strings.Join(ss, ";"))
			}
			stack = append(stack, created...)
			cached = append([]*pcapmetadata.PcapInfo(nil), b.KnownPcaps()...)
			vis, err := visible(stack)
			if err != nil {
				return nil, err
			}
			st.Visible = vis
			res.Steps = append(res.Steps, st)
			parts = append(parts, fmt.Sprintf("I n=%d used=%d A=[%s] U=[%s] R=[%s] X=[%s] snaps=%s known=%s", n, used,
				joinU(bits(added)), joinU(bits(upd)), joinU(bits(reset)), strings.Join(idxParts, " || "), snapsString(b), knownString(b)))
		default:
			return nil, fmt.Errorf("bad op %q", op.Op)
		}
	}
	vis, err := visible(stack)
	if err != nil {
		return nil, err
	}
	res.Final = vis
	vs := make([]string, len(vis))
	for i, o := range vis {
		vs[i] = o.String()
	}
	parts = append(parts, "V=["+strings.Join(vs, ";")+"]")
	res.Line = strings.Join(parts, " | ")
	return res, nil
}
