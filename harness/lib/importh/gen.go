package importh

import (
	"encoding/hex"
	"fmt"
	"sort"
	"strconv"
	"strings"

	"github.com/spq/pkappa2/internal/verifh/lib"
)

// wire packet of one conversation before interleaving
type wp struct {
	d        int
	fl       string
	seq, ack uint32
	pl       []byte
	data     bool // data segment (may be reordered / duplicated)
}

func randBytes(r *lib.RNG, n int) []byte {
	b := make([]byte, n)
	for i := 0; i < n; i += 8 {
		v := r.U64()
		for j := 0; j < 8 && i+j < n; j++ {
			b[i+j] = byte(v >> (8 * j))
		}
	}
	return b
}

var msgLens = []int{1, 2, 10, 100, 535, 536, 537, 1459, 1460, 1461, 2920, 3000, 5000}

// tcpWire: handshake, segmented messages, optional ACKs, close; then bounded disturbance of the
// data segments (reordering inside runs of one direction, displacement <= 3; duplicates <= 20 %).
func tcpWire(r *lib.RNG, cv *Conv, mss int, disturbed bool, tags map[string]bool) []wp {
	isn := [2]uint32{uint32(r.U64()), uint32(r.U64())}
	for i := range isn {
		if r.Chance(15, 100) {
			isn[i] = 0xFFFFFFFF - uint32(r.Intn(3000)) // data crosses the 2^32 wrap
			tags["seq_wrap"] = true
		}
	}
	nxt := [2]uint32{isn[0] + 1, isn[1] + 1}
	ps := []wp{
		{d: 0, fl: "S", seq: isn[0]},
		{d: 1, fl: "SA", seq: isn[1], ack: nxt[0]},
		{d: 0, fl: "A", seq: nxt[0], ack: nxt[1]},
	}
	for _, m := range cv.Msgs {
		b := unhex(m.B)
		for off := 0; off < len(b); off += mss {
			end := off + mss
			if end > len(b) {
				end = len(b)
			}
			fl := "A"
			if end == len(b) {
				fl = "PA"
			}
			ps = append(ps, wp{d: m.D, fl: fl, seq: nxt[m.D], ack: nxt[1-m.D], pl: b[off:end], data: true})
			nxt[m.D] += uint32(end - off)
			if len(b) > mss {
				tags["segmented"] = true
			}
		}
		if r.Chance(1, 2) {
			ps = append(ps, wp{d: 1 - m.D, fl: "A", seq: nxt[1-m.D], ack: nxt[m.D]})
		}
	}
	switch r.Intn(20) {
	case 0, 1, 2, 3, 4: // connection stays open
		tags["tcp_open_end"] = true
	case 5, 6, 7: // reset
		x := r.Intn(2)
		ps = append(ps, wp{d: x, fl: "RA", seq: nxt[x], ack: nxt[1-x]})
		tags["tcp_rst"] = true
	default:
		x := r.Intn(2)
		ps = append(ps, wp{d: x, fl: "FA", seq: nxt[x], ack: nxt[1-x]})
		nxt[x]++
		ps = append(ps, wp{d: 1 - x, fl: "A", seq: nxt[1-x], ack: nxt[x]})
		ps = append(ps, wp{d: 1 - x, fl: "FA", seq: nxt[1-x], ack: nxt[x]})
		nxt[1-x]++
		ps = append(ps, wp{d: x, fl: "A", seq: nxt[x], ack: nxt[1-x]})
		tags["tcp_fin"] = true
	}
	if !disturbed {
		return ps
	}
	// reorder inside runs of data segments of one direction
	out := make([]wp, 0, len(ps))
	for i := 0; i < len(ps); {
		if !ps[i].data {
			out = append(out, ps[i])
			i++
			continue
		}
		j := i
		for j < len(ps) && ps[j].data && ps[j].d == ps[i].d {
			j++
		}
		run := append([]wp(nil), ps[i:j]...)
		if len(run) > 1 {
			keys := make([]int, len(run))
			idx := make([]int, len(run))
			for k := range run {
				keys[k] = k + r.Intn(4)
				idx[k] = k
			}
			sort.SliceStable(idx, func(a, b int) bool { return keys[idx[a]] < keys[idx[b]] })
			perm := make([]wp, len(run))
			moved := false
			for k, s := range idx {
				perm[k] = run[s]
				moved = moved || k != s
			}
			if moved {
				tags["reordered"] = true
			}
			run = perm
		}
		out = append(out, run...)
		i = j
	}
	// duplicates (retransmissions): a copy 1..4 positions later
	res := make([]wp, 0, len(out)+4)
	pending := map[int][]wp{}
	for i, p := range out {
		res = append(res, p)
		if p.data && r.Chance(20, 100) {
			at := i + 1 + r.Intn(4)
			pending[at] = append(pending[at], p)
			tags["duplicated"] = true
		}
		for _, q := range pending[i] {
			res = append(res, q)
		}
		delete(pending, i)
	}
	rest := []int{}
	for k := range pending {
		rest = append(rest, k)
	}
	sort.Ints(rest)
	for _, k := range rest {
		res = append(res, pending[k]...)
	}
	return res
}

type convKey struct {
	proto  string
	a, b   int
	ap, bp int
}

func keyOf(cv *Conv) convKey {
	if cv.C < cv.S || (cv.C == cv.S && cv.CP <= cv.SP) {
		return convKey{cv.Proto, cv.C, cv.S, cv.CP, cv.SP}
	}
	return convKey{cv.Proto, cv.S, cv.C, cv.SP, cv.CP}
}

// GenCase produces one case.  profile "c05": batches arrive in chronological order (the quantifier
// of C05); profile "c08": any arrival order, restarts, captures uploaded before a restart,
// inactivity gaps at capture boundaries.
func GenCase(r *lib.RNG, name, profile string) *Case {
	c := &Case{Name: name}
	tags := map[string]bool{}
	n4, n6 := r.Range(2, 4), r.Range(2, 3)
	for i := 0; i < n4; i++ {
		c.Hosts = append(c.Hosts, fmt.Sprintf("0a00%02x%02x", r.Intn(3), 1+i))
	}
	for i := 0; i < n6; i++ {
		c.Hosts = append(c.Hosts, fmt.Sprintf("fd00000000000000000000000000%02x%02x", r.Intn(3), 1+i))
	}
	nconv := lib.Pick(r, []int{1, 1, 2, 2, 3, 4, 5, 8, 12})
	seen := map[convKey]bool{}
	var reuseOf map[int]int // conversation -> the earlier conversation whose 4-tuple it reuses
	wires := [][]wp{}
	for len(c.Convs) < nconv {
		cv := Conv{Proto: "tcp"}
		if r.Chance(40, 100) {
			cv.Proto = "udp"
		}
		if r.Chance(30, 100) {
			cv.C = n4 + r.Intn(n6)
			cv.S = n4 + r.Intn(n6)
			tags["ipv6"] = true
		} else {
			cv.C = r.Intn(n4)
			cv.S = r.Intn(n4)
			tags["ipv4"] = true
		}
		if cv.C == cv.S {
			continue
		}
		cv.CP = lib.Pick(r, []int{1024, 40000, 40001, 50000, 1024 + r.Intn(60000)})
		cv.SP = lib.Pick(r, []int{53, 80, 443, 1337, 8080, 40000})
		// one case in ten: a TCP connection REUSES the 4-tuple of an earlier one (same client port again after the
		// first connection is over and the inactivity timeout has passed) — two conversations, two streams
		if reuseOf == nil && cv.Proto == "tcp" && r.Chance(1, 10) {
			for a := range c.Convs {
				if c.Convs[a].Proto == "tcp" {
					cv.C, cv.S, cv.CP, cv.SP = c.Convs[a].C, c.Convs[a].S, c.Convs[a].CP, c.Convs[a].SP
					reuseOf = map[int]int{len(c.Convs): a}
					tags["tuple_reused_after_timeout"] = true
					break
				}
			}
		}
		if _, isReuse := reuseOf[len(c.Convs)]; !isReuse {
			if seen[keyOf(&cv)] {
				continue
			}
			seen[keyOf(&cv)] = true
		}
		mss := lib.Pick(r, []int{1460, 1460, 1460, 536, 100, 7, 1, 1 + r.Intn(1460)})
		nm := lib.Pick(r, []int{0, 1, 1, 2, 3, 4, 6})
		for k := 0; k < nm; k++ {
			d := r.Intn(2)
			if k == 0 && (cv.Proto == "udp" || r.Chance(70, 100)) {
				d = 0 // the client of a UDP flow is by definition the sender of its first datagram
			}
			l := lib.Pick(r, msgLens)
			if r.Chance(1, 4) {
				l = 1 + r.Intn(5000)
			}
			if cv.Proto == "udp" {
				if l > 1400 {
					l = 1 + l%1400
				}
				if r.Chance(1, 10) {
					l = 0
					tags["udp_empty_datagram"] = true
				}
			} else if l > mss*40 {
				l = mss*40 - r.Intn(mss)
			}
			cv.Msgs = append(cv.Msgs, Msg{D: d, B: hex.EncodeToString(randBytes(r, l))})
		}
		if cv.Proto == "tcp" {
			tags["tcp"] = true
			dist := r.Chance(1, 2)
			t2 := map[string]bool{}
			w := tcpWire(r, &cv, mss, dist, t2)
			for k := range t2 {
				tags[k] = true
			}
			if t2["segmented"] && (t2["reordered"] || t2["duplicated"]) {
				tags["segmented_and_disturbed"] = true
			}
			wires = append(wires, w)
		} else {
			tags["udp"] = true
			w := []wp{}
			for _, m := range cv.Msgs {
				w = append(w, wp{d: m.D, pl: unhex(m.B)})
			}
			if len(w) == 0 { // a flow needs at least one datagram to exist
				cv.Msgs = []Msg{{D: 0, B: "00"}}
				w = []wp{{d: 0, pl: []byte{0}}}
			}
			wires = append(wires, w)
		}
		c.Convs = append(c.Convs, cv)
	}
	// interleave
	type gp struct {
		conv int
		p    wp
	}
	seq := []gp{}
	pos := make([]int, len(wires))
	remaining := 0
	for _, w := range wires {
		remaining += len(w)
	}
	// a conversation that reuses a 4-tuple starts only when the earlier one is over
	mayRun := func(i int) bool {
		if _, ok := reuseOf[i]; ok {
			// (… and when every other conversation is over as well: the gap before it must not make a conversation
			// that is still going on idle for longer than the timeout)
			for j := range wires {
				if j != i && pos[j] < len(wires[j]) {
					return false
				}
			}
		}
		return pos[i] < len(wires[i])
	}
	cur := r.Intn(len(wires))
	for remaining > 0 {
		if !mayRun(cur) || r.Chance(1, 3) {
			// pick another conversation that still has packets
			live := []int{}
			for i := range wires {
				if mayRun(i) {
					live = append(live, i)
				}
			}
			cur = lib.Pick(r, live)
			if len(live) > 1 {
				tags["interleaved"] = true
			}
		}
		seq = append(seq, gp{cur, wires[cur][pos[cur]]})
		pos[cur]++
		remaining--
	}
	// cut into capture files
	nf := lib.Pick(r, []int{1, 1, 2, 2, 3, 3, 4})
	if nf > len(seq) {
		nf = len(seq)
	}
	cutAt := map[int]bool{}
	for len(cutAt) < nf-1 {
		cutAt[1+r.Intn(len(seq)-1)] = true
	}
	if nf > 1 && r.Chance(1, 4) {
		cutAt[1] = true // a capture holding a single packet (see tie_at_capture_boundary below)
		for len(cutAt) > nf-1 {
			for k := range cutAt {
				if k != 1 {
					delete(cutAt, k)
					break
				}
			}
		}
	}
	longGap := profile == "c08" && nf > 1 && r.Chance(35, 100)
	if longGap {
		tags["gap_at_capture_boundary"] = true
	}
	names := []string{}
	for i := 0; i < nf; i++ {
		names = append(names, fmt.Sprintf("c%d.pcap", i))
	}
	shuffledNames := false
	if r.Chance(1, 2) && nf > 1 {
		for i := len(names) - 1; i > 0; i-- {
			j := r.Intn(i + 1)
			names[i], names[j] = names[j], names[i]
		}
		tags["names_not_chronological"] = true
		shuffledNames = true
	}
	t := int64(1_000_000 + r.Intn(1000))
	fi := 0
	c.Files = []File{{Name: names[0]}}
	last := make([]int64, len(wires))
	first := make([]bool, len(wires))
	fileSameTs := true // all packets of the current capture carry the same timestamp so far
	// slow case: conversations that stay active for longer than the inactivity timeout (5 min) without
	// ever being idle that long (every conversation with packets still to come is kept below 290 s)
	slow := r.Chance(1, 8)
	lastIdx := make([]int, len(wires))
	for i, g := range seq {
		lastIdx[g.conv] = i
	}
	for i, g := range seq {
		if i > 0 {
			inc := int64(lib.Pick(r, []int{0, 0, 1, 10, 1000, 20_000, 60_000, 1_000_000}))
			if slow {
				inc = int64(lib.Pick(r, []int{20, 45, 70, 110, 170})) * 1_000_000
				for cv := range wires {
					if first[cv] && lastIdx[cv] >= i {
						if room := 289_000_000 - (t - last[cv]); inc > room {
							inc = room
						}
					}
				}
				if inc < 0 {
					inc = 0
				}
				tags["active_longer_than_timeout"] = true
			}
			if cutAt[i] {
				// equal timestamps across a capture boundary: the builder orders by (timestamp, file name,
				// index), so with chronological names the wire order is kept. Interesting when the
				// previous capture starts (and here: consists only of packets) at that very timestamp.
				tie := !shuffledNames && fileSameTs && r.Chance(1, 2)
				if tie {
					inc = 0
					tags["tie_at_capture_boundary"] = true
				}
				if inc == 0 && !tie {
					inc = 1
				}
				fileSameTs = true
				if longGap {
					inc = int64(r.Range(100, 290)) * 1_000_000
				}
				fi++
				c.Files = append(c.Files, File{Name: names[fi]})
			}
			if inc != 0 && !cutAt[i] {
				fileSameTs = false
			}
			// the first packet of a conversation that reuses a 4-tuple comes after the inactivity timeout
			if a, ok := reuseOf[g.conv]; ok && !first[g.conv] {
				if gap := 301_000_000 + int64(r.Intn(100))*1_000_000 - (t + inc - last[a]); gap > 0 {
					inc += gap
				}
				fileSameTs = false
			}
			t += inc
		}
		if first[g.conv] && t-last[g.conv] >= 299_000_000 {
			tags["conv_idle_over_timeout"] = true
		}
		first[g.conv], last[g.conv] = true, t
		c.Files[fi].Pkts = append(c.Files[fi].Pkts, Pkt{T: t, Conv: g.conv, D: g.p.d, Fl: g.p.fl, Seq: g.p.seq, Ack: g.p.ack,
			Pl: hex.EncodeToString(g.p.pl)})
	}
	if nf > 1 {
		tags["cut_across_files"] = true
	}
	// import plan
	chrono := make([]string, nf)
	for i := range c.Files {
		chrono[i] = c.Files[i].Name
	}
	order := append([]string(nil), chrono...)
	if profile == "c08" && nf > 1 {
		switch r.Intn(20) {
		case 0, 1, 2, 3, 4, 5:
			tags["arrival_chronological"] = true
		case 6, 7, 8:
			for i, j := 0, len(order)-1; i < j; i, j = i+1, j-1 {
				order[i], order[j] = order[j], order[i]
			}
			tags["arrival_reverse"] = true
		default:
			for i := len(order) - 1; i > 0; i-- {
				j := r.Intn(i + 1)
				order[i], order[j] = order[j], order[i]
			}
			tags["arrival_shuffled"] = true
		}
	} else {
		tags["arrival_chronological"] = true
	}
	nb := r.Range(1, nf)
	if nb > 3 && r.Chance(1, 2) {
		nb = 3
	}
	bounds := map[int]bool{}
	for len(bounds) < nb-1 {
		bounds[1+r.Intn(nf-1)] = true
	}
	batches := [][]string{{}}
	for i, fn := range order {
		if bounds[i] {
			batches = append(batches, []string{})
		}
		batches[len(batches)-1] = append(batches[len(batches)-1], fn)
	}
	if len(batches) > 1 {
		tags["batched"] = true
	} else {
		tags["one_shot"] = true
	}
	earlyPut := profile == "c08" && len(batches) > 1 && r.Chance(15, 100)
	if earlyPut {
		// every capture is uploaded before the first builder start; later batches are known to the
		// builder before they are imported (restart between upload and import)
		c.Plan = append(c.Plan, Op{Op: "put", Files: chrono})
		tags["uploaded_before_restart"] = true
	}
	c.Plan = append(c.Plan, Op{Op: "new"})
	for i, b := range batches {
		if i > 0 && r.Chance(30, 100) {
			c.Plan = append(c.Plan, Op{Op: "new", Cached: r.Bool()})
			tags["restart"] = true
		}
		if !earlyPut {
			c.Plan = append(c.Plan, Op{Op: "put", Files: b})
		}
		// order of the names inside one FromPcap call
		bb := append([]string(nil), b...)
		if len(bb) > 1 && r.Bool() {
			bb[0], bb[len(bb)-1] = bb[len(bb)-1], bb[0]
		}
		c.Plan = append(c.Plan, Op{Op: "import", Files: bb})
	}
	for k := range tags {
		c.Tags = append(c.Tags, k)
	}
	sort.Strings(c.Tags)
	return c
}

// GenBig: one import of > 100 000 packets (tiny UDP datagrams) so that a reassembly snapshot is
// created, two flows that are already idle (closed) at the snapshot, two flows and one TCP
// connection that are open at the snapshot and continue in a second, small capture.
func GenBig(r *lib.RNG, name string) *Case {
	c := &Case{Name: name, Hosts: []string{"0a000001", "0a000002", "fd000000000000000000000000000001", "fd000000000000000000000000000002"}}
	tags := []string{"big_snapshot", "udp", "tcp", "ipv4", "ipv6", "cut_across_files", "batched"}
	n1 := 45_000 + r.Intn(2000)
	n2 := 8_000 + r.Intn(2000)
	// the plan/shape is chosen by the case's ordinal in its name (…-big-<seed>-<i>): 0 resume from the snapshot,
	// 1 the same across a builder restart, 2 QUIET snapshot (taken when no flow is alive), 3 reverse arrival
	variant := r.Intn(4)
	if i := strings.LastIndex(name, "-"); i >= 0 {
		if n, err := strconv.Atoi(name[i+1:]); err == nil {
			variant = n % 4
		}
	}
	quiet := variant == 2
	if quiet {
		// exactly 100 000 packets, then silence: the snapshot is taken at the first packet after the silence,
		// when every earlier flow has timed out, so it refers to nothing of the big capture
		n1, n2 = 50_000, 40
		tags = append(tags, "snapshot_without_live_flows")
	}
	mk := func(proto string, cidx, sidx, cp, sp int) int {
		c.Convs = append(c.Convs, Conv{Proto: proto, C: cidx, S: sidx, CP: cp, SP: sp})
		return len(c.Convs) - 1
	}
	u0, u1 := mk("udp", 0, 1, 1111, 53), mk("udp", 2, 3, 2222, 53)
	u2, u3 := mk("udp", 1, 0, 3333, 53), mk("udp", 3, 2, 4444, 53)
	tc := mk("tcp", 0, 1, 40000, 80)
	big := File{Name: "big.pcap"}
	small := File{Name: "after.pcap"}
	t0 := int64(5_000_000)
	addRep := func(f *File, cv, d int, t int64, n int, step int64, b byte) {
		f.Pkts = append(f.Pkts, Pkt{T: t, Conv: cv, D: d, Pl: hex.EncodeToString([]byte{b}), Rep: n, Step: step})
		c.Convs[cv].Msgs = append(c.Convs[cv].Msgs, Msg{D: d, B: hex.EncodeToString([]byte{b}), Rep: n})
	}
	// LONG-LIVED conversations (not in the quiet variant, whose point is that nothing is alive): one UDP flow and
	// one TCP connection that start before phase 1, say something every 100 s during the silence, are alive at
	// the snapshot (first packet more than the inactivity timeout before it, last packet recent) and go on in
	// the second capture. Constant payload and sequence numbers: no random draw, the other flows stay as they were.
	ul, tl := -1, -1
	const tlC, tlS = uint32(0x1000), uint32(0x7000_0000)
	tlOff := uint32(1)
	tlSend := func(f *File, t int64, b byte) {
		f.Pkts = append(f.Pkts, Pkt{T: t, Conv: tl, D: 0, Fl: "PA", Seq: tlC + tlOff, Ack: tlS + 1, Pl: hex.EncodeToString([]byte{b})})
		c.Convs[tl].Msgs = append(c.Convs[tl].Msgs, Msg{D: 0, B: hex.EncodeToString([]byte{b})})
		tlOff++
	}
	if !quiet {
		tags = append(tags, "alive_longer_than_timeout_at_snapshot")
		ul, tl = mk("udp", 1, 0, 6666, 53), mk("tcp", 2, 3, 40001, 80)
		addRep(&big, ul, 0, t0-20, 1, 1, 0x51)
		big.Pkts = append(big.Pkts,
			Pkt{T: t0 - 15, Conv: tl, D: 0, Fl: "S", Seq: tlC},
			Pkt{T: t0 - 14, Conv: tl, D: 1, Fl: "SA", Seq: tlS, Ack: tlC + 1},
			Pkt{T: t0 - 13, Conv: tl, D: 0, Fl: "A", Seq: tlC + 1, Ack: tlS + 1})
		tlSend(&big, t0-12, 0x61)
	}
	// phase 1: two flows, interleaved by timestamp, then silent for more than the inactivity timeout
	addRep(&big, u0, 0, t0, n1, 2, 0x41)
	addRep(&big, u1, 0, t0+1, n1, 2, 0x42)
	t1 := t0 + int64(2*n1) + 400_000_000
	if !quiet {
		for k := int64(1); k <= 3; k++ {
			ka := t0 + int64(2*n1) + k*100_000_000
			addRep(&big, ul, int(k%2), ka, 1, 1, byte(0x51+k))
			tlSend(&big, ka+3, byte(0x61+k))
		}
	}
	// phase 2: TCP connection opens, two more flows run across the snapshot point
	isnC, isnS := uint32(r.U64()), uint32(r.U64())
	m1, m2, m3 := randBytes(r, 700), randBytes(r, 1200), randBytes(r, 300)
	c.Convs[tc].Msgs = []Msg{{D: 0, B: hex.EncodeToString(m1)}, {D: 1, B: hex.EncodeToString(m2)}, {D: 0, B: hex.EncodeToString(m3)}}
	big.Pkts = append(big.Pkts,
		Pkt{T: t1, Conv: tc, D: 0, Fl: "S", Seq: isnC},
		Pkt{T: t1 + 1, Conv: tc, D: 1, Fl: "SA", Seq: isnS, Ack: isnC + 1},
		Pkt{T: t1 + 2, Conv: tc, D: 0, Fl: "A", Seq: isnC + 1, Ack: isnS + 1},
		Pkt{T: t1 + 3, Conv: tc, D: 0, Fl: "PA", Seq: isnC + 1, Ack: isnS + 1, Pl: hex.EncodeToString(m1)})
	if !quiet {
		addRep(&big, ul, 0, t1+5, 1, 1, 0x55)
		tlSend(&big, t1+6, 0x65)
	}
	addRep(&big, u2, 0, t1+10, n2, 2, 0x43)
	addRep(&big, u3, 0, t1+11, n2, 2, 0x44)
	t2 := t1 + 10 + int64(2*n2) + 1_000_000
	// second capture: continuation
	small.Pkts = append(small.Pkts,
		Pkt{T: t2, Conv: tc, D: 1, Fl: "PA", Seq: isnS + 1, Ack: isnC + 1 + 700, Pl: hex.EncodeToString(m2)},
		Pkt{T: t2 + 5, Conv: tc, D: 0, Fl: "PA", Seq: isnC + 1 + 700, Ack: isnS + 1 + 1200, Pl: hex.EncodeToString(m3)})
	addRep(&small, u2, 1, t2+10, 3, 7, 0x63)
	// both flows that run across the snapshot point go on: whichever of them owns the packet AT the snapshot
	// timestamp is rewritten by the second import (c05a: that packet not reloaded)
	addRep(&small, u3, 1, t2+12, 2, 5, 0x64)
	if !quiet {
		addRep(&small, ul, 1, t2+20, 2, 3, 0x56)
		tlSend(&small, t2+21, 0x66)
		small.Pkts = append(small.Pkts, Pkt{T: t2 + 25, Conv: tl, D: 1, Fl: "PA", Seq: tlS + 1, Ack: tlC + tlOff, Pl: "7a7a"})
		c.Convs[tl].Msgs = append(c.Convs[tl].Msgs, Msg{D: 1, B: "7a7a"})
	}
	nw := mk("udp", 0, 1, 5555, 53)
	addRep(&small, nw, 0, t2+100, 2, 3, 0x45)
	c.Files = []File{big, small}
	switch variant {
	case 0, 2:
		c.Plan = []Op{{Op: "new"}, {Op: "put", Files: []string{"big.pcap"}}, {Op: "import", Files: []string{"big.pcap"}},
			{Op: "put", Files: []string{"after.pcap"}}, {Op: "import", Files: []string{"after.pcap"}}}
	case 1:
		c.Plan = []Op{{Op: "new"}, {Op: "put", Files: []string{"big.pcap"}}, {Op: "import", Files: []string{"big.pcap"}},
			{Op: "new", Cached: r.Bool()},
			{Op: "put", Files: []string{"after.pcap"}}, {Op: "import", Files: []string{"after.pcap"}}}
		tags = append(tags, "restart")
	default:
		c.Plan = []Op{{Op: "new"}, {Op: "put", Files: []string{"after.pcap"}}, {Op: "import", Files: []string{"after.pcap"}},
			{Op: "put", Files: []string{"big.pcap"}}, {Op: "import", Files: []string{"big.pcap"}}}
		tags = append(tags, "arrival_reverse")
	}
	sort.Strings(tags)
	c.Tags = tags
	return c
}
