package importh

import (
	"bytes"
	"fmt"
	"os"
	"path/filepath"
	"sort"
	"strings"
)

// The two property oracles.  They are written from the statements in properties.jsonl and use
// only the generated ground truth (conversations) and the real importer; the Lean model is not
// involved.
//
//   C05  every conversation contained in the imported captures is visible as exactly one stream
//        with the generated endpoints (client = initiator), protocol, per-direction payload and
//        order of direction changes.  Conversations that are idle for longer than the importer's
//        documented inactivity timeout (5 min) are outside "well-formed" and skipped.
//   C08  after every import the visible streams equal those of a one-shot import (fresh builder,
//        all captures imported so far in one call) up to renumbering; a stream that is extended or
//        re-read keeps its ID; no packet is visible under two IDs.

const inactivityMicros = 300_000_000

type truthConv struct {
	files      map[string]bool
	wellFormed bool
	bytes      [2][]byte
	runs       []Run
}

func truth(c *Case) []truthConv {
	res := make([]truthConv, len(c.Convs))
	times := make([][]int64, len(c.Convs))
	for i := range res {
		res[i].files = map[string]bool{}
	}
	for _, f := range c.Files {
		for _, p := range f.Pkts {
			res[p.Conv].files[f.Name] = true
			times[p.Conv] = append(times[p.Conv], p.T)
			if p.Rep > 1 {
				times[p.Conv] = append(times[p.Conv], p.T+int64(p.Rep-1)*p.Step)
				if p.Step >= inactivityMicros {
					times[p.Conv] = append(times[p.Conv], -1<<60) // forces "not well-formed"
				}
			}
		}
	}
	for i, cv := range c.Convs {
		ts := times[i]
		sort.Slice(ts, func(a, b int) bool { return ts[a] < ts[b] })
		res[i].wellFormed = true
		for k := 1; k < len(ts); k++ {
			// the importer closes a flow whose last packet is *more* than 5 min older; stay clear of the edge
			if ts[k]-ts[k-1] >= inactivityMicros-1_000_000 {
				res[i].wellFormed = false
			}
		}
		// bounded reordering: an out-of-order TCP segment must not wait for the bytes before it for as
		// long as the inactivity timeout (the importer then gives up waiting, by design)
		if cv.Proto == "tcp" {
			type seg struct {
				t   int64
				off uint32
			}
			var isn [2]uint32
			var segs [2][]seg
			for _, f := range c.Files {
				for _, p := range f.Pkts {
					if p.Conv != i {
						continue
					}
					if strings.Contains(p.Fl, "S") {
						isn[p.D] = p.Seq
					}
				}
			}
			for _, f := range c.Files {
				for _, p := range f.Pkts {
					if p.Conv == i && len(p.Pl) > 0 {
						segs[p.D] = append(segs[p.D], seg{p.T, p.Seq - isn[p.D]})
					}
				}
			}
			for d := 0; d < 2; d++ {
				for _, a := range segs[d] {
					for _, b := range segs[d] {
						firstB := b.t
						for _, b2 := range segs[d] {
							if b2.off == b.off && b2.t < firstB {
								firstB = b2.t
							}
						}
						if b.off < a.off && firstB-a.t >= inactivityMicros-1_000_000 {
							res[i].wellFormed = false
						}
					}
				}
			}
		}
		var cur []byte
		curDir := -1
		flush := func() {
			if curDir >= 0 && len(cur) > 0 {
				res[i].runs = append(res[i].runs, Run{Dir: curDir, N: len(cur), H: fnv1a64(cur)})
			}
		}
		for _, m := range cv.Msgs {
			b := unhex(m.B)
			if m.Rep > 1 {
				b = bytes.Repeat(b, m.Rep)
			}
			if len(b) == 0 {
				continue
			}
			res[i].bytes[m.D] = append(res[i].bytes[m.D], b...)
			if m.D != curDir {
				flush()
				cur, curDir = nil, m.D
			}
			cur = append(cur, b...)
		}
		flush()
	}
	return res
}

// convOfPacket: which conversation a packet of a capture file belongs to (Rep packets expanded) — two
// conversations may use the same 4-tuple one after the other, so endpoints alone do not identify one
func convOfPacket(c *Case) map[string]int {
	m := map[string]int{}
	for _, f := range c.Files {
		idx := 0
		for _, p := range f.Pkts {
			n := p.Rep
			if n < 1 {
				n = 1
			}
			for k := 0; k < n; k++ {
				m[fmt.Sprintf("%s#%d", f.Name, idx)] = p.Conv
				idx++
			}
		}
	}
	return m
}

func matchConv(c *Case, o *StreamObs) (int, bool) {
	// a stream belongs to the conversation of its first packet; the orientation is read off the endpoints
	if len(o.Pkts) != 0 {
		if i, ok := convOfPacket(c)[fmt.Sprintf("%s#%d", o.Pkts[0].File, o.Pkts[0].Idx)]; ok && i < len(c.Convs) {
			cv := c.Convs[i]
			if cv.Proto == o.Proto {
				ch, sh := c.Hosts[cv.C], c.Hosts[cv.S]
				if ch == o.CHost && sh == o.SHost && cv.CP == o.CPort && cv.SP == o.SPort {
					return i, true
				}
				if ch == o.SHost && sh == o.CHost && cv.CP == o.SPort && cv.SP == o.CPort {
					return i, false
				}
			}
		}
	}
	for i, cv := range c.Convs {
		if cv.Proto != o.Proto {
			continue
		}
		ch, sh := c.Hosts[cv.C], c.Hosts[cv.S]
		if ch == o.CHost && sh == o.SHost && cv.CP == o.CPort && cv.SP == o.SPort {
			return i, true
		}
		if ch == o.SHost && sh == o.CHost && cv.CP == o.SPort && cv.SP == o.CPort {
			return i, false
		}
	}
	return -1, false
}

func runsString(rs []Run) string {
	ss := make([]string, len(rs))
	for i, r := range rs {
		ss[i] = fmt.Sprintf("%s%d:%x", dirCh(r.Dir), r.N, r.H)
	}
	return strings.Join(ss, ",")
}

// oracleC05 checks the visible streams against the generated conversations.
func oracleC05(c *Case, imported map[string]bool, vis []*StreamObs, complain func(string)) {
	tr := truth(c)
	byConv := map[int][]*StreamObs{}
	for _, o := range vis {
		i, _ := matchConv(c, o)
		if i < 0 {
			complain(fmt.Sprintf("C05 kind=spurious conv=-1 visible stream %d (%s %s:%d>%s:%d) belongs to no generated conversation", o.ID, o.Proto, o.CHost, o.CPort, o.SHost, o.SPort))
			continue
		}
		byConv[i] = append(byConv[i], o)
	}
	for i := range c.Convs {
		all, any := true, false
		for f := range tr[i].files {
			if imported[f] {
				any = true
			} else {
				all = false
			}
		}
		if !any || !all || !tr[i].wellFormed {
			continue
		}
		ss := byConv[i]
		if len(ss) != 1 {
			ids := []string{}
			for _, o := range ss {
				ids = append(ids, fmt.Sprint(o.ID))
			}
			complain(fmt.Sprintf("C05 kind=not-one-stream conv=%d conversation (%s) is visible as %d streams (ids %s), want exactly 1", i, c.Convs[i].Proto, len(ss), strings.Join(ids, ",")))
			continue
		}
		o := ss[0]
		if _, fwd := matchConv(c, o); !fwd {
			complain(fmt.Sprintf("C05 kind=swapped conv=%d client and server are swapped in stream %d", i, o.ID))
			continue
		}
		for d := 0; d < 2; d++ {
			if !bytes.Equal(o.Bytes[d], tr[i].bytes[d]) {
				complain(fmt.Sprintf("C05 kind=payload conv=%d stream %d: direction %d payload differs (got %d bytes %x, exchanged %d bytes %x)",
					i, o.ID, d, len(o.Bytes[d]), fnv1a64(o.Bytes[d]), len(tr[i].bytes[d]), fnv1a64(tr[i].bytes[d])))
			}
		}
		if got, want := runsString(o.Runs), runsString(tr[i].runs); got != want {
			complain(fmt.Sprintf("C05 kind=direction-order conv=%d stream %d: order of direction changes differs (got %s, exchanged %s)", i, o.ID, compact(got), compact(want)))
		}
	}
}

func noID(o *StreamObs) string {
	s := o.String()
	return s[strings.Index(s, "/"):]
}

func pktSet(o *StreamObs) map[string]bool {
	m := make(map[string]bool, len(o.Pkts))
	for _, p := range o.Pkts {
		m[fmt.Sprintf("%s#%d", p.File, p.Idx)] = true
	}
	return m
}

func subset(a, b map[string]bool) bool {
	if len(a) > len(b) {
		return false
	}
	for k := range a {
		if !b[k] {
			return false
		}
	}
	return true
}

// oneShot imports the given captures with a fresh builder in one FromPcap call (chronological
// order of the names) and returns the visible streams.
func oneShot(c *Case, names map[string]bool, root string) ([]*StreamObs, error) {
	ref := &Case{Name: c.Name + "/oneshot", Hosts: c.Hosts, Convs: c.Convs}
	list := []string{}
	for _, f := range c.Files {
		if names[f.Name] {
			ref.Files = append(ref.Files, f)
			list = append(list, f.Name)
		}
	}
	// the builder is started on an empty capture directory (nothing uploaded yet), then the
	// captures arrive and are imported in one call
	ref.Plan = []Op{{Op: "new"}, {Op: "put", Files: list}, {Op: "import", Files: list}}
	res, err := Execute(ref, root)
	if err != nil {
		return nil, err
	}
	if len(res.Steps) != 1 || res.Steps[0].Err {
		return nil, fmt.Errorf("one-shot import failed")
	}
	return res.Final, nil
}

// oracleC08 checks every prefix of the import history against the one-shot import.
func oracleC08(c *Case, res *Result, root string, complain func(string)) {
	imported := map[string]bool{}
	var prev []*StreamObs
	for k, st := range res.Steps {
		if st.Err {
			complain(fmt.Sprintf("C08 kind=import-error step=%d convs= import %v returned an error", k, st.Files))
			return
		}
		for _, f := range st.Files {
			imported[f] = true
		}
		// (1) no packet under two visible IDs
		owner := map[string]uint64{}
		reported := map[[2]uint64]bool{}
		for _, o := range st.Visible {
			cv, _ := matchConv(c, o)
			for _, p := range o.Pkts {
				key := fmt.Sprintf("%s#%d", p.File, p.Idx)
				if id, ok := owner[key]; ok && id != o.ID && !reported[[2]uint64{id, o.ID}] {
					reported[[2]uint64{id, o.ID}] = true
					complain(fmt.Sprintf("C08 kind=two-ids step=%d convs=%d after import %v packet %s is visible under two stream IDs (%d and %d)", k, cv, st.Files, key, id, o.ID))
				}
				owner[key] = o.ID
			}
		}
		// (2) equal to the one-shot import up to renumbering
		dir := filepath.Join(root, fmt.Sprintf("ref%d", k))
		ref, err := oneShot(c, imported, dir)
		os.RemoveAll(dir)
		if err != nil {
			complain(fmt.Sprintf("C08 kind=reference-failed step=%d convs= one-shot reference import failed: %v", k, err))
			return
		}
		a, b := []string{}, []string{}
		convOf := map[string]int{}
		for _, o := range st.Visible {
			a = append(a, noID(o))
			convOf[noID(o)], _ = matchConv(c, o)
		}
		for _, o := range ref {
			b = append(b, noID(o))
			convOf[noID(o)], _ = matchConv(c, o)
		}
		sort.Strings(a)
		sort.Strings(b)
		if strings.Join(a, ";") != strings.Join(b, ";") {
			extra, missing := diffSorted(a, b), diffSorted(b, a)
			// one complaint per conversation (a case may show several independent defects)
			perConv := map[int][2][]string{}
			for _, x := range extra {
				e := perConv[convOf[x]]
				e[0] = append(e[0], x)
				perConv[convOf[x]] = e
			}
			for _, x := range missing {
				e := perConv[convOf[x]]
				e[1] = append(e[1], x)
				perConv[convOf[x]] = e
			}
			cl := []int{}
			for x := range perConv {
				cl = append(cl, x)
			}
			sort.Ints(cl)
			for _, cv := range cl {
				e := perConv[cv]
				complain(fmt.Sprintf("C08 kind=differs-from-one-shot step=%d convs=%d after import %v the visible streams differ from the one-shot import of the same captures: %d visible vs %d one-shot; only incremental: %s; only one-shot: %s",
					k, cv, st.Files, len(a), len(b), compact(strings.Join(e[0], ";")), compact(strings.Join(e[1], ";"))))
			}
		}
		// (3) a stream that is extended or re-read keeps its ID
		if prev != nil {
			sets := make([]map[string]bool, len(st.Visible))
			for i, o := range st.Visible {
				sets[i] = pktSet(o)
			}
			prevSets := make([]map[string]bool, len(prev))
			for i, o := range prev {
				prevSets[i] = pktSet(o)
			}
			for i, x := range prev {
				found, kept := false, false
				for j, y := range st.Visible {
					if !subset(prevSets[i], sets[j]) {
						continue
					}
					found = true
					if y.ID == x.ID {
						kept = true
						break
					}
					// joined with another earlier stream that keeps its ID?
					for i2, x2 := range prev {
						if i2 != i && x2.ID == y.ID && subset(prevSets[i2], sets[j]) {
							kept = true
						}
					}
				}
				if !found {
					cv, _ := matchConv(c, x)
					complain(fmt.Sprintf("C08 kind=stream-lost step=%d convs=%d stream %d visible before import %v has no successor holding its packets", k, cv, x.ID, st.Files))
				} else if !kept {
					cv, _ := matchConv(c, x)
					complain(fmt.Sprintf("C08 kind=id-not-kept step=%d convs=%d stream %d did not keep its ID over import %v", k, cv, x.ID, st.Files))
				}
			}
		}
		prev = st.Visible
	}
}

func diffSorted(a, b []string) []string {
	cnt := map[string]int{}
	for _, x := range b {
		cnt[x]++
	}
	res := []string{}
	for _, x := range a {
		if cnt[x] > 0 {
			cnt[x]--
		} else {
			res = append(res, x)
		}
	}
	return res
}
