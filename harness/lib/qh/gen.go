// gen.go — generator of query expressions in the shape of the grammar of parser.go
// (Or > And > Then > Condition), with small atom pools so that simplification rules fire.
package qh

import (
	"net"

	"github.com/spq/pkappa2/internal/verifh/lib"
)

// Level selects the sub-language: 0 = no data chains, no sub-queries/variables;
// 1 = + data filters and THEN; 2 = + sub-queries and variables.
type GenCfg struct {
	Level    int
	MaxDepth int
}

type Gen struct {
	R   *lib.RNG
	Cfg GenCfg
	// a query may hold one sort and one limit term (a second one is an error of the parser that the
	// model, which has no parser context, does not know)
	usedAux map[string]bool
}

var (
	tagKeys   = []string{"tag", "service", "mark", "generated"}
	tagNames  = []string{"a", "b", "c"}
	protoToks = []string{"tcp", "udp", "sctp", "other"}
	hosts4    = []string{"10.0.0.1", "10.0.0.2", "10.0.1.1", "192.168.0.1", "0.0.0.0"}
	hosts6    = []string{"::1", "fe80::1", "2001:db8::1", "2001:db8::2", "::ffff:10.0.0.1"}
	maskSets  = [][]int{nil, nil, nil, {8}, {16}, {24}, {32}, {-8}, {16, -8}, {64}, {128}, {33}, {-40}, {8, 8}, {0}, {120}, {-128}}
	numKeys   = []string{"id", "cport", "sport", "port", "cbytes", "sbytes", "bytes"}
	numPool   = []uint64{0, 1, 2, 3, 5, 80, 443, 1000, 65535}
	numVars   = []string{"id", "cport", "sport", "cbytes", "sbytes"}
	timeKeys  = []string{"ftime", "ltime", "time"}
	durPool   = []int64{0, 1, 1000, 5 * 60e9, 30 * 60e9, 3600e9, 5400e9, 3600e9 + 1}
	absPool   = [][]int{{2024, 1, 1, 12, 0, 0}, {2024, 6, 1, 0, 0, 0}, {2024, 1, 1, 12, 0, 1}, {2031, 2, 28, 23, 59, 59}, {2000, 2, 29, 6, 30, 0}}
	dataKeys  = []string{"cdata", "sdata", "data"}
	rxPool    = []string{"x", "y", "z", "a b", "fl[a4]g", `say ""hi""`}
	convPool  = []string{"", "", "", "", "conv", "other conv"}
	subPool   = []string{"a", "b"}
)

func (g *Gen) sub() string {
	if g.Cfg.Level >= 2 && g.R.Chance(1, 4) {
		return lib.Pick(g.R, subPool)
	}
	return ""
}

func (g *Gen) ops(first bool) string {
	switch g.R.Intn(12) {
	case 0:
		return "-"
	case 1:
		return "+"
	case 2:
		return "--"
	case 3:
		return "+-"
	}
	if first {
		return ""
	}
	return lib.Pick(g.R, []string{"+", "-"})
}

func (g *Gen) numParts() []NumPart {
	n := 1
	if g.R.Chance(1, 5) {
		n = 2 + g.R.Intn(2)
	}
	ps := []NumPart{}
	for i := 0; i < n; i++ {
		p := NumPart{Ops: g.ops(i == 0)}
		if g.Cfg.Level >= 2 && g.R.Chance(1, 3) {
			name := lib.Pick(g.R, numVars)
			if g.R.Chance(1, 30) {
				name = lib.Pick(g.R, []string{"ftime", "protocol", "chost"})
			}
			p.Var = &Var{Sub: g.sub(), Name: name}
		} else {
			p.N = lib.Pick(g.R, numPool)
			if g.R.Chance(1, 8) {
				p.N = uint64(g.R.Intn(70000))
			}
		}
		ps = append(ps, p)
	}
	return ps
}

func (g *Gen) numTerm() *Term {
	t := &Term{Sq: g.sub(), Key: lib.Pick(g.R, numKeys), Nums: [][][]NumPart{}}
	if g.R.Chance(1, 2) {
		t.Key = lib.Pick(g.R, []string{"id", "sport"}) // concentrate so that bounds interact
	}
	n := 1
	if g.R.Chance(1, 3) {
		n = 2 + g.R.Intn(3)
	}
	for i := 0; i < n; i++ {
		switch g.R.Intn(10) {
		case 0, 1, 2, 3, 4:
			t.Nums = append(t.Nums, [][]NumPart{g.numParts()})
		case 5, 6:
			t.Nums = append(t.Nums, [][]NumPart{g.numParts(), g.numParts()})
		case 7:
			t.Nums = append(t.Nums, [][]NumPart{g.numParts(), {}})
		case 8:
			t.Nums = append(t.Nums, [][]NumPart{{}, g.numParts()})
		default:
			if g.R.Chance(1, 3) {
				t.Nums = append(t.Nums, [][]NumPart{{}, {}})
			} else {
				t.Nums = append(t.Nums, [][]NumPart{g.numParts(), g.numParts()})
			}
		}
	}
	return t
}

func (g *Gen) timeParts() []TimePart {
	n := 1
	if g.R.Chance(1, 4) {
		n = 2
	}
	ps := []TimePart{}
	for i := 0; i < n; i++ {
		p := TimePart{Ops: g.ops(i == 0)}
		switch {
		case g.Cfg.Level >= 2 && g.R.Chance(1, 4):
			name := lib.Pick(g.R, []string{"ftime", "ltime"})
			if g.R.Chance(1, 30) {
				name = "id"
			}
			p.Var = &Var{Sub: g.sub(), Name: name}
		case g.R.Chance(1, 3):
			p.Abs = lib.Pick(g.R, absPool)
		default:
			d := lib.Pick(g.R, durPool)
			p.Dur = &d
		}
		ps = append(ps, p)
	}
	return ps
}

func (g *Gen) timeTerm() *Term {
	t := &Term{Sq: g.sub(), Key: lib.Pick(g.R, timeKeys), Times: [][][]TimePart{}}
	n := 1
	if g.R.Chance(1, 4) {
		n = 2
	}
	for i := 0; i < n; i++ {
		switch g.R.Intn(8) {
		case 0, 1:
			t.Times = append(t.Times, [][]TimePart{g.timeParts()})
		case 2, 3:
			t.Times = append(t.Times, [][]TimePart{g.timeParts(), g.timeParts()})
		case 4, 5:
			t.Times = append(t.Times, [][]TimePart{g.timeParts(), {}})
		case 6:
			t.Times = append(t.Times, [][]TimePart{{}, g.timeParts()})
		default:
			if g.R.Chance(1, 3) {
				t.Times = append(t.Times, [][]TimePart{{}, {}})
			} else {
				t.Times = append(t.Times, [][]TimePart{g.timeParts(), {}})
			}
		}
	}
	return t
}

func (g *Gen) hostTerm() *Term {
	t := &Term{Sq: g.sub(), Key: lib.Pick(g.R, []string{"chost", "shost", "host"}), Hosts: []HostEntry{}}
	n := 1
	if g.R.Chance(1, 4) {
		n = 2
	}
	for i := 0; i < n; i++ {
		h := HostEntry{Masks: lib.Pick(g.R, maskSets)}
		if g.Cfg.Level >= 2 && g.R.Chance(1, 4) {
			name := lib.Pick(g.R, []string{"chost", "shost"})
			if g.R.Chance(1, 30) {
				name = "host"
			}
			h.Var = &Var{Sub: g.sub(), Name: name}
		} else if g.R.Chance(2, 3) {
			h.Host = net.ParseIP(lib.Pick(g.R, hosts4))
		} else {
			h.Host = net.ParseIP(lib.Pick(g.R, hosts6))
		}
		t.Hosts = append(t.Hosts, h)
	}
	return t
}

func (g *Gen) term() *Term {
	kinds := 5
	if g.Cfg.Level >= 1 {
		kinds = 7
	}
	switch g.R.Intn(kinds) {
	case 0:
		t := &Term{Sq: g.sub(), Key: lib.Pick(g.R, tagKeys), Tags: []string{}}
		if g.R.Chance(2, 3) {
			t.Key = "tag"
		}
		n := 1
		if g.R.Chance(1, 4) {
			n = 2
		}
		for i := 0; i < n; i++ {
			name := lib.Pick(g.R, tagNames)
			if g.R.Chance(1, 10) {
				name = " " + name + " "
			}
			t.Tags = append(t.Tags, name)
		}
		return t
	case 1:
		t := &Term{Sq: g.sub(), Key: "protocol", Protos: []ProtoEntry{}}
		n := 1
		if g.R.Chance(1, 3) {
			n = 2 + g.R.Intn(2)
		}
		for i := 0; i < n; i++ {
			if g.Cfg.Level >= 2 && g.R.Chance(1, 5) {
				name := "protocol"
				if g.R.Chance(1, 20) {
					name = "id"
				}
				t.Protos = append(t.Protos, ProtoEntry{Var: &Var{Sub: g.sub(), Name: name}})
			} else if g.R.Chance(1, 60) {
				t.Protos = append(t.Protos, ProtoEntry{Tok: "icmp"})
			} else {
				t.Protos = append(t.Protos, ProtoEntry{Tok: lib.Pick(g.R, protoToks)})
			}
		}
		return t
	case 2:
		return g.hostTerm()
	case 3:
		return g.numTerm()
	case 4:
		return g.timeTerm()
	default:
		rx := lib.Pick(g.R, rxPool[:3])
		if g.R.Chance(1, 6) {
			rx = lib.Pick(g.R, rxPool)
		}
		t := &Term{Sq: g.sub(), Key: lib.Pick(g.R, dataKeys), Data: &rx}
		if g.R.Chance(1, 2) {
			t.Key = "cdata"
		}
		t.Conv = lib.Pick(g.R, convPool)
		return t
	}
}

func (g *Gen) cond(depth int) *Expr {
	switch x := g.R.Intn(10); {
	case x < 2 && depth > 0:
		return &Expr{K: "not", E: g.cond(depth - 1)}
	case x < 5 && depth > 0:
		return &Expr{K: "grp", E: g.or(depth - 1)}
	case x == 5 && g.R.Chance(1, 6):
		if g.R.Chance(1, 8) {
			return &Expr{K: "term", T: &Term{Key: lib.Pick(g.R, []string{"id", "tag", "host"}), Conv: "conv", Tags: []string{"a"}}}
		}
		txt := lib.Pick(g.R, []string{"limit:10", "sort:id"})
		if g.usedAux == nil {
			g.usedAux = map[string]bool{}
		}
		if g.usedAux[txt] {
			return &Expr{K: "term", T: g.term()}
		}
		g.usedAux[txt] = true
		return &Expr{K: "aux", Text: txt}
	default:
		return &Expr{K: "term", T: g.term()}
	}
}

func (g *Gen) count(depth int) int {
	if depth <= 0 {
		return 1
	}
	switch g.R.Intn(6) {
	case 0, 1, 2:
		return 1
	case 3, 4:
		return 2
	}
	return 3
}

func (g *Gen) seq(depth int) *Expr {
	e := &Expr{K: "seq"}
	n := 1
	if g.Cfg.Level >= 1 && g.R.Chance(1, 4) {
		n = 2 + g.R.Intn(2)
	}
	for i := 0; i < n; i++ {
		e.Es = append(e.Es, g.cond(depth))
	}
	return e
}

func (g *Gen) and(depth int) *Expr {
	e := &Expr{K: "and"}
	for i, n := 0, g.count(depth); i < n; i++ {
		e.Es = append(e.Es, g.seq(depth))
	}
	return e
}

func (g *Gen) or(depth int) *Expr {
	e := &Expr{K: "or"}
	for i, n := 0, g.count(depth); i < n; i++ {
		e.Es = append(e.Es, g.and(depth))
	}
	return e
}

// Expr generates one root expression.
func (g *Gen) Expr() *Expr {
	d := 1 + g.R.Intn(g.Cfg.MaxDepth)
	g.usedAux = nil
	return g.or(d)
}

// Size is the number of nodes of an expression.
func (e *Expr) Size() int {
	n := 1
	if e.E != nil {
		n += e.E.Size()
	}
	for _, c := range e.Es {
		n += c.Size()
	}
	return n
}

// DNFBound is a conservative static bound on the number of conjuncts (n) and on the number of
// conditions per conjunct (w) that translating `e` can produce at any intermediate step below
// `e` (sum over OR, product over AND/THEN, w^n under negation).  It is the harness-side
// counterpart of the theorem `dnf_size_bound`; generated cases stay below a small bound because
// negating a large disjunction is exponential by construction of the normal form.
func DNFBound(e *Expr) (n, w, worst int) {
	const capN = 1 << 20
	clamp := func(x int) int {
		if x > capN || x < 0 {
			return capN
		}
		return x
	}
	switch e.K {
	case "term":
		t := e.T
		switch {
		case t.Tags != nil:
			return len(t.Tags), 1, len(t.Tags)
		case t.Protos != nil:
			return len(t.Protos), 3, len(t.Protos)
		case t.Hosts != nil:
			k := len(t.Hosts)
			if t.Key == "host" {
				k *= 2
			}
			return k, 1, k
		case t.Nums != nil:
			k := len(t.Nums)
			if t.Key == "port" || t.Key == "bytes" {
				k *= 2
			}
			return k, 2, k
		case t.Times != nil:
			return len(t.Times), 2, len(t.Times)
		case t.Data != nil:
			k := 1
			if t.Key == "data" {
				k = 2
			}
			return k, 1, k
		}
		return 1, 1, 1
	case "aux":
		return 1, 0, 1
	case "grp":
		return DNFBound(e.E)
	case "not":
		n1, w1, worst1 := DNFBound(e.E)
		if w1 < 1 {
			w1 = 1
		}
		p := 1
		for i := 0; i < n1 && p < capN; i++ {
			p = clamp(p * w1)
		}
		if p > worst1 {
			worst1 = p
		}
		return p, clamp(3 * n1), worst1
	case "or":
		n, w, worst = 0, 0, 0
		for _, c := range e.Es {
			n1, w1, worst1 := DNFBound(c)
			n = clamp(n + n1)
			if w1 > w {
				w = w1
			}
			if worst1 > worst {
				worst = worst1
			}
		}
		if n > worst {
			worst = n
		}
		return
	default: // and, seq
		n, w, worst = 1, 0, 0
		for _, c := range e.Es {
			n1, w1, worst1 := DNFBound(c)
			n = clamp(n * n1)
			if e.K == "seq" {
				w = clamp(w + w1 + w*w1)
			} else {
				w = clamp(w + w1)
			}
			if worst1 > worst {
				worst = worst1
			}
		}
		if n > worst {
			worst = n
		}
		return
	}
}
