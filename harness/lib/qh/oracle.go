// oracle.go — the independent property oracle of C03.
//
// It is written from the property statement and the documented meaning of the condition types
// (conditions.go:60-108, Home.vue help text), not from the Lean model:
//   * EvalExpr: meaning of the surface expression on an environment of synthetic streams
//     (Boolean AND/OR/NOT; a term is the disjunction over its value list; ranges are pairs of
//     optional bounds; THEN continues the payload chains of its left operand — textbook
//     disjunctive normal form without any simplification);
//   * EvalSet: meaning of the *real* normalised ConditionsSet on the same environment.
package qh

import (
	"bytes"
	"fmt"
	"hash/fnv"
	"math/big"
	"strings"
	"time"

	"github.com/spq/pkappa2/internal/query"
	"github.com/spq/pkappa2/internal/verifh/lib"
)

type Stream struct {
	ID, CPort, SPort, CBytes, SBytes int64
	CHost, SHost                     []byte
	Proto                            uint16
	FTime, LTime                     int64 // absolute ns
	Seed                             uint64
	// Dense: payload timeline in which most elements occur at most positions (long THEN chains
	// complete, and what decides the answer is the single element that is missing somewhere)
	Dense bool
}

type Env map[string]*Stream // sub-query name -> stream ("" = the stream under test)

func (s *Stream) String() string {
	return fmt.Sprintf("{id:%d cport:%d sport:%d cbytes:%d sbytes:%d chost:%x shost:%x proto:%d ftime:%d ltime:%d seed:%d dense:%v}",
		s.ID, s.CPort, s.SPort, s.CBytes, s.SBytes, s.CHost, s.SHost, s.Proto, s.FTime, s.LTime, s.Seed, s.Dense)
}

func (e Env) String() string {
	l := []string{}
	for _, k := range []string{"", "a", "b"} {
		if s, ok := e[k]; ok {
			l = append(l, fmt.Sprintf("%q:%s", k, s))
		}
	}
	return strings.Join(l, " ")
}

func mix(a uint64) uint64 {
	a += 0x9E3779B97F4A7C15
	a = (a ^ (a >> 30)) * 0xBF58476D1CE4E5B9
	a = (a ^ (a >> 27)) * 0x94D049BB133111EB
	return a ^ (a >> 31)
}

func hkey(s string) uint64 {
	h := fnv.New64a()
	h.Write([]byte(s))
	return h.Sum64()
}

// tag status of a stream: (matching, uncertain)
func (s *Stream) Tag(name string) (bool, bool) {
	h := mix(s.Seed ^ hkey("tag:"+name))
	return h&1 == 1, h&6 == 6
}

// Step is the deterministic payload oracle: every element has a fixed set of occurrences
// (start, end) in the stream's payload timeline; matching element `key` from position `pos` finds
// the leftmost occurrence that starts at or after `pos` and ends at its end (regular-expression
// *search* semantics: a later start position can only lose matches).
func (s *Stream) Step(key string, pos int) (int, bool) {
	h := mix(s.Seed ^ hkey("step:"+key))
	if s.Dense {
		// 12 positions, an element occurs at a position with probability 7/8 — except that one
		// element in four stops occurring from some position on; occurrences have length 0 or 1
		occ := h | (h >> 20) | (h >> 40)
		if (h>>60)&3 == 0 {
			occ &= (uint64(1) << ((h >> 56) & 15)) - 1
		}
		for start := pos; start < 12; start++ {
			if start >= 0 && (occ>>uint(start))&1 == 1 {
				return start + int((h>>uint(12+start))&1), true
			}
		}
		return 0, false
	}
	for start := pos; start < 6; start++ {
		if start >= 0 && (h>>uint(start))&1 == 1 {
			return start + int((h>>uint(8+2*start))&3)%3, true
		}
	}
	return 0, false
}

func elemKey(sq string, flags uint8, regex, conv string) string {
	return fmt.Sprintf("%s|%d|%s|%s", sq, flags&1, regex, conv)
}

// ---------------------------------------------------------------------------------------------
// meaning of the real conditions

func (s *Stream) numVar(t query.NumberConditionSummandType) int64 {
	switch t {
	case query.NumberConditionSummandTypeID:
		return s.ID
	case query.NumberConditionSummandTypeClientBytes:
		return s.CBytes
	case query.NumberConditionSummandTypeServerBytes:
		return s.SBytes
	case query.NumberConditionSummandTypeClientPort:
		return s.CPort
	case query.NumberConditionSummandTypeServerPort:
		return s.SPort
	}
	return 0
}

func maskedEqual(a, b, m4, m6 []byte) bool {
	if len(a) != len(b) {
		return false
	}
	m := m4
	if len(a) == 16 {
		m = m6
	}
	for i := range a {
		if (a[i]^b[i])&m[i] != 0 {
			return false
		}
	}
	return true
}

func EvalCond(c query.Condition, env Env, ref time.Time) bool {
	switch cc := c.(type) {
	case *query.TagCondition:
		m, u := env[cc.SubQuery].Tag(cc.TagName)
		bit := query.TagConditionAcceptFailing
		switch {
		case m && !u:
			bit = query.TagConditionAcceptMatching
		case m && u:
			bit = query.TagConditionAcceptUncertainMatching
		case !m && u:
			bit = query.TagConditionAcceptUncertainFailing
		}
		return cc.Accept&bit != 0
	case *query.FlagCondition:
		x := uint16(0)
		for _, sq := range cc.SubQueries {
			x ^= env[sq].Proto
		}
		return (x^cc.Value)&cc.Mask != 0
	case *query.HostCondition:
		ops := [][]byte{}
		if len(cc.Host) != 0 {
			ops = append(ops, cc.Host)
		}
		for _, src := range cc.HostConditionSources {
			if src.Type == query.HostConditionSourceTypeServer {
				ops = append(ops, env[src.SubQuery].SHost)
			} else {
				ops = append(ops, env[src.SubQuery].CHost)
			}
		}
		if len(ops) == 0 {
			return !cc.Invert
		}
		x := append([]byte(nil), ops[0]...)
		for _, o := range ops[1:] {
			if len(o) != len(x) {
				return cc.Invert
			}
			for i := range x {
				x[i] ^= o[i]
			}
		}
		return maskedEqual(x, make([]byte, len(x)), cc.Mask4, cc.Mask6) != cc.Invert
	case *query.NumberCondition:
		n := big.NewInt(int64(cc.Number))
		for _, s := range cc.Summands {
			n.Add(n, new(big.Int).Mul(big.NewInt(int64(s.Factor)), big.NewInt(env[s.SubQuery].numVar(s.Type))))
		}
		return n.Sign() >= 0
	case *query.TimeCondition:
		n := big.NewInt(int64(cc.Duration))
		r := ref.UnixNano()
		for _, s := range cc.Summands {
			st := env[s.SubQuery]
			n.Add(n, new(big.Int).Mul(big.NewInt(int64(s.FTimeFactor)), big.NewInt(st.FTime-r)))
			n.Add(n, new(big.Int).Mul(big.NewInt(int64(s.LTimeFactor)), big.NewInt(st.LTime-r)))
		}
		return n.Sign() >= 0
	case *query.DataCondition:
		pos := 0
		for i, e := range cc.Elements {
			np, ok := env[e.SubQuery].Step(elemKey(e.SubQuery, e.Flags, e.Regex, e.ConverterName), pos)
			last := i == len(cc.Elements)-1
			if last && cc.Inverted {
				return !ok
			}
			if !ok {
				return false
			}
			pos = np
		}
		return !cc.Inverted
	case *query.ImpossibleCondition:
		return false
	}
	panic(fmt.Sprintf("unknown condition type %T", c))
}

// EvalSet: Query.Conditions nil = matches nothing; otherwise some conjunct holds entirely.
func EvalSet(cs query.ConditionsSet, env Env, ref time.Time) bool {
	for _, c := range cs {
		all := true
		for _, cc := range c {
			if !EvalCond(cc, env, ref) {
				all = false
				break
			}
		}
		if all {
			return true
		}
	}
	return false
}

// ---------------------------------------------------------------------------------------------
// meaning of the surface expression

// hostMask follows the help text: positive /n selects the first n bits, negative /-n the last n
// bits of the address; several suffixes combine by toggling (so /16/-8 = 255.255.0.255).
func hostMask(masks []int, size int) []byte {
	bits := size * 8
	m := make([]byte, size)
	if masks == nil {
		for i := range m {
			m[i] = 0xff
		}
		return m
	}
	for _, n := range masks {
		lo, hi := 0, 0
		if n > 0 {
			lo, hi = 0, n
			if hi > bits {
				hi = bits
			}
		} else if n < 0 {
			lo, hi = bits+n, bits
			if lo < 0 {
				continue // a suffix wider than the address family does not apply to it
			}
		}
		for i := lo; i < hi; i++ {
			m[i/8] ^= 1 << (7 - uint(i%8))
		}
	}
	return m
}

func (p *NumPart) factor() int64 {
	if strings.Count(p.Ops, "-")%2 == 1 {
		return -1
	}
	return 1
}

func opsSign(ops string) int64 {
	if strings.Count(ops, "-")%2 == 1 {
		return -1
	}
	return 1
}

func (s *Stream) numByName(name string) int64 {
	switch name {
	case "id":
		return s.ID
	case "cport":
		return s.CPort
	case "sport":
		return s.SPort
	case "cbytes":
		return s.CBytes
	case "sbytes":
		return s.SBytes
	}
	panic("bad number variable " + name)
}

func numVal(ps []NumPart, env Env) int64 {
	v := int64(0)
	for _, p := range ps {
		if p.Var != nil {
			v += p.factor() * env[p.Var.Sub].numByName(p.Var.Name)
		} else {
			v += p.factor() * int64(p.N)
		}
	}
	return v
}

// AbsTime converts the civil fields of an absolute time literal (UTC).
func AbsTime(a []int) time.Time {
	return time.Date(a[0], time.Month(a[1]), a[2], a[3], a[4], a[5], 0, time.UTC)
}

// timeVal: value of a time expression in absolute ns; durations are relative to `ref`… the
// expression denotes  ref*(1 - #absolute terms with sign) + Σ …; we evaluate `x >= bound` as the
// engine frames it: everything relative to the reference time.
func timeVal(ps []TimePart, env Env, ref int64) int64 {
	v := int64(0)
	for _, p := range ps {
		sg := opsSign(p.Ops)
		switch {
		case p.Var != nil:
			st := env[p.Var.Sub]
			if p.Var.Name == "ftime" {
				v += sg * (st.FTime - ref)
			} else {
				v += sg * (st.LTime - ref)
			}
		case p.Abs != nil:
			v += sg * (AbsTime(p.Abs).UnixNano() - ref)
		default:
			v += sg * *p.Dur
		}
	}
	return v
}

func inRange(x int64, lo, hi *int64) bool {
	return (lo == nil || *lo <= x) && (hi == nil || x <= *hi)
}

var protoVals = map[string]uint16{"other": 0, "tcp": 1, "udp": 2, "sctp": 3}

// atom: one alternative of a term (one list entry, one of client/server)
type atom struct {
	desc string
	eval func(env Env, ref int64) bool
	// payload atoms are structured (needed for THEN): element key
	chain *string
}

func termAtoms(t *Term) []atom {
	res := []atom{}
	own := func(env Env) *Stream { return env[t.Sq] }
	switch {
	case t.Tags != nil:
		for _, name := range t.Tags {
			full := t.Key + "/" + strings.TrimSpace(name)
			res = append(res, atom{desc: "tag " + full, eval: func(env Env, _ int64) bool { m, _ := own(env).Tag(full); return m }})
		}
	case t.Protos != nil:
		for _, p := range t.Protos {
			p := p
			if p.Var != nil {
				res = append(res, atom{desc: "proto=" + p.Var.String(), eval: func(env Env, _ int64) bool { return own(env).Proto&3 == env[p.Var.Sub].Proto&3 }})
			} else {
				res = append(res, atom{desc: "proto=" + p.Tok, eval: func(env Env, _ int64) bool { return own(env).Proto&3 == protoVals[p.Tok] }})
			}
		}
	case t.Hosts != nil:
		sides := map[string][]bool{"chost": {false}, "shost": {true}, "host": {false, true}}[t.Key]
		for _, server := range sides {
			for _, h := range t.Hosts {
				server, h := server, h
				res = append(res, atom{desc: fmt.Sprintf("host server=%v %v/%v", server, h.Host, h.Masks), eval: func(env Env, _ int64) bool {
					mine := own(env).CHost
					if server {
						mine = own(env).SHost
					}
					var other []byte
					if h.Var != nil {
						other = env[h.Var.Sub].CHost
						if h.Var.Name == "shost" {
							other = env[h.Var.Sub].SHost
						}
					} else if v4 := h.Host.To4(); v4 != nil {
						other = v4
					} else {
						other = h.Host
					}
					if len(mine) != len(other) {
						return false
					}
					m := hostMask(h.Masks, len(mine))
					return maskedEqual(mine, other, m, m)
				}})
			}
		}
	case t.Nums != nil:
		names := map[string][]string{"id": {"id"}, "cport": {"cport"}, "sport": {"sport"}, "port": {"cport", "sport"},
			"cbytes": {"cbytes"}, "sbytes": {"sbytes"}, "bytes": {"cbytes", "sbytes"}}[t.Key]
		for _, e := range t.Nums {
			for _, name := range names {
				e, name := e, name
				res = append(res, atom{desc: fmt.Sprintf("num %s in %v", name, e), eval: func(env Env, _ int64) bool {
					lo, hi := e[0], e[len(e)-1]
					var l, h *int64
					if len(lo) != 0 {
						v := numVal(lo, env)
						l = &v
					}
					if len(hi) != 0 {
						v := numVal(hi, env)
						h = &v
					}
					return inRange(own(env).numByName(name), l, h)
				}})
			}
		}
	case t.Times != nil:
		for _, e := range t.Times {
			e := e
			res = append(res, atom{desc: fmt.Sprintf("time %s in %v", t.Key, e), eval: func(env Env, ref int64) bool {
				lo, hi := e[0], e[len(e)-1]
				var l, h *int64
				if len(lo) != 0 {
					v := timeVal(lo, env, ref)
					l = &v
				}
				if len(hi) != 0 {
					v := timeVal(hi, env, ref)
					h = &v
				}
				f, lt := own(env).FTime-ref, own(env).LTime-ref
				switch t.Key {
				case "ftime":
					return inRange(f, l, h)
				case "ltime":
					return inRange(lt, l, h)
				}
				// `time`: some packet of the stream lies in the range <=> the life span meets it
				return inRange(lt, l, nil) && inRange(f, nil, h)
			}})
		}
	case t.Data != nil:
		dirs := map[string][]uint8{"cdata": {0}, "sdata": {1}, "data": {0, 1}}[t.Key]
		for _, d := range dirs {
			k := elemKey(t.Sq, d, *t.Data, t.Conv)
			res = append(res, atom{desc: "data " + k, chain: &k})
		}
	}
	return res
}

// literal of the textbook DNF: an opaque atom (possibly negated) or a payload chain
type lit struct {
	a     *atom
	neg   bool
	chain []string // element keys with their sub-query (first field of the key)
	sqs   []string
	inv   bool
}

func (l *lit) eval(env Env, ref int64) bool {
	if l.a != nil {
		return l.a.eval(env, ref) != l.neg
	}
	pos := 0
	for i, k := range l.chain {
		np, ok := env[l.sqs[i]].Step(k, pos)
		if i == len(l.chain)-1 && l.inv {
			return !ok
		}
		if !ok {
			return false
		}
		pos = np
	}
	return !l.inv
}

type alt []*lit

const MaxAlts = 3000

type tooBig struct{}

// negLit: alternatives of the negation of one literal
func negLit(l *lit) []*lit {
	if l.a != nil {
		return []*lit{{a: l.a, neg: !l.neg}}
	}
	res := []*lit{}
	for k := 1; k <= len(l.chain); k++ {
		inv := true
		if k == len(l.chain) {
			inv = !l.inv
		}
		res = append(res, &lit{chain: l.chain[:k], sqs: l.sqs[:k], inv: inv})
	}
	return res
}

func cross(a, b []alt) []alt {
	res := []alt{}
	for _, x := range a {
		for _, y := range b {
			res = append(res, append(append(alt{}, x...), y...))
			if len(res) > MaxAlts {
				panic(tooBig{})
			}
		}
	}
	return res
}

func thenAlt(a, b alt) alt {
	res := alt{}
	var ach, bch []*lit
	for _, l := range a {
		if l.a != nil {
			res = append(res, l)
		} else {
			ach = append(ach, l)
		}
	}
	for _, l := range b {
		if l.a != nil {
			res = append(res, l)
		} else {
			bch = append(bch, l)
		}
	}
	if len(ach) == 0 || len(bch) == 0 {
		return append(append(res, ach...), bch...)
	}
	// The continuation attaches to the *maximal* chains of the left alternative: a non-negated chain
	// that is a prefix of another chain of the same alternative (or a duplicate) describes payload
	// events that the longer chain already contains and is not continued on its own.  (The help text
	// does not say which of `x` and `x then y` is continued in `(x (x then y)) then z`; with search
	// semantics both readings agree unless `z` is negated.)
	maximal := []*lit{}
	for i, x := range ach {
		implied := false
		for j, y := range ach {
			if i == j || x.inv || len(x.chain) > len(y.chain) {
				continue
			}
			same := true
			for k := range x.chain {
				if x.chain[k] != y.chain[k] {
					same = false
					break
				}
			}
			if same && (len(x.chain) < len(y.chain) || (!y.inv && j < i)) {
				implied = true
				break
			}
		}
		if !implied {
			maximal = append(maximal, x)
		}
	}
	ach = maximal
	for _, x := range ach {
		n := len(x.chain)
		if x.inv {
			res = append(res, x) // "x did not happen" stays; the continuation starts after what did happen
			n--
		}
		for _, y := range bch {
			res = append(res, &lit{chain: append(append([]string{}, x.chain[:n]...), y.chain...),
				sqs: append(append([]string{}, x.sqs[:n]...), y.sqs...), inv: y.inv})
		}
	}
	return res
}

// alts: textbook DNF of an expression (no simplification); aux terms and "no condition" are true.
func alts(e *Expr) []alt {
	switch e.K {
	case "term":
		if e.T.Conv != "" && e.T.Data == nil {
			panic("converter on non-data term")
		}
		res := []alt{}
		for _, a := range termAtoms(e.T) {
			a := a
			if a.chain != nil {
				res = append(res, alt{&lit{chain: []string{*a.chain}, sqs: []string{e.T.Sq}}})
			} else {
				res = append(res, alt{&lit{a: &a}})
			}
		}
		return res
	case "aux":
		return []alt{{}}
	case "grp":
		return alts(e.E)
	case "not":
		res := []alt{{}}
		for _, a := range alts(e.E) {
			choices := []alt{}
			for _, l := range a {
				for _, nl := range negLit(l) {
					choices = append(choices, alt{nl})
				}
			}
			res = cross(res, choices)
		}
		return res
	case "or":
		res := []alt{}
		for _, c := range e.Es {
			res = append(res, alts(c)...)
		}
		return res
	case "and":
		res := []alt{{}}
		for _, c := range e.Es {
			res = cross(res, alts(c))
		}
		return res
	case "seq":
		res := alts(e.Es[0])
		for _, c := range e.Es[1:] {
			b := alts(c)
			nr := []alt{}
			for _, x := range res {
				for _, y := range b {
					nr = append(nr, thenAlt(x, y))
					if len(nr) > MaxAlts {
						panic(tooBig{})
					}
				}
			}
			res = nr
		}
		return res
	}
	panic("bad kind")
}

func evalAlts(as []alt, env Env, ref int64) bool {
	for _, a := range as {
		ok := true
		for _, l := range a {
			if !l.eval(env, ref) {
				ok = false
				break
			}
		}
		if ok {
			return true
		}
	}
	return false
}

func hasRealSeq(e *Expr) bool {
	if e.K == "seq" && len(e.Es) > 1 {
		return true
	}
	if e.E != nil && hasRealSeq(e.E) {
		return true
	}
	for _, c := range e.Es {
		if hasRealSeq(c) {
			return true
		}
	}
	return false
}

// Surface is a compiled surface expression.
type Surface struct {
	e     *Expr
	cache map[*Expr][]alt
}

// StripAux removes the sort/limit/group terms: they are not filters and take no part in the
// Boolean structure (an operator list that becomes empty is itself absent; the negation of an
// absent operand is absent).  Returns nil when nothing is left (the query has no filter).
func StripAux(e *Expr) *Expr {
	switch e.K {
	case "aux":
		return nil
	case "term":
		return e
	case "not", "grp":
		in := StripAux(e.E)
		if in == nil {
			return nil
		}
		return &Expr{K: e.K, E: in}
	}
	res := &Expr{K: e.K}
	for _, c := range e.Es {
		if in := StripAux(c); in != nil {
			res.Es = append(res.Es, in)
		}
	}
	if len(res.Es) == 0 {
		return nil
	}
	return res
}

// NewSurface compiles an expression; a query without any filter accepts every stream.
func NewSurface(e *Expr) *Surface {
	e = StripAux(e)
	if e == nil {
		e = &Expr{K: "and"}
	}
	return &Surface{e: e, cache: map[*Expr][]alt{}}
}

// Eval: Boolean recursion; a THEN node with several operands is evaluated through its textbook DNF.
// ok=false when the DNF of a THEN node exceeds MaxAlts (the case is skipped by the oracle).
func (s *Surface) Eval(env Env, ref int64) (val bool, ok bool) {
	defer func() {
		if r := recover(); r != nil {
			if _, is := r.(tooBig); is {
				val, ok = false, false
				return
			}
			panic(r)
		}
	}()
	return s.eval(s.e, env, ref), true
}

func (s *Surface) eval(e *Expr, env Env, ref int64) bool {
	switch e.K {
	case "term":
		for _, a := range termAtoms(e.T) {
			if a.chain != nil {
				if _, ok := env[e.T.Sq].Step(*a.chain, 0); ok {
					return true
				}
			} else if a.eval(env, ref) {
				return true
			}
		}
		return false
	case "aux":
		return true
	case "grp":
		return s.eval(e.E, env, ref)
	case "not":
		return !s.eval(e.E, env, ref)
	case "or":
		for _, c := range e.Es {
			if s.eval(c, env, ref) {
				return true
			}
		}
		return false
	case "and":
		for _, c := range e.Es {
			if !s.eval(c, env, ref) {
				return false
			}
		}
		return true
	case "seq":
		if len(e.Es) == 1 {
			return s.eval(e.Es[0], env, ref)
		}
		as, ok := s.cache[e]
		if !ok {
			as = alts(e)
			s.cache[e] = as
		}
		return evalAlts(as, env, ref)
	}
	panic("bad kind")
}

// SelfCheck compares, for THEN-free expressions, the Boolean evaluation with the textbook DNF
// (a defect of the oracle itself would show here).
func (s *Surface) SelfCheck(env Env, ref int64) (agree bool, done bool) {
	if hasRealSeq(s.e) {
		return true, false
	}
	defer func() {
		if r := recover(); r != nil {
			if _, is := r.(tooBig); is {
				agree, done = true, false
				return
			}
			panic(r)
		}
	}()
	as, ok := s.cache[s.e]
	if !ok {
		as = alts(s.e)
		s.cache[s.e] = as
	}
	return evalAlts(as, env, ref) == s.eval(s.e, env, ref), true
}

// ---------------------------------------------------------------------------------------------
// synthetic environments aimed at the constants of the expression

type consts struct {
	nums  []int64
	times []int64 // absolute ns
	durs  []int64
	hosts [][]byte
}

func collect(e *Expr, c *consts) {
	if e.K == "term" {
		t := e.T
		for _, en := range t.Nums {
			for _, r := range en {
				v := int64(0)
				for _, p := range r {
					if p.Var == nil {
						v += p.factor() * int64(p.N)
						c.nums = append(c.nums, int64(p.N))
					}
				}
				c.nums = append(c.nums, v)
			}
		}
		for _, en := range t.Times {
			for _, r := range en {
				for _, p := range r {
					if p.Abs != nil {
						c.times = append(c.times, AbsTime(p.Abs).UnixNano())
					} else if p.Dur != nil {
						c.durs = append(c.durs, *p.Dur)
					}
				}
			}
		}
		for _, h := range t.Hosts {
			if h.Host != nil {
				if v4 := h.Host.To4(); v4 != nil {
					c.hosts = append(c.hosts, v4)
				} else {
					c.hosts = append(c.hosts, h.Host)
				}
			}
		}
	}
	if e.E != nil {
		collect(e.E, c)
	}
	for _, x := range e.Es {
		collect(x, c)
	}
}

// Envs builds n environments; values are drawn around the constants of the expression.
func Envs(e *Expr, r *lib.RNG, n int, ref int64) []Env {
	c := &consts{}
	collect(e, c)
	pickNum := func() int64 {
		if len(c.nums) != 0 && r.Chance(3, 4) {
			v := lib.Pick(r, c.nums) + int64(r.Intn(3)) - 1
			if r.Chance(1, 6) {
				v = lib.Pick(r, c.nums) + lib.Pick(r, c.nums)
			}
			if v < 0 {
				v = 0
			}
			return v
		}
		return int64(lib.Pick(r, []int{0, 1, 2, 3, 4, 6, 79, 81, 444, 70000}))
	}
	pickTime := func() int64 {
		d := int64(0)
		if len(c.durs) != 0 {
			d = lib.Pick(r, c.durs)
			if r.Bool() {
				d = -d
			}
		}
		d += int64(r.Intn(3)) - 1
		if len(c.times) != 0 && r.Chance(1, 2) {
			return lib.Pick(r, c.times) + d
		}
		return ref + d
	}
	pickHost := func(size int) []byte {
		var h []byte
		if len(c.hosts) != 0 && r.Chance(3, 4) {
			h = append([]byte(nil), lib.Pick(r, c.hosts)...)
		}
		if len(h) != size {
			h = make([]byte, size)
			h[0], h[size-1] = 10, byte(r.Intn(3))
		}
		switch r.Intn(6) {
		case 0:
			h[size-1] ^= 1
		case 1:
			h[1] ^= 0x80
		case 2:
			h[size/2] ^= 4
		}
		return h
	}
	mk := func() *Stream {
		size := 4
		if r.Chance(1, 3) {
			size = 16
		}
		s := &Stream{ID: pickNum(), CPort: pickNum(), SPort: pickNum(), CBytes: pickNum(), SBytes: pickNum(),
			CHost: pickHost(size), SHost: pickHost(size), Proto: uint16(r.Intn(4)), Seed: r.U64()}
		s.Dense = r.Chance(1, 3)
		a, b := pickTime(), pickTime()
		if a > b {
			a, b = b, a
		}
		if r.Chance(1, 4) {
			b = a
		}
		s.FTime, s.LTime = a, b
		return s
	}
	res := []Env{}
	for i := 0; i < n; i++ {
		env := Env{"": mk(), "a": mk(), "b": mk()}
		if r.Chance(1, 5) {
			env["a"] = env[""]
		}
		res = append(res, env)
	}
	return res
}

var _ = bytes.Equal
