// run.go — calling the real query.Parse under recover() and a watchdog.
package qh

import (
	"fmt"
	"time"

	"github.com/spq/pkappa2/internal/query"
)

type ParseResult struct {
	Kind string // ok | err | panic | hang
	Q    *query.Query
	Msg  string
}

func parseRecover(text string) (res ParseResult) {
	defer func() {
		if r := recover(); r != nil {
			res = ParseResult{Kind: "panic", Msg: fmt.Sprint(r)}
		}
	}()
	q, err := query.Parse(text)
	if err != nil {
		return ParseResult{Kind: "err", Msg: err.Error()}
	}
	return ParseResult{Kind: "ok", Q: q}
}

// ParseWatched runs the real parser in a goroutine; after `timeout` the call is reported as a
// hang (the goroutine cannot be stopped and keeps a core busy until the process exits).
func ParseWatched(text string, timeout time.Duration) ParseResult {
	ch := make(chan ParseResult, 1)
	go func() { ch <- parseRecover(text) }()
	select {
	case r := <-ch:
		return r
	case <-time.After(timeout):
		return ParseResult{Kind: "hang"}
	}
}

// ParseDirect runs the real parser in the calling goroutine (used by child processes whose parent
// holds the watchdog).
func ParseDirect(text string) ParseResult { return parseRecover(text) }
