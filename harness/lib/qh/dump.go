// dump.go — structural dump of a real query.ConditionsSet in the canonical text form that
// lean/Pk/Driver/C03.lean prints for the model.
package qh

import (
	"encoding/hex"
	"fmt"
	"strings"

	"github.com/spq/pkappa2/internal/query"
)

func b01(b bool) string {
	if b {
		return "1"
	}
	return "0"
}

func DumpCond(c query.Condition) string {
	switch cc := c.(type) {
	case *query.TagCondition:
		return fmt.Sprintf("T(%s;%s;%d)", cc.SubQuery, hex.EncodeToString([]byte(cc.TagName)), cc.Accept)
	case *query.FlagCondition:
		return fmt.Sprintf("F(%s;%d;%d)", strings.Join(cc.SubQueries, ","), cc.Value, cc.Mask)
	case *query.HostCondition:
		srcs := []string{}
		for _, s := range cc.HostConditionSources {
			t := "c"
			if s.Type == query.HostConditionSourceTypeServer {
				t = "s"
			}
			srcs = append(srcs, s.SubQuery+"."+t)
		}
		return fmt.Sprintf("H(%s;%s;%s;%s;%s)", strings.Join(srcs, ","), hex.EncodeToString(cc.Host),
			hex.EncodeToString(cc.Mask4), hex.EncodeToString(cc.Mask6), b01(cc.Invert))
	case *query.NumberCondition:
		ss := []string{}
		for _, s := range cc.Summands {
			ss = append(ss, fmt.Sprintf("%s.%d*%d", s.SubQuery, s.Type, s.Factor))
		}
		return fmt.Sprintf("N(%s;%d)", strings.Join(ss, ","), cc.Number)
	case *query.TimeCondition:
		ss := []string{}
		for _, s := range cc.Summands {
			ss = append(ss, fmt.Sprintf("%s.%d.%d", s.SubQuery, s.FTimeFactor, s.LTimeFactor))
		}
		return fmt.Sprintf("D(%s;%d;%d)", strings.Join(ss, ","), int64(cc.Duration), cc.ReferenceTimeFactor)
	case *query.DataCondition:
		es := []string{}
		for _, e := range cc.Elements {
			vs := []string{}
			for _, v := range e.Variables {
				vs = append(vs, fmt.Sprintf("%d:%s:%s", v.Position, v.SubQuery, v.Name))
			}
			es = append(es, fmt.Sprintf("%s.%d.%s.%s.[%s]", e.SubQuery, e.Flags, hex.EncodeToString([]byte(e.Regex)),
				hex.EncodeToString([]byte(e.ConverterName)), strings.Join(vs, ",")))
		}
		return fmt.Sprintf("C(%s;%s)", strings.Join(es, ">"), b01(cc.Inverted))
	case *query.ImpossibleCondition:
		return "X"
	}
	return fmt.Sprintf("?(%T)", c)
}

func DumpConj(c query.Conditions) string {
	if len(c) == 0 {
		return "true"
	}
	l := []string{}
	for _, cc := range c {
		l = append(l, DumpCond(cc))
	}
	return strings.Join(l, " & ")
}

// DumpSet prints Query.Conditions: nil (Parse found the query impossible) is `false`.
func DumpSet(cs query.ConditionsSet) string {
	if cs == nil {
		return "false"
	}
	l := []string{}
	for _, c := range cs {
		l = append(l, DumpConj(c))
	}
	return strings.Join(l, " | ")
}
