// Package qh: shared code of the query harnesses (properties C03 and C14).
//
// ast.go — the grammar AST with already-lexed values that is sent to the Lean model
// (protocol of lean/Pk/Driver/C03.lean), its JSON form and its rendering as query text.
package qh

import (
	"encoding/json"
	"fmt"
	"net"
	"strings"
	"time"
)

type Var struct {
	Sub  string `json:"sub"`
	Name string `json:"name"`
}

func (v *Var) String() string {
	if v.Sub != "" {
		return "@" + v.Sub + ":" + v.Name + "@"
	}
	return "@" + v.Name + "@"
}

type NumPart struct {
	Ops string
	N   uint64
	Var *Var
}

type TimePart struct {
	Ops string
	Dur *int64 // ns
	Abs []int  // y, mo, d, h, mi, s
	Var *Var
}

type HostEntry struct {
	Host  net.IP // 16 bytes (net.ParseIP form) or nil
	Var   *Var
	Masks []int // nil = absent
}

type ProtoEntry struct {
	Tok string
	Var *Var
}

type Term struct {
	Sq, Key, Conv string
	Tags          []string
	Protos        []ProtoEntry
	Hosts         []HostEntry
	Nums          [][][]NumPart
	Times         [][][]TimePart
	Data          *string
}

// Expr kinds: term, aux, not, grp, and, or, seq
type Expr struct {
	K    string
	T    *Term
	E    *Expr
	Es   []*Expr
	Text string // aux: literal text (sort:id, limit:5)
}

func varJSON(v *Var) interface{} {
	if v == nil {
		return nil
	}
	return map[string]interface{}{"sub": v.Sub, "name": v.Name}
}

func (t *Term) valueJSON() interface{} {
	switch {
	case t.Tags != nil:
		return map[string]interface{}{"tags": t.Tags}
	case t.Protos != nil:
		l := []interface{}{}
		for _, p := range t.Protos {
			if p.Var != nil {
				l = append(l, map[string]interface{}{"var": varJSON(p.Var)})
			} else {
				l = append(l, map[string]interface{}{"tok": p.Tok})
			}
		}
		return map[string]interface{}{"protos": l}
	case t.Hosts != nil:
		l := []interface{}{}
		for _, h := range t.Hosts {
			m := map[string]interface{}{"host": nil, "var": varJSON(h.Var), "masks": nil}
			if h.Host != nil {
				bs := []int{}
				for _, b := range h.Host {
					bs = append(bs, int(b))
				}
				m["host"] = bs
			}
			if h.Masks != nil {
				m["masks"] = h.Masks
			}
			l = append(l, m)
		}
		return map[string]interface{}{"hosts": l}
	case t.Nums != nil:
		l := []interface{}{}
		for _, e := range t.Nums {
			rs := []interface{}{}
			for _, r := range e {
				ps := []interface{}{}
				for _, p := range r {
					if p.Var != nil {
						ps = append(ps, map[string]interface{}{"ops": p.Ops, "var": varJSON(p.Var)})
					} else {
						ps = append(ps, map[string]interface{}{"ops": p.Ops, "n": p.N})
					}
				}
				rs = append(rs, ps)
			}
			l = append(l, rs)
		}
		return map[string]interface{}{"nums": l}
	case t.Times != nil:
		l := []interface{}{}
		for _, e := range t.Times {
			rs := []interface{}{}
			for _, r := range e {
				ps := []interface{}{}
				for _, p := range r {
					switch {
					case p.Var != nil:
						ps = append(ps, map[string]interface{}{"ops": p.Ops, "var": varJSON(p.Var)})
					case p.Abs != nil:
						ps = append(ps, map[string]interface{}{"ops": p.Ops, "abs": p.Abs})
					default:
						ps = append(ps, map[string]interface{}{"ops": p.Ops, "dur": *p.Dur})
					}
				}
				rs = append(rs, ps)
			}
			l = append(l, rs)
		}
		return map[string]interface{}{"times": l}
	case t.Data != nil:
		return map[string]interface{}{"data": *t.Data, "vars": []interface{}{}}
	}
	return map[string]interface{}{}
}

func (e *Expr) toJSON() interface{} {
	switch e.K {
	case "term":
		return map[string]interface{}{"k": "term", "sq": e.T.Sq, "key": e.T.Key, "conv": e.T.Conv, "v": e.T.valueJSON()}
	case "aux":
		return map[string]interface{}{"k": "aux", "text": e.Text}
	case "not", "grp":
		return map[string]interface{}{"k": e.K, "e": e.E.toJSON()}
	default:
		l := []interface{}{}
		for _, c := range e.Es {
			l = append(l, c.toJSON())
		}
		return map[string]interface{}{"k": e.K, "es": l}
	}
}

// JSON returns the compact JSON form of the expression.
func (e *Expr) JSON() string {
	b, err := json.Marshal(e.toJSON())
	if err != nil {
		panic(err)
	}
	return string(b)
}

// ---------------------------------------------------------------------------------------------
// decoding (cases come back from the generator / corpus as JSON)

func decVar(j interface{}) *Var {
	m, ok := j.(map[string]interface{})
	if !ok {
		return nil
	}
	return &Var{Sub: m["sub"].(string), Name: m["name"].(string)}
}

func num(j interface{}) float64 { return j.(float64) }

// ExprFromJSON decodes the generic JSON value of an expression.
func ExprFromJSON(j interface{}) (e *Expr, err error) {
	defer func() {
		if r := recover(); r != nil {
			err = fmt.Errorf("bad expression JSON: %v", r)
		}
	}()
	return exprFrom(j), nil
}

func exprFrom(j interface{}) *Expr {
	m := j.(map[string]interface{})
	k := m["k"].(string)
	switch k {
	case "term":
		t := &Term{Sq: m["sq"].(string), Key: m["key"].(string), Conv: m["conv"].(string)}
		v := m["v"].(map[string]interface{})
		if x, ok := v["tags"]; ok {
			t.Tags = []string{}
			for _, s := range x.([]interface{}) {
				t.Tags = append(t.Tags, s.(string))
			}
		} else if x, ok := v["protos"]; ok {
			t.Protos = []ProtoEntry{}
			for _, p := range x.([]interface{}) {
				pm := p.(map[string]interface{})
				if vv, ok := pm["var"]; ok && vv != nil {
					t.Protos = append(t.Protos, ProtoEntry{Var: decVar(vv)})
				} else {
					t.Protos = append(t.Protos, ProtoEntry{Tok: pm["tok"].(string)})
				}
			}
		} else if x, ok := v["hosts"]; ok {
			t.Hosts = []HostEntry{}
			for _, h := range x.([]interface{}) {
				hm := h.(map[string]interface{})
				he := HostEntry{Var: decVar(hm["var"])}
				if hb, ok := hm["host"].([]interface{}); ok {
					for _, b := range hb {
						he.Host = append(he.Host, byte(num(b)))
					}
				}
				if ms, ok := hm["masks"].([]interface{}); ok {
					he.Masks = []int{}
					for _, b := range ms {
						he.Masks = append(he.Masks, int(num(b)))
					}
				}
				t.Hosts = append(t.Hosts, he)
			}
		} else if x, ok := v["nums"]; ok {
			t.Nums = [][][]NumPart{}
			for _, en := range x.([]interface{}) {
				rs := [][]NumPart{}
				for _, r := range en.([]interface{}) {
					ps := []NumPart{}
					for _, p := range r.([]interface{}) {
						pm := p.(map[string]interface{})
						np := NumPart{Ops: pm["ops"].(string)}
						if vv, ok := pm["var"]; ok && vv != nil {
							np.Var = decVar(vv)
						} else {
							np.N = uint64(num(pm["n"]))
						}
						ps = append(ps, np)
					}
					rs = append(rs, ps)
				}
				t.Nums = append(t.Nums, rs)
			}
		} else if x, ok := v["times"]; ok {
			t.Times = [][][]TimePart{}
			for _, en := range x.([]interface{}) {
				rs := [][]TimePart{}
				for _, r := range en.([]interface{}) {
					ps := []TimePart{}
					for _, p := range r.([]interface{}) {
						pm := p.(map[string]interface{})
						tp := TimePart{Ops: pm["ops"].(string)}
						if vv, ok := pm["var"]; ok && vv != nil {
							tp.Var = decVar(vv)
						} else if a, ok := pm["abs"]; ok && a != nil {
							for _, b := range a.([]interface{}) {
								tp.Abs = append(tp.Abs, int(num(b)))
							}
						} else {
							d := int64(num(pm["dur"]))
							tp.Dur = &d
						}
						ps = append(ps, tp)
					}
					rs = append(rs, ps)
				}
				t.Times = append(t.Times, rs)
			}
		} else if x, ok := v["data"]; ok {
			s := x.(string)
			t.Data = &s
		}
		return &Expr{K: "term", T: t}
	case "aux":
		txt, _ := m["text"].(string)
		if txt == "" {
			txt = "limit:100"
		}
		return &Expr{K: "aux", Text: txt}
	case "not", "grp":
		return &Expr{K: k, E: exprFrom(m["e"])}
	default:
		e := &Expr{K: k}
		for _, c := range m["es"].([]interface{}) {
			e.Es = append(e.Es, exprFrom(c))
		}
		return e
	}
}

// ---------------------------------------------------------------------------------------------
// rendering as query text

func quoteIfNeeded(v string) string {
	plain := v != ""
	for _, c := range v {
		if !(c >= 'a' && c <= 'z' || c >= 'A' && c <= 'Z' || c >= '0' && c <= '9' || strings.ContainsRune(":,.+/@-_", c)) {
			plain = false
		}
	}
	if plain && !strings.HasSuffix(v, ")") {
		return v
	}
	return `"` + strings.ReplaceAll(v, `"`, `""`) + `"`
}

// DurString renders ns as a sequence of integer unit terms accepted by time.ParseDuration exactly.
func DurString(ns int64) string {
	if ns < 0 {
		panic("negative duration literal")
	}
	if ns == 0 {
		return "0s"
	}
	s := ""
	for _, u := range []struct {
		n int64
		s string
	}{{int64(time.Hour), "h"}, {int64(time.Minute), "m"}, {int64(time.Second), "s"}, {int64(time.Millisecond), "ms"}, {int64(time.Microsecond), "us"}, {1, "ns"}} {
		if ns >= u.n {
			s += fmt.Sprintf("%d%s", ns/u.n, u.s)
			ns %= u.n
		}
	}
	return s
}

func (t *Term) valueText() string {
	switch {
	case t.Tags != nil:
		return strings.Join(t.Tags, ",")
	case t.Protos != nil:
		l := []string{}
		for _, p := range t.Protos {
			if p.Var != nil {
				l = append(l, p.Var.String())
			} else {
				l = append(l, p.Tok)
			}
		}
		return strings.Join(l, ",")
	case t.Hosts != nil:
		l := []string{}
		for _, h := range t.Hosts {
			s := ""
			if h.Var != nil {
				s = h.Var.String()
			} else {
				s = h.Host.String()
			}
			for _, m := range h.Masks {
				s += fmt.Sprintf("/%d", m)
			}
			l = append(l, s)
		}
		return strings.Join(l, ",")
	case t.Nums != nil:
		l := []string{}
		for _, e := range t.Nums {
			rs := []string{}
			for _, r := range e {
				s := ""
				for _, p := range r {
					s += p.Ops
					if p.Var != nil {
						s += p.Var.String()
					} else {
						s += fmt.Sprintf("%d", p.N)
					}
				}
				rs = append(rs, s)
			}
			l = append(l, strings.Join(rs, ":"))
		}
		return strings.Join(l, ",")
	case t.Times != nil:
		l := []string{}
		for _, e := range t.Times {
			rs := []string{}
			for _, r := range e {
				s := ""
				for _, p := range r {
					s += p.Ops
					switch {
					case p.Var != nil:
						s += p.Var.String()
					case p.Abs != nil:
						if p.Abs[5] != 0 {
							s += fmt.Sprintf("%04d-%02d-%02d %02d%02d%02d", p.Abs[0], p.Abs[1], p.Abs[2], p.Abs[3], p.Abs[4], p.Abs[5])
						} else {
							s += fmt.Sprintf("%04d-%02d-%02d %02d%02d", p.Abs[0], p.Abs[1], p.Abs[2], p.Abs[3], p.Abs[4])
						}
					default:
						s += DurString(*p.Dur)
					}
				}
				rs = append(rs, s)
			}
			l = append(l, strings.Join(rs, ":"))
		}
		return strings.Join(l, ",")
	case t.Data != nil:
		return *t.Data
	}
	return ""
}

// Render produces the query text of the expression; `style` selects between equivalent spellings
// (explicit AND, `!` for negation) so that the lexer alternatives are exercised.  Operator lists
// with one operand are transparent; a list with several operands is parenthesised when it stands
// where the grammar needs a tighter-binding construct (so shrunk, non-grammar-shaped trees still
// render to a text that parses to the same structure up to grouping).
func (e *Expr) Render(style uint64) string { return e.render(style, 0) }

var prec = map[string]int{"or": 1, "and": 2, "seq": 3}

func (e *Expr) render(style uint64, ctx int) string {
	switch e.K {
	case "term":
		s := ""
		if e.T.Sq != "" {
			s = "@" + e.T.Sq + ":"
		}
		s += e.T.Key
		if e.T.Conv != "" {
			s += "." + e.T.Conv
		}
		v := e.T.valueText()
		if e.T.Data != nil || e.T.Times != nil {
			return s + `:"` + strings.ReplaceAll(v, `"`, `""`) + `"`
		}
		return s + ":" + quoteIfNeeded(v)
	case "aux":
		return e.Text
	case "not":
		if style&1 == 1 {
			return "!" + e.E.render(style>>1, 4)
		}
		return "-" + e.E.render(style>>1, 4)
	case "grp":
		return "(" + e.E.render(style>>1, 0) + ")"
	case "or", "and", "seq":
		if len(e.Es) == 1 {
			return e.Es[0].render(style>>1, ctx)
		}
		sep := map[string]string{"or": " or ", "and": " ", "seq": " then "}[e.K]
		if e.K == "and" && style&2 == 2 {
			sep = " and "
		}
		l := []string{}
		for i, c := range e.Es {
			l = append(l, c.render(style>>uint(2+i%3), prec[e.K]+1))
		}
		s := strings.Join(l, sep)
		if len(e.Es) == 0 {
			return "limit:1" // an empty list cannot be written; never generated
		}
		if prec[e.K] < ctx {
			return "(" + s + ")"
		}
		return s
	}
	panic("bad kind " + e.K)
}
