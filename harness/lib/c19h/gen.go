// Package c19h is the correspondence harness of property C19 (file endpoints stay inside the
// capture directory and never overwrite). See Pk/Driver/C19.lean for the line protocol.
package c19h

import (
	"bufio"
	"encoding/hex"
	"flag"
	"fmt"
	"net/http"
	"net/url"
	"os"
	"strings"

	"github.com/spq/pkappa2/internal/index/manager"
	"github.com/spq/pkappa2/internal/verifh/lib"
)

// Hooks give the harness access to package main of cmd/pkappa2 (nil in the stand-alone binary).
type Hooks struct {
	NewRouter func(mgr *manager.Manager) http.Handler
	SetDirs   func(base, pcap string)
}

func Main(args []string, h *Hooks) int {
	if len(args) < 1 {
		fmt.Fprintln(os.Stderr, "usage: c19 gen -seed S -n N | run [-oracle FILE] [-scratch DIR]")
		return 2
	}
	fs := flag.NewFlagSet(args[0], flag.ExitOnError)
	seed := fs.Uint64("seed", 1, "generator seed")
	n := fs.Int("n", 300, "number of ops")
	profile := fs.String("profile", "mixed", "mixed | escape (search: requests aimed at leaving the capture directory / overwriting) | pathsmall (exhaustive small strings for Base/Clean/Join; -n = max length)")
	oracle := fs.String("oracle", "", "file receiving oracle complaints")
	scratch := fs.String("scratch", "", "directory for the scratch tree")
	_ = fs.Parse(args[1:])
	switch args[0] {
	case "gen":
		if *profile == "pathsmall" {
			GenPathSmall(*n)
			return 0
		}
		Gen(*seed, *n, *profile)
		return 0
	case "run":
		return Run(h, *oracle, *scratch)
	}
	fmt.Fprintln(os.Stderr, "unknown mode", args[0])
	return 2
}

func hx(s string) string {
	if s == "" {
		return "-"
	}
	return hex.EncodeToString([]byte(s))
}

func unhx(s string) (string, error) {
	if s == "-" {
		return "", nil
	}
	b, err := hex.DecodeString(s)
	return string(b), err
}

// ---------------------------------------------------------------------------------------------
// generator
// ---------------------------------------------------------------------------------------------

var existingNames = []string{"e.pcap", "old.pcapng", "we ird.pcap", "b\\s.pcap", "%2e%2e%2fx.pcap", "..pcap", "d.pcap"}

// names of files of the sentinel tree around the capture directory (see run.go: buildTree)
var sentinelRefs = []string{"../secret.pcap", "../../outside.pcap", "../../outside/deep.pcap", "../index/idx.pcap",
	"../cwd/cwd.pcap", "../pcaps.pcap", "../pcaps/e.pcap", "./e.pcap", "sub/inner.pcap"}

var words = []string{"a", "x", "cap", "new", "t1", "pcaps", "base", "index", "..", ".", "...", "", " ", "e", "old", "é", "\xff\xfe"}

func genWord(r *lib.RNG) string {
	switch r.Intn(12) {
	case 0:
		return strings.Repeat("A", lib.Pick(r, []int{200, 249, 250, 251, 255, 256, 300}))
	case 1:
		return fmt.Sprintf("n%d", r.Intn(6))
	case 2:
		return fmt.Sprintf("u%d", r.Intn(100000))
	default:
		return lib.Pick(r, words)
	}
}

var seps = []string{"/", "%2f", "%2f", "%2F", "\\", "\\", "%5c", "%5C", "//", "/./", "/../", "%2f..%2f", "%252f", "%2f%2f", "%5c..%5c"}
var dotsegs = []string{"..", ".", "%2e%2e", "%2e.", ".%2E", "%2E%2E", "..."}
var suffixes = []string{".pcap", ".pcap", ".pcap", ".pcap", ".pcap", ".pcap", ".pcap", ".pcap", ".pcap", ".pcap", ".pcap", ".pcap",
	".pcapng", ".pcapng", ".pcapng", ".pcapng", ".pcapng", ".pcapng", ".pcap/", ".pcapx", ".PCAP", "", ".pcap%00", "%00.pcap",
	"%0a.pcap", ".pcap%0a", ".pcap?x=1", ".pcap#f", ".pcap%2f", ".pcap.", ".pcap.pcap", ".pcapngng", ".pcap%20", ".pcapn", ".pcap/.", ".pcap/.."}
var prefixesUp = []string{"/upload/", "/upload/", "/upload/", "/upload/", "/upload/", "/upload/", "/upload/", "/upload/", "/upload/", "/upload/",
	"/upload/", "/upload/", "/upload/", "/upload/", "/upload/", "/upload/", "/upload/", "/upload/", "/upload/", "/upload/", "//upload/", "/upload//", "/./upload/",
	"/upload/../upload/", "/UPLOAD/", "/upload", "/upload/%2f", "/upload/./", "/upload/../", "http://verif/upload/", "/x/../upload/"}
var prefixesDown = []string{"/api/download/pcap/", "/api/download/pcap/", "/api/download/pcap/", "/api/download/pcap/",
	"/api/download/pcap/", "/api/download/pcap/", "/api/download/pcap/", "/api/download/pcap/", "/api/download/pcap/", "/api/download/pcap/",
	"/api/download/pcap/", "/api/download/pcap/", "/api/download/pcap/", "/api/download/pcap/", "/api/download/pcap/", "/api/download/pcap/",
	"/api/download/pcap//", "/api/download/", "/api/download/pcap", "/api//download/pcap/", "/api/download/pcap/./",
	"/api/download/pcap/../", "/api/download/pcap/%2f", "/api/download/pcap/../pcap/", "http://verif/api/download/pcap/"}

// a file-name expression: possibly several segments glued by (encoded) separators, then a suffix
func genNameExpr(r *lib.RNG, fresh func() string) string {
	var stem string
	switch r.Intn(10) {
	case 0, 1, 2: // plain fresh or recurring name
		stem = fresh()
	case 3, 4: // a stored name (conflict / download hit), suffix included
		return lib.Pick(r, existingNames)
	case 5: // reference to a sentinel through dot segments and separators
		ref := lib.Pick(r, sentinelRefs)
		sep := lib.Pick(r, seps)
		ref = strings.ReplaceAll(ref, "/", sep)
		if r.Chance(1, 2) {
			ref = strings.ReplaceAll(ref, "..", lib.Pick(r, dotsegs))
		}
		return ref
	default:
		k := r.Range(1, 4)
		parts := make([]string, 0, k)
		for i := 0; i < k; i++ {
			if r.Chance(1, 3) {
				parts = append(parts, lib.Pick(r, dotsegs))
			} else {
				parts = append(parts, genWord(r))
			}
		}
		stem = parts[0]
		for _, p := range parts[1:] {
			stem += lib.Pick(r, seps) + p
		}
	}
	return stem + lib.Pick(r, suffixes)
}

// Gen writes one case. Every random choice derives from the seed.
func Gen(seed uint64, n int, profile string) {
	r := lib.NewRNG(seed)
	w := bufio.NewWriter(os.Stdout)
	defer w.Flush()
	variant := 0
	if r.Chance(1, 2) {
		variant = r.Intn(6)
	}
	fmt.Fprintf(w, "reset %d\n", variant)
	nbody := 1
	freshCount := 0
	fresh := func() string {
		if r.Chance(1, 3) && freshCount > 0 {
			return fmt.Sprintf("f%d", r.Intn(freshCount))
		}
		freshCount++
		return fmt.Sprintf("f%d", freshCount-1)
	}
	for _, nm := range existingNames {
		if nm == "d.pcap" {
			if r.Chance(1, 2) {
				fmt.Fprintf(w, "mkdir %s\n", hx(nm))
			}
			continue
		}
		if r.Chance(2, 3) {
			fmt.Fprintf(w, "seed %s %d\n", hx(nm), nbody)
			nbody++
		}
	}
	escape := profile == "escape"
	for i := 0; i < n; i++ {
		k := r.Intn(100)
		switch {
		case !escape && k < 30:
			genPathOp(r, w)
		case k < 65: // upload-ish
			target := lib.Pick(r, prefixesUp) + genNameExpr(r, fresh)
			if r.Chance(1, 14) { // names around NAME_MAX (255 bytes)
				sfx := lib.Pick(r, []string{".pcap", ".pcapng"})
				target = "/upload/" + strings.Repeat(lib.Pick(r, []string{"A", "b"}), lib.Pick(r, []int{254, 255, 256})-len(sfx)) + sfx
			}
			method := "POST"
			if r.Chance(1, 25) {
				method = lib.Pick(r, []string{"GET", "PUT", "DELETE", "HEAD"})
			}
			fail := "-"
			if r.Chance(1, 8) {
				fail = fmt.Sprint(lib.Pick(r, []int{0, 1, 5, 17}))
			}
			emitReq(r, w, method, target, nbody, fail)
			nbody++
		case k < 88: // download-ish
			target := lib.Pick(r, prefixesDown) + genNameExpr(r, fresh)
			if r.Chance(1, 3) { // plain request for a stored (or recently uploaded, or absent) capture
				target = "/api/download/pcap/" + lib.Pick(r, existingNames)
				if r.Chance(1, 2) {
					target = "/api/download/pcap/" + fresh() + ".pcap"
				}
			}
			if r.Chance(1, 30) {
				target = "/api/download/pcap/" + strings.Repeat("A", lib.Pick(r, []int{254, 255, 256})-5) + ".pcap"
			}
			method := "GET"
			if r.Chance(1, 25) {
				method = lib.Pick(r, []string{"POST", "HEAD"})
			}
			emitReq(r, w, method, target, 0, "-")
		case k < 96: // concurrent duplicate upload
			var nm string
			switch r.Intn(4) {
			case 0:
				nm = lib.Pick(r, existingNames)
			default:
				nm = fresh() + lib.Pick(r, []string{".pcap", ".pcapng"})
			}
			u, err := url.ParseRequestURI("/upload/" + nm)
			if err != nil {
				continue
			}
			fmt.Fprintf(w, "race %s %s %d %d\n", hx(u.Path), hx(u.RawPath), nbody, nbody+1)
			nbody += 2
		default:
			fmt.Fprintln(w, "ls")
		}
	}
	fmt.Fprintln(w, "ls")
}

// emitReq derives r.URL.Path / r.URL.RawPath from the request target the way the HTTP server does
// (url.ParseRequestURI); sometimes it uses a (Path, RawPath) pair no parser would produce — the
// handlers must be safe for whatever string the router extracts.
func emitReq(r *lib.RNG, w *bufio.Writer, method, target string, body int, fail string) {
	var p, raw string
	// one request in eight travels as bytes over TCP through net/http's server (no body failures there)
	if u, err := url.ParseRequestURI(target); err == nil && fail == "-" && method != "HEAD" && wireable(target) && r.Chance(1, 8) {
		fmt.Fprintf(w, "wire %s %s %s %s %d\n", method, hx(target), hx(u.Path), hx(u.RawPath), body)
		return
	}
	switch r.Intn(10) {
	case 0: // decoded text as literal path, nothing raw (what a proxy/middleware that clears RawPath yields)
		if u, err := url.ParseRequestURI(target); err == nil {
			p, raw = u.Path, ""
		} else {
			p, raw = target, ""
		}
	case 1: // literal bytes in both
		p, raw = target, target
	default:
		u, err := url.ParseRequestURI(target)
		if err != nil {
			p, raw = target, ""
		} else {
			p, raw = u.Path, u.RawPath
		}
	}
	fmt.Fprintf(w, "req %s %s %s %d %s\n", method, hx(p), hx(raw), body, fail)
}

// wireable: the target can stand in an HTTP/1.1 request line (no space or control byte), and is in
// origin form (absolute-form targets are rewritten by the server)
func wireable(t string) bool {
	if !strings.HasPrefix(t, "/") {
		return false
	}
	for i := 0; i < len(t); i++ {
		// (bytes >= 0x80 are not sent raw either: clients percent-encode them, and what net/http's server does with a
		// raw non-ASCII request target is outside the model — found by the thorough tier as a tie difference
		// without any failing input: upload of "\xff\xfe.pcap", then a raw GET of it served nothing)
		if t[i] <= ' ' || t[i] >= 0x7f {
			return false
		}
	}
	return true
}

// GenPathSmall enumerates every string over {'/', '.', 'a'} up to length maxLen for Base and Clean,
// and every pair of such strings up to length 3 (plus the empty string) for Join: an exhaustive
// small-scope differential of the path model against the real path/filepath.
func GenPathSmall(maxLen int) {
	w := bufio.NewWriter(os.Stdout)
	defer w.Flush()
	alphabet := []byte{'/', '.', 'a'}
	var all []string
	var rec func(prefix string, l int)
	rec = func(prefix string, l int) {
		all = append(all, prefix)
		if l == maxLen {
			return
		}
		for _, c := range alphabet {
			rec(prefix+string(c), l+1)
		}
	}
	rec("", 0)
	var short []string
	for _, s := range all {
		fmt.Fprintf(w, "base %s\n", hx(s))
		fmt.Fprintf(w, "clean %s\n", hx(s))
		if len(s) <= 3 {
			short = append(short, s)
		}
	}
	for _, a := range short {
		for _, b := range short {
			fmt.Fprintf(w, "join %s %s\n", hx(a), hx(b))
			if len(a)+len(b) <= 4 {
				fmt.Fprintf(w, "join %s %s %s\n", hx(a), hx(b), hx("a.pcap"))
			}
		}
	}
}

var pathAtoms = []string{"a", "b", "..", ".", "", "", "/", "//", "...", "..a", "a..", ".a", "x.pcap", " ", "\\", "\x00", "é", "ab/cd", "../..", "./.", "a/./b", "a/../b", "/..", "../"}

func genPath(r *lib.RNG) string {
	k := r.Intn(7)
	s := ""
	if r.Chance(1, 3) {
		s = "/"
	}
	for i := 0; i < k; i++ {
		s += lib.Pick(r, pathAtoms)
		if r.Chance(3, 4) {
			s += "/"
		}
	}
	return s
}

func genPathOp(r *lib.RNG, w *bufio.Writer) {
	switch r.Intn(3) {
	case 0:
		fmt.Fprintf(w, "base %s\n", hx(genPath(r)))
	case 1:
		fmt.Fprintf(w, "clean %s\n", hx(genPath(r)))
	default:
		k := r.Range(0, 4)
		parts := make([]string, k)
		for i := range parts {
			if r.Chance(1, 4) {
				parts[i] = "-"
			} else {
				parts[i] = hx(genPath(r))
			}
		}
		fmt.Fprintf(w, "join %s\n", strings.Join(parts, " "))
	}
}
