package c19h

import (
	"bufio"
	"bytes"
	"context"
	"crypto/sha256"
	"errors"
	"fmt"
	"io"
	"net"
	"net/http"
	"net/http/httptest"
	"net/url"
	"os"
	"path/filepath"
	"sort"
	"strconv"
	"strings"
	"sync"

	"github.com/go-chi/chi/v5"
	"github.com/spq/pkappa2/internal/index/manager"
)

// ---------------------------------------------------------------------------------------------
// scratch tree
//
//	ROOT/outside.pcap  ROOT/outside/deep.pcap                      sentinels
//	ROOT/base/secret.pcap  ROOT/base/pcaps.pcap  ROOT/base/index/idx.pcap  ROOT/base/cwd/cwd.pcap
//	ROOT/base/pcaps/                                               the capture directory
//
// The process works in ROOT/base/cwd, so a relative escape also lands inside the sentinel tree.
// ---------------------------------------------------------------------------------------------

var sentinelFiles = []string{"outside.pcap", "outside/deep.pcap", "base/secret.pcap", "base/pcaps.pcap", "base/index/idx.pcap", "base/cwd/cwd.pcap"}

func sentinelMarker(i int) string { return fmt.Sprintf("SENTINEL-%d-4e3f9a1c77", i) }

func bodyOf(id int) []byte {
	s := fmt.Sprintf("BODY-%d-", id)
	for len(s) < 48+id%9 {
		s += fmt.Sprintf("%d.", id)
	}
	return []byte(s)
}

type world struct {
	h        *Hooks
	scratch  string
	root     string
	capDir   string
	router   http.Handler
	mgr      *manager.Manager
	bodies   map[int]bool
	oracle   *bufio.Writer
	line     int
	queueLen int
}

func (w *world) complain(format string, a ...any) {
	if w.oracle != nil {
		fmt.Fprintf(w.oracle, "ORACLE line=%d %s\n", w.line, fmt.Sprintf(format, a...))
	}
}

// variants of the directory flags; all denote ROOT/base/pcaps
func variantDirs(v int, root string) (string, string) {
	switch v {
	case 1:
		return root + "/base/", "pcaps/"
	case 2:
		return root + "/base", "./sub/../pcaps"
	case 3:
		return root + "/base/pcaps", ""
	case 4:
		return "", root + "/base/pcaps"
	case 5:
		return "..", "pcaps"
	}
	return root + "/base", "pcaps"
}

func (w *world) reset(v int) error {
	if w.root != "" {
		_ = os.Chdir("/")
		_ = os.RemoveAll(w.root)
	}
	root, err := os.MkdirTemp(w.scratch, "c19root")
	if err != nil {
		return err
	}
	w.root = root
	for _, d := range []string{"outside", "base/index", "base/cwd", "base/pcaps"} {
		if err := os.MkdirAll(filepath.Join(root, d), 0o777); err != nil {
			return err
		}
	}
	for i, f := range sentinelFiles {
		if err := os.WriteFile(filepath.Join(root, f), []byte(sentinelMarker(i)), 0o666); err != nil {
			return err
		}
	}
	w.capDir = filepath.Join(root, "base", "pcaps")
	if err := os.Chdir(filepath.Join(root, "base", "cwd")); err != nil {
		return err
	}
	w.bodies = map[int]bool{}
	w.queueLen = 0
	if w.h != nil {
		b, p := variantDirs(v, root)
		w.h.SetDirs(b, p)
		w.mgr = manager.VerifUploadStub()
		w.router = w.h.NewRouter(w.mgr)
	}
	return nil
}

// --- snapshots -------------------------------------------------------------------------------

type entry struct {
	dir     bool
	content string
}

// capture directory: relative path -> entry (recursive; nested entries have a '/' in the key)
func (w *world) snapCap() map[string]entry {
	res := map[string]entry{}
	_ = filepath.Walk(w.capDir, func(p string, fi os.FileInfo, err error) error {
		if err != nil || p == w.capDir {
			return nil
		}
		rel := p[len(w.capDir)+1:]
		if fi.IsDir() {
			res[rel] = entry{dir: true}
		} else {
			b, _ := os.ReadFile(p)
			res[rel] = entry{content: string(b)}
		}
		return nil
	})
	return res
}

// everything under ROOT except the contents of the capture directory, as one hash + a listing
func (w *world) snapOutside() (string, map[string]string) {
	h := sha256.New()
	files := map[string]string{}
	_ = filepath.Walk(w.root, func(p string, fi os.FileInfo, err error) error {
		if err != nil {
			return nil
		}
		if strings.HasPrefix(p, w.capDir+"/") {
			return nil
		}
		rel := p[len(w.root):]
		desc := fmt.Sprintf("%s|%v|", rel, fi.Mode())
		if p == w.capDir {
			desc += "capdir"
		} else if fi.Mode().IsRegular() {
			b, _ := os.ReadFile(p)
			desc += fmt.Sprintf("%d|%x|%d", fi.Size(), sha256.Sum256(b), fi.ModTime().UnixNano())
		}
		files[rel] = desc
		fmt.Fprintln(h, desc)
		return nil
	})
	return fmt.Sprintf("%x", h.Sum(nil)), files
}

func diffOutside(a, b map[string]string) string {
	var out []string
	for k, v := range b {
		if av, ok := a[k]; !ok {
			out = append(out, "created "+strconv.Quote(k))
		} else if av != v {
			out = append(out, "modified "+strconv.Quote(k))
		}
	}
	for k := range a {
		if _, ok := b[k]; !ok {
			out = append(out, "removed "+strconv.Quote(k))
		}
	}
	sort.Strings(out)
	return strings.Join(out, ", ")
}

// descriptor of a file content: "B" complete body B, "B:K" first K bytes of body B
func (w *world) describe(content string, prefer int) string {
	ids := make([]int, 0, len(w.bodies))
	for id := range w.bodies {
		ids = append(ids, id)
	}
	sort.Ints(ids)
	if prefer > 0 {
		ids = append([]int{prefer}, ids...)
	}
	for _, id := range ids {
		if string(bodyOf(id)) == content {
			return strconv.Itoa(id)
		}
	}
	for _, id := range ids {
		if strings.HasPrefix(string(bodyOf(id)), content) {
			return fmt.Sprintf("%d:%d", id, len(content))
		}
	}
	return "?"
}

// --- requests --------------------------------------------------------------------------------

type failingReader struct {
	data []byte
	pos  int
	max  int // fail once this many bytes have been delivered
}

func (f *failingReader) Read(p []byte) (int, error) {
	lim := f.max
	if lim > len(f.data) {
		lim = len(f.data)
	}
	if f.pos >= lim {
		return 0, errors.New("verif: injected body read failure")
	}
	n := copy(p, f.data[f.pos:lim])
	f.pos += n
	return n, nil
}

type result struct {
	pattern string
	param   string
	code    int
	body    []byte
}

func (w *world) serve(method, p, raw string, body io.Reader) (res result) {
	rctx := chi.NewRouteContext()
	req := &http.Request{
		Method: method, URL: &url.URL{Path: p, RawPath: raw},
		Proto: "HTTP/1.1", ProtoMajor: 1, ProtoMinor: 1,
		Header: http.Header{}, Host: "verif", RemoteAddr: "127.0.0.1:4242",
		Body: io.NopCloser(body),
	}
	req = req.WithContext(context.WithValue(context.Background(), chi.RouteCtxKey, rctx))
	rec := httptest.NewRecorder()
	func() {
		defer func() {
			if e := recover(); e != nil {
				res.code = -1
				res.body = []byte(fmt.Sprint("panic: ", e))
			}
		}()
		w.router.ServeHTTP(rec, req)
		res.code = rec.Code
		res.body = rec.Body.Bytes()
	}()
	res.pattern = rctx.RoutePattern()
	if strings.HasPrefix(res.pattern, "/upload/") {
		res.param = rctx.URLParam("filename")
	} else if strings.HasPrefix(res.pattern, "/api/download/pcap/") {
		res.param = rctx.URLParam("file")
	}
	return res
}

// serveWire sends the request as bytes over TCP through a real net/http server in front of the
// router; it reports what the handler chain saw as r.URL.Path / r.URL.RawPath.
func (w *world) serveWire(method, target string, body []byte) (res result, sawPath, sawRaw string, reached bool) {
	var mu sync.Mutex
	rctx := chi.NewRouteContext()
	srv := httptest.NewServer(http.HandlerFunc(func(rw http.ResponseWriter, r *http.Request) {
		mu.Lock()
		sawPath, sawRaw, reached = r.URL.Path, r.URL.RawPath, true
		mu.Unlock()
		w.router.ServeHTTP(rw, r.WithContext(context.WithValue(r.Context(), chi.RouteCtxKey, rctx)))
	}))
	defer srv.Close()
	conn, err := net.Dial("tcp", srv.Listener.Addr().String())
	if err != nil {
		res.code = -2
		return
	}
	defer conn.Close()
	fmt.Fprintf(conn, "%s %s HTTP/1.1\r\nHost: verif\r\nContent-Length: %d\r\nConnection: close\r\n\r\n", method, target, len(body))
	_, _ = conn.Write(body)
	resp, err := http.ReadResponse(bufio.NewReader(conn), &http.Request{Method: method})
	if err != nil {
		res.code = -3
		return
	}
	res.code = resp.StatusCode
	res.body, _ = io.ReadAll(resp.Body)
	resp.Body.Close()
	srv.Close() // waits for the handler goroutine
	mu.Lock()
	defer mu.Unlock()
	res.pattern = rctx.RoutePattern()
	if strings.HasPrefix(res.pattern, "/upload/") {
		res.param = rctx.URLParam("filename")
	} else if strings.HasPrefix(res.pattern, "/api/download/pcap/") {
		res.param = rctx.URLParam("file")
	}
	return
}

func routeKind(pattern string) string {
	switch {
	case strings.HasPrefix(pattern, "/upload/"):
		return "up"
	case strings.HasPrefix(pattern, "/api/download/pcap/"):
		return "down"
	}
	return "other"
}

// relName mirrors the model's naming of created files: hex name for a direct child of the capture
// directory, ESC:<hex path relative to ROOT> otherwise.
func relCap(rel string) string {
	if strings.Contains(rel, "/") {
		return "ESC:" + hx("pcaps/"+rel)
	}
	return hx(rel)
}

// property oracle, written from the statement of C19 (not from the Lean model):
//
//	O1 nothing outside the capture directory is created, modified or removed
//	O2 no response carries bytes of a file outside the capture directory
//	O3 no stored entry of the capture directory is modified or removed by a request
//	O4 an upload answered 2xx stored exactly one new capture whose bytes are the request body
//	O5 the import queue grows by exactly the name of that capture, once; by nothing otherwise
func (w *world) checkResponseLeak(what string, body []byte) {
	for i := range sentinelFiles {
		if bytes.Contains(body, []byte(sentinelMarker(i))) {
			w.complain("O2 %s: response contains the bytes of %s, a file outside the capture directory", what, sentinelFiles[i])
		}
	}
}

type obs struct {
	newFiles []string // relative names of entries that appeared
	queued   []string
}

func (w *world) observe(what string, before map[string]entry, outHash string, outFiles map[string]string) obs {
	var o obs
	after := w.snapCap()
	h2, f2 := w.snapOutside()
	if h2 != outHash {
		w.complain("O1 %s: file system outside the capture directory changed: %s", what, diffOutside(outFiles, f2))
	}
	for k, b := range before {
		a, ok := after[k]
		if !ok {
			w.complain("O3 %s: stored entry %q was removed", what, k)
		} else if a != b {
			w.complain("O3 %s: stored entry %q was modified", what, k)
		}
	}
	for k := range after {
		if _, ok := before[k]; !ok {
			o.newFiles = append(o.newFiles, k)
		}
	}
	sort.Strings(o.newFiles)
	q := w.mgr.VerifDrainImportQueue()
	if len(q) < w.queueLen {
		w.complain("O5 %s: import queue shrank", what)
	} else {
		o.queued = q[w.queueLen:]
	}
	w.queueLen = len(q)
	return o
}

func (w *world) opReq(f []string) string {
	if w.router == nil {
		return "no-router"
	}
	wire := f[0] == "wire"
	target := ""
	if wire {
		// wire M T P R B  ==  req M P R B -  sent as bytes over TCP through net/http's server
		t, err := unhx(f[2])
		if err != nil {
			return "bad-op"
		}
		target = t
		f = []string{"req", f[1], f[3], f[4], f[5], "-"}
	}
	method := f[1]
	p, e1 := unhx(f[2])
	raw, e2 := unhx(f[3])
	bid, e3 := strconv.Atoi(f[4])
	if e1 != nil || e2 != nil || e3 != nil {
		return "bad-op"
	}
	body := bodyOf(bid)
	var rd io.Reader = bytes.NewReader(body)
	if f[5] != "-" {
		k, err := strconv.Atoi(f[5])
		if err != nil {
			return "bad-op"
		}
		rd = &failingReader{data: body, max: k}
	}
	if method != "POST" && method != "PUT" {
		rd = bytes.NewReader(nil)
		body = nil
	} else {
		w.bodies[bid] = true
	}
	before := w.snapCap()
	oh, of := w.snapOutside()
	var res result
	if wire {
		var sawP, sawR string
		var reached bool
		res, sawP, sawR, reached = w.serveWire(method, target, body)
		if !reached {
			w.observe(fmt.Sprintf("wire %s %q (rejected by the HTTP server)", method, target), before, oh, of)
			return fmt.Sprintf("wire-rejected code=%d", res.code)
		}
		if sawP != p || sawR != raw {
			w.observe(fmt.Sprintf("wire %s %q", method, target), before, oh, of)
			return fmt.Sprintf("wire-mismatch path=%s raw=%s", hx(sawP), hx(sawR))
		}
	} else {
		res = w.serve(method, p, raw, rd)
	}
	what := fmt.Sprintf("%s %q raw=%q -> %d", method, p, raw, res.code)
	o := w.observe(what, before, oh, of)
	w.checkResponseLeak(what, res.body)
	if res.code == -1 {
		w.complain("%s: handler panicked: %s", what, res.body)
	}
	kind := routeKind(res.pattern)
	ok2xx := res.code >= 200 && res.code < 300
	// O4 / O5
	if kind == "up" && ok2xx {
		if len(o.newFiles) != 1 {
			w.complain("O4 %s: upload answered %d but %d new captures were stored (%q)", what, res.code, len(o.newFiles), o.newFiles)
		} else {
			full := filepath.Join(w.capDir, o.newFiles[0])
			if b, err := os.ReadFile(full); err != nil || !bytes.Equal(b, body) {
				w.complain("O4 %s: stored capture %q does not hold the request body", what, o.newFiles[0])
			}
			if strings.Contains(o.newFiles[0], "/") {
				w.complain("O4 %s: stored capture %q is not a direct child of the capture directory", what, o.newFiles[0])
			}
			if len(o.queued) != 1 || o.queued[0] != o.newFiles[0] {
				w.complain("O5 %s: stored capture %q, but queued for import: %q", what, o.newFiles[0], o.queued)
			}
		}
		if len(o.newFiles) != 1 && len(o.queued) != 1 {
			w.complain("O5 %s: successful upload queued %q", what, o.queued)
		}
	} else if len(o.queued) != 0 {
		w.complain("O5 %s: request that is not a successful upload queued %q for import", what, o.queued)
	}
	switch kind {
	case "up":
		nw := "-"
		if len(o.newFiles) > 0 {
			parts := make([]string, len(o.newFiles))
			for i, n := range o.newFiles {
				parts[i] = relCap(n)
			}
			nw = strings.Join(parts, "+")
		}
		q := "-"
		if len(o.queued) > 0 {
			parts := make([]string, len(o.queued))
			for i, n := range o.queued {
				parts[i] = hx(n)
			}
			q = strings.Join(parts, ",")
		}
		return fmt.Sprintf("up param=%s code=%d new=%s q=%s", hx(res.param), res.code, nw, q)
	case "down":
		b := "-"
		if res.code == 200 {
			b = w.describe(string(res.body), 0)
		}
		return fmt.Sprintf("down param=%s code=%d body=%s", hx(res.param), res.code, b)
	}
	return "other"
}

// gate: closed when a racing request has reached its body (file created) or has finished
type gate struct {
	ch   chan struct{}
	once sync.Once
}

func newGate() *gate    { return &gate{ch: make(chan struct{})} }
func (g *gate) signal() { g.once.Do(func() { close(g.ch) }) }
func (g *gate) wait()   { <-g.ch }

type gatedBody struct {
	rd          *bytes.Reader
	mine, other *gate
}

func (b *gatedBody) Read(p []byte) (int, error) {
	b.mine.signal()
	b.other.wait()
	return b.rd.Read(p)
}

func (w *world) opRace(f []string) string {
	if w.router == nil {
		return "no-router"
	}
	p, e1 := unhx(f[1])
	raw, e2 := unhx(f[2])
	b1, e3 := strconv.Atoi(f[3])
	b2, e4 := strconv.Atoi(f[4])
	if e1 != nil || e2 != nil || e3 != nil || e4 != nil {
		return "bad-op"
	}
	w.bodies[b1], w.bodies[b2] = true, true
	before := w.snapCap()
	oh, of := w.snapOutside()
	g := [2]*gate{newGate(), newGate()}
	ids := [2]int{b1, b2}
	var res [2]result
	start := make(chan struct{})
	var wg sync.WaitGroup
	for i := 0; i < 2; i++ {
		wg.Add(1)
		go func(i int) {
			defer wg.Done()
			<-start
			res[i] = w.serve("POST", p, raw, &gatedBody{rd: bytes.NewReader(bodyOf(ids[i])), mine: g[i], other: g[1-i]})
			g[i].signal()
		}(i)
	}
	close(start)
	wg.Wait()
	what := fmt.Sprintf("race POST %q raw=%q -> %d,%d", p, raw, res[0].code, res[1].code)
	o := w.observe(what, before, oh, of)
	kind := routeKind(res[0].pattern)
	if kind != "up" || routeKind(res[1].pattern) != "up" {
		return "other"
	}
	var winners []int
	for i := 0; i < 2; i++ {
		w.checkResponseLeak(what, res[i].body)
		if res[i].code >= 200 && res[i].code < 300 {
			winners = append(winners, i)
		}
	}
	// oracle: as many stored captures and queue entries as successful answers, at most one per name
	if len(winners) != len(o.newFiles) {
		w.complain("O4 %s: %d successful answers but %d new captures %q", what, len(winners), len(o.newFiles), o.newFiles)
	}
	if len(winners) > 1 {
		w.complain("O4 %s: two uploads of one name both succeeded", what)
	}
	if len(o.queued) != len(winners) {
		w.complain("O5 %s: %d successful uploads, queued for import: %q", what, len(winners), o.queued)
	}
	stored := "none"
	name := res[0].param
	if e, ok := before[name]; ok {
		_ = e
		stored = "same" // O3 has complained already if it is not
	}
	if len(o.newFiles) == 1 {
		stored = "x"
		full := filepath.Join(w.capDir, o.newFiles[0])
		b, err := os.ReadFile(full)
		for _, i := range winners {
			if err == nil && bytes.Equal(b, bodyOf(ids[i])) {
				stored = "w"
			}
		}
		if stored != "w" {
			w.complain("O4 %s: stored capture %q does not hold the body of the successful upload", what, o.newFiles[0])
		}
		for _, q := range o.queued {
			if q != o.newFiles[0] {
				w.complain("O5 %s: queued %q, stored %q", what, q, o.newFiles[0])
			}
		}
	} else if len(o.newFiles) > 1 {
		stored = "x"
	}
	codes := []int{res[0].code, res[1].code}
	sort.Ints(codes)
	out := fmt.Sprintf("race param=%s outcomes=%d,%d:%s:%d", hx(name), codes[0], codes[1], stored, len(o.queued))
	// restore the state before the experiment (the model does not know which request won)
	for _, n := range o.newFiles {
		_ = os.RemoveAll(filepath.Join(w.capDir, n))
	}
	w.queueLen -= len(o.queued)
	w.mgr.VerifTruncateImportQueue(w.queueLen)
	return out
}

func (w *world) opLs() string {
	if w.router == nil {
		return "no-router"
	}
	snap := w.snapCap()
	var ents []string
	for k, e := range snap {
		if e.dir {
			ents = append(ents, relCap(k)+"=dir")
		} else {
			ents = append(ents, relCap(k)+"="+w.describe(e.content, 0))
		}
	}
	sort.Strings(ents)
	s := "-"
	if len(ents) > 0 {
		s = strings.Join(ents, ",")
	}
	return fmt.Sprintf("%s q=%d", s, len(w.mgr.VerifDrainImportQueue()))
}

func (w *world) exec(line string) string {
	f := strings.Fields(line)
	if len(f) == 0 {
		return "bad-op"
	}
	switch {
	case f[0] == "facts":
		return "ok"
	case f[0] == "reset" && len(f) == 2:
		v, err := strconv.Atoi(f[1])
		if err != nil {
			return "bad-op"
		}
		if err := w.reset(v); err != nil {
			return "error " + err.Error()
		}
		return "ok"
	case f[0] == "base" && len(f) == 2:
		s, err := unhx(f[1])
		if err != nil {
			return "bad-op"
		}
		return hx(filepath.Base(s))
	case f[0] == "clean" && len(f) == 2:
		s, err := unhx(f[1])
		if err != nil {
			return "bad-op"
		}
		return hx(filepath.Clean(s))
	case f[0] == "join":
		parts := make([]string, 0, len(f)-1)
		for _, h := range f[1:] {
			s, err := unhx(h)
			if err != nil {
				return "bad-op"
			}
			parts = append(parts, s)
		}
		return hx(filepath.Join(parts...))
	case f[0] == "seed" && len(f) == 3:
		n, e1 := unhx(f[1])
		b, e2 := strconv.Atoi(f[2])
		if e1 != nil || e2 != nil || strings.Contains(n, "/") || n == "" {
			return "bad-op"
		}
		w.bodies[b] = true
		_ = os.RemoveAll(filepath.Join(w.capDir, n))
		if err := os.WriteFile(filepath.Join(w.capDir, n), bodyOf(b), 0o666); err != nil {
			return "error " + err.Error()
		}
		return "ok"
	case f[0] == "mkdir" && len(f) == 2:
		n, e1 := unhx(f[1])
		if e1 != nil || strings.Contains(n, "/") || n == "" {
			return "bad-op"
		}
		_ = os.RemoveAll(filepath.Join(w.capDir, n))
		if err := os.Mkdir(filepath.Join(w.capDir, n), 0o777); err != nil {
			return "error " + err.Error()
		}
		return "ok"
	case f[0] == "req" && len(f) == 6:
		return w.opReq(f)
	case f[0] == "wire" && len(f) == 6:
		return w.opReq(f)
	case f[0] == "race" && len(f) == 5:
		return w.opRace(f)
	case f[0] == "ls" && len(f) == 1:
		return w.opLs()
	}
	return "bad-op"
}

// Run executes ops from stdin, one output line per op.
func Run(h *Hooks, oraclePath, scratch string) int {
	w := &world{h: h, scratch: scratch}
	if scratch == "" {
		w.scratch = os.Getenv("VERIF_SCRATCH")
	}
	if w.scratch == "" {
		w.scratch = "/var/tmp"
	}
	if abs, err := filepath.Abs(w.scratch); err == nil {
		w.scratch = abs // the process changes its working directory
	}
	if oraclePath != "" {
		fh, err := os.Create(oraclePath)
		if err != nil {
			fmt.Fprintln(os.Stderr, err)
			return 2
		}
		defer fh.Close()
		w.oracle = bufio.NewWriter(fh)
		defer w.oracle.Flush()
	}
	if err := w.reset(0); err != nil {
		fmt.Fprintln(os.Stderr, err)
		return 2
	}
	defer func() {
		_ = os.Chdir("/")
		_ = os.RemoveAll(w.root)
	}()
	in := bufio.NewScanner(os.Stdin)
	in.Buffer(make([]byte, 1<<20), 1<<26)
	out := bufio.NewWriter(os.Stdout)
	defer out.Flush()
	for in.Scan() {
		w.line++
		fmt.Fprintln(out, w.exec(in.Text()))
	}
	return 0
}
