// Package lib holds helpers shared by the correspondence harnesses.
// The files under /verif/harness are compiled into /repo's module through
// `go build -overlay` (virtual path /repo/internal/verifh/...).
package lib

// RNG is splitmix64: every random choice of a harness derives from one state, so that a
// (seed, case) pair replays exactly.
type RNG struct{ s uint64 }

func NewRNG(seed uint64) *RNG {
	// scramble the seed so that consecutive seeds give unrelated streams (with a plain
	// seed*golden start, seed+1 is the same stream one draw further)
	r := &RNG{s: seed ^ 0x5DEECE66D}
	r.s = r.U64() ^ (seed * 0xD1342543DE82EF95)
	return r
}

func (r *RNG) U64() uint64 {
	r.s += 0x9E3779B97F4A7C15
	z := r.s
	z = (z ^ (z >> 30)) * 0xBF58476D1CE4E5B9
	z = (z ^ (z >> 27)) * 0x94D049BB133111EB
	return z ^ (z >> 31)
}

// Intn returns a value in [0,n).
func (r *RNG) Intn(n int) int {
	if n <= 0 {
		return 0
	}
	return int(r.U64() % uint64(n))
}

// Range returns a value in [lo,hi].
func (r *RNG) Range(lo, hi int) int { return lo + r.Intn(hi-lo+1) }

func (r *RNG) Bool() bool { return r.U64()&1 == 1 }

// Chance is true with probability num/den.
func (r *RNG) Chance(num, den int) bool { return r.Intn(den) < num }

// Fork derives an independent generator (for per-case streams).
func (r *RNG) Fork() *RNG { return NewRNG(r.U64()) }

func Pick[T any](r *RNG, xs []T) T { return xs[r.Intn(len(xs))] }
