// c02: search harness (property C02).
//
//	c02 gen -seed S -n N [-wide]     write N generated cases (one JSON object per line) to stdout
//	c02 run [-oracle FILE]           for every case on stdin: build the REAL index files with the real
//	                                 writer, parse the rendered query with the real parser, call the real
//	                                 index.SearchStreams; print one JSON line (input of `pkmodel c02`:
//	                                 match set with sort keys from the plain-semantics oracle, scan order
//	                                 of every file, real result, real more flag); the Go property oracle
//	                                 writes `ORACLE line=<n> <msg>` complaints to FILE.
package main

import (
	"bufio"
	"bytes"
	"context"
	"encoding/json"
	"flag"
	"fmt"
	"os"
	"sort"
	"strings"
	"time"

	"github.com/spq/pkappa2/internal/index"
	"github.com/spq/pkappa2/internal/query"
	"github.com/spq/pkappa2/internal/tools/bitmask"
	"github.com/spq/pkappa2/internal/verifh/lib"
	slib "github.com/spq/pkappa2/internal/verifh/lib/search"
)

type Case struct {
	Versions  []*slib.StreamV `json:"versions"`
	Files     [][]int         `json:"files"` // oldest first; indexes into Versions in AddStream order
	Tags      []*slib.Tag     `json:"tags,omitempty"`
	ConvNames []string        `json:"convs,omitempty"`
	Query     *slib.Node      `json:"query"`
	Sort      []slib.SortKey  `json:"sort,omitempty"`
	Limit     uint            `json:"limit"`
	Page      uint            `json:"page"`
	IDs       []uint64        `json:"ids,omitempty"`
	HasIDs    bool            `json:"hasids,omitempty"`
}

// ---------------------------------------------------------------------------------------
// generator
// ---------------------------------------------------------------------------------------

var (
	v4hosts   = []string{"10.0.0.1", "10.0.0.2", "10.0.1.1", "192.168.0.1"}
	v6hosts   = []string{"fd00::1", "fd00::2"}
	ports     = []uint16{1000, 1001, 1002, 80}
	payloads  = []string{"a", "ab", "abc", "b", "bc", "cd", "d", "abcd", "ba"}
	sortKeys  = []string{"id", "ftime", "ltime", "cbytes", "sbytes", "chost", "shost", "cport", "sport"}
	tagNames  = []string{"a", "b", "c", "d", "e"}
	dataRegex = []string{"a", "ab", "b", "bc", "cd", "d", "a.", "[ab]c", "x"}
)

type gen struct {
	r    *lib.RNG
	wide bool
	c    *Case
	ids  []uint64
}

func (g *gen) version(id uint64) *slib.StreamV {
	r := g.r
	v := &slib.StreamV{ID: id}
	if r.Chance(1, 5) {
		v.CHost, v.SHost = lib.Pick(r, v6hosts), lib.Pick(r, v6hosts)
	} else {
		v.CHost, v.SHost = lib.Pick(r, v4hosts), lib.Pick(r, v4hosts)
	}
	v.CPort, v.SPort = lib.Pick(r, ports), lib.Pick(r, ports)
	v.FTms = int64(r.Intn(5)) * 1000
	if r.Chance(1, 6) {
		v.FTms += 500
	}
	v.LTms = v.FTms + int64(lib.Pick(r, []int{0, 0, 1000, 2000, 5000, 250}))
	v.UDP = r.Chance(1, 4)
	n := r.Intn(4)
	dir := r.Intn(2)
	for i := 0; i < n; i++ {
		v.Chunks = append(v.Chunks, slib.Chunk{Dir: dir, Data: lib.Pick(r, payloads)})
		if !r.Chance(1, 5) {
			dir ^= 1
		}
	}
	return v
}

func (g *gen) numRange(dom []int64) slib.Range {
	r := g.r
	a, b := lib.Pick(r, dom), lib.Pick(r, dom)
	switch r.Intn(6) {
	case 0, 1:
		return slib.Range{Lo: slib.I64(a), Hi: slib.I64(a)}
	case 2:
		if a > b && !r.Chance(1, 8) {
			a, b = b, a
		}
		return slib.Range{Lo: slib.I64(a), Hi: slib.I64(b)}
	case 3:
		return slib.Range{Lo: slib.I64(a)}
	case 4:
		return slib.Range{Hi: slib.I64(a)}
	default:
		// the fully open range "key::" is never generated: its negation is normalised to "true"
		// (DESIGN F4, owned by the C03 check)
		return slib.Range{Lo: slib.I64(a), Hi: slib.I64(a + 1)}
	}
}

// ranges: 1-3 ranges over dom; vars (attributes of the same stream other than the filtered one) may
// replace a constant bound, offs are the constants added to them.
func (g *gen) ranges(dom []int64, vars []string, offs []int64) []slib.Range {
	n := 1
	if g.r.Chance(1, 3) {
		n = 2 + g.r.Intn(2)
	}
	rs := []slib.Range{}
	for i := 0; i < n; i++ {
		r := g.numRange(dom)
		if len(vars) != 0 && g.r.Chance(1, 6) {
			v := lib.Pick(g.r, vars)
			switch g.r.Intn(3) {
			case 0:
				r = slib.Range{Lo: slib.I64(lib.Pick(g.r, offs)), LoVar: v}
			case 1:
				r = slib.Range{Hi: slib.I64(lib.Pick(g.r, offs)), HiVar: v}
			default:
				o := lib.Pick(g.r, offs)
				r = slib.Range{Lo: slib.I64(o), LoVar: v, Hi: slib.I64(o + int64(g.r.Intn(2))), HiVar: v}
			}
		}
		rs = append(rs, r)
	}
	return rs
}

var numVars = []string{"id", "cport", "sport", "cbytes", "sbytes"}

func (g *gen) term(allowTags []string, data bool) *slib.Node {
	r := g.r
	for {
		switch r.Intn(12) {
		case 0, 1:
			dom := []int64{}
			for _, id := range g.ids {
				dom = append(dom, int64(id))
			}
			dom = append(dom, 0, 99)
			return &slib.Node{Op: "term", Key: "id", Nums: g.ranges(dom, []string{"cbytes", "sbytes"}, []int64{0, 1, 2, -1})}
		case 2, 3:
			dom := []int64{1000, 1001, 1002, 80, 81, 0, 65535}
			key := lib.Pick(r, []string{"cport", "sport", "port"})
			vs := map[string][]string{"cport": {"sport"}, "sport": {"cport"}, "port": nil}[key]
			return &slib.Node{Op: "term", Key: key, Nums: g.ranges(dom, vs, []int64{0, 1, -1, 920, -920})}
		case 4:
			dom := []int64{0, 1, 2, 3, 4, 5, 7}
			key := lib.Pick(r, []string{"cbytes", "sbytes", "bytes"})
			vs := map[string][]string{"cbytes": {"sbytes", "id"}, "sbytes": {"cbytes", "id"}, "bytes": nil}[key]
			return &slib.Node{Op: "term", Key: key, Nums: g.ranges(dom, vs, []int64{0, 1, -1, 2})}
		case 5, 6:
			n := 1 + r.Intn(2)
			hs := []slib.HostPat{}
			for i := 0; i < n; i++ {
				if r.Chance(1, 4) {
					h := slib.HostPat{IP: lib.Pick(r, append(v6hosts, "fd00::", "::1"))}
					if r.Chance(1, 2) {
						h.Masks = []int{lib.Pick(r, []int{64, 120, 127, 128, 16, -8, -1})}
					}
					hs = append(hs, h)
				} else {
					h := slib.HostPat{IP: lib.Pick(r, append(v4hosts, "10.0.0.0", "10.0.0.3", "0.0.0.1"))}
					if r.Chance(1, 2) {
						h.Masks = []int{lib.Pick(r, []int{8, 16, 24, 30, 31, 32, -8, -1})}
						if r.Chance(1, 4) {
							h.Masks = append(h.Masks, lib.Pick(r, []int{-8, -1, 8}))
						}
					}
					hs = append(hs, h)
				}
			}
			return &slib.Node{Op: "term", Key: lib.Pick(r, []string{"chost", "shost", "host"}), Hosts: hs}
		case 7:
			ps := [][]string{{"tcp"}, {"udp"}, {"tcp", "udp"}, {"sctp"}, {"udp", "other"}}
			return &slib.Node{Op: "term", Key: "protocol", Protos: lib.Pick(r, ps)}
		case 8, 9:
			dom := []int64{0, 1, 2, 3, 4, 5, 6, 9}
			key := lib.Pick(r, []string{"ftime", "ltime", "time"})
			vs := map[string][]string{"ftime": {"ltime"}, "ltime": {"ftime"}, "time": nil}[key]
			return &slib.Node{Op: "term", Key: key, Times: g.ranges(dom, vs, []int64{0, 1, 2, -1, -2, 5})}
		case 10:
			if len(allowTags) == 0 {
				continue
			}
			ts := []string{lib.Pick(r, allowTags)}
			if r.Chance(1, 4) {
				ts = append(ts, lib.Pick(r, allowTags))
			}
			return &slib.Node{Op: "term", Key: "tag", Tags: ts}
		case 11:
			if !data {
				continue
			}
			return &slib.Node{Op: "term", Key: lib.Pick(r, []string{"cdata", "sdata", "data"}), Regex: lib.Pick(r, dataRegex), Conv: "none"}
		}
	}
}

func (g *gen) expr(depth int, allowTags []string, data bool) *slib.Node {
	r := g.r
	if depth <= 0 || r.Chance(2, 5) {
		t := g.term(allowTags, data)
		if r.Chance(1, 5) {
			return &slib.Node{Op: "not", Kids: []*slib.Node{t}}
		}
		return t
	}
	switch r.Intn(7) {
	case 0, 1, 2:
		n := 2 + r.Intn(2)
		k := []*slib.Node{}
		for i := 0; i < n; i++ {
			k = append(k, g.expr(depth-1, allowTags, data))
		}
		return &slib.Node{Op: "and", Kids: k}
	case 3, 4, 5:
		n := 2 + r.Intn(2)
		k := []*slib.Node{}
		for i := 0; i < n; i++ {
			k = append(k, g.expr(depth-1, allowTags, data))
		}
		return &slib.Node{Op: "or", Kids: k}
	default:
		return &slib.Node{Op: "not", Kids: []*slib.Node{g.expr(depth-1, allowTags, data)}}
	}
}

// dnfSize estimates the shape of the normalised query: P conjuncts of at most C conditions. The
// normaliser negates a DNF by multiplying out (C^P products), so the generator keeps that small.
var tagSize = map[string]int{} // tag name -> conjuncts of its (inlined) definition, set by the generator

func dnfSize(n *slib.Node) (P, C int) {
	capm := func(v int) int {
		if v > 1<<20 {
			return 1 << 20
		}
		return v
	}
	switch n.Op {
	case "term":
		switch n.Key {
		case "id", "cport", "sport", "cbytes", "sbytes":
			return len(n.Nums), 2
		case "port", "bytes":
			return 2 * len(n.Nums), 2
		case "ftime", "ltime", "time":
			return len(n.Times), 2
		case "chost", "shost":
			return len(n.Hosts), 1
		case "host":
			return 2 * len(n.Hosts), 1
		case "protocol":
			return len(n.Protos), 3
		case "tag", "mark":
			// inlining an uncertain tag adds the conjuncts of its definition
			for _, t := range n.Tags {
				P += 1 + tagSize[t]
			}
			return P, 4
		case "data":
			return 2, 1
		}
		return 1, 1
	case "not":
		p, c := dnfSize(n.Kids[0])
		r := 1
		for i := 0; i < p; i++ {
			r = capm(r * c)
		}
		return r, capm(p * 2)
	case "and", "then":
		P, C = 1, 0
		for _, k := range n.Kids {
			p, c := dnfSize(k)
			P, C = capm(P*p), capm(C+c)
		}
		return
	case "or":
		for _, k := range n.Kids {
			p, c := dnfSize(k)
			P = capm(P + p)
			if c > C {
				C = c
			}
		}
		return
	}
	return 1, 1
}

func (g *gen) smallExpr(depth int, allowTags []string, data bool, bound int) *slib.Node {
	for {
		e := g.expr(depth, allowTags, data)
		ok := true
		e.Walk(func(n *slib.Node) {
			p, _ := dnfSize(n)
			if p > bound {
				ok = false
			}
		})
		if ok {
			return e
		}
	}
}

// subQuery builds a query of the restricted sub-query shapes the engine accepts: filters of ONE named
// sub-query (`@sub:key:value`, a conjunct of its own), main-query number / time / protocol / host terms
// that refer to the sub-query's stream through `@sub:attr@` (with offsets, ranges, masks), and an ordinary
// main expression. The relating term stands at the top-level AND, so every alternative of the normal form
// keeps the reference (a sub-query nobody refers to is not evaluated by the engine).
func (g *gen) subQuery(tags []string) *slib.Node {
	r := g.r
	const sq = "sub"
	kids := []*slib.Node{}
	// filters of the sub-query
	for i, n := 0, r.Intn(3); i < n; i++ {
		var t *slib.Node
		for {
			t = g.term(nil, false)
			if p, _ := dnfSize(t); p <= 2 && !hasVar(t) {
				break
			}
		}
		t.Sub = sq
		if r.Chance(1, 5) {
			t = &slib.Node{Op: "not", Kids: []*slib.Node{t}}
		}
		kids = append(kids, t)
	}
	// terms relating the main stream to the sub-query's stream
	offs := []int64{0, 0, 0, 1, -1, 2, -2, 7, -7, 3600, -3600}
	rel := func(mayMixConstants bool) *slib.Node {
		switch r.Intn(8) {
		case 0, 1, 2, 3: // times
			key := lib.Pick(r, []string{"ftime", "ltime", "time", "ftime", "ltime"})
			v := sq + ":" + lib.Pick(r, []string{"ftime", "ltime"})
			o := lib.Pick(r, offs)
			var rg slib.Range
			switch r.Intn(4) {
			case 0:
				rg = slib.Range{Lo: slib.I64(o), LoVar: v}
			case 1:
				rg = slib.Range{Hi: slib.I64(o), HiVar: v}
			case 2:
				rg = slib.Range{Lo: slib.I64(o), LoVar: v, Hi: slib.I64(o + int64(r.Intn(3))), HiVar: v}
			default:
				rg = slib.Range{Lo: slib.I64(o), LoVar: v, Hi: slib.I64(o), HiVar: v}
			}
			return &slib.Node{Op: "term", Key: key, Times: []slib.Range{rg}}
		case 4, 5: // numbers
			key := lib.Pick(r, []string{"cport", "sport", "id", "cbytes", "sbytes", "port"})
			v := sq + ":" + lib.Pick(r, map[string][]string{"cport": {"cport", "sport"}, "sport": {"sport", "cport"}, "port": {"sport"},
				"id": {"id"}, "cbytes": {"cbytes", "sbytes"}, "sbytes": {"sbytes", "cbytes"}}[key])
			o := lib.Pick(r, []int64{0, 0, 1, -1, 2, 920, -920})
			var rg slib.Range
			switch r.Intn(3) {
			case 0:
				rg = slib.Range{Lo: slib.I64(o), LoVar: v}
			case 1:
				rg = slib.Range{Hi: slib.I64(o), HiVar: v}
			default:
				rg = slib.Range{Lo: slib.I64(o), LoVar: v, Hi: slib.I64(o), HiVar: v}
			}
			return &slib.Node{Op: "term", Key: key, Nums: []slib.Range{rg}}
		case 6:
			ps := []string{"@" + sq + ":protocol@"}
			// a constant next to the variable makes an alternative of the normal form that does NOT refer to the
			// sub-query; the engine does not evaluate a sub-query nobody refers to, and what such a query should
			// mean is not defined: only the additional relating term may mix
			if mayMixConstants && r.Chance(1, 4) {
				ps = append(ps, "udp")
			}
			return &slib.Node{Op: "term", Key: "protocol", Protos: ps}
		default:
			h := slib.HostPat{Var: sq + ":" + lib.Pick(r, []string{"chost", "shost"})}
			if r.Chance(1, 2) {
				h.Masks = []int{lib.Pick(r, []int{8, 16, 24, 31, 32, -8, 64, 128})}
			}
			return &slib.Node{Op: "term", Key: lib.Pick(r, []string{"chost", "shost", "host"}), Hosts: []slib.HostPat{h}}
		}
	}
	top := rel(false)
	if r.Chance(1, 6) {
		top = &slib.Node{Op: "not", Kids: []*slib.Node{top}}
	}
	kids = append(kids, top)
	if r.Chance(1, 3) {
		x := rel(true)
		if r.Chance(1, 3) {
			x = &slib.Node{Op: "or", Kids: []*slib.Node{x, g.term(nil, false)}}
		}
		kids = append(kids, x)
	}
	if r.Chance(2, 3) {
		kids = append(kids, g.smallExpr(1, tags, true, 6))
	}
	// AND order is free
	for i := len(kids) - 1; i > 0; i-- {
		j := r.Intn(i + 1)
		kids[i], kids[j] = kids[j], kids[i]
	}
	if len(kids) == 1 {
		return kids[0]
	}
	return &slib.Node{Op: "and", Kids: kids}
}

func hasVar(n *slib.Node) bool {
	for _, rg := range append(append([]slib.Range(nil), n.Nums...), n.Times...) {
		if rg.LoVar != "" || rg.HiVar != "" {
			return true
		}
	}
	return false
}

func genCase(r *lib.RNG, wide bool) *Case {
	g := &gen{r: r, wide: wide, c: &Case{}}
	tagSize = map[string]int{}
	c := g.c
	nids := 1 + r.Intn(7)
	if wide {
		nids = 1 + r.Intn(14)
	}
	pool := r.Intn(3) // id offset
	seen := map[uint64]bool{}
	for len(g.ids) < nids {
		id := uint64(pool + r.Intn(nids+3))
		if !seen[id] {
			seen[id] = true
			g.ids = append(g.ids, id)
		}
	}
	nfiles := 1 + r.Intn(4)
	c.Files = make([][]int, nfiles)
	for _, id := range g.ids {
		in := []int{r.Intn(nfiles)}
		for f := 0; f < nfiles; f++ {
			if f != in[0] && r.Chance(1, 4) {
				in = append(in, f)
			}
		}
		base := g.version(id)
		for j, f := range in {
			v := base
			if j > 0 {
				if r.Chance(1, 2) {
					v = g.version(id)
				} else { // a grown copy
					cp := *base
					cp.LTms += 1000
					cp.Chunks = append(append([]slib.Chunk(nil), base.Chunks...), slib.Chunk{Dir: r.Intn(2), Data: lib.Pick(r, payloads)})
					v = &cp
				}
			}
			c.Versions = append(c.Versions, v)
			c.Files[f] = append(c.Files[f], len(c.Versions)-1)
		}
	}
	// a file must hold at least one stream (Finalize of an empty writer cannot be reopened)
	files := [][]int{}
	for _, f := range c.Files {
		if len(f) != 0 {
			// AddStream order: random permutation (decides file order and the tie order inside lookups)
			for i := len(f) - 1; i > 0; i-- {
				j := r.Intn(i + 1)
				f[i], f[j] = f[j], f[i]
			}
			files = append(files, f)
		}
	}
	c.Files = files
	// index files far apart in time get different reference times (a file's reference time is the second
	// of its earliest first packet): shift all streams of a file by 0 s, 7 s or an hour
	if len(c.Files) > 1 && r.Chance(1, 3) {
		for _, f := range c.Files {
			sh := int64(lib.Pick(r, []int{0, 0, 7, 3600})) * 1000
			for _, vi := range f {
				c.Versions[vi].FTms += sh
				c.Versions[vi].LTms += sh
			}
		}
	}

	// tags: tag i may only refer to tags < i
	ntags := r.Intn(4)
	if r.Chance(1, 8) {
		ntags = 4 + r.Intn(2)
	}
	names := []string{}
	for i := 0; i < ntags; i++ {
		t := &slib.Tag{Name: "tag/" + tagNames[i]}
		bound := 6
		if ntags >= 4 {
			bound = 2
		}
		t.Def = g.smallExpr(1, names, true, bound)
		tagSize[tagNames[i]], _ = dnfSize(t.Def)
		for _, id := range g.ids {
			if r.Chance(1, 2) {
				t.Matches = append(t.Matches, id)
			}
			if r.Chance(2, 5) {
				t.Uncertain = append(t.Uncertain, id)
			}
		}
		if r.Chance(1, 4) {
			t.Uncertain = nil
		}
		if r.Chance(1, 6) {
			t.AgeSec = int64(lib.Pick(r, []int{1, 3600}))
		}
		c.Tags = append(c.Tags, t)
		names = append(names, tagNames[i])
	}
	c.Query = g.smallExpr(2+r.Intn(2), names, true, 24)
	if r.Chance(1, 4) {
		c.Query = g.subQuery(names)
	}
	if ntags >= 4 && r.Chance(1, 2) {
		// the shape of DESIGN F6: a conjunction of many (uncertain) tags
		k := []*slib.Node{}
		for _, n := range names[:4] {
			k = append(k, &slib.Node{Op: "term", Key: "tag", Tags: []string{n}})
		}
		if r.Chance(1, 2) {
			k = append(k, g.term(nil, false))
		}
		c.Query = &slib.Node{Op: "and", Kids: k}
		if p, _ := dnfSize(c.Query); p > 100 {
			c.Query = &slib.Node{Op: "and", Kids: k[:4]}
		}
	}
	if ntags >= 2 && r.Chance(1, 8) {
		// a NEGATED undecided tag whose definition refers to another undecided tag with a recorded (possibly stale)
		// answer: what the manager leaves behind when an import stores a new version of a tagged stream — the
		// accept table of the inlined inner tag gets a three-valued mask
		// (kept small and free of protocol terms: the normal form of a negated inlined definition is exponential
		// in the size of the definition and every flag condition costs a 65536-entry table per product, DESIGN 10.3)
		inner, outer := c.Tags[ntags-2], c.Tags[ntags-1]
		cheap := func(n *slib.Node) bool {
			ok := true
			n.Walk(func(k *slib.Node) {
				if k.Op == "term" && k.Key == "protocol" {
					ok = false
				}
			})
			p, _ := dnfSize(n)
			return ok && p <= 3
		}
		for !cheap(inner.Def) {
			inner.Def = g.smallExpr(1, names[:ntags-2], true, 3)
		}
		tagSize[tagNames[ntags-2]], _ = dnfSize(inner.Def)
		outer.Def = &slib.Node{Op: "term", Key: "tag", Tags: []string{names[ntags-2]}}
		if r.Chance(1, 2) {
			x := g.term(nil, false)
			for p, _ := dnfSize(x); p != 1 || !cheap(x); p, _ = dnfSize(x) {
				x = g.term(nil, false)
			}
			outer.Def = &slib.Node{Op: "and", Kids: []*slib.Node{outer.Def, x}}
		}
		tagSize[tagNames[ntags-1]], _ = dnfSize(outer.Def)
		inner.Uncertain, outer.Uncertain = append([]uint64(nil), g.ids...), append([]uint64(nil), g.ids...)
		inner.AgeSec, outer.AgeSec = 0, 0
		neg := &slib.Node{Op: "not", Kids: []*slib.Node{{Op: "term", Key: "tag", Tags: []string{names[ntags-1]}}}}
		c.Query = neg
		if r.Chance(1, 2) {
			x := g.term(nil, false)
			for !cheap(x) {
				x = g.term(nil, false)
			}
			c.Query = &slib.Node{Op: lib.Pick(r, []string{"and", "or"}), Kids: []*slib.Node{neg, x}}
		}
	}
	if r.Chance(1, 10) {
		// the shape of DESIGN F5: a lookup-able part OR-ed with a part that has no lookup
		c.Query = &slib.Node{Op: "or", Kids: []*slib.Node{g.term(nil, false), {Op: "term", Key: "id", Nums: []slib.Range{g.numRange([]int64{int64(lib.Pick(r, g.ids))})}}}}
	}
	nk := lib.Pick(r, []int{0, 1, 1, 1, 2, 2, 3})
	for i := 0; i < nk; i++ {
		c.Sort = append(c.Sort, slib.SortKey{Key: lib.Pick(r, sortKeys), Desc: r.Chance(1, 2)})
	}
	if nk >= 2 && r.Chance(1, 2) {
		c.Sort[0].Key = lib.Pick(r, []string{"ftime", "ltime"})
	}
	c.Limit = uint(lib.Pick(r, []int{0, 1, 2, 3, 100, 1, 2}))
	if c.Limit != 0 && c.Limit != 100 {
		c.Page = uint(lib.Pick(r, []int{0, 0, 0, 1, 2}))
	}
	if r.Chance(1, 6) {
		c.HasIDs = true
		for _, id := range g.ids {
			if r.Chance(2, 3) {
				c.IDs = append(c.IDs, id)
			}
		}
		c.IDs = append(c.IDs, 77)
	}
	return c
}

func doGen(seed uint64, n int, wide bool) {
	r := lib.NewRNG(seed)
	w := bufio.NewWriter(os.Stdout)
	defer w.Flush()
	for i := 0; i < n; i++ {
		c := genCase(r.Fork(), wide)
		b, _ := json.Marshal(c)
		w.Write(b)
		w.WriteByte('\n')
	}
}

// ---------------------------------------------------------------------------------------
// runner + oracle
// ---------------------------------------------------------------------------------------

type rec struct {
	ID uint64 `json:"id"`
	FT int64  `json:"ft"`
	LT int64  `json:"lt"`
	CB uint64 `json:"cb"`
	SB uint64 `json:"sb"`
	CP uint16 `json:"cp"`
	SP uint16 `json:"sp"`
	CH []int  `json:"ch"`
	SH []int  `json:"sh"`
	Q  bool   `json:"q"`
}

func recOf(v *slib.StreamV, q bool) rec {
	ints := func(b []byte) []int {
		r := make([]int, len(b))
		for i, x := range b {
			r[i] = int(x)
		}
		return r
	}
	return rec{ID: v.ID, FT: v.FTms, LT: v.LTms, CB: v.CBytes(), SB: v.SBytes(), CP: v.CPort, SP: v.SPort,
		CH: ints(slib.HostBytes(v.CHost)), SH: ints(slib.HostBytes(v.SHost)), Q: q}
}

type outLine struct {
	Keys    []slib.SortKey `json:"keys"`
	Limit   uint           `json:"limit"`
	Skip    uint           `json:"skip"`
	Matches []rec          `json:"matches"`
	Files   [][]rec        `json:"files"` // newest first, scan order
	Sorted  bool           `json:"sorted"`
	Res     []uint64       `json:"res"`
	More    bool           `json:"more"`
	Err     string         `json:"err,omitempty"`
	Query   string         `json:"query,omitempty"`
	// regime information for the evidence
	SubQuery bool    `json:"subquery,omitempty"` // the query relates the main stream to a sub-query stream
	FileRefs []int64 `json:"filerefs,omitempty"` // reference time (unix s) of every index file, oldest first
	SubCross bool    `json:"subcross,omitempty"` // some match is only witnessed by sub-query streams of OTHER index files
}

// keyLess: the documented ordering of one sort term (ascending).
func keyLess(k string, a, b *slib.StreamV) bool {
	switch k {
	case "id":
		return a.ID < b.ID
	case "ftime":
		return a.FTms < b.FTms
	case "ltime":
		return a.LTms < b.LTms
	case "cbytes":
		return a.CBytes() < b.CBytes()
	case "sbytes":
		return a.SBytes() < b.SBytes()
	case "chost":
		return bytes.Compare(slib.HostBytes(a.CHost), slib.HostBytes(b.CHost)) < 0
	case "shost":
		return bytes.Compare(slib.HostBytes(a.SHost), slib.HostBytes(b.SHost)) < 0
	case "cport":
		return a.CPort < b.CPort
	case "sport":
		return a.SPort < b.SPort
	}
	panic("sort key " + k)
}

func lessBy(keys []slib.SortKey, a, b *slib.StreamV) bool {
	for _, k := range keys {
		x, y := a, b
		if k.Desc {
			x, y = b, a
		}
		if keyLess(k.Key, x, y) {
			return true
		}
		if keyLess(k.Key, y, x) {
			return false
		}
	}
	return false
}

type runner struct {
	dir    string
	oracle *bufio.Writer
	lineNo int
}

func (rn *runner) complain(format string, a ...interface{}) {
	if rn.oracle != nil {
		fmt.Fprintf(rn.oracle, "ORACLE line=%d %s\n", rn.lineNo, fmt.Sprintf(format, a...))
	}
}

// rebase re-expresses absolute time bounds (stored as durations relative to the reference time of the
// parse) relative to another reference time: a condition is Duration + sum(factor*(stream time -
// reference)) >= 0, which is invariant when Duration grows by K*(new - old), K = sum of the factors.
// (Only absolute bounds are generated; TimeCondition.ReferenceTimeFactor cannot be used, the parser
// leaves it 0 on the upper bound of a single-value filter.)
func rebase(cs query.ConditionsSet, old, new time.Time) {
	for _, c := range cs {
		for _, cc := range c {
			if tc, ok := cc.(*query.TimeCondition); ok {
				k := 0
				for _, s := range tc.Summands {
					k += s.FTimeFactor + s.LTimeFactor
				}
				tc.Duration += time.Duration(k) * new.Sub(old)
			}
		}
	}
}

func toMask(ids []uint64) bitmask.LongBitmask {
	m := bitmask.LongBitmask{}
	for _, id := range ids {
		m.Set(uint(id))
	}
	return m
}

func (rn *runner) runCase(c *Case) (out outLine) {
	defer func() {
		if r := recover(); r != nil {
			out.Err = "panic"
			rn.complain("panic: %v", r)
		}
	}()
	env := &slib.Env{Tags: map[string]*slib.Tag{}, ConvNames: c.ConvNames}
	for _, t := range c.Tags {
		env.Tags[t.Name] = t
	}
	// --- the real thing
	readers := []*index.Reader{}
	defer func() {
		for _, r := range readers {
			r.Close()
			os.Remove(r.Filename())
		}
	}()
	for fi, f := range c.Files {
		vs := []*slib.StreamV{}
		for _, vi := range f {
			vs = append(vs, c.Versions[vi])
		}
		r, err := slib.BuildIndex(rn.dir, fi, vs)
		if err != nil {
			out.Err = "build"
			rn.complain("index build failed: %v", err)
			return
		}
		readers = append(readers, r)
	}
	text := c.Query.Render()
	if s := slib.RenderSort(c.Sort); s != "" {
		text += " " + s
	}
	out.Query = text
	q, err := query.Parse(text)
	if err != nil {
		out.Err = "parse"
		rn.complain("query %q rejected by the parser: %v", text, err)
		return
	}
	// query.Parse stamps every query with time.Now(); absolute time bounds are stored relative to it.
	// Rebase everything to fixed reference times so that nothing depends on the wall clock: the
	// searching query to refTime, a tag definition to refTime - age of the tag.
	refTime := slib.T0.Add(24 * time.Hour)
	rebase(q.Conditions, q.ReferenceTime, refTime)
	tagDetails := map[string]query.TagDetails{}
	for _, t := range c.Tags {
		tq, err := query.Parse(t.Def.Render())
		if err != nil {
			out.Err = "parse"
			rn.complain("tag definition %q rejected by the parser: %v", t.Def.Render(), err)
			return
		}
		rebase(tq.Conditions, tq.ReferenceTime, refTime.Add(-time.Duration(t.AgeSec)*time.Second))
		tagDetails[t.Name] = query.TagDetails{Matches: toMask(t.Matches), Uncertain: toMask(t.Uncertain), Conditions: tq.Conditions}
	}
	convs := map[string]index.ConverterAccess{}
	for _, name := range c.ConvNames {
		fc := &slib.FakeConverter{Out: map[uint64][]slib.Chunk{}}
		convs[name] = fc
	}
	var limitIDs *bitmask.LongBitmask
	if c.HasIDs {
		m := toMask(c.IDs)
		limitIDs = &m
	}
	skip := c.Page * c.Limit
	res, more, _, err := index.SearchStreams(context.Background(), readers, limitIDs, refTime, q.Conditions, nil, q.Sorting, c.Limit, skip, tagDetails, convs, false)
	if err != nil {
		if strings.Contains(err.Error(), "not yet fully supported") || strings.Contains(err.Error(), "not supported") {
			// a shape the engine refuses: an outcome of its own, nothing to compare
			out.Err = "rejected"
			out.SubQuery = len(c.Query.SubQueryNames()) != 0
			return
		}
		out.Err = "error"
		rn.complain("SearchStreams(%q) failed: %v", text, err)
		return
	}

	// --- the oracle: visible versions, plain evaluation of the AST
	newest := map[uint64]int{} // id -> file ordinal of its newest version
	verOf := map[[2]uint64]*slib.StreamV{}
	for fi, f := range c.Files {
		for _, vi := range f {
			v := c.Versions[vi]
			newest[v.ID] = fi
			verOf[[2]uint64{uint64(fi), v.ID}] = v
		}
	}
	allowed := func(id uint64) bool {
		if !c.HasIDs {
			return true
		}
		for _, x := range c.IDs {
			if x == id {
				return true
			}
		}
		return false
	}
	ids := []uint64{}
	for id := range newest {
		ids = append(ids, id)
	}
	sort.Slice(ids, func(i, j int) bool { return ids[i] < ids[j] })
	visible := []*slib.StreamV{}
	for _, id := range ids {
		visible = append(visible, verOf[[2]uint64{uint64(newest[id]), id}])
	}
	// a sub-query name stands for some VISIBLE stream (any id: the id restriction is for the main query)
	sat := func(v *slib.StreamV) bool { return allowed(v.ID) && env.EvalQuery(c.Query, v, visible) }
	out.SubQuery = len(c.Query.SubQueryNames()) != 0
	matches := []*slib.StreamV{}
	for _, id := range ids {
		v := verOf[[2]uint64{uint64(newest[id]), id}]
		if sat(v) {
			matches = append(matches, v)
		}
	}
	if env.Err != nil {
		out.Err = "oracle"
		rn.complain("oracle cannot evaluate: %v", env.Err)
		return
	}
	for _, r := range readers {
		out.FileRefs = append(out.FileRefs, r.ReferenceTime.Unix())
	}
	if out.SubQuery {
		for _, m := range matches {
			same := []*slib.StreamV{}
			for _, t := range visible {
				if newest[t.ID] == newest[m.ID] {
					same = append(same, t)
				}
			}
			if !env.EvalQuery(c.Query, m, same) {
				out.SubCross = true
			}
		}
	}
	keys := c.Sort
	if len(keys) == 0 {
		keys = []slib.SortKey{{Key: "ftime", Desc: true}}
	}
	out.Keys, out.Limit, out.Skip, out.More = keys, c.Limit, skip, more
	for _, v := range matches {
		out.Matches = append(out.Matches, recOf(v, true))
	}
	// scan order of every file, newest first
	lookup := ""
	if c.Limit+skip != 0 && (keys[0].Key == "id" || keys[0].Key == "ftime" || keys[0].Key == "ltime") {
		lookup = keys[0].Key
		out.Sorted = true
	}
	for fi := len(readers) - 1; fi >= 0; fi-- {
		order, err := readers[fi].VerifScanIDs(lookup)
		if err != nil {
			out.Err = "accessor"
			return
		}
		if lookup != "" && keys[0].Desc {
			for i, j := 0, len(order)-1; i < j; i, j = i+1, j-1 {
				order[i], order[j] = order[j], order[i]
			}
		}
		recs := []rec{}
		for _, id := range order {
			v := verOf[[2]uint64{uint64(fi), id}]
			if v == nil {
				rn.complain("file %d lists unknown stream %d", fi, id)
				continue
			}
			recs = append(recs, recOf(v, sat(v)))
		}
		out.Files = append(out.Files, recs)
	}

	// --- property check on the REAL result, straight from the statement
	out.Res = []uint64{}
	resV := []*slib.StreamV{}
	seen := map[uint64]bool{}
	for _, s := range res {
		id := s.ID()
		out.Res = append(out.Res, id)
		if seen[id] {
			rn.complain("query %q: stream %d returned twice", text, id)
		}
		seen[id] = true
		fi, ok := newest[id]
		if !ok {
			rn.complain("query %q: unknown stream %d returned", text, id)
			continue
		}
		if s.Reader() != readers[fi] {
			rn.complain("query %q: stream %d returned from a shadowed (older) index file", text, id)
		}
		v := verOf[[2]uint64{uint64(fi), id}]
		resV = append(resV, v)
		isMatch := false
		for _, m := range matches {
			if m == v {
				isMatch = true
			}
		}
		if !isMatch {
			rn.complain("query %q: stream %d returned but does not satisfy the query", text, id)
		}
	}
	// the page: position i of the result must hold a stream that ties with position skip+i of the
	// sorted match list (ties leave freedom, nothing else does)
	sorted := append([]*slib.StreamV(nil), matches...)
	sort.SliceStable(sorted, func(i, j int) bool { return lessBy(keys, sorted[i], sorted[j]) })
	want := 0
	if uint(len(sorted)) > skip {
		want = len(sorted) - int(skip)
		if c.Limit != 0 && want > int(c.Limit) {
			want = int(c.Limit)
		}
	}
	if len(resV) == len(res) {
		if len(res) != want {
			rn.complain("query %q limit=%d skip=%d: %d streams returned %v, %d expected (%d match)", text, c.Limit, skip, len(res), out.Res, want, len(sorted))
		} else {
			for i, v := range resV {
				w := sorted[int(skip)+i]
				if lessBy(keys, v, w) || lessBy(keys, w, v) {
					rn.complain("query %q limit=%d skip=%d: position %d holds stream %d, the sort order %v demands a stream tying with %d; result %v", text, c.Limit, skip, i, v.ID, keys, w.ID, out.Res)
					break
				}
			}
		}
	}
	wantMore := c.Limit != 0 && uint(len(sorted)) > skip+c.Limit
	if more != wantMore {
		rn.complain("query %q limit=%d skip=%d: more=%v but %d streams match", text, c.Limit, skip, more, len(sorted))
	}
	return
}

func doRun(oraclePath string) {
	time.Local = time.UTC
	rn := &runner{}
	var err error
	rn.dir, err = os.MkdirTemp(os.Getenv("VERIF_SCRATCH_DIR"), "c02-")
	if err != nil {
		fmt.Fprintln(os.Stderr, err)
		os.Exit(2)
	}
	defer os.RemoveAll(rn.dir)
	if oraclePath != "" {
		f, err := os.Create(oraclePath)
		if err != nil {
			fmt.Fprintln(os.Stderr, err)
			os.Exit(2)
		}
		defer f.Close()
		rn.oracle = bufio.NewWriter(f)
		defer rn.oracle.Flush()
	}
	in := bufio.NewReaderSize(os.Stdin, 1<<20)
	w := bufio.NewWriter(os.Stdout)
	defer w.Flush()
	for {
		line, err := in.ReadString('\n')
		if strings.TrimSpace(line) != "" {
			rn.lineNo++
			c := &Case{}
			var out outLine
			if jerr := json.Unmarshal([]byte(line), c); jerr != nil || c.Query == nil {
				out = outLine{Err: "bad-case"}
			} else {
				out = rn.runCase(c)
			}
			b, _ := json.Marshal(out)
			w.Write(b)
			w.WriteByte('\n')
			w.Flush()
			if rn.oracle != nil {
				rn.oracle.Flush()
			}
		}
		if err != nil {
			break
		}
	}
}

// doAccept drives the tag filter of the REAL search directly: a hand-built condition set of one TagCondition
// per accept mask 0..15 against a tag table over four streams, one per state (certain/undecided x matching/
// failing). Three tables: 0 = nothing undecided (every mask reaches the accept switch of buildSearchObjects as
// it is), 1 = two undecided streams whose recorded answers agree with the definition, 2 = two undecided streams
// whose recorded answers are STALE (the definition decides; masks with one undecided bit are rewritten by
// InlineTagFilters, the others reach the switch with an undecided stream). One line per (table, mask): the
// states as the property sees them and the ids the search returned; the Lean driver compares with
// `Pk.Search.tagAccept` / `tagAcceptSpec`. Mask 0 is left out: clean() turns such a conjunct into the impossible
// condition, it never reaches the switch (and Parse reports a query that cannot match as one without conditions).
func doAccept() {
	time.Local = time.UTC
	dir, err := os.MkdirTemp(os.Getenv("VERIF_SCRATCH_DIR"), "c02acc-")
	if err != nil {
		fmt.Fprintln(os.Stderr, err)
		os.Exit(2)
	}
	defer os.RemoveAll(dir)
	vs := []*slib.StreamV{}
	for id := uint64(0); id < 4; id++ {
		cp := uint16(1000)
		if id >= 2 {
			cp = 1001
		}
		vs = append(vs, &slib.StreamV{ID: id, CHost: "10.0.0.1", SHost: "10.0.0.2", CPort: cp, SPort: 80, FTms: int64(id) * 1000, LTms: int64(id)*1000 + 500})
	}
	r, err := slib.BuildIndex(dir, 0, vs)
	if err != nil {
		fmt.Fprintln(os.Stderr, err)
		os.Exit(2)
	}
	defer r.Close()
	def, err := query.Parse("cport:1000")
	if err != nil {
		fmt.Fprintln(os.Stderr, err)
		os.Exit(2)
	}
	type table struct {
		matches, uncertain []uint64
		states             [][3]uint64 // id, undecided, matching — as the property sees the stream
	}
	tables := []table{
		{[]uint64{0, 1}, nil, [][3]uint64{{0, 0, 1}, {1, 0, 1}, {2, 0, 0}, {3, 0, 0}}},
		{[]uint64{0, 1}, []uint64{1, 3}, [][3]uint64{{0, 0, 1}, {1, 1, 1}, {2, 0, 0}, {3, 1, 0}}},
		{[]uint64{0, 3}, []uint64{1, 3}, [][3]uint64{{0, 0, 1}, {1, 1, 1}, {2, 0, 0}, {3, 1, 0}}},
	}
	w := bufio.NewWriter(os.Stdout)
	defer w.Flush()
	for ti, t := range tables {
		for a := 1; a < 16; a++ {
			// per stream additionally: the RECORDED answer and what the definition says (for `inlinedAccept`)
			full := [][5]uint64{}
			for _, st := range t.states {
				rec, def := uint64(0), uint64(0)
				for _, m := range t.matches {
					if m == st[0] {
						rec = 1
					}
				}
				if st[0] < 2 {
					def = 1
				}
				full = append(full, [5]uint64{st[0], st[1], st[2], rec, def})
			}
			line := map[string]interface{}{"acc": true, "table": ti, "accept": a, "states": full, "hasu": len(t.uncertain) != 0}
			func() {
				defer func() {
					if rec := recover(); rec != nil {
						line["err"] = fmt.Sprintf("panic: %v", rec)
					}
				}()
				tagDetails := map[string]query.TagDetails{"tag/t": {Matches: toMask(t.matches), Uncertain: toMask(t.uncertain), Conditions: def.Conditions}}
				qs := query.ConditionsSet{query.Conditions{&query.TagCondition{TagName: "tag/t", Accept: query.TagConditionAccept(a)}}}
				res, _, _, err := index.SearchStreams(context.Background(), []*index.Reader{r}, nil, slib.T0.Add(24*time.Hour), qs, nil, nil, 100, 0, tagDetails, nil, false)
				if err != nil {
					line["err"] = err.Error()
					return
				}
				ids := []uint64{}
				for _, st := range res {
					ids = append(ids, st.ID())
				}
				sort.Slice(ids, func(i, j int) bool { return ids[i] < ids[j] })
				line["res"] = ids
			}()
			b, _ := json.Marshal(line)
			w.Write(b)
			w.WriteByte('\n')
		}
	}
}

func main() {
	if len(os.Args) < 2 {
		fmt.Fprintln(os.Stderr, "usage: c02 gen|run")
		os.Exit(2)
	}
	fs := flag.NewFlagSet(os.Args[1], flag.ExitOnError)
	seed := fs.Uint64("seed", 1, "")
	n := fs.Int("n", 100, "")
	wide := fs.Bool("wide", false, "")
	oracle := fs.String("oracle", "", "")
	fs.Parse(os.Args[2:])
	switch os.Args[1] {
	case "gen":
		doGen(*seed, *n, *wide)
	case "run":
		doRun(*oracle)
	case "accept":
		doAccept()
	case "parse":
		time.Local = time.UTC
		q, err := query.Parse(fs.Arg(0))
		if err != nil {
			fmt.Println("error:", err)
			return
		}
		fmt.Println(q.Conditions.String())
	default:
		os.Exit(2)
	}
}
