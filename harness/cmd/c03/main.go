// c03: correspondence harness and property oracle for query normalisation (property C03; the
// parser-totality property C14 uses the same cases through `c14`).
//
//	c03 gen -seed S -n N -level L     write N generated cases (JSON, one per line) to stdout
//	c03 run [-oracle FILE] [-envs K]  for every case on stdin: render the query text, call the REAL
//	                                  query.Parse, print `<reference time ns> <canonical dump>`;
//	                                  the oracle (surface meaning vs meaning of the real normal form
//	                                  on K synthetic environments) writes complaints to FILE
//	c03 render                        print the query text of every case on stdin
package main

import (
	"bufio"
	"encoding/json"
	"flag"
	"fmt"
	"os"
	"time"

	"github.com/spq/pkappa2/internal/verifh/lib"
	"github.com/spq/pkappa2/internal/verifh/lib/qh"
)

type caseLine struct {
	E     interface{} `json:"e"`
	Style uint64      `json:"style"`
}

// Conditions.clean costs about 1 ms when protocol filters are present (cleanFlagConditions walks a
// 2^16 bitmap) and Clean is quadratic in the number of conjuncts: keep the predicted DNF small so
// that a case takes well under a second.
const maxDNF = 40

func gen(seed uint64, n, level int) {
	r := lib.NewRNG(seed)
	w := bufio.NewWriter(os.Stdout)
	defer w.Flush()
	for i := 0; i < n; i++ {
		cr := r.Fork()
		lv := level
		if lv < 0 { // mixed
			lv = cr.Intn(3)
		}
		g := &qh.Gen{R: cr, Cfg: qh.GenCfg{Level: lv, MaxDepth: 4}}
		var e *qh.Expr
		for {
			e = g.Expr()
			if _, _, worst := qh.DNFBound(e); e.Size() <= 60 && worst <= maxDNF {
				break
			}
		}
		fmt.Fprintf(w, "{\"style\":%d,\"e\":%s}\n", cr.U64()&0xffff, e.JSON())
	}
}

func readCases(f func(n int, line string, c *caseLine, e *qh.Expr)) {
	sc := bufio.NewScanner(os.Stdin)
	sc.Buffer(make([]byte, 1<<20), 1<<26)
	n := 0
	for sc.Scan() {
		n++
		line := sc.Text()
		c := &caseLine{}
		if err := json.Unmarshal([]byte(line), c); err != nil {
			f(n, line, nil, nil)
			continue
		}
		e, err := qh.ExprFromJSON(c.E)
		if err != nil {
			f(n, line, nil, nil)
			continue
		}
		f(n, line, c, e)
	}
}

func run(oraclePath string, nenvs int) {
	w := bufio.NewWriter(os.Stdout)
	defer w.Flush()
	var ow *bufio.Writer
	if oraclePath != "" {
		f, err := os.Create(oraclePath)
		if err != nil {
			panic(err)
		}
		defer f.Close()
		ow = bufio.NewWriter(f)
		defer ow.Flush()
	}
	complain := func(n int, format string, a ...interface{}) {
		if ow != nil {
			fmt.Fprintf(ow, "ORACLE line=%d %s\n", n, fmt.Sprintf(format, a...))
		}
	}
	hangs := 0
	readCases(func(n int, line string, c *caseLine, e *qh.Expr) {
		if e == nil {
			fmt.Fprintln(w, "0 bad-case")
			return
		}
		text := e.Render(c.Style)
		res := qh.ParseWatched(text, 45*time.Second)
		switch res.Kind {
		case "err":
			fmt.Fprintln(w, "0 err")
			return
		case "panic":
			fmt.Fprintln(w, "0 panic")
			complain(n, "panic query=%q msg=%q", text, res.Msg)
			return
		case "hang":
			fmt.Fprintln(w, "0 hang")
			complain(n, "hang query=%q", text)
			hangs++
			if hangs > 2 {
				w.Flush()
				if ow != nil {
					ow.Flush()
				}
				os.Exit(3)
			}
			return
		}
		q := res.Q
		ref := q.ReferenceTime.UnixNano()
		fmt.Fprintf(w, "%d %s\n", ref, qh.DumpSet(q.Conditions))
		// --- property oracle
		if ow == nil || nenvs == 0 {
			return
		}
		sf := qh.NewSurface(e)
		r := lib.NewRNG(uint64(n)*7919 + uint64(len(line)))
		for i, env := range qh.Envs(e, r, nenvs, ref) {
			want, ok := sf.Eval(env, ref)
			if !ok {
				complain(n, "skipped-too-big query=%q", text)
				break
			}
			if agree, done := sf.SelfCheck(env, ref); done && !agree {
				complain(n, "oracle-self-check-failed query=%q env=%s", text, env)
				break
			}
			got := qh.EvalSet(q.Conditions, env, q.ReferenceTime)
			if got != want {
				kind := "meaning-differs"
				if q.Conditions == nil {
					kind = "impossible-but-satisfiable"
				}
				complain(n, "%s query=%q surface=%v normalised=%v env#%d=%s normal-form=%s", kind, text, want, got, i, env, qh.DumpSet(q.Conditions))
				break
			}
		}
	})
}

func main() {
	if len(os.Args) < 2 {
		fmt.Fprintln(os.Stderr, "usage: c03 gen|run|render …")
		os.Exit(2)
	}
	fs := flag.NewFlagSet(os.Args[1], flag.ExitOnError)
	seed := fs.Uint64("seed", 1, "")
	n := fs.Int("n", 100, "")
	level := fs.Int("level", -1, "0 basic, 1 +data/then, 2 +sub-queries/variables, -1 mixed")
	oracle := fs.String("oracle", "", "")
	envs := fs.Int("envs", 48, "")
	fs.Parse(os.Args[2:])
	switch os.Args[1] {
	case "gen":
		gen(*seed, *n, *level)
	case "run":
		run(*oracle, *envs)
	case "render":
		readCases(func(n int, line string, c *caseLine, e *qh.Expr) {
			if e == nil {
				fmt.Println("bad-case")
				return
			}
			fmt.Println(e.Render(c.Style))
		})
	default:
		os.Exit(2)
	}
}
