// c19extract: go/ast fact extractor for property C19 (stand-alone, standard library only).
//
//	c19extract -src $VERIF_REPO/cmd/pkappa2/main.go -lean lean/Pk/Gen/Routes.lean -json facts.json
//
// For the upload handler (POST /upload/...) and the capture download handler
// (GET /api/download/pcap/...) registered in setupRouter it records: method and route pattern,
// the variable holding chi.URLParam, whether a `name != filepath.Base(name) { ...; return }` guard
// precedes every other call and the name is never reassigned, the arguments of filepath.Join, the
// os.OpenFile flags, the calls on the success path in order, the calls on each error path, and a
// normalised listing of all statements (string literals of messages masked). It writes them as
// Lean definitions (namespace Pk.Gen.Routes) and as JSON.
package main

import (
	"bytes"
	"encoding/json"
	"flag"
	"fmt"
	"go/ast"
	"go/parser"
	"go/printer"
	"go/token"
	"os"
	"strings"
)

type handler struct {
	Method     string   `json:"method"`
	Pattern    string   `json:"pattern"`
	ParamVar   string   `json:"paramVar"`
	ParamKey   string   `json:"paramKey"`
	GuardFirst bool     `json:"guardFirst"`
	JoinArgs   []string `json:"joinArgs"`
	Events     []string `json:"events"`
}

type facts struct {
	UpGuard   bool `json:"upGuard"`
	UpCreate  bool `json:"upCreate"`
	UpExcl    bool `json:"upExcl"`
	UpTrunc   bool `json:"upTrunc"`
	UpRemove  bool `json:"upRemove"`
	UpImports int  `json:"upImports"`
	DownGuard bool `json:"downGuard"`
}

type routes struct {
	Uploads       []handler `json:"uploads"`
	Downloads     []handler `json:"downloads"`
	OpenFlags     []string  `json:"openFlags"`
	OpenPerm      string    `json:"openPerm"`
	MainPath      []string  `json:"mainPath"`
	OpenFailPath  []string  `json:"openFailPath"`
	CopyFailPath  []string  `json:"copyFailPath"`
	CloseFailPath []string  `json:"closeFailPath"`
	Facts         facts     `json:"facts"`
	Error         string    `json:"error,omitempty"`
}

var fset = token.NewFileSet()

// maskMessages replaces string literals inside calls that only produce text (http.Error,
// log.Printf, fmt.Sprintf, fmt.Errorf) by "…", so that rewording a message is not a fact change.
func render(n ast.Node) string {
	var buf bytes.Buffer
	_ = printer.Fprint(&buf, fset, n)
	return strings.Join(strings.Fields(buf.String()), " ")
}

func callee(c *ast.CallExpr) string { return render(c.Fun) }

var textCalls = map[string]bool{"http.Error": true, "log.Printf": true, "fmt.Sprintf": true, "fmt.Errorf": true, "log.Println": true}

func renderMasked(n ast.Node) string {
	// work on a copy of the rendered text: collect literal texts to mask
	var lits []string
	ast.Inspect(n, func(x ast.Node) bool {
		if c, ok := x.(*ast.CallExpr); ok && textCalls[callee(c)] {
			for _, a := range c.Args {
				if bl, ok := a.(*ast.BasicLit); ok && bl.Kind == token.STRING {
					lits = append(lits, bl.Value)
				}
			}
		}
		return true
	})
	s := render(n)
	for _, l := range lits {
		s = strings.Replace(s, strings.Join(strings.Fields(l), " "), `"…"`, 1)
	}
	return s
}

// events: a normalised listing of a statement list
func events(stmts []ast.Stmt, out *[]string) {
	for _, st := range stmts {
		switch s := st.(type) {
		case *ast.IfStmt:
			hdr := "if "
			if s.Init != nil {
				hdr += renderMasked(s.Init) + "; "
			}
			hdr += renderMasked(s.Cond) + " {"
			*out = append(*out, hdr)
			events(s.Body.List, out)
			if s.Else != nil {
				*out = append(*out, "} else {")
				switch e := s.Else.(type) {
				case *ast.BlockStmt:
					events(e.List, out)
				default:
					events([]ast.Stmt{e}, out)
				}
			}
			*out = append(*out, "}")
		case *ast.BlockStmt:
			*out = append(*out, "{")
			events(s.List, out)
			*out = append(*out, "}")
		case *ast.ForStmt, *ast.RangeStmt, *ast.SwitchStmt, *ast.TypeSwitchStmt, *ast.SelectStmt, *ast.GoStmt, *ast.DeferStmt, *ast.LabeledStmt:
			*out = append(*out, "complex: "+renderMasked(s))
		default:
			// pure logging is not part of the handler's behaviour towards the file system or the client
			if es, ok := st.(*ast.ExprStmt); ok {
				if c, ok := es.X.(*ast.CallExpr); ok && strings.HasPrefix(callee(c), "log.") && len(callsIn(st)) == 1 {
					continue
				}
			}
			*out = append(*out, renderMasked(s))
		}
	}
}

func callsIn(n ast.Node) []*ast.CallExpr {
	var cs []*ast.CallExpr
	if n == nil {
		return nil
	}
	ast.Inspect(n, func(x ast.Node) bool {
		if c, ok := x.(*ast.CallExpr); ok {
			cs = append(cs, c)
		}
		return true
	})
	return cs
}

func isIdent(e ast.Expr, name string) bool {
	id, ok := e.(*ast.Ident)
	return ok && id.Name == name
}

func isBaseOf(e ast.Expr, v string) bool {
	c, ok := e.(*ast.CallExpr)
	return ok && callee(c) == "filepath.Base" && len(c.Args) == 1 && isIdent(c.Args[0], v)
}

// isGuard: `if v != filepath.Base(v) { ...; return }` without init and else
func isGuard(st ast.Stmt, v string) bool {
	s, ok := st.(*ast.IfStmt)
	if !ok || s.Init != nil || s.Else != nil || len(s.Body.List) == 0 {
		return false
	}
	b, ok := s.Cond.(*ast.BinaryExpr)
	if !ok || b.Op != token.NEQ {
		return false
	}
	if !(isIdent(b.X, v) && isBaseOf(b.Y, v) || isIdent(b.Y, v) && isBaseOf(b.X, v)) {
		return false
	}
	if _, ok := s.Body.List[len(s.Body.List)-1].(*ast.ReturnStmt); !ok {
		return false
	}
	for _, c := range callsIn(s.Body) {
		if callee(c) != "http.Error" {
			return false
		}
	}
	return true
}

// a statement that only logs: `log.X(args…)` with no further call inside its arguments
func isPureLog(st ast.Stmt) bool {
	es, ok := st.(*ast.ExprStmt)
	if !ok {
		return false
	}
	c, ok := es.X.(*ast.CallExpr)
	return ok && strings.HasPrefix(callee(c), "log.") && len(callsIn(st)) == 1
}

func analyse(method, pattern string, fn *ast.FuncLit) handler {
	h := handler{Method: method, Pattern: pattern, JoinArgs: []string{}, Events: []string{}}
	events(fn.Body.List, &h.Events)
	stmts := fn.Body.List
	// the parameter variable: first statement `v := chi.URLParam(r, "key")`
	defIdx := -1
	for i, st := range stmts {
		if as, ok := st.(*ast.AssignStmt); ok && len(as.Lhs) == 1 && len(as.Rhs) == 1 {
			if c, ok := as.Rhs[0].(*ast.CallExpr); ok && callee(c) == "chi.URLParam" && len(c.Args) == 2 {
				if id, ok := as.Lhs[0].(*ast.Ident); ok {
					h.ParamVar = id.Name
					if bl, ok := c.Args[1].(*ast.BasicLit); ok {
						h.ParamKey = strings.Trim(bl.Value, "\"`")
					}
					defIdx = i
					break
				}
			}
		}
	}
	if defIdx < 0 {
		return h
	}
	v := h.ParamVar
	// guard position: every statement before it is call-free except the definition itself
	guardIdx := -1
	for i, st := range stmts {
		if isGuard(st, v) {
			guardIdx = i
			break
		}
	}
	ok := guardIdx > defIdx
	for i := 0; ok && i < guardIdx; i++ {
		if i == defIdx {
			continue
		}
		if len(callsIn(stmts[i])) > 0 && !isPureLog(stmts[i]) {
			ok = false
		}
	}
	// chi.URLParam / r.URL / r.RequestURI must not be consulted again, v never written again
	for i, st := range stmts {
		if i == defIdx {
			continue
		}
		ast.Inspect(st, func(x ast.Node) bool {
			switch n := x.(type) {
			case *ast.AssignStmt:
				for _, l := range n.Lhs {
					if isIdent(l, v) {
						ok = false
					}
				}
			case *ast.IncDecStmt:
				if isIdent(n.X, v) {
					ok = false
				}
			case *ast.UnaryExpr:
				if n.Op == token.AND && isIdent(n.X, v) {
					ok = false
				}
			case *ast.CallExpr:
				if callee(n) == "chi.URLParam" {
					ok = false
				}
			case *ast.SelectorExpr:
				if s := render(n); s == "r.URL" || s == "r.RequestURI" || s == "r.Form" || s == "r.PostForm" {
					ok = false
				}
			}
			return true
		})
	}
	h.GuardFirst = ok
	for _, c := range callsIn(fn.Body) {
		if callee(c) == "filepath.Join" {
			args := make([]string, len(c.Args))
			for i, a := range c.Args {
				args[i] = render(a)
			}
			h.JoinArgs = append(h.JoinArgs, strings.Join(args, ", "))
		}
	}
	return h
}

func flagNames(e ast.Expr, out *[]string) {
	if b, ok := e.(*ast.BinaryExpr); ok && b.Op == token.OR {
		flagNames(b.X, out)
		flagNames(b.Y, out)
		return
	}
	*out = append(*out, render(e))
}

// interesting calls of a statement, in source order (text-only calls dropped)
func callNames(n ast.Node) []string {
	var res []string
	for _, c := range callsIn(n) {
		name := callee(c)
		if name == "fmt.Sprintf" || strings.HasPrefix(name, "[]") || strings.HasPrefix(name, "log.") {
			continue
		}
		if name == "http.Error" && len(c.Args) == 3 {
			name += "(" + render(c.Args[2]) + ")"
		}
		if name == "os.Remove" || name == "mgr.ImportPcaps" || name == "http.ServeFile" || name == "os.OpenFile" {
			args := make([]string, 0, len(c.Args))
			for i, a := range c.Args {
				if name == "os.OpenFile" && i > 0 {
					break
				}
				if name == "http.ServeFile" && i < 2 {
					continue
				}
				args = append(args, render(a))
			}
			name += "(" + strings.Join(args, ", ") + ")"
		}
		res = append(res, name)
	}
	return res
}

func analyseUpload(fn *ast.FuncLit, r *routes) {
	for _, st := range fn.Body.List {
		switch s := st.(type) {
		case *ast.IfStmt:
			var hdr []string
			if s.Init != nil {
				hdr = callNames(s.Init)
			}
			hdr = append(hdr, callNames(s.Cond)...)
			r.MainPath = append(r.MainPath, hdr...)
			body := callNames(s.Body)
			if _, ok := s.Body.List[len(s.Body.List)-1].(*ast.ReturnStmt); ok {
				body = append(body, "return")
			}
			joined := strings.Join(hdr, " ")
			switch {
			case strings.Contains(joined, "io.Copy"):
				r.CopyFailPath = body
			case strings.Contains(joined, ".Close"):
				r.CloseFailPath = body
			case len(hdr) == 0 && len(r.MainPath) > 0 && strings.HasPrefix(r.MainPath[len(r.MainPath)-1], "os.OpenFile") && render(s.Cond) == "err != nil":
				r.OpenFailPath = body
			}
		default:
			r.MainPath = append(r.MainPath, callNames(st)...)
		}
	}
	for _, c := range callsIn(fn.Body) {
		if callee(c) == "os.OpenFile" && len(c.Args) == 3 {
			flagNames(c.Args[1], &r.OpenFlags)
			r.OpenPerm = render(c.Args[2])
		}
	}
}

func has(xs []string, x string) bool {
	for _, y := range xs {
		if y == x {
			return true
		}
	}
	return false
}

func extract(src string) routes {
	r := routes{Uploads: []handler{}, Downloads: []handler{}, OpenFlags: []string{}, MainPath: []string{},
		OpenFailPath: []string{}, CopyFailPath: []string{}, CloseFailPath: []string{}}
	file, err := parser.ParseFile(fset, src, nil, 0)
	if err != nil {
		r.Error = "parse: " + err.Error()
		return r
	}
	var uploadFn *ast.FuncLit
	ast.Inspect(file, func(x ast.Node) bool {
		c, ok := x.(*ast.CallExpr)
		if !ok || len(c.Args) != 2 {
			return true
		}
		sel, ok := c.Fun.(*ast.SelectorExpr)
		if !ok {
			return true
		}
		lit, ok := c.Args[0].(*ast.BasicLit)
		if !ok || lit.Kind != token.STRING {
			return true
		}
		pattern := lit.Value[1 : len(lit.Value)-1]
		if lit.Value[0] == '"' {
			if u, err := strconvUnquote(lit.Value); err == nil {
				pattern = u
			}
		}
		fn, ok := c.Args[1].(*ast.FuncLit)
		isUp := strings.HasPrefix(pattern, "/upload")
		isDown := strings.HasPrefix(pattern, "/api/download/pcap")
		if !isUp && !isDown {
			return true
		}
		if !ok {
			// a handler that is not a function literal cannot be analysed: record it without facts
			h := handler{Method: sel.Sel.Name, Pattern: pattern, JoinArgs: []string{}, Events: []string{"not a function literal: " + render(c.Args[1])}}
			if isUp {
				r.Uploads = append(r.Uploads, h)
			} else {
				r.Downloads = append(r.Downloads, h)
			}
			return true
		}
		h := analyse(sel.Sel.Name, pattern, fn)
		if isUp {
			r.Uploads = append(r.Uploads, h)
			uploadFn = fn
		} else {
			r.Downloads = append(r.Downloads, h)
		}
		return true
	})
	if uploadFn != nil && len(r.Uploads) == 1 {
		analyseUpload(uploadFn, &r)
	}
	up1 := len(r.Uploads) == 1
	r.Facts.UpGuard = up1 && r.Uploads[0].GuardFirst
	r.Facts.UpCreate = has(r.OpenFlags, "os.O_CREATE")
	r.Facts.UpExcl = has(r.OpenFlags, "os.O_EXCL")
	r.Facts.UpTrunc = has(r.OpenFlags, "os.O_TRUNC")
	for _, c := range r.CopyFailPath {
		if strings.HasPrefix(c, "os.Remove(") {
			r.Facts.UpRemove = true
		}
	}
	for _, c := range r.MainPath {
		if strings.HasPrefix(c, "mgr.ImportPcaps(") {
			r.Facts.UpImports++
		}
	}
	r.Facts.DownGuard = len(r.Downloads) == 1 && r.Downloads[0].GuardFirst
	return r
}

func strconvUnquote(s string) (string, error) {
	var out string
	err := json.Unmarshal([]byte(s), &out) // interpreted Go string literals used for routes are JSON-compatible
	return out, err
}

// --- Lean rendering ---------------------------------------------------------------------------

func leanStr(s string) string {
	var b strings.Builder
	b.WriteByte('"')
	for _, r := range s {
		switch {
		case r == '"':
			b.WriteString(`\"`)
		case r == '\\':
			b.WriteString(`\\`)
		case r == '\n':
			b.WriteString(`\n`)
		case r == '\t':
			b.WriteString(`\t`)
		case r < 0x20 || r == 0x7f:
			fmt.Fprintf(&b, `\x%02x`, r)
		default:
			b.WriteRune(r)
		}
	}
	b.WriteByte('"')
	return b.String()
}

func leanList(xs []string, indent string) string {
	if len(xs) == 0 {
		return "[]"
	}
	parts := make([]string, len(xs))
	for i, x := range xs {
		parts[i] = leanStr(x)
	}
	if len(xs) <= 3 && len(strings.Join(parts, ", ")) < 90 {
		return "[" + strings.Join(parts, ", ") + "]"
	}
	return "[\n" + indent + "  " + strings.Join(parts, ",\n"+indent+"  ") + "]"
}

func leanBool(b bool) string {
	if b {
		return "true"
	}
	return "false"
}

func leanHandler(h handler, indent string) string {
	return fmt.Sprintf("{ method := %s, pattern := %s, paramVar := %s, paramKey := %s, guardFirst := %s,\n%s  joinArgs := %s,\n%s  events := %s }",
		leanStr(h.Method), leanStr(h.Pattern), leanStr(h.ParamVar), leanStr(h.ParamKey), leanBool(h.GuardFirst),
		indent, leanList(h.JoinArgs, indent+"  "), indent, leanList(h.Events, indent+"  "))
}

func leanHandlers(hs []handler) string {
	if len(hs) == 0 {
		return "[]"
	}
	parts := make([]string, len(hs))
	for i, h := range hs {
		parts[i] = leanHandler(h, "    ")
	}
	return "[\n    " + strings.Join(parts, ",\n    ") + "]"
}

func leanFile(r routes, src string) string {
	var b strings.Builder
	fmt.Fprintf(&b, "/- REGENERATED on every run of `./check C19` by harness/cmd/c19extract from\n   %s — do not edit, not committed. -/\n", src)
	b.WriteString("import Pk.Model.Upload\n\nnamespace Pk.Gen.Routes\nopen Pk.Upload\n\n")
	if r.Error != "" {
		fmt.Fprintf(&b, "-- extractor error: %s\n", strings.ReplaceAll(r.Error, "\n", " "))
	}
	b.WriteString("def routes : Routes :=\n")
	fmt.Fprintf(&b, "  { uploads := %s,\n", leanHandlers(r.Uploads))
	fmt.Fprintf(&b, "    downloads := %s,\n", leanHandlers(r.Downloads))
	fmt.Fprintf(&b, "    openFlags := %s,\n", leanList(r.OpenFlags, "    "))
	fmt.Fprintf(&b, "    openPerm := %s,\n", leanStr(r.OpenPerm))
	fmt.Fprintf(&b, "    mainPath := %s,\n", leanList(r.MainPath, "    "))
	fmt.Fprintf(&b, "    openFailPath := %s,\n", leanList(r.OpenFailPath, "    "))
	fmt.Fprintf(&b, "    copyFailPath := %s,\n", leanList(r.CopyFailPath, "    "))
	fmt.Fprintf(&b, "    closeFailPath := %s,\n", leanList(r.CloseFailPath, "    "))
	f := r.Facts
	fmt.Fprintf(&b, "    facts := { upGuard := %s, upCreate := %s, upExcl := %s, upTrunc := %s,\n               upRemoveOnCopyFail := %s, upImports := %d, downGuard := %s } }\n",
		leanBool(f.UpGuard), leanBool(f.UpCreate), leanBool(f.UpExcl), leanBool(f.UpTrunc), leanBool(f.UpRemove), f.UpImports, leanBool(f.DownGuard))
	b.WriteString("\nend Pk.Gen.Routes\n")
	return b.String()
}

func main() {
	src := flag.String("src", "", "path of cmd/pkappa2/main.go")
	lean := flag.String("lean", "", "Lean file to write")
	js := flag.String("json", "", "JSON file to write (default stdout)")
	flag.Parse()
	r := extract(*src)
	if *lean != "" {
		if err := os.WriteFile(*lean, []byte(leanFile(r, *src)), 0o666); err != nil {
			fmt.Fprintln(os.Stderr, err)
			os.Exit(1)
		}
	}
	out, _ := json.MarshalIndent(r, "", " ")
	if *js != "" {
		if err := os.WriteFile(*js, append(out, '\n'), 0o666); err != nil {
			fmt.Fprintln(os.Stderr, err)
			os.Exit(1)
		}
	} else {
		fmt.Println(string(out))
	}
}
