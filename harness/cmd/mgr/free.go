package main

// Free-running mode (property C20).  The op `free` switches the harness for the REST of the
// scenario: the `verif` gates become pass-through, so the four background jobs complete on their own
// and overlap for real with the API calls, the periodic workers, the watchers, pcap-over-IP readers
// and event delivery.  Nothing is compared with the Lean model in this mode (every output line is a
// `noop` event); the observable is the Go race detector (binary built with -race), whose reports
// tools/checks/c20.py parses.  API calls are issued from several goroutines, the way HTTP handlers do.
//
// ops after `free` (unknown ops are ignored, errors of API calls are legal outcomes):
//   pcap NAME FLOW:MS:DIR:PAYLOAD...   write a capture file            import NAME...   ImportPcaps
//   addtag/updq/updcolor/updname/updconv/markadd/markdel/deltag       as in gated mode
//   view CONV      asynchronously: open a view, read all streams with all tags prefetched, fetch the
//                  converter output of every stream, search, release
//   status | pcaps | tags | convs | endpoints | webhooks | config      read-only API calls
//   listen K | unlisten K      event listener K with a consumer goroutine
//   webhook add|del URL        endpoint add|del|serve      resetconv NAME      chmodconv NAME
//   setconfig 0|1              sleep MS
// At the end: endpoints removed, asynchronous calls joined, the service quiesces, Close().

import (
	"bufio"
	"bytes"
	"context"
	"encoding/json"
	"fmt"
	"io"
	"net"
	"os"
	"path/filepath"
	"strconv"
	"strings"
	"sync"
	"sync/atomic"
	"time"

	"github.com/gopacket/gopacket"
	"github.com/gopacket/gopacket/layers"
	"github.com/gopacket/gopacket/pcapgo"
	"github.com/spq/pkappa2/internal/index/manager"
	"github.com/spq/pkappa2/internal/query"
	"github.com/spq/pkappa2/internal/verifh/lib"
)

// freeGates is consulted by gates.hook (main.go): non-zero = pass-through.
var freeGates int32

// completions of background jobs while free-running (evidence that jobs overlapped with the calls)
var freeDone [4]int64
var freeJobNames = []string{"import", "tag", "convert", "merge"}

func freeJobDone(job string) {
	for i, n := range freeJobNames {
		if n == job {
			atomic.AddInt64(&freeDone[i], 1)
		}
	}
}

type freeState struct {
	wg        sync.WaitGroup
	listeners map[int]func()
	srv       net.Listener
	srvAddr   string
	endpoints map[string]bool
	served    int32
}

// pcapStream serves a tiny pcap stream (IPv4 link type) to every connection, then closes it.
func (fs *freeState) serve() error {
	if fs.srv != nil {
		return nil
	}
	l, err := net.Listen("tcp", "127.0.0.1:0")
	if err != nil {
		return err
	}
	fs.srv, fs.srvAddr = l, l.Addr().String()
	go func() {
		for {
			c, err := l.Accept()
			if err != nil {
				return
			}
			n := atomic.AddInt32(&fs.served, 1)
			go func(c net.Conn, n int32) {
				defer c.Close()
				buf := &bytes.Buffer{}
				w := pcapgo.NewWriter(buf)
				_ = w.WriteFileHeader(65536, layers.LinkTypeIPv4)
				for i := 0; i < 3; i++ {
					ip := layers.IPv4{Version: 4, TTL: 64, Protocol: layers.IPProtocolUDP, SrcIP: net.IPv4(10, 9, 0, 1), DstIP: net.IPv4(10, 9, 1, 1)}
					udp := layers.UDP{SrcPort: layers.UDPPort(3000 + int(n)%7), DstPort: 4000}
					_ = udp.SetNetworkLayerForChecksum(&ip)
					sb := gopacket.NewSerializeBuffer()
					if err := gopacket.SerializeLayers(sb, gopacket.SerializeOptions{ComputeChecksums: true, FixLengths: true}, &ip, &udp, gopacket.Payload([]byte("poi"))); err != nil {
						return
					}
					data := sb.Bytes()
					_ = w.WritePacket(gopacket.CaptureInfo{Timestamp: t0.Add(time.Duration(1000*int(n)+i) * time.Second), CaptureLength: len(data), Length: len(data)}, data)
				}
				_, _ = c.Write(buf.Bytes())
				time.Sleep(150 * time.Millisecond)
			}(c, n)
		}
	}()
	return nil
}

func (h *harness) freeStep(fs *freeState, line string) string {
	f := strings.Fields(line)
	if len(f) == 0 {
		return "nop"
	}
	arg := func(i int) string {
		if i < len(f) {
			return f[i]
		}
		return ""
	}
	pdir, _, _, _, cdir := h.dirs()
	switch f[0] {
	case "pcap":
		if len(f) < 2 || h.pcaps[f[1]] != nil {
			return "noop"
		}
		p := &pcapDef{name: f[1]}
		for i, x := range f[2:] {
			y := strings.SplitN(x, ":", 4)
			if len(y) != 4 {
				return "bad"
			}
			fl, _ := strconv.Atoi(y[0])
			ms, _ := strconv.Atoi(y[1])
			p.dgs = append(p.dgs, datagram{flow: fl, ms: ms, dir: y[2][0], payload: y[3], file: f[1], idx: i})
		}
		h.pcaps[p.name] = p
		if err := writePcap(pdir, p); err != nil {
			return "err"
		}
	case "import":
		names := []string{}
		for _, n := range f[1:] {
			if h.pcaps[n] != nil && !h.imported[n] {
				names = append(names, n)
				h.imported[n] = true
			}
		}
		if len(names) != 0 {
			h.mgr.ImportPcaps(names)
		}
	case "addtag":
		if len(f) >= 4 {
			return errClass(h.mgr.AddTag(f[1], f[2], strings.Join(f[3:], " ")))
		}
	case "updq":
		if len(f) >= 3 {
			return errClass(h.mgr.UpdateTag(f[1], manager.UpdateTagOperationUpdateQuery(strings.Join(f[2:], " "))))
		}
	case "updcolor":
		return errClass(h.mgr.UpdateTag(arg(1), manager.UpdateTagOperationUpdateColor(arg(2))))
	case "updname":
		return errClass(h.mgr.UpdateTag(arg(1), manager.UpdateTagOperationUpdateName(arg(2))))
	case "updconv":
		names := []string{}
		if arg(2) != "-" && arg(2) != "" {
			names = strings.Split(arg(2), ",")
		}
		return errClass(h.mgr.UpdateTag(arg(1), manager.UpdateTagOperationSetConverter(names)))
	case "markadd":
		return errClass(h.mgr.UpdateTag(arg(1), manager.UpdateTagOperationMarkAddStream(idsArg(arg(2)))))
	case "markdel":
		return errClass(h.mgr.UpdateTag(arg(1), manager.UpdateTagOperationMarkDelStream(idsArg(arg(2)))))
	case "deltag":
		return errClass(h.mgr.DelTag(arg(1)))
	case "view":
		conv := arg(1)
		fs.wg.Add(1)
		go func() {
			defer fs.wg.Done()
			v := h.mgr.GetView()
			defer v.Release()
			ids := []uint64{}
			_ = v.AllStreams(context.Background(), func(sc manager.StreamContext) error {
				ids = append(ids, sc.Stream().ID())
				_, _ = sc.AllTags()
				_, _ = sc.AllConverters()
				return nil
			}, manager.PrefetchAllTags())
			for _, id := range ids {
				sc, err := v.Stream(id)
				if err != nil || sc.Stream() == nil {
					continue
				}
				_, _ = sc.Data("")
				if conv != "" && conv != "-" {
					_, _ = sc.Data(conv)
				}
			}
			if q, err := query.Parse("cdata:foo sort:id"); err == nil {
				_, _, _, _ = v.SearchStreams(context.Background(), q, func(manager.StreamContext) error { return nil }, manager.Limit(10, 0), manager.PrefetchAllTags())
			}
			_, _ = v.ReferenceTime()
		}()
	case "status":
		_ = h.mgr.Status()
	case "pcaps":
		_ = h.mgr.KnownPcaps()
	case "tags":
		_ = h.mgr.ListTags()
	case "convs":
		for _, c := range h.mgr.ListConverters() {
			for _, p := range c.Processes {
				_, _ = h.mgr.ConverterStderr(c.Name, p.Pid)
			}
		}
	case "endpoints":
		_ = h.mgr.ListPcapOverIPEndpoints()
	case "webhooks":
		_ = h.mgr.ListPcapProcessorWebhooks()
	case "config":
		_ = h.mgr.Config()
	case "setconfig":
		_ = h.mgr.SetConfig(manager.Config{AutoInsertLimitToQuery: arg(1) == "1"})
	case "listen":
		k, _ := strconv.Atoi(arg(1))
		if fs.listeners[k] != nil {
			return "noop"
		}
		ch, cancel := h.mgr.Listen()
		fs.listeners[k] = cancel
		fs.wg.Add(1)
		go func() {
			defer fs.wg.Done()
			for e := range ch {
				// what the websocket handler of cmd/pkappa2 does with an event
				_, _ = json.Marshal(e)
			}
		}()
	case "unlisten":
		k, _ := strconv.Atoi(arg(1))
		if c := fs.listeners[k]; c != nil {
			c()
			delete(fs.listeners, k)
		}
	case "webhook":
		if arg(1) == "add" {
			return errClass(h.mgr.AddPcapProcessorWebhook(arg(2)))
		}
		return errClass(h.mgr.DelPcapProcessorWebhook(arg(2)))
	case "endpoint":
		switch arg(1) {
		case "serve", "add":
			if err := fs.serve(); err != nil {
				return "err"
			}
			if arg(1) == "add" {
				fs.endpoints[fs.srvAddr] = true
				return errClass(h.mgr.AddPcapOverIPEndpoint(fs.srvAddr))
			}
		case "del":
			if fs.srvAddr != "" {
				delete(fs.endpoints, fs.srvAddr)
				return errClass(h.mgr.DelPcapOverIPEndpoint(fs.srvAddr))
			}
		}
	case "resetconv":
		return errClass(h.mgr.ResetConverter(arg(1)))
	case "chmodconv":
		_ = os.Chmod(filepath.Join(cdir, arg(1)), 0755)
	case "sleep":
		ms, _ := strconv.Atoi(arg(1))
		if ms > 3000 {
			ms = 3000
		}
		time.Sleep(time.Duration(ms) * time.Millisecond)
	default:
		return "ignored"
	}
	return "ok"
}

func (h *harness) quiesce(timeout time.Duration) error {
	deadline := time.Now().Add(timeout)
	calm := 0
	for {
		st := h.mgr.VerifDump()
		if len(st.ImportJobs) == 0 && !st.Merge && !st.Tag && !st.Convert {
			calm++
			if calm >= 4 {
				return nil
			}
		} else {
			calm = 0
		}
		if time.Now().After(deadline) {
			return fmt.Errorf("free-running service did not quiesce: %v", running(st))
		}
		time.Sleep(15 * time.Millisecond)
	}
}

// freeRun executes the rest of the scenario in free-running mode.
func (h *harness) freeRun(sc *bufio.Scanner, w *bufio.Writer) error {
	atomic.StoreInt32(&freeGates, 1)
	for _, k := range []string{"import", "tag", "convert", "merge"} {
		h.g.release(k)
	}
	for k, vr := range h.views {
		vr.v.Release()
		delete(h.views, k)
	}
	fs := &freeState{listeners: map[int]func(){}, endpoints: map[string]bool{}}
	emit := func(op, res string) {
		b, _ := json.Marshal(map[string]interface{}{"ev": map[string]interface{}{"op": op, "free": true, "noop": true, "res": res}, "st": map[string]interface{}{}})
		w.Write(b)
		w.WriteByte('\n')
		w.Flush()
	}
	emit("free", "ok")
	for sc.Scan() {
		h.lineNo++
		line := strings.TrimSpace(sc.Text())
		if line == "" || strings.HasPrefix(line, "#") {
			continue
		}
		res := h.freeStep(fs, line)
		emit(strings.Fields(line)[0], res)
	}
	for a := range fs.endpoints {
		_ = h.mgr.DelPcapOverIPEndpoint(a)
	}
	if fs.srv != nil {
		fs.srv.Close()
	}
	time.Sleep(30 * time.Millisecond)
	err := h.quiesce(90 * time.Second)
	for k, c := range fs.listeners {
		c()
		delete(fs.listeners, k)
	}
	done := make(chan struct{})
	go func() {
		fs.wg.Wait()
		close(done)
	}()
	select {
	case <-done:
	case <-time.After(60 * time.Second):
		if err == nil {
			err = fmt.Errorf("asynchronous API calls of the free-running part did not return")
		}
	}
	if err == nil {
		err = h.quiesce(90 * time.Second)
	}
	// Close() panics (`close of closed channel`) on a listener that was cancelled while a delivery to it
	// was pending — not a matter of this property: wait until the cancelled listeners are gone, and leave
	// Close out if they are not.  A Close that does not return is not a matter of this property either.
	drained := false
	for i := 0; i < 40 && !drained; i++ {
		if h.mgr.VerifListenerCount() == 0 {
			drained = true
		} else {
			time.Sleep(10 * time.Millisecond)
		}
	}
	closed := make(chan struct{})
	if drained {
		go func() {
			h.mgr.Close()
			close(closed)
		}()
	}
	stats := map[string]interface{}{"op": "freestats", "free": true, "noop": true, "served": atomic.LoadInt32(&fs.served)}
	for i, n := range freeJobNames {
		stats[n] = atomic.LoadInt64(&freeDone[i])
	}
	b, _ := json.Marshal(map[string]interface{}{"ev": stats, "st": map[string]interface{}{}})
	w.Write(b)
	w.WriteByte('\n')
	if !drained {
		emit("close", "skipped")
	} else {
		select {
		case <-closed:
			emit("close", "ok")
		case <-time.After(10 * time.Second):
			emit("close", "timeout")
		}
	}
	return err
}

// genFree writes a scenario: `k` gated ops (generator of main.go, ends settled), then `free` and `n`
// free-running ops.
func genFree(seed uint64, n, k int, w io.Writer) {
	if k > 0 {
		gen(seed, k, w)
	}
	r := lib.NewRNG(seed ^ 0xC20C20)
	fmt.Fprintf(w, "free\n")
	npcap := 100
	clock := 100000
	pending := []string{}
	flows := 0
	mk := func() {
		name := fmt.Sprintf("q%03d.pcap", npcap)
		npcap++
		parts := []string{}
		base := clock
		if r.Chance(1, 3) && clock > 100400 {
			base = clock - 300 - r.Intn(100)
		} else {
			clock += 200
		}
		ms := base
		for i := 0; i < 1+r.Intn(3); i++ {
			fl := 4 + r.Intn(4)
			if fl-3 > flows {
				flows = fl - 3
			}
			for j := 0; j < 1+r.Intn(3); j++ {
				dir := "c"
				if j > 0 && r.Bool() {
					dir = "s"
				}
				ms += 1 + r.Intn(5)
				parts = append(parts, fmt.Sprintf("%d:%d:%s:%s", fl, ms, dir, lib.Pick(r, words)))
			}
		}
		fmt.Fprintf(w, "pcap %s %s\n", name, strings.Join(parts, " "))
		pending = append(pending, name)
	}
	sid := func() int { return r.Intn(8) }
	fmt.Fprintf(w, "listen 0\n")
	if r.Chance(1, 2) {
		fmt.Fprintf(w, "addtag tag/free red cport:%d\n", 1004+r.Intn(4))
		fmt.Fprintf(w, "updconv tag/free conv1\n")
	}
	if r.Chance(1, 3) {
		fmt.Fprintf(w, "endpoint add\n")
	}
	slept := false
	for i := 0; i < n; i++ {
		switch x := r.Intn(44); {
		case x < 8:
			mk()
			if r.Chance(4, 5) {
				j := 1 + r.Intn(len(pending))
				fmt.Fprintf(w, "import %s\n", strings.Join(pending[:j], " "))
				pending = pending[j:]
			}
		case x < 12:
			t := lib.Pick(r, tagNames)
			if strings.HasPrefix(t, "mark/") {
				fmt.Fprintf(w, "addtag %s red id:%d\n", t, sid())
			} else {
				fmt.Fprintf(w, "addtag %s red %s\n", t, lib.Pick(r, []string{"cport:1005", "sport:2004", "cdata:foo", "sdata:bar", "cbytes:3:", "cport:1006 -sport:2001", "tag:a", "-service:s cdata:x"}))
			}
		case x < 15:
			fmt.Fprintf(w, "updq %s %s\n", lib.Pick(r, tagNames[1:]), lib.Pick(r, []string{"cport:1004", "sport:2005", "cdata:GET", "sbytes:1:", "tag:a cport:1005"}))
		case x < 18:
			fmt.Fprintf(w, "%s mark/m %d\n", lib.Pick(r, []string{"markadd", "markadd", "markdel"}), sid())
		case x < 19:
			fmt.Fprintf(w, "deltag %s\n", lib.Pick(r, tagNames))
		case x < 22:
			fmt.Fprintf(w, "updconv %s %s\n", lib.Pick(r, append([]string{"tag/free"}, tagNames...)), lib.Pick(r, []string{"conv1", "conv1", "conv1", "-"}))
		case x < 27:
			fmt.Fprintf(w, "view %s\n", lib.Pick(r, []string{"conv1", "conv1", "-"}))
		case x < 30:
			fmt.Fprintf(w, "status\n")
		case x < 32:
			fmt.Fprintf(w, "pcaps\n")
		case x < 34:
			fmt.Fprintf(w, "tags\n")
		case x < 36:
			fmt.Fprintf(w, "convs\n")
		case x < 37:
			fmt.Fprintf(w, "endpoints\n")
		case x < 38:
			fmt.Fprintf(w, "%s %d\n", lib.Pick(r, []string{"listen", "unlisten"}), r.Intn(3))
		case x < 39:
			fmt.Fprintf(w, "webhook %s http://127.0.0.1:1/hook%d\n", lib.Pick(r, []string{"add", "add", "del"}), r.Intn(2))
		case x < 40:
			fmt.Fprintf(w, "endpoint %s\n", lib.Pick(r, []string{"add", "add", "del"}))
		case x < 41:
			fmt.Fprintf(w, "%s conv1\n", lib.Pick(r, []string{"resetconv", "chmodconv"}))
		case x < 42:
			fmt.Fprintf(w, "setconfig %d\n", r.Intn(2))
			fmt.Fprintf(w, "config\nwebhooks\n")
		default:
			fmt.Fprintf(w, "sleep %d\n", lib.Pick(r, []int{1, 5, 20, 60}))
			if !slept && r.Chance(1, 2) {
				// the periodic tag-update worker fires once per second
				fmt.Fprintf(w, "sleep 1050\n")
				slept = true
			}
		}
	}
	if !slept {
		fmt.Fprintf(w, "sleep 1050\n")
	}
	fmt.Fprintf(w, "status\ntags\nendpoints\nconvs\n")
}
