// mgr: scenario harness for the service loop of internal/index/manager (properties C06, C09,
// C10, C12, C13, C16).
//
//	mgr gen -seed S -n N [-profile P]   write a generated scenario (one op per line) to stdout
//	mgr run -oracle FILE                execute a scenario from stdin against a REAL manager in a
//	                                    temp dir; the four background jobs block at the `verif`
//	                                    gates until the scenario releases them, so the scenario
//	                                    chooses the order of completions. One JSON line per op:
//	                                    {"ev": <event + payload for the Lean model>, "st": <observed state>}
//
// When the binary is started under the name conv* it acts as the deterministic converter.
package main

import (
	"bufio"
	"context"
	"encoding/base64"
	"encoding/json"
	"flag"
	"fmt"
	"io"
	"log"
	"net"
	"os"
	"path/filepath"
	"sort"
	"strconv"
	"strings"
	"sync"
	"sync/atomic"
	"time"

	"github.com/gopacket/gopacket"
	"github.com/gopacket/gopacket/layers"
	"github.com/gopacket/gopacket/pcapgo"
	"github.com/spq/pkappa2/internal/index"
	"github.com/spq/pkappa2/internal/index/manager"
	"github.com/spq/pkappa2/internal/query"
	"github.com/spq/pkappa2/internal/verifh/lib"
)

// ---------------------------------------------------------------------------------------------
// converter mode: echo every chunk as "<" + leet(content) + ">" (same direction, same time); leet replaces every
// 'o' by '0', so the words "f00" and "b0b"… occur in converter output only: a data filter on such a word is true
// for a stream iff some converter has cached output for it and its raw payload holds the plain word
// ---------------------------------------------------------------------------------------------

func leet(s string) string { return strings.ReplaceAll(s, "o", "0") }

func converterMain() {
	in := bufio.NewReaderSize(os.Stdin, 1<<20)
	out := bufio.NewWriter(os.Stdout)
	for {
		meta, err := in.ReadBytes('\n')
		if err != nil {
			return
		}
		chunks := [][]byte{}
		for {
			line, err := in.ReadBytes('\n')
			if err != nil {
				return
			}
			if len(line) <= 1 {
				break
			}
			chunks = append(chunks, line)
		}
		// a slow converter: while the hold file exists the conversion stays "in flight" (scenario op `convhold`)
		if hold := os.Getenv("VERIF_CONV_HOLD"); hold != "" {
			for {
				if _, err := os.Stat(hold); err != nil {
					break
				}
				time.Sleep(3 * time.Millisecond)
			}
		}
		for _, c := range chunks {
			var m map[string]interface{}
			if err := json.Unmarshal(c, &m); err != nil {
				return
			}
			raw, _ := base64.StdEncoding.DecodeString(m["Content"].(string))
			m["Content"] = base64.StdEncoding.EncodeToString([]byte("<" + leet(string(raw)) + ">"))
			b, _ := json.Marshal(m)
			out.Write(b)
			out.WriteByte('\n')
		}
		out.WriteByte('\n')
		out.Write(meta)
		out.Flush()
	}
}

// ---------------------------------------------------------------------------------------------
// world: ground truth
// ---------------------------------------------------------------------------------------------

type datagram struct {
	flow    int
	ms      int
	dir     byte // 'c' or 's'
	payload string
	file    string
	idx     int
}

type pcapDef struct {
	name string
	dgs  []datagram
}

var t0 = time.Date(2020, 1, 1, 12, 0, 0, 0, time.UTC)

func writePcap(dir string, p *pcapDef) error {
	f, err := os.Create(filepath.Join(dir, p.name))
	if err != nil {
		return err
	}
	w := pcapgo.NewWriter(f)
	if err := w.WriteFileHeader(65536, layers.LinkTypeIPv4); err != nil {
		return err
	}
	for _, d := range p.dgs {
		cip, sip := net.IPv4(10, 0, 0, byte(1+d.flow)), net.IPv4(10, 0, 1, byte(1+d.flow))
		cp, sp := uint16(1000+d.flow), uint16(2000+d.flow)
		ip := layers.IPv4{Version: 4, TTL: 64, Protocol: layers.IPProtocolUDP}
		udp := layers.UDP{}
		if d.dir == 'c' {
			ip.SrcIP, ip.DstIP, udp.SrcPort, udp.DstPort = cip, sip, layers.UDPPort(cp), layers.UDPPort(sp)
		} else {
			ip.SrcIP, ip.DstIP, udp.SrcPort, udp.DstPort = sip, cip, layers.UDPPort(sp), layers.UDPPort(cp)
		}
		_ = udp.SetNetworkLayerForChecksum(&ip)
		buf := gopacket.NewSerializeBuffer()
		if err := gopacket.SerializeLayers(buf, gopacket.SerializeOptions{ComputeChecksums: true, FixLengths: true},
			&ip, &udp, gopacket.Payload([]byte(d.payload))); err != nil {
			return err
		}
		data := buf.Bytes()
		if err := w.WritePacket(gopacket.CaptureInfo{
			Timestamp: t0.Add(time.Duration(d.ms) * time.Millisecond), CaptureLength: len(data), Length: len(data)}, data); err != nil {
			return err
		}
	}
	return f.Close()
}

// flowTruth is what the stream of a flow must look like given the processed captures.
type flowTruth struct {
	flow           int
	cport, sport   int
	cbytes, sbytes int
	cdata, sdata   string
	firstFile      string
	firstIdx       int
	firstNew       bool // earliest datagram comes from the captures of the current import
	hasOld, hasNew bool
	swapped        bool // the flow's "server" side sent the earliest datagram
	cached         bool // some converter holds cached output for the stream (set per evaluation from the service state)
}

func truthOf(pcaps map[string]*pcapDef, processed []string, newOnes map[string]bool) map[int]*flowTruth {
	all := []datagram{}
	for _, n := range processed {
		all = append(all, pcaps[n].dgs...)
	}
	sort.SliceStable(all, func(i, j int) bool {
		a, b := all[i], all[j]
		if a.ms != b.ms {
			return a.ms < b.ms
		}
		if a.file != b.file {
			return a.file < b.file
		}
		return a.idx < b.idx
	})
	res := map[int]*flowTruth{}
	for _, d := range all {
		ft := res[d.flow]
		if ft == nil {
			// the sender of the earliest datagram is the client of the stream
			ft = &flowTruth{flow: d.flow, cport: 1000 + d.flow, sport: 2000 + d.flow, firstFile: d.file, firstIdx: d.idx, firstNew: newOnes[d.file]}
			if d.dir == 's' {
				ft.cport, ft.sport, ft.swapped = 2000+d.flow, 1000+d.flow, true
			}
			res[d.flow] = ft
		}
		if newOnes[d.file] {
			ft.hasNew = true
		} else {
			ft.hasOld = true
		}
		if (d.dir == 'c') != ft.swapped {
			ft.cbytes += len(d.payload)
			ft.cdata += d.payload
		} else {
			ft.sbytes += len(d.payload)
			ft.sdata += d.payload
		}
	}
	return res
}

// ---------------------------------------------------------------------------------------------
// tag definition family with an independent evaluator
// ---------------------------------------------------------------------------------------------

// evalDef evaluates a definition of the generated family on a stream: conjunction of atoms
// separated by blanks, each optionally negated with '-':
//
//	sport:N cport:N cbytes:N: sbytes:N: cdata:lit sdata:lit id:a,b,c tag:x service:x mark:x generated:x
//
// A definition may also carry ONE sub-query named s:  atoms written `@s:<atom>` (optionally negated)
// constrain another stream, `cbytes:@s:cbytes@` / `sbytes:@s:sbytes@` / `cport:@s:cport@` relate this
// stream to it: the definition holds for a stream iff its own atoms hold and SOME existing stream (possibly
// the same one) satisfies the sub-query atoms and the relations.  h.world = all existing streams.
func (h *harness) evalDef(def string, id uint64, ft *flowTruth, depth int) (bool, bool) {
	if depth > 20 {
		return false, false
	}
	fields := strings.Fields(def)
	if !strings.Contains(def, "@s:") {
		return h.evalAtoms(fields, id, ft, depth)
	}
	if h.world == nil {
		return false, false
	}
	mainAtoms, subAtoms, rels := []string{}, []string{}, []string{}
	for _, a := range fields {
		switch {
		case strings.HasPrefix(a, "@s:"):
			subAtoms = append(subAtoms, strings.TrimPrefix(a, "@s:"))
		case strings.HasPrefix(a, "-@s:"):
			subAtoms = append(subAtoms, "-"+strings.TrimPrefix(a, "-@s:"))
		case strings.Contains(a, ":@s:"):
			rels = append(rels, a)
		default:
			mainAtoms = append(mainAtoms, a)
		}
	}
	mainRes, ok := h.evalAtoms(mainAtoms, id, ft, depth)
	if !ok {
		return false, false
	}
	val := func(f *flowTruth, k string) (int, bool) {
		switch k {
		case "cbytes":
			return f.cbytes, true
		case "sbytes":
			return f.sbytes, true
		case "cport":
			return f.cport, true
		case "sport":
			return f.sport, true
		}
		return 0, false
	}
	exists := false
	for id2, ft2 := range h.world {
		r, ok := h.evalAtoms(subAtoms, id2, ft2, depth)
		if !ok {
			return false, false
		}
		if !r {
			continue
		}
		all := true
		for _, rel := range rels {
			k, v, _ := strings.Cut(rel, ":")
			k2 := strings.TrimSuffix(strings.TrimPrefix(v, "@s:"), "@")
			a, ok1 := val(ft, k)
			b, ok2 := val(ft2, k2)
			if !ok1 || !ok2 {
				return false, false
			}
			all = all && a == b
		}
		if all {
			exists = true
			break
		}
	}
	return mainRes && exists, true
}

func (h *harness) evalAtoms(atoms []string, id uint64, ft *flowTruth, depth int) (bool, bool) {
	if depth > 20 {
		return false, false
	}
	res := true
	for _, atom := range atoms {
		neg := strings.HasPrefix(atom, "-")
		a := strings.TrimPrefix(atom, "-")
		k, v, ok := strings.Cut(a, ":")
		if !ok {
			return false, false
		}
		var r bool
		switch k {
		case "sport":
			n, _ := strconv.Atoi(v)
			r = ft.sport == n
		case "cport":
			n, _ := strconv.Atoi(v)
			r = ft.cport == n
		case "cbytes", "sbytes":
			n, err := strconv.Atoi(strings.TrimSuffix(v, ":"))
			if err != nil || !strings.HasSuffix(v, ":") {
				return false, false
			}
			if k == "cbytes" {
				r = ft.cbytes >= n
			} else {
				r = ft.sbytes >= n
			}
		case "cdata":
			// a data filter without converter name searches the raw payload AND every cached converter output
			r = strings.Contains(ft.cdata, v) || (ft.cached && strings.Contains(leet(ft.cdata), v))
			if !strings.Contains(ft.cdata, v) && strings.Contains(leet(ft.cdata), v) && h.convInFlight {
				return false, false // output cached by a converter job whose completion is not delivered yet: undetermined
			}
		case "sdata":
			r = strings.Contains(ft.sdata, v) || (ft.cached && strings.Contains(leet(ft.sdata), v))
			if !strings.Contains(ft.sdata, v) && strings.Contains(leet(ft.sdata), v) && h.convInFlight {
				return false, false
			}
		case "id":
			if v == "-1" {
				r = false
				break
			}
			for _, x := range strings.Split(v, ",") {
				n, err := strconv.ParseUint(x, 10, 64)
				if err != nil {
					return false, false
				}
				if n == id {
					r = true
				}
			}
		case "tag", "service", "mark", "generated":
			t, ok := h.tagDefs[k+"/"+v]
			if !ok {
				return false, false
			}
			var ok2 bool
			r, ok2 = h.evalDef(t, id, ft, depth+1)
			if !ok2 {
				return false, false
			}
		default:
			return false, false
		}
		if neg {
			r = !r
		}
		res = res && r
	}
	return res, true
}

// ---------------------------------------------------------------------------------------------
// gates
// ---------------------------------------------------------------------------------------------

type gates struct {
	mu       sync.Mutex
	waiting  map[string]chan struct{}
	args     map[string][]string
	arrivals map[string]int
}

func (g *gates) hook(job string, args ...string) {
	if atomic.LoadInt32(&freeGates) != 0 {
		freeJobDone(job) // free-running mode (free.go, property C20): jobs complete on their own
		return
	}
	ch := make(chan struct{})
	g.mu.Lock()
	g.waiting[job] = ch
	g.args[job] = args
	g.arrivals[job]++
	g.mu.Unlock()
	<-ch
}
func (g *gates) at(job string) bool {
	g.mu.Lock()
	defer g.mu.Unlock()
	return g.waiting[job] != nil
}
func (g *gates) arrived(job string) int {
	g.mu.Lock()
	defer g.mu.Unlock()
	return g.arrivals[job]
}
func (g *gates) release(job string) bool {
	g.mu.Lock()
	ch := g.waiting[job]
	delete(g.waiting, job)
	g.mu.Unlock()
	if ch == nil {
		return false
	}
	close(ch)
	return true
}
func (g *gates) arg(job string) []string {
	g.mu.Lock()
	defer g.mu.Unlock()
	return g.args[job]
}

// ---------------------------------------------------------------------------------------------
// harness
// ---------------------------------------------------------------------------------------------

type viewRec struct {
	v       manager.View
	files   []int
	answers string // canonical dump of everything the view answered at open time
}

type harness struct {
	base         string
	mgr          *manager.Manager
	g            *gates
	pcaps        map[string]*pcapDef
	queued       []string // captures handed to ImportPcaps, not yet processed
	done         []string // processed captures
	tagDefs      map[string]string
	ords         map[string]int // index file name -> ordinal
	views        map[int]*viewRec
	imported     map[string]bool
	prev         manager.VerifState
	oracle       *bufio.Writer
	lineNo       int
	tagSnapU     []uint              // Uncertain of the tag the running tagging job works on, at job start
	jobHolds     map[string][]string // index files each running job holds
	pendingTruth map[int]*flowTruth
	importBatch  []string
	world        map[uint64]*flowTruth // every existing stream (for definitions with a sub-query)
	// the state file that the most recent state save replaced (and removed), and the scenario line of that save
	removedState  *stateFileCopy
	removedAt     int
	// what was acknowledged BEFORE the most recent config / webhook / endpoint call (a kill inside the state
	// save of that call may show either)
	preConfig    manager.Config
	preHooks     []string
	preEndpoints []string
	convInFlight  bool            // a converter job is in flight: what it cached is not "current data" for the tags yet
	detached      map[string]bool // converter -> detached from its last tag and not attached (or used on demand) since
	convHeld      bool            // conversions are held in flight (op `convhold on`): the converter job cannot reach its gate
	heldJob       bool            // a hold was on at some time while the converter job now in flight was running
	detachedInJob map[string]bool // converter -> it was detached from its last tag while a converter job was in flight
}

type stateFileCopy struct {
	name string
	data []byte
}

// stateFiles reads the (small) state files of the live service
func (h *harness) stateFiles() map[string][]byte {
	_, _, _, stateDir, _ := h.dirs()
	res := map[string][]byte{}
	es, _ := os.ReadDir(stateDir)
	for _, e := range es {
		if !e.IsDir() {
			if b, err := os.ReadFile(filepath.Join(stateDir, e.Name())); err == nil {
				res[e.Name()] = b
			}
		}
	}
	return res
}

func (h *harness) complain(prop, format string, a ...interface{}) {
	if h.oracle != nil {
		fmt.Fprintf(h.oracle, "ORACLE line=%d prop=%s %s\n", h.lineNo, prop, fmt.Sprintf(format, a...))
		h.oracle.Flush()
	}
}

func (h *harness) dirs() (string, string, string, string, string) {
	return filepath.Join(h.base, "pcap") + "/", filepath.Join(h.base, "index") + "/", filepath.Join(h.base, "snapshot") + "/",
		filepath.Join(h.base, "state") + "/", filepath.Join(h.base, "converter") + "/"
}

func (h *harness) start() error {
	os.Setenv("VERIF_CONV_HOLD", filepath.Join(h.base, "convhold"))
	p, i, s, st, c := h.dirs()
	m, err := manager.New(p, i, s, st, c, "")
	if err != nil {
		return err
	}
	h.mgr = m
	return nil
}

func (h *harness) ord(fn string) int {
	if o, ok := h.ords[fn]; ok {
		return o
	}
	o := len(h.ords)
	h.ords[fn] = o
	return o
}

// running reports which background jobs the service believes are running.
func running(st manager.VerifState) map[string]bool {
	return map[string]bool{"import": len(st.ImportJobs) > 0, "merge": st.Merge, "tag": st.Tag, "convert": st.Convert}
}

// sync waits until every running job has reached its gate and returns the state.
func (h *harness) sync() (manager.VerifState, error) {
	// (a job reaches its gate within milliseconds; a job that is marked running but never arrives — work that was
	// left behind without a job — is reported after 20 s)
	deadline := time.Now().Add(20 * time.Second)
	for {
		st := h.mgr.VerifDump()
		ok := true
		for job, r := range running(st) {
			if r && !h.g.at(job) && !(job == "convert" && h.convHeld) {
				ok = false
			}
		}
		if ok {
			// state may have changed between dump and gate check only through a completion, and
			// completions need a release; take a final dump for a consistent picture
			return h.mgr.VerifDump(), nil
		}
		if time.Now().After(deadline) {
			return st, fmt.Errorf("timeout waiting for jobs to reach their gates: %v", running(st))
		}
		time.Sleep(2 * time.Millisecond)
	}
}

func u2i(xs []uint) []int {
	r := make([]int, len(xs))
	for i, x := range xs {
		r[i] = int(x)
	}
	return r
}
func u642i(xs []uint64) []int {
	r := make([]int, len(xs))
	for i, x := range xs {
		r[i] = int(x)
	}
	return r
}

type stTag struct {
	Name  string   `json:"name"`
	Def   string   `json:"def"`
	Color string   `json:"color"`
	M     []int    `json:"m"`
	U     []int    `json:"u"`
	Conv  []string `json:"conv"`
	RefBy []string `json:"refby"`
	Main  []string `json:"main"`
	Sub   []string `json:"sub"`
	MFeat int      `json:"mfeat"`
	SFeat int      `json:"sfeat"`
}
type stFile struct {
	Ord int   `json:"ord"`
	IDs []int `json:"ids"`
	Use int   `json:"use"`
}
type canonState struct {
	Tags    []stTag          `json:"tags"`
	Idx     []int            `json:"idx"`
	Files   []stFile         `json:"files"`
	Next    int              `json:"next"`
	All     int              `json:"all"` // allStreams must be {0..all-1}; -1 if not a prefix set
	Queue   []string         `json:"queue"`
	Merge   bool             `json:"merge"`
	Tag     bool             `json:"tag"`
	Convert bool             `json:"convert"`
	Unm     int              `json:"unm"`
	NRec    int              `json:"nrec"`
	Upd     []int            `json:"upd"`
	Rst     []int            `json:"rst"`
	Add     []int            `json:"add"`
	ToConv  map[string][]int `json:"toconv"`
	Cached  map[string][]int `json:"cached"`
	Convs   []string         `json:"convs"`
	Pcaps   []string         `json:"pcaps"`
}

func nn(xs []string) []string {
	if xs == nil {
		return []string{}
	}
	return xs
}

func (h *harness) canon(st manager.VerifState) canonState {
	cs := canonState{Next: int(st.NextStreamID), Queue: nn(st.ImportJobs), Merge: st.Merge, Tag: st.Tag, Convert: st.Convert,
		Unm: st.NUnmergeable, NRec: st.NStreamRecords, Upd: u2i(st.Updated), Rst: u2i(st.Reset), Add: u2i(st.Added),
		ToConv: map[string][]int{}, Cached: map[string][]int{}, Convs: nn(st.Converters), Pcaps: nn(st.KnownPcaps),
		Tags: []stTag{}, Idx: []int{}, Files: []stFile{}}
	cs.All = len(st.AllStreams)
	for i, b := range st.AllStreams {
		if int(b) != i {
			cs.All = -1
		}
	}
	for _, t := range st.Tags {
		cs.Tags = append(cs.Tags, stTag{Name: t.Name, Def: t.Definition, Color: t.Color, M: u2i(t.Matches), U: u2i(t.Uncertain),
			Conv: nn(t.Converters), RefBy: nn(t.ReferencedBy), Main: nn(t.MainTags), Sub: nn(t.SubQueryTags), MFeat: int(t.MainFeatures), SFeat: int(t.SubFeat)})
	}
	for _, fn := range st.Indexes {
		cs.Idx = append(cs.Idx, h.ord(fn))
	}
	for fn, n := range st.Used {
		cs.Files = append(cs.Files, stFile{Ord: h.ord(fn), IDs: u642i(st.IndexIDs[fn]), Use: int(n)})
	}
	sort.Slice(cs.Files, func(i, j int) bool { return cs.Files[i].Ord < cs.Files[j].Ord })
	for n, b := range st.ToConvert {
		cs.ToConv[n] = u2i(b)
	}
	for n, b := range st.Cached {
		cs.Cached[n] = u642i(b)
	}
	return cs
}

// ---------------------------------------------------------------------------------------------
// oracles (written from the property statements, independent of the Lean model)
// ---------------------------------------------------------------------------------------------

type streamObs struct {
	id             uint64
	cport, sport   int
	cbytes, sbytes int
	cdata, sdata   string
	tags           []string
	conv           map[string]string
	single         string // what View.Stream(id) of the SAME view shows for this id ("cdata|sdata", or the error)
}

func readView(v *manager.View, prefetch bool, convs []string) ([]streamObs, error) {
	res := []streamObs{}
	opts := []manager.StreamsOption{}
	if prefetch {
		opts = append(opts, manager.PrefetchAllTags())
	}
	err := v.AllStreams(context.Background(), func(sc manager.StreamContext) error {
		s := sc.Stream()
		o := streamObs{id: s.ID(), cport: int(s.ClientPort), sport: int(s.ServerPort), cbytes: int(s.ClientBytes), sbytes: int(s.ServerBytes), conv: map[string]string{}}
		data, err := s.Data()
		if err != nil {
			return err
		}
		for _, d := range data {
			if d.Direction == index.DirectionClientToServer {
				o.cdata += string(d.Content)
			} else {
				o.sdata += string(d.Content)
			}
		}
		// without prefetch this lists the tags the view reports as decided and matching
		o.tags, err = sc.AllTags()
		if err != nil {
			return err
		}
		res = append(res, o)
		return nil
	}, opts...)
	// the same view asked for every listed stream by id
	for i := range res {
		sc, serr := v.Stream(res[i].id)
		if serr != nil || sc.Stream() == nil {
			res[i].single = fmt.Sprintf("error: %v", serr)
			continue
		}
		data, derr := sc.Stream().Data()
		if derr != nil {
			res[i].single = fmt.Sprintf("error: %v", derr)
			continue
		}
		c, sd := "", ""
		for _, d := range data {
			if d.Direction == index.DirectionClientToServer {
				c += string(d.Content)
			} else {
				sd += string(d.Content)
			}
		}
		res[i].single = c + "|" + sd
	}
	sort.Slice(res, func(i, j int) bool { return res[i].id < res[j].id })
	return res, err
}

func flowOfPort(p int) int {
	if p >= 2000 {
		return p - 2000
	}
	return p - 1000
}

func obsString(os []streamObs) string {
	b := strings.Builder{}
	for _, o := range os {
		fmt.Fprintf(&b, "%d:%d>%d c%d s%d %q %q %v;", o.id, o.cport, o.sport, o.cbytes, o.sbytes, o.cdata, o.sdata, o.tags)
	}
	return b.String()
}

// checkOracles runs after every event, on the state `st` in which all running jobs are parked.
func (h *harness) checkOracles(st manager.VerifState) {
	truth := truthOf(h.pcaps, h.done, nil)
	// --- C10: a fresh view holds every stream of every processed capture exactly once, newest version
	v := h.mgr.GetView()
	obs, err := readView(&v, true, st.Converters)
	if err != nil {
		h.complain("C10", "fresh view cannot be read: %v", err)
	}
	idOf := map[int]uint64{}
	seenID := map[uint64]bool{}
	byID := map[uint64]*flowTruth{}
	for _, o := range obs {
		if seenID[o.id] {
			h.complain("C10", "stream id %d listed twice in a fresh view", o.id)
		}
		seenID[o.id] = true
		if o.single != o.cdata+"|"+o.sdata {
			h.complain("C10", "a fresh view shows stream %d as %q when asked by id and as %q when listing all streams (not the newest version under one of them)", o.id, o.single, o.cdata+"|"+o.sdata)
		}
		f := flowOfPort(o.cport)
		ft := truth[f]
		if ft == nil || o.sport != ft.sport || o.cport != ft.cport {
			h.complain("C10", "view shows stream %d (%d>%d) that no processed capture contains", o.id, o.cport, o.sport)
			continue
		}
		if _, dup := idOf[f]; dup {
			h.complain("C08", "connection of flow %d visible under two stream ids (%d and %d)", f, idOf[f], o.id)
		}
		idOf[f] = o.id
		ftc := *ft
		for _, ids := range st.Cached {
			for _, cid := range ids {
				if cid == o.id {
					ftc.cached = true
				}
			}
		}
		byID[o.id] = &ftc
		if o.cbytes != ft.cbytes || o.sbytes != ft.sbytes || o.cdata != ft.cdata || o.sdata != ft.sdata {
			h.complain("C10", "stream %d of flow %d is not the newest version: have c=%d/%q s=%d/%q want c=%d/%q s=%d/%q", o.id, f,
				o.cbytes, o.cdata, o.sbytes, o.sdata, ft.cbytes, ft.cdata, ft.sbytes, ft.sdata)
		}
	}
	for f := range truth {
		if _, ok := idOf[f]; !ok {
			h.complain("C10", "flow %d of a processed capture is missing from a fresh view", f)
		}
	}
	// --- C06 (service state): decided (id < next, not uncertain) => matches == evaluation of the definition
	h.world = byID
	h.convInFlight = st.Convert
	if !st.Convert {
		h.heldJob = false
	} else if h.convHeld {
		h.heldJob = true
	}
	for _, t := range st.Tags {
		unc := map[uint]bool{}
		for _, u := range t.Uncertain {
			unc[u] = true
		}
		mat := map[uint]bool{}
		for _, m := range t.Matches {
			mat[m] = true
		}
		for id := uint64(0); id < st.NextStreamID; id++ {
			if unc[uint(id)] {
				continue
			}
			ft := byID[id]
			if ft == nil {
				continue
			}
			want, ok := h.evalDef(t.Definition, id, ft, 0)
			if !ok {
				continue
			}
			if mat[uint(id)] != want {
				h.complain("C06", "tag %s (%q) reports stream %d as decided with match=%v but its definition evaluates to %v", t.Name, t.Definition, id, mat[uint(id)], want)
			}
		}
	}
	// --- C06 (view answers): with all tags prefetched every answer is decided and must be the truth
	for _, o := range obs {
		ft := byID[o.id]
		if ft == nil {
			continue
		}
		want := []string{}
		for _, t := range st.Tags {
			r, ok := h.evalDef(t.Definition, o.id, ft, 0)
			if !ok {
				want = nil
				break
			}
			if r {
				want = append(want, t.Name)
			}
		}
		if want != nil {
			sort.Strings(want)
			if strings.Join(want, ",") != strings.Join(o.tags, ",") {
				h.complain("C06", "view answers tags %v for stream %d, evaluation of the definitions gives %v", o.tags, o.id, want)
			}
		}
	}
	// --- C06 (searches): "the result of any search using tag, service, mark or generated filters is correct even
	//     while … are in flight": `tag:x` and `-tag:x` on a fresh view return exactly the streams the definition
	//     of x holds / does not hold for (undecided streams are decided on demand by inlining the definition)
	if len(st.Tags) != 0 && len(byID) != 0 {
		sv := h.mgr.GetView()
		for _, t := range st.Tags {
			k, nm, okn := strings.Cut(t.Name, "/")
			if !okn {
				continue
			}
			want := map[bool][]int{}
			determined := true
			for id := uint64(0); id < st.NextStreamID && determined; id++ {
				ft := byID[id]
				if ft == nil {
					continue
				}
				r, ok := h.evalDef(t.Definition, id, ft, 0)
				if !ok {
					determined = false
				}
				want[r] = append(want[r], int(id))
			}
			if !determined {
				continue
			}
			// Deciding an undecided tag on the fly inlines its definition, and the definitions of the undecided tags
			// it refers to, into the query; a negation on the way is expanded by De Morgan, so the normal form grows
			// exponentially with the nesting of undecided references (C14's quantifier names that). Searches are
			// issued only where that stays small: `tag:x` when the undecided tags x refers to do not refer to
			// undecided tags themselves, `-tag:x` when x refers to no undecided tag at all.
			var udepth func(name string, seen map[string]bool) int
			udepth = func(name string, seen map[string]bool) int {
				if seen[name] {
					return 99
				}
				seen[name] = true
				defer delete(seen, name)
				d := 0
				for _, t1 := range st.Tags {
					if t1.Name != name {
						continue
					}
					for _, rn := range append(append([]string(nil), t1.MainTags...), t1.SubQueryTags...) {
						for _, t2 := range st.Tags {
							if t2.Name == rn && len(t2.Uncertain) != 0 {
								if x := 1 + udepth(rn, seen); x > d {
									d = x
								}
							}
						}
					}
				}
				return d
			}
			depth := 0
			if len(t.Uncertain) != 0 {
				depth = udepth(t.Name, map[string]bool{})
			}
			for _, neg := range []bool{false, true} {
				if (neg && depth > 0) || depth > 1 {
					continue
				}
				text := k + ":" + nm + " sort:id"
				if neg {
					text = "-" + text
				}
				q, err := query.Parse(text)
				if err != nil {
					continue
				}
				got := []int{}
				_, _, _, err = sv.SearchStreams(context.Background(), q, func(sc manager.StreamContext) error {
					got = append(got, int(sc.Stream().ID()))
					return nil
				}, manager.Limit(1000, 0))
				if err != nil {
					h.complain("C06", "search %q fails: %v", text, err)
					continue
				}
				sort.Ints(got)
				w := want[!neg]
				if fmt.Sprint(got) != fmt.Sprint(append([]int{}, w...)) {
					h.complain("C06", "search %q returns streams %v, the definition %q of %s gives %v", text, got, t.Definition, t.Name, w)
				}
			}
		}
		sv.Release()
		h.mgr.VerifDump()
	}
	// --- C06 (tags shown for the streams of a search page): a search that returns only SOME streams, with all tags
	//     prefetched for the page, shows for each returned stream exactly the tags whose definition holds for it
	//     (a tag that relates a stream to OTHER streams must be decided with what holds for those, on or off the page)
	// (prefetching every tag for a page decides each undecided tag by searching with its definition, into which the
	// definitions of the undecided tags it refers to are inlined, negated where the reference is negated: the normal
	// form grows exponentially with the nesting of undecided references — a chain d -> -c -> b -> -a of four tiny
	// definitions, all undecided, takes minutes and gigabytes (DESIGN 10.3, observation). Issued only where no
	// undecided tag refers to an undecided tag that refers to an undecided tag.)
	var udepthPage func(name string, seen map[string]bool) int
	udepthPage = func(name string, seen map[string]bool) int {
		if seen[name] {
			return 99
		}
		seen[name] = true
		defer delete(seen, name)
		d := 0
		for _, t1 := range st.Tags {
			if t1.Name != name {
				continue
			}
			for _, rn := range append(append([]string(nil), t1.MainTags...), t1.SubQueryTags...) {
				for _, t2 := range st.Tags {
					if t2.Name == rn && len(t2.Uncertain) != 0 {
						if x := 1 + udepthPage(rn, seen); x > d {
							d = x
						}
					}
				}
			}
		}
		return d
	}
	pageDepth := 0
	for _, t := range st.Tags {
		if len(t.Uncertain) != 0 {
			if x := udepthPage(t.Name, map[string]bool{}); x > pageDepth {
				pageDepth = x
			}
		}
	}
	if len(st.Tags) != 0 && len(byID) >= 2 && pageDepth <= 1 {
		allDetermined := true
		wantTags := map[uint64][]string{}
		for id, ft := range byID {
			for _, t := range st.Tags {
				r, ok := h.evalDef(t.Definition, id, ft, 0)
				if !ok {
					allDetermined = false
				}
				if r {
					wantTags[id] = append(wantTags[id], t.Name)
				}
			}
			sort.Strings(wantTags[id])
		}
		if allDetermined {
			for id := range byID {
				pv := h.mgr.GetView()
				q, err := query.Parse(fmt.Sprintf("id:%d", id))
				if err == nil {
					_, _, _, err = pv.SearchStreams(context.Background(), q, func(sc manager.StreamContext) error {
						got, err := sc.AllTags()
						if err != nil {
							return err
						}
						sort.Strings(got)
						if strings.Join(got, ",") != strings.Join(wantTags[sc.Stream().ID()], ",") {
							h.complain("C06", "search id:%d with all tags prefetched shows tags %v for stream %d, evaluation of the definitions gives %v", id, got, sc.Stream().ID(), wantTags[sc.Stream().ID()])
						}
						return nil
					}, manager.Limit(100, 0), manager.PrefetchAllTags())
					if err != nil {
						h.complain("C06", "search id:%d with prefetch fails: %v", id, err)
					}
				}
				pv.Release()
			}
			h.mgr.VerifDump()
		}
	}
	// --- C11 (under scheduled job completions): the tag graph stays well-formed and the
	//     referenced-by bookkeeping mirrors the definitions
	{
		refs := map[string][]string{}
		exists := map[string]bool{}
		for _, t := range st.Tags {
			exists[t.Name] = true
			seen := map[string]bool{}
			for _, r := range append(append([]string(nil), t.MainTags...), t.SubQueryTags...) {
				if !seen[r] {
					seen[r] = true
					refs[t.Name] = append(refs[t.Name], r)
				}
			}
		}
		inverse := map[string][]string{}
		for _, t := range st.Tags {
			for _, r := range refs[t.Name] {
				if !exists[r] {
					h.complain("C11", "tag %s references the missing tag %s", t.Name, r)
				}
				inverse[r] = append(inverse[r], t.Name)
			}
		}
		for _, t := range st.Tags {
			want := inverse[t.Name]
			sort.Strings(want)
			if strings.Join(want, ",") != strings.Join(t.ReferencedBy, ",") {
				h.complain("C11", "tag %s is recorded as referenced by %v, the definitions say %v", t.Name, t.ReferencedBy, want)
			}
		}
		// cycle check by elimination
		done := map[string]bool{}
		for progress := true; progress; {
			progress = false
			for _, t := range st.Tags {
				if done[t.Name] {
					continue
				}
				ok := true
				for _, r := range refs[t.Name] {
					if exists[r] && !done[r] {
						ok = false
					}
				}
				if ok {
					done[t.Name] = true
					progress = true
				}
			}
		}
		if len(done) != len(st.Tags) {
			h.complain("C11", "the tag reference graph contains a cycle")
		}
	}
	// --- C16: cached converter output belongs to the current data
	//     (output that a converter job stored for a stream that changed while the conversion was in flight is dropped
	//     when the job's completion is delivered; between the store and that delivery — in real runs an instant, here
	//     as long as the job stays parked — it is still there: not judged while such a job is parked)
	for _, cn := range st.Converters {
		if h.heldJob {
			break
		}
		for _, id := range st.Cached[cn] {
			ft := byID[id]
			if ft == nil {
				continue
			}
			sc, err := v.Stream(id)
			if err != nil || sc.Stream() == nil {
				continue
			}
			data, err := sc.Data(cn)
			if err != nil {
				h.complain("C16", "converter %s output of stream %d unreadable: %v", cn, id, err)
				continue
			}
			c, s := "", ""
			for _, d := range data {
				if d.Direction == index.DirectionClientToServer {
					c += string(d.Content)
				} else {
					s += string(d.Content)
				}
			}
			strip := func(x string) string { return strings.NewReplacer("<", "", ">", "").Replace(x) }
			if strip(c) != leet(ft.cdata) || strip(s) != leet(ft.sdata) {
				h.complain("C16", "converter %s output of stream %d is for other data: have %q/%q, current payload %q/%q", cn, id, strip(c), strip(s), ft.cdata, ft.sdata)
			}
		}
	}
	v.Release()
	// --- C10 (stability) + C13 (held files stay readable): every held view answers as at open time
	for k, vr := range h.views {
		o2, err := readView(&vr.v, false, nil)
		if err != nil {
			h.complain("C13", "held view %d can no longer be read: %v", k, err)
			continue
		}
		if s := obsString(o2); s != vr.answers {
			h.complain("C10", "held view %d changed its answers: %s  !=  %s", k, s, vr.answers)
		}
	}
	// --- C13: lock counts equal the holders; directory = files in use
	h.mgr.VerifDump() // make sure the releases posted by the views above have run
	st2 := h.mgr.VerifDump()
	holders := map[string]int{}
	for _, fn := range st2.Indexes {
		holders[fn]++
	}
	for _, vr := range h.views {
		for _, fn := range vr.v.VerifViewIndexes() {
			holders[fn]++
		}
	}
	for job, fns := range h.jobHolds {
		if running(st2)[job] {
			for _, fn := range fns {
				holders[fn]++
			}
		}
	}
	for fn, n := range st2.Used {
		if int(n) != holders[fn] {
			h.complain("C13", "index %d has lock count %d but %d holders", h.ord(fn), n, holders[fn])
		}
	}
	for fn, n := range holders {
		if _, ok := st2.Used[fn]; !ok && n > 0 {
			h.complain("C13", "index %d is held by %d holders but not counted", h.ord(fn), n)
		}
	}
	_, idir, _, _, _ := h.dirs()
	ents, _ := os.ReadDir(idir)
	onDisk := map[string]bool{}
	for _, e := range ents {
		if strings.HasSuffix(e.Name(), ".idx") {
			onDisk[filepath.Join(idir, e.Name())] = true
		}
	}
	for fn := range st2.Used {
		if !onDisk[fn] {
			h.complain("C13", "index %d is in use but its file is gone", h.ord(fn))
		}
	}
	inflight := running(st2)["import"] || running(st2)["merge"]
	for fn := range onDisk {
		if _, ok := st2.Used[fn]; !ok && !inflight {
			h.complain("C13", "file %s is on disk but nothing uses it", filepath.Base(fn))
		}
	}
}

// ---------------------------------------------------------------------------------------------
// scenario execution
// ---------------------------------------------------------------------------------------------

type parseFacts struct {
	Err   bool     `json:"err"`  // query.Parse failed / rejected before reaching the service loop
	Main  []string `json:"main"` // Features().MainTags  (full tag names)
	Sub   []string `json:"sub"`  // Features().SubQueryTags
	MFeat int      `json:"mfeat"`
	SFeat int      `json:"sfeat"`
	IDsOK bool     `json:"idsok"` // Conditions.StreamIDs ok (mark-shaped definition)
	IDs   []int    `json:"ids"`   // the ids of a mark-shaped definition below the current next stream id
}

func (h *harness) facts(def string, next uint64) parseFacts {
	q, err := query.Parse(def)
	if err != nil {
		return parseFacts{Err: true, Main: []string{}, Sub: []string{}, IDs: []int{}}
	}
	f := q.Conditions.Features()
	pf := parseFacts{Main: nn(append([]string(nil), f.MainTags...)), Sub: nn(append([]string(nil), f.SubQueryTags...)), MFeat: int(f.MainFeatures), SFeat: int(f.SubQueryFeatures), IDs: []int{}}
	sort.Strings(pf.Main)
	sort.Strings(pf.Sub)
	if (f.MainFeatures|f.SubQueryFeatures)&query.FeatureFilterTimeRelative != 0 || q.Grouping != nil {
		pf.Err = true
	}
	if ids, ok := q.Conditions.StreamIDs(next); ok {
		pf.IDsOK = true
		for i := uint(0); ids.Next(&i); i++ {
			pf.IDs = append(pf.IDs, int(i))
		}
	}
	return pf
}

type event map[string]interface{}

func idsArg(s string) []uint64 {
	res := []uint64{}
	for _, x := range strings.Split(s, ",") {
		if n, err := strconv.ParseUint(x, 10, 64); err == nil {
			res = append(res, n)
		}
	}
	return res
}

func errClass(err error) string {
	if err == nil {
		return "ok"
	}
	return "err"
}

// mergeOffset replicates the eligibility rule of startMergeJobIfNeeded on an observed state.
func mergeOffset(st manager.VerifState) int {
	n := 0
	for _, fn := range st.Indexes {
		n += len(st.IndexIDs[fn])
	}
	for i, fn := range st.Indexes {
		c := len(st.IndexIDs[fn])
		n -= c
		if i >= st.NUnmergeable && c < n {
			return i
		}
	}
	return -1
}

func (h *harness) step(line string) (event, error) {
	f := strings.Fields(line)
	if len(f) == 0 {
		return event{"op": "nop"}, nil
	}
	ev := event{"op": f[0]}
	before := h.prev
	sf0 := h.stateFiles()
	defer func() {
		sf1 := h.stateFiles()
		fresh := false
		for n := range sf1 {
			if _, ok := sf0[n]; !ok {
				fresh = true
			}
		}
		for n, b := range sf0 {
			if _, ok := sf1[n]; !ok && fresh {
				h.removedState, h.removedAt = &stateFileCopy{name: n, data: b}, h.lineNo
			}
		}
	}()
	arr0 := map[string]int{}
	for _, k := range []string{"import", "merge", "tag", "convert"} {
		arr0[k] = h.g.arrived(k)
	}
	tagSnapU := h.tagSnapU
	pdir, _, _, _, _ := h.dirs()
	switch f[0] {
	case "pcap":
		p := &pcapDef{name: f[1]}
		for i, x := range f[2:] {
			y := strings.SplitN(x, ":", 4)
			if len(y) != 4 {
				return nil, fmt.Errorf("bad datagram %q", x)
			}
			fl, _ := strconv.Atoi(y[0])
			ms, _ := strconv.Atoi(y[1])
			p.dgs = append(p.dgs, datagram{flow: fl, ms: ms, dir: y[2][0], payload: y[3], file: f[1], idx: i})
		}
		if h.pcaps[p.name] != nil {
			ev["noop"] = true
			break
		}
		h.pcaps[p.name] = p
		if err := writePcap(pdir, p); err != nil {
			return nil, err
		}
		ev["name"] = p.name
	case "convhold":
		// conversions of the deterministic converter stay in flight while held (oracle-only stage of C16: the
		// service-loop model converts when the job starts)
		hold := filepath.Join(h.base, "convhold")
		if len(f) > 1 && f[1] == "on" {
			os.WriteFile(hold, nil, 0644)
			h.convHeld = true
		} else {
			os.Remove(hold)
			h.convHeld = false
		}
		ev["noop"] = true
	case "badpcap":
		// a file in the capture directory that cannot be parsed as a capture
		if h.pcaps[f[1]] != nil {
			ev["noop"] = true
			break
		}
		h.pcaps[f[1]] = &pcapDef{name: f[1]}
		if err := os.WriteFile(filepath.Join(pdir, f[1]), []byte("this is not a capture file\n"), 0644); err != nil {
			return nil, err
		}
		ev["op"], ev["name"] = "pcap", f[1]
	case "import":
		names := []string{}
		for _, n := range f[1:] {
			if h.pcaps[n] != nil && !h.imported[n] {
				names = append(names, n)
				h.imported[n] = true
			}
		}
		ev["names"] = names
		if len(names) != 0 {
			h.queued = append(h.queued, names...)
			h.mgr.ImportPcaps(names)
		} else {
			ev["noop"] = true
		}
	case "rel":
		job := f[1]
		if job == "any" {
			// release one of the parked jobs, chosen by the scenario's number
			waiting := []string{}
			for _, k := range []string{"import", "tag", "convert", "merge"} {
				if h.g.at(k) && !(k == "convert" && h.convHeld) {
					waiting = append(waiting, k)
				}
			}
			n := 0
			if len(f) > 2 {
				n, _ = strconv.Atoi(f[2])
			}
			if len(waiting) != 0 {
				job = waiting[n%len(waiting)]
			}
		}
		ev["job"] = job
		if !h.g.at(job) || (job == "convert" && h.convHeld) {
			// (while conversions are held a completed converter job is not delivered either: its successor could not
			// reach the gate and the harness could not tell when the completion has run)
			ev["noop"] = true
			break
		}
		switch job {
		case "tag":
			ev["name"] = h.g.arg("tag")[0]
		case "import":
			// the builder's contract, predicted from ground truth: which flows the batch touches and how
			batch := h.importBatch // the queue as it was when the job started
			newOnes := map[string]bool{}
			for _, n := range batch {
				newOnes[n] = true
			}
			h.pendingTruth = truthOf(h.pcaps, append(append([]string(nil), h.done...), batch...), newOnes)
		}
		h.g.release(job)
		// wait until the completion closure has run: the job is no longer running, or a successor
		// of the same kind has reached the gate
		deadline := time.Now().Add(60 * time.Second)
		stalledSince := time.Time{}
		for {
			st := h.mgr.VerifDump()
			if !running(st)[job] || h.g.arrived(job) > arr0[job] {
				break
			}
			if job == "import" && len(st.ImportJobs) < len(before.ImportJobs) {
				// the completion has run (it took captures off the queue) but captures are still queued: a follow-up
				// job must have been started by it — give it a moment to reach its gate
				if stalledSince.IsZero() {
					stalledSince = time.Now()
				} else if time.Since(stalledSince) > 4*time.Second {
					h.complain("C09", "captures %v are queued but no import job is running (the completion of the previous job did not start one)", st.ImportJobs)
					return nil, fmt.Errorf("captures queued but no import job is running")
				}
			}
			if time.Now().After(deadline) {
				return nil, fmt.Errorf("completion of %s job did not run", job)
			}
			time.Sleep(2 * time.Millisecond)
		}
	case "addtag":
		name, color, def := f[1], f[2], strings.Join(f[3:], " ")
		pf := h.facts(def, before.NextStreamID)
		err := h.mgr.AddTag(name, color, def)
		ev["name"], ev["color"], ev["def"], ev["facts"], ev["res"] = name, color, def, pf, errClass(err)
	case "updq":
		name, def := f[1], strings.Join(f[2:], " ")
		pf := h.facts(def, before.NextStreamID)
		err := h.mgr.UpdateTag(name, manager.UpdateTagOperationUpdateQuery(def))
		ev["name"], ev["def"], ev["facts"], ev["res"] = name, def, pf, errClass(err)
	case "updcolor":
		err := h.mgr.UpdateTag(f[1], manager.UpdateTagOperationUpdateColor(f[2]))
		ev["name"], ev["color"], ev["res"] = f[1], f[2], errClass(err)
	case "updname":
		err := h.mgr.UpdateTag(f[1], manager.UpdateTagOperationUpdateName(f[2]))
		ev["name"], ev["new"], ev["res"] = f[1], f[2], errClass(err)
	case "updconv":
		names := []string{}
		if f[2] != "-" {
			names = strings.Split(f[2], ",")
		}
		err := h.mgr.UpdateTag(f[1], manager.UpdateTagOperationSetConverter(names))
		ev["name"], ev["convs"], ev["res"] = f[1], names, errClass(err)
	case "markadd", "markdel":
		ids := idsArg(f[2])
		var err error
		if f[0] == "markadd" {
			err = h.mgr.UpdateTag(f[1], manager.UpdateTagOperationMarkAddStream(ids))
		} else {
			err = h.mgr.UpdateTag(f[1], manager.UpdateTagOperationMarkDelStream(ids))
		}
		ev["name"], ev["ids"], ev["res"] = f[1], u642i(ids), errClass(err)
	case "deltag":
		err := h.mgr.DelTag(f[1])
		ev["name"], ev["res"] = f[1], errClass(err)
	case "config", "webhook", "endpoint":
		// settings and endpoints (C12: they survive a restart); not part of the service-loop model
		var err error
		h.preConfig = h.mgr.Config()
		h.preHooks = append([]string(nil), h.mgr.ListPcapProcessorWebhooks()...)
		h.preEndpoints = nil
		for _, e := range h.mgr.ListPcapOverIPEndpoints() {
			h.preEndpoints = append(h.preEndpoints, e.Address)
		}
		sort.Strings(h.preEndpoints)
		switch f[0] {
		case "config":
			err = h.mgr.SetConfig(manager.Config{AutoInsertLimitToQuery: f[1] == "1"})
		case "webhook":
			if f[1] == "add" {
				err = h.mgr.AddPcapProcessorWebhook(f[2])
			} else {
				err = h.mgr.DelPcapProcessorWebhook(f[2])
			}
		default:
			if f[1] == "add" {
				err = h.mgr.AddPcapOverIPEndpoint(f[2])
			} else {
				err = h.mgr.DelPcapOverIPEndpoint(f[2])
			}
		}
		ev["res"], ev["noop"] = errClass(err), true
	case "vdata":
		// on-demand conversion through a view (StreamContext.Data): the output is cached for ANY converter,
		// attached to a tag or not. Not part of the service-loop model (oracle-only stage of C16).
		id, _ := strconv.ParseUint(f[1], 10, 64)
		v := h.mgr.GetView()
		if sc, err := v.Stream(id); err == nil && sc.Stream() != nil {
			_, err := sc.Data(f[2])
			ev["res"] = errClass(err)
		}
		v.Release()
		h.mgr.VerifDump()
		ev["noop"] = true
	case "vopen":
		k, _ := strconv.Atoi(f[1])
		ev["k"] = k
		if _, ok := h.views[k]; ok {
			ev["noop"] = true
			break
		}
		vr := &viewRec{v: h.mgr.GetView()}
		obs, err := readView(&vr.v, false, nil)
		if err != nil {
			h.complain("C10", "view %d cannot be read at open time: %v", k, err)
		}
		vr.answers = obsString(obs)
		if len(vr.v.VerifViewIndexes()) == 0 {
			// a view over an empty service holds nothing and re-fetches on every use: not a snapshot yet
			ev["noop"] = true
			break
		}
		h.views[k] = vr
	case "vrel":
		k, _ := strconv.Atoi(f[1])
		ev["k"] = k
		vr, ok := h.views[k]
		if !ok {
			ev["noop"] = true
			break
		}
		vr.v.Release()
		delete(h.views, k)
		h.mgr.VerifDump()
	default:
		return nil, fmt.Errorf("unknown op %q", f[0])
	}

	st, err := h.sync()
	if err != nil {
		return nil, err
	}
	// tag definitions as the service now has them (ground truth for the evaluator follows the service's
	// own definition strings; they are validated against the model separately)
	h.tagDefs = map[string]string{}
	for _, t := range st.Tags {
		h.tagDefs[t.Name] = t.Definition
	}
	// --- which jobs were started by this event
	started := map[string]interface{}{}
	for _, k := range []string{"import", "merge", "tag", "convert"} {
		if h.g.arrived(k) == arr0[k] {
			continue
		}
		h.jobHolds[k] = append([]string(nil), st.Indexes...)
		switch k {
		case "tag":
			name := h.g.arg("tag")[0]
			started["tag"] = name
			for _, t := range st.Tags {
				if t.Name == name {
					h.tagSnapU = t.Uncertain
				}
			}
		case "merge":
			started["merge"] = true
			if off := mergeOffset(st); off >= 0 {
				h.jobHolds[k] = append([]string(nil), st.Indexes[off:]...)
			}
			// contract `MergeOK` of the termination theorem (Pk/Props/C09Settles.lean): a merge runs on >= 2 files
			if len(h.jobHolds[k]) < 2 {
				h.complain("C09", "merge job started over %d index file(s): a merge that cannot reduce the number of files may repeat for ever", len(h.jobHolds[k]))
			}
		case "import":
			started[k] = true
			h.importBatch = append([]string(nil), st.ImportJobs...)
		default:
			started[k] = true
		}
	}
	ev["started"] = started
	// --- payloads of completions, from what was observed
	if f[0] == "rel" && ev["noop"] == nil {
		known := map[string]bool{}
		for fn := range before.Used {
			known[fn] = true
		}
		fresh := []map[string]interface{}{}
		for _, fn := range st.Indexes {
			if !known[fn] {
				fresh = append(fresh, map[string]interface{}{"ord": h.ord(fn), "ids": u642i(st.IndexIDs[fn])})
			}
		}
		switch ev["job"].(string) {
		case "import":
			processed := len(before.ImportJobs) - len(st.ImportJobs)
			if processed < 0 || processed > len(h.queued) {
				return nil, fmt.Errorf("import queue grew during completion")
			}
			// the builder may have processed only a prefix of its batch (a file that is not a capture stops it):
			// the prediction is for exactly the captures it reports as processed
			{
				newOnes := map[string]bool{}
				for _, n := range h.queued[:processed] {
					newOnes[n] = true
				}
				h.pendingTruth = truthOf(h.pcaps, append(append([]string(nil), h.done...), h.queued[:processed]...), newOnes)
			}
			h.done = append(h.done, h.queued[:processed]...)
			h.queued = h.queued[processed:]
			upd, rst, add := []int{}, []int{}, []int{}
			idOfFlow := map[int]int{}
			v := h.mgr.GetView()
			obs, _ := readView(&v, false, nil)
			v.Release()
			h.mgr.VerifDump()
			for _, o := range obs {
				idOfFlow[flowOfPort(o.cport)] = int(o.id)
			}
			for fl, ft := range h.pendingTruth {
				id, ok := idOfFlow[fl]
				if !ft.hasNew || !ok {
					continue
				}
				switch {
				case !ft.hasOld:
					add = append(add, id)
				case ft.firstNew:
					rst = append(rst, id)
				default:
					upd = append(upd, id)
				}
			}
			sort.Ints(upd)
			sort.Ints(rst)
			sort.Ints(add)
			// payload contracts of the history-level theorems (Pk/Props/C10Reach.lean `ImportStoresChanged`,
			// Pk/Props/C06Reach.lean `ImportAddsNew`): every stream the import changed or added is stored in a file it created
			stored := map[int]bool{}
			for _, fr := range fresh {
				for _, id := range fr["ids"].([]int) {
					stored[id] = true
				}
			}
			for _, id := range append(append(append([]int(nil), upd...), rst...), add...) {
				if !stored[id] {
					h.complain("C10", "import changed or added stream %d but no index file it created holds it", id)
				}
			}
			ev["processed"], ev["created"], ev["upd"], ev["rst"], ev["add"] = processed, fresh, upd, rst, add
			ev["usednew"] = int(st.NextStreamID) - int(before.NextStreamID)
		case "tag":
			res := []int{}
			unc := map[uint]bool{}
			for _, u := range tagSnapU {
				unc[u] = true
			}
			for _, t := range st.Tags {
				if t.Name == ev["name"].(string) {
					for _, m := range t.Matches {
						if unc[m] {
							res = append(res, int(m))
						}
					}
				}
			}
			ev["result"] = res
		case "merge":
			ev["merged"] = fresh
		}
	}
	// --- C16 "detaching stops further runs": once a converter has been detached from its last tag it converts
	//     nothing until it is attached again. (Output cached on demand through a view, `vdata`, for a converter that
	//     is attached to no tag is re-converted after an import — "the converter runs again" — so the clock
	//     restarts there.)
	{
		attachedIn := func(vs manager.VerifState, cn string) bool {
			for _, t := range vs.Tags {
				for _, c := range t.Converters {
					if c == cn {
						return true
					}
				}
			}
			return false
		}
		if h.detached == nil {
			h.detached = map[string]bool{}
		}
		for cn, ids := range st.Cached {
			was, is := attachedIn(before, cn), attachedIn(st, cn)
			if is || (f[0] == "vdata" && len(f) > 2 && f[2] == cn) {
				h.detached[cn] = false
				continue
			}
			if was && !is {
				h.detached[cn] = true
				// conversions of a converter job that is in flight at this moment are not FURTHER runs: what that job
				// still stores is not judged
				if before.Convert {
					if h.detachedInJob == nil {
						h.detachedInJob = map[string]bool{}
					}
					h.detachedInJob[cn] = true
				}
			}
			if !st.Convert && !before.Convert {
				delete(h.detachedInJob, cn)
			}
			if !h.detached[cn] || h.detachedInJob[cn] {
				continue
			}
			had := map[uint64]bool{}
			for _, id := range before.Cached[cn] {
				had[id] = true
			}
			for _, id := range ids {
				if !had[id] {
					h.complain("C16", "converter %s ran for stream %d although it was detached from its last tag and not attached again", cn, id)
				}
			}
		}
	}
	h.prev = st
	return ev, nil
}

func (h *harness) runScenario(in io.Reader, out io.Writer) error {
	sc := bufio.NewScanner(in)
	sc.Buffer(make([]byte, 1<<20), 1<<20)
	w := bufio.NewWriter(out)
	defer w.Flush()
	st, err := h.sync()
	if err != nil {
		return err
	}
	h.prev = st
	for sc.Scan() {
		h.lineNo++
		line := strings.TrimSpace(sc.Text())
		var ev event
		var err error
		if line == "free" {
			// the rest of the scenario runs without gates (free.go, property C20)
			return h.freeRun(sc, w)
		}
		if line == "settle" {
			ev, err = h.settle()
		} else if strings.HasPrefix(line, "crashcheck") {
			k := 0
			if f := strings.Fields(line); len(f) > 1 {
				k, _ = strconv.Atoi(f[1])
			}
			ev, err = h.crashcheck(k)
			if ev != nil {
				ev["noop"] = true // the live service is untouched: the model sees nothing
			}
		} else {
			ev, err = h.step(line)
		}
		if err != nil {
			h.complain("ANY", "harness: %v", err)
			fmt.Fprintf(w, "{\"error\":%q}\n", err.Error())
			w.Flush()
			return err
		}
		if ev["noop"] == nil || ev["op"] == "vdata" {
			h.checkOracles(h.prev)
			h.prev = h.mgr.VerifDump()
		}
		b, _ := json.Marshal(map[string]interface{}{"ev": ev, "st": h.canon(h.prev)})
		w.Write(b)
		w.WriteByte('\n')
		w.Flush()
	}
	return nil
}

// settle releases parked jobs (oldest kind first in a fixed order) until nothing runs, then
// checks quiescence (C09). The number of releases is bounded: background work must settle.
func (h *harness) settle() (event, error) {
	ev := event{"op": "settle"}
	if h.convHeld {
		// conversions held in flight are let go: settling means every job runs to its end
		os.Remove(filepath.Join(h.base, "convhold"))
		h.convHeld = false
		if st, err := h.sync(); err == nil {
			h.prev = st
		}
	}
	rels := []string{}
	for n := 0; ; n++ {
		st := h.prev
		job := ""
		for _, k := range []string{"import", "tag", "convert", "merge"} {
			if running(st)[k] {
				job = k
				break
			}
		}
		if job == "" {
			break
		}
		if n > 400 {
			h.complain("C09", "background work did not settle within 400 job completions (still running: %v)", running(st))
			break
		}
		sub, err := h.step("rel " + job)
		if err != nil {
			return nil, err
		}
		h.checkOracles(h.prev)
		h.prev = h.mgr.VerifDump()
		rels = append(rels, job)
		sub["st"] = h.canon(h.prev)
		ev[fmt.Sprintf("sub%03d", n)] = sub
	}
	ev["releases"] = rels
	st := h.prev
	if len(st.ImportJobs) != 0 || st.Merge || st.Tag || st.Convert {
		h.complain("C09", "not quiescent after settling: queue=%v merge=%v tag=%v convert=%v", st.ImportJobs, st.Merge, st.Tag, st.Convert)
	}
	for _, t := range st.Tags {
		if len(t.Uncertain) != 0 {
			h.complain("C09", "quiescent but tag %s still has %d streams pending re-evaluation and no tagging job runs", t.Name, len(t.Uncertain))
		}
	}
	for cn, xs := range st.ToConvert {
		if len(xs) != 0 {
			h.complain("C09", "quiescent but converter %s still has %d streams to convert and no converter job runs", cn, len(xs))
		}
	}
	// (a merge that is eligible but not started is not a violation: the statement only demands that no
	// further merges start; the converter completion does not re-check merge eligibility)
	// C16: at quiescence every stream matching a tag with an attached converter has output
	for _, t := range st.Tags {
		for _, cn := range t.Converters {
			cached := map[uint64]bool{}
			for _, id := range st.Cached[cn] {
				cached[id] = true
			}
			for _, m := range t.Matches {
				if uint64(m) >= st.NextStreamID {
					continue // a mark may name a stream that does not exist (yet)
				}
				if !cached[uint64(m)] {
					h.complain("C16", "quiescent but stream %d matching tag %s has no output of attached converter %s", m, t.Name, cn)
				}
			}
		}
	}
	// C13: at quiescence with no views the directory holds exactly the served files
	if len(h.views) == 0 {
		_, idir, _, _, _ := h.dirs()
		ents, _ := os.ReadDir(idir)
		n := 0
		for _, e := range ents {
			if strings.HasSuffix(e.Name(), ".idx") {
				n++
			}
		}
		if n != len(st.Indexes) {
			h.complain("C13", "quiescent without views: %d index files on disk, %d served", n, len(st.Indexes))
		}
	}
	return ev, nil
}

// ---------------------------------------------------------------------------------------------
// generator
// ---------------------------------------------------------------------------------------------

var tagNames = []string{"mark/m", "tag/a", "tag/b", "service/s", "tag/c", "tag/d"}
var words = []string{"foo", "bar", "GET", "x"}

// words a data FILTER may look for: "f00" occurs in converter output only (leet of "foo")
var filterWords = []string{"foo", "bar", "GET", "x", "f00", "f00"}

type genTag struct {
	data bool // definition looks at payload or byte counts
	refs bool
	sub  bool // has a sub-query
}

// genWorld is the generator's rough picture of the service (it gets no feedback): which tags
// probably exist, how many streams there are. It only steers the mix towards calls that succeed;
// wrong guesses just produce error returns, which are legal inputs too.
type genWorld struct {
	r       *lib.RNG
	lastDef map[string]string // last definition given to a tag name (for delete + re-add of the same)
	tags    map[string]*genTag
	streams int
	flows   map[int]bool
}

func (g *genWorld) idx(name string) int {
	for i, n := range tagNames {
		if n == name {
			return i
		}
	}
	return -1
}

// genDef builds a definition for `self` that references only existing tags that come earlier in
// tagNames (so the reference graph stays acyclic) unless `wild` asks for a broken reference.
func (g *genWorld) genDef(self string, wild bool) (string, *genTag) {
	r := g.r
	atoms := []string{}
	gt := &genTag{}
	n := 1 + r.Intn(2)
	simple := r.Chance(2, 5) // ports only: such a tag accepts a converter
	if !simple && !wild && r.Chance(1, 5) {
		// a definition with a sub-query: "some stream that has <tag/port> is related to this one"
		cands := []string{}
		for _, t := range tagNames[:max(0, g.idx(self))] {
			if g.tags[t] != nil && !g.tags[t].sub {
				cands = append(cands, t)
			}
		}
		sub := fmt.Sprintf("@s:sport:%d", 2000+r.Intn(4))
		if len(cands) != 0 && r.Chance(3, 4) {
			k, v, _ := strings.Cut(lib.Pick(r, cands), "/")
			sub = "@s:" + k + ":" + v
			gt.refs = true
		}
		if r.Chance(1, 4) {
			// the sub-query looks at payload (also at cached converter output)
			sub = "@s:cdata:" + lib.Pick(r, filterWords)
			gt.data = true
		}
		if r.Chance(1, 4) {
			sub = "-" + sub
		}
		atoms = append(atoms, sub)
		// always related to the stream itself: a sub-query nothing refers to does not constrain the result
		switch r.Intn(3) {
		case 0:
			atoms = append(atoms, "cbytes:@s:cbytes@")
			gt.data = true
		case 1:
			atoms = append(atoms, "sbytes:@s:sbytes@")
			gt.data = true
		case 2:
			atoms = append(atoms, "cport:@s:cport@")
		}
		if r.Chance(1, 3) {
			atoms = append(atoms, fmt.Sprintf("sport:%d", 2000+r.Intn(4)))
		}
		gt.sub = true
		return strings.Join(atoms, " "), gt
	}
	for i := 0; i < n; i++ {
		var a string
		k := r.Intn(10)
		if simple {
			k = r.Intn(2)
		}
		switch k {
		case 0:
			a = fmt.Sprintf("sport:%d", 2000+r.Intn(4))
		case 1:
			a = fmt.Sprintf("cport:%d", 1000+r.Intn(4))
		case 2:
			a = fmt.Sprintf("cbytes:%d:", lib.Pick(r, []int{1, 3, 4, 6, 7}))
			gt.data = true
		case 3:
			a = fmt.Sprintf("sbytes:%d:", lib.Pick(r, []int{1, 3, 4}))
			gt.data = true
		case 4:
			a = "cdata:" + lib.Pick(r, filterWords)
			gt.data = true
		case 5:
			a = "sdata:" + lib.Pick(r, filterWords)
			gt.data = true
		default:
			cands := []string{}
			for _, t := range tagNames[:max(0, g.idx(self))] {
				if g.tags[t] != nil {
					cands = append(cands, t)
				}
			}
			if wild {
				cands = tagNames
			}
			if len(cands) == 0 {
				a = fmt.Sprintf("sport:%d", 2000+r.Intn(4))
				break
			}
			t := lib.Pick(r, cands)
			k, v, _ := strings.Cut(t, "/")
			a = k + ":" + v
			gt.refs = true
		}
		if r.Chance(1, 4) {
			a = "-" + a
		}
		atoms = append(atoms, a)
	}
	return strings.Join(atoms, " "), gt
}

var genCrash = false
var genOnDemand = false
var genSlowConv = false

func gen(seed uint64, n int, w io.Writer) {
	r := lib.NewRNG(seed)
	g := &genWorld{r: r, tags: map[string]*genTag{}, flows: map[int]bool{}, lastDef: map[string]string{}}
	npcap := 0
	clock := 0
	slowLeft := 0
	pending := []string{}
	mkpcap := func() {
		name := fmt.Sprintf("p%02d.pcap", npcap)
		npcap++
		parts := []string{}
		nf := 1 + r.Intn(3)
		// sometimes an older capture (earlier timestamps) arrives late: existing streams are reset
		base := clock
		late := r.Chance(1, 3) && clock >= 400
		if late {
			base = clock - 300 - r.Intn(100)
		} else {
			clock += 200
		}
		ms := base
		for i := 0; i < nf; i++ {
			fl := r.Intn(4)
			if late && len(g.flows) != 0 {
				// an older capture of flows that are already indexed
				known := []int{}
				for f := 0; f < 4; f++ {
					if g.flows[f] {
						known = append(known, f)
					}
				}
				fl = lib.Pick(r, known)
			}
			g.flows[fl] = true
			nd := 1 + r.Intn(3)
			for j := 0; j < nd; j++ {
				dir := "c"
				if (j > 0 && r.Bool()) || (j == 0 && r.Chance(1, 3)) {
					dir = "s" // (a server-first flow is turned client-first below, except in 1 capture of 4)
				}
				ms += 1 + r.Intn(5)
				parts = append(parts, fmt.Sprintf("%d:%d:%s:%s", fl, ms, dir, lib.Pick(r, words)))
			}
		}
		// mostly the first datagram of a flow in a capture comes from the client side; when it does not
		// and the capture is the earliest of the flow, the stream's roles are swapped (a later capture
		// with earlier client packets then resets the stream and swaps them back)
		if !r.Chance(1, 4) {
			seen := map[string]bool{}
			for i, p := range parts {
				y := strings.SplitN(p, ":", 4)
				if !seen[y[0]] {
					seen[y[0]] = true
					y[2] = "c"
					parts[i] = strings.Join(y, ":")
				}
			}
		}
		if r.Chance(1, 12) {
			parts = nil // a capture with a valid header and no packets (an idle rotation interval)
		}
		if r.Chance(1, 14) {
			// a file that is not a capture at all (an interrupted upload): inside a batch the builder processes the
			// captures before it and leaves it to the next job, which skips it
			fmt.Fprintf(w, "badpcap %s\n", name)
			pending = append(pending, name)
			return
		}
		fmt.Fprintf(w, "pcap %s %s\n", name, strings.Join(parts, " "))
		pending = append(pending, name)
	}
	existing := func() []string {
		res := []string{}
		for _, t := range tagNames {
			if g.tags[t] != nil {
				res = append(res, t)
			}
		}
		return res
	}
	streamID := func() int {
		if len(g.flows) == 0 || r.Chance(1, 10) {
			return r.Intn(6)
		}
		return r.Intn(len(g.flows))
	}
	// every second scenario opens with a directed prologue (random parameters) that sets up one of the
	// regime interactions the properties name; the random part then continues from that state
	if r.Chance(1, 2) {
		fl := r.Intn(4)
		word := lib.Pick(r, words)
		tagPort := func() string {
			return lib.Pick(r, []string{fmt.Sprintf("sport:%d", 2000+fl), fmt.Sprintf("cport:%d", 1000+fl), fmt.Sprintf("sport:%d", 1000+fl)})
		}
		switch r.Intn(12) {
		case 11: // converter work is queued (tagging completion for a tag with a converter) while a merge job is
			// parked; the merge completion is delivered last
			fmt.Fprintf(w, "addtag tag/a red sport:%d\nupdconv tag/a conv1\n", 2003)
			fmt.Fprintf(w, "pcap q0.pcap 0:100:c:%s\nimport q0.pcap\nrel import\nrel tag\n", word)
			fmt.Fprintf(w, "pcap q1.pcap 1:200:c:%s 2:201:c:%s\nimport q1.pcap\nrel import\nrel tag\n", word, word)
			// (a merge of the two files is in flight now)
			fmt.Fprintf(w, "pcap q2.pcap 3:300:c:%s\nimport q2.pcap\nrel import\nrel tag\nrel convert\nrel merge\n", word)
			g.tags["tag/a"] = &genTag{}
			g.flows[0], g.flows[1], g.flows[2], g.flows[3] = true, true, true, true
		case 10: // a stream is queued for a converter (its output was invalidated while a converter job is parked),
			// leaves the tag, and the converter is detached from its last tag while the entry is still queued
			fmt.Fprintf(w, "pcap q0.pcap 0:100:c:%s 1:101:c:%s\nimport q0.pcap\nrel import\n", word, word)
			fmt.Fprintf(w, "addtag mark/m red id:-1\nupdconv mark/m conv1\nmarkadd mark/m 0,1\n")
			fmt.Fprintf(w, "pcap q1.pcap %d:300:c:%s\nimport q1.pcap\nrel import\n", r.Intn(2), lib.Pick(r, words))
			fmt.Fprintf(w, "%s\n", lib.Pick(r, []string{"markdel mark/m 1", "markdel mark/m 0", "markdel mark/m 0,1"}))
			fmt.Fprintf(w, "%s\nrel convert\n", lib.Pick(r, []string{"updconv mark/m -", "deltag mark/m", "updconv mark/m -"}))
			g.tags["mark/m"] = &genTag{}
			g.flows[0], g.flows[1] = true, true
		case 9: // an import (new stream + continuation of an old one) completes while a merge job is parked;
			// optionally a view is opened before / during the merge and held across both completions
			fmt.Fprintf(w, "pcap q0.pcap 0:100:c:%s\nimport q0.pcap\nrel import\n", word)
			if r.Chance(1, 3) {
				fmt.Fprintf(w, "vopen 0\n")
			}
			fmt.Fprintf(w, "pcap q1.pcap 1:200:c:%s 2:201:c:%s\nimport q1.pcap\nrel import\n", word, word)
			if r.Chance(1, 3) {
				fmt.Fprintf(w, "vopen 1\n")
			}
			fmt.Fprintf(w, "pcap q2.pcap 3:300:c:%s %d:301:c:%s\nimport q2.pcap\nrel import\n", word, r.Intn(3), lib.Pick(r, words))
			if r.Chance(1, 3) {
				fmt.Fprintf(w, "vopen 2\n")
			}
			fmt.Fprintf(w, "rel merge\n")
			g.flows[0], g.flows[1], g.flows[2], g.flows[3] = true, true, true, true
		case 8: // a tag relates every stream to one whose converter output holds a word; that output appears later
			fmt.Fprintf(w, "pcap q0.pcap 0:100:c:foo 1:101:c:%s 2:102:c:foo\nimport q0.pcap\nrel import\n", lib.Pick(r, []string{"bar", "foo", "GET"}))
			fmt.Fprintf(w, "addtag tag/b red @s:cdata:f00 %s\nrel tag\n", lib.Pick(r, []string{"cbytes:@s:cbytes@", "sbytes:@s:sbytes@"}))
			fmt.Fprintf(w, "addtag tag/a red sport:%d\nrel tag\nupdconv tag/a conv1\nrel convert\nrel tag\n", 2000+2*r.Intn(2))
			g.tags["tag/a"], g.tags["tag/b"] = &genTag{}, &genTag{data: true, sub: true}
			g.flows[0], g.flows[1], g.flows[2] = true, true, true
		case 7: // a tag and the tag it references are deleted and added again (the referenced one with another
			// definition) while the tagging job of the referencing tag is parked
			fmt.Fprintf(w, "pcap q0.pcap 0:100:c:%s 1:101:c:%s\nimport q0.pcap\nrel import\n", word, word)
			fmt.Fprintf(w, "addtag tag/a red id:%d\nrel tag\naddtag tag/b red %stag:a\n", r.Intn(2), lib.Pick(r, []string{"", "-"}))
			fmt.Fprintf(w, "deltag tag/b\ndeltag tag/a\naddtag tag/a red id:%d\naddtag tag/b red %stag:a\nrel tag\nrel tag\n", r.Intn(2), lib.Pick(r, []string{"", "-"}))
			g.tags["tag/a"], g.tags["tag/b"] = &genTag{}, &genTag{refs: true}
			g.flows[0], g.flows[1] = true, true
		case 6: // two tags with overlapping matches share a converter; one is detached / deleted / re-attached
			// while an earlier converter job is still parked, so the common stream is only queued
			fmt.Fprintf(w, "pcap q0.pcap 0:100:c:%s 1:101:c:%s 2:102:c:%s\nimport q0.pcap\nrel import\n", word, word, word)
			fmt.Fprintf(w, "addtag tag/a red sport:2002\nrel tag\nupdconv tag/a conv1\n")
			fl = r.Intn(2)
			fmt.Fprintf(w, "addtag tag/b red sport:%d\nrel tag\naddtag tag/c red cport:%d\nrel tag\n", 2000+fl, 1000+fl)
			fmt.Fprintf(w, "updconv tag/b conv1\nupdconv tag/c conv1\n")
			fmt.Fprintf(w, "%s\n", lib.Pick(r, []string{"updconv tag/b -", "deltag tag/b", "updconv tag/c -", "updq tag/b sport:2009"}))
			fmt.Fprintf(w, "rel convert\n")
			g.tags["tag/a"], g.tags["tag/b"], g.tags["tag/c"] = &genTag{}, &genTag{}, &genTag{}
			g.flows[0], g.flows[1], g.flows[2] = true, true, true
		case 0: // a stream is created with swapped roles, tagged on its endpoints, then reset by an earlier capture
			fmt.Fprintf(w, "pcap q0.pcap %d:900:s:%s %d:905:c:%s\nimport q0.pcap\nrel import\n", fl, word, fl, word)
			fmt.Fprintf(w, "addtag tag/a red %s\nrel tag\n", tagPort())
			fmt.Fprintf(w, "pcap q1.pcap %d:100:c:%s\nimport q1.pcap\nrel import\n", fl, lib.Pick(r, words))
			g.tags["tag/a"] = &genTag{}
		case 1: // an import extends a stream while the tagging job of a data tag is parked
			fmt.Fprintf(w, "pcap q0.pcap %d:100:c:%s\nimport q0.pcap\nrel import\n", fl, word)
			fmt.Fprintf(w, "addtag tag/a red cdata:%s\n", lib.Pick(r, words))
			fmt.Fprintf(w, "pcap q1.pcap %d:300:c:%s\nimport q1.pcap\nrel import\nrel tag\n", fl, lib.Pick(r, words))
			g.tags["tag/a"] = &genTag{data: true}
		case 2: // a mark changes while the job of a tag referencing it is parked
			fmt.Fprintf(w, "pcap q0.pcap 0:100:c:%s 1:101:c:%s 2:102:c:%s\nimport q0.pcap\nrel import\n", word, word, word)
			fmt.Fprintf(w, "addtag mark/m red id:%d\naddtag tag/a red %smark:m\n", r.Intn(3), lib.Pick(r, []string{"", "-"}))
			fmt.Fprintf(w, "%s mark/m %d\nrel tag\n", lib.Pick(r, []string{"markadd", "markdel"}), r.Intn(3))
			g.tags["mark/m"], g.tags["tag/a"] = &genTag{}, &genTag{refs: true}
		case 3: // a view is held across a merge and a later import
			fmt.Fprintf(w, "pcap q0.pcap 0:100:c:%s 1:101:c:%s\nimport q0.pcap\nrel import\n", word, word)
			fmt.Fprintf(w, "pcap q1.pcap 2:300:c:%s\nimport q1.pcap\nrel import\nvopen 0\n", word)
			fmt.Fprintf(w, "pcap q2.pcap %d:500:c:%s 3:501:c:x\nimport q2.pcap\nrel import\nrel any 0\nrel any 0\n", fl%3, lib.Pick(r, words))
		case 4: // converter output exists, then the stream is extended / reset while a converter job is parked
			fmt.Fprintf(w, "pcap q0.pcap %d:500:c:%s\nimport q0.pcap\nrel import\n", fl, word)
			fmt.Fprintf(w, "addtag tag/a red sport:%d\nrel tag\nupdconv tag/a conv1\n", 2000+fl)
			fmt.Fprintf(w, "pcap q1.pcap %d:%d:c:%s\nimport q1.pcap\nrel import\nrel convert\n", fl, lib.Pick(r, []int{100, 700}), lib.Pick(r, words))
			g.tags["tag/a"] = &genTag{}
		default: // a referenced tag is edited while the job of the referencing tag is parked
			fmt.Fprintf(w, "pcap q0.pcap 0:100:c:%s 1:101:c:%s\nimport q0.pcap\nrel import\n", word, word)
			fmt.Fprintf(w, "addtag tag/a red sport:2000\nrel tag\naddtag tag/b red tag:a\nupdq tag/a sport:2001\nrel tag\n")
			g.tags["tag/a"], g.tags["tag/b"] = &genTag{}, &genTag{refs: true}
		}
		g.flows[fl] = true
		clock = 1000
	}
	for i := 0; i < n; i++ {
		if genCrash && r.Chance(1, 8) {
			switch r.Intn(3) {
			case 0:
				fmt.Fprintf(w, "config %d\n", r.Intn(2))
			case 1:
				fmt.Fprintf(w, "webhook %s http://127.0.0.1:9/hook%d\n", lib.Pick(r, []string{"add", "add", "del"}), r.Intn(3))
			default:
				fmt.Fprintf(w, "endpoint %s 127.0.0.1:%d\n", lib.Pick(r, []string{"add", "add", "del"}), 9+r.Intn(3))
			}
			if r.Chance(1, 2) {
				// a kill inside the state save of the call just made (old and new state file both on disk)
				// (100: all operations but the last done; 101, 102: shorter prefixes of the operation sequence of
				// saveState as read from the source; no random draw)
				fmt.Fprintf(w, "crashcheck %d\n", 100+i%3)
			}
		}
		if genSlowConv && r.Chance(1, 6) {
			// conversions are held in flight across the next few operations (a slow converter), then let go
			fmt.Fprintf(w, "convhold on\n")
			slowLeft = 2 + r.Intn(4)
		} else if genSlowConv && slowLeft > 0 {
			slowLeft--
			if slowLeft == 0 {
				fmt.Fprintf(w, "convhold off\n")
			}
		}
		if genOnDemand && r.Chance(1, 4) {
			fmt.Fprintf(w, "vdata %d conv1\n", streamID())
		}
		if genCrash && r.Chance(1, 5) {
			fmt.Fprintf(w, "crashcheck %d\n", lib.Pick(r, []int{0, 0, 0, r.Intn(24) + 1, r.Intn(24) + 1}))
		}
		switch x := r.Intn(40); {
		case x < 5:
			mkpcap()
			if r.Chance(3, 4) {
				k := 1 + r.Intn(len(pending))
				fmt.Fprintf(w, "import %s\n", strings.Join(pending[:k], " "))
				pending = pending[k:]
				g.streams = len(g.flows)
			}
		case x < 7:
			fmt.Fprintf(w, "rel import\n")
		case x < 10:
			fmt.Fprintf(w, "rel tag\n")
		case x < 11:
			fmt.Fprintf(w, "rel merge\n")
		case x < 12:
			fmt.Fprintf(w, "rel convert\n")
		case x < 19:
			fmt.Fprintf(w, "rel any %d\n", r.Intn(12))
		case x < 24:
			// add a tag that does not exist yet (sometimes one that does, or with a broken reference)
			cands := []string{}
			for _, t := range tagNames {
				if g.tags[t] == nil {
					cands = append(cands, t)
				}
			}
			if len(cands) == 0 || r.Chance(1, 10) {
				cands = tagNames
			}
			t := lib.Pick(r, cands)
			if strings.HasPrefix(t, "mark/") {
				ids := []string{}
				for j := 0; j < 1+r.Intn(2); j++ {
					ids = append(ids, strconv.Itoa(streamID()))
				}
				fmt.Fprintf(w, "addtag %s red id:%s\n", t, strings.Join(ids, ","))
				if g.tags[t] == nil {
					g.tags[t] = &genTag{}
				}
			} else {
				def, gt := g.genDef(t, r.Chance(1, 12))
				if old, ok := g.lastDef[t]; ok && r.Chance(1, 2) {
					def = old // re-create a deleted tag with the identical definition
				}
				g.lastDef[t] = def
				fmt.Fprintf(w, "addtag %s red %s\n", t, def)
				if g.tags[t] == nil {
					g.tags[t] = gt
				}
			}
		case x < 27:
			ex := existing()
			if len(ex) == 0 {
				continue
			}
			t := lib.Pick(r, ex)
			if strings.HasPrefix(t, "mark/") {
				fmt.Fprintf(w, "updq %s id:%d\n", t, streamID())
			} else {
				def, gt := g.genDef(t, r.Chance(1, 6))
				fmt.Fprintf(w, "updq %s %s\n", t, def)
				g.tags[t] = gt
			}
		case x < 30:
			fmt.Fprintf(w, "%s mark/m %d\n", lib.Pick(r, []string{"markadd", "markadd", "markdel"}), streamID())
		case x < 31:
			ex := existing()
			if len(ex) != 0 {
				t := lib.Pick(r, ex)
				fmt.Fprintf(w, "deltag %s\n", t)
				delete(g.tags, t) // may fail when referenced; the guess only steers the mix
				if d, ok := g.lastDef[t]; ok && !strings.HasPrefix(t, "mark/") && r.Chance(1, 2) {
					// delete + re-add with the same definition (a job of the old incarnation may still be parked)
					fmt.Fprintf(w, "addtag %s red %s\n", t, d)
					g.tags[t] = &genTag{data: true, refs: true}
				}
			}
		case x < 32:
			fmt.Fprintf(w, "updcolor %s %s\n", lib.Pick(r, tagNames), lib.Pick(r, []string{"blue", "green"}))
		case x < 35:
			// attach / detach the converter, preferably on a tag that accepts it
			cands := []string{}
			for _, t := range existing() {
				if !g.tags[t].data && !g.tags[t].refs {
					cands = append(cands, t)
				}
			}
			if len(cands) == 0 {
				if r.Chance(3, 4) {
					continue
				}
				cands = tagNames
			} else if r.Chance(1, 10) {
				cands = tagNames
			}
			fmt.Fprintf(w, "updconv %s %s\n", lib.Pick(r, cands), lib.Pick(r, []string{"conv1", "conv1", "conv1", "conv1", "-", "nosuch"}))
		case x < 37:
			fmt.Fprintf(w, "vopen %d\n", r.Intn(3))
		case x < 39:
			fmt.Fprintf(w, "vrel %d\n", r.Intn(3))
		default:
			ex := existing()
			if len(ex) != 0 {
				fmt.Fprintf(w, "updname %s %s\n", lib.Pick(r, ex), lib.Pick(r, []string{"tag/z", "tag/a", "service/s", "mark/z"}))
			}
		}
	}
	for k := 0; k < 3; k++ {
		if r.Chance(2, 3) {
			fmt.Fprintf(w, "vrel %d\n", k)
		}
	}
	fmt.Fprintf(w, "settle\n")
	if genCrash {
		fmt.Fprintf(w, "crashcheck 0\n")
	}
}

func main() {
	if strings.HasPrefix(filepath.Base(os.Args[0]), "conv") {
		converterMain()
		return
	}
	if len(os.Args) < 2 {
		fmt.Fprintln(os.Stderr, "usage: mgr gen|run ...")
		os.Exit(2)
	}
	fs := flag.NewFlagSet(os.Args[1], flag.ExitOnError)
	seed := fs.Uint64("seed", 1, "seed")
	n := fs.Int("n", 40, "number of ops")
	oracle := fs.String("oracle", "", "oracle complaint file")
	keep := fs.String("dir", "", "data directory (default: temp dir removed at exit)")
	verbose := fs.Bool("v", false, "keep the service's log output")
	crash := fs.Bool("crash", false, "gen: insert crashcheck ops")
	ondemand := fs.Bool("ondemand", false, "gen: insert on-demand conversions through a view (vdata)")
	slowconv := fs.Bool("slowconv", false, "gen: hold conversions in flight across operations (convhold on/off)")
	free := fs.Int("free", -1, "gen: K gated ops, then `free` and -n free-running ops (property C20)")
	fs.Parse(os.Args[2:])
	switch os.Args[1] {
	case "gen":
		genCrash = *crash
		genOnDemand = *ondemand
		genSlowConv = *slowconv
		w := bufio.NewWriter(os.Stdout)
		if *free >= 0 {
			genFree(*seed, *n, *free, w)
		} else {
			gen(*seed, *n, w)
		}
		w.Flush()
	case "run":
		if !*verbose {
			log.SetOutput(io.Discard)
		}
		base := *keep
		if base == "" {
			var err error
			base, err = os.MkdirTemp(os.Getenv("VERIF_SCRATCH"), "mgr")
			if err != nil {
				fmt.Fprintln(os.Stderr, err)
				os.Exit(2)
			}
			defer os.RemoveAll(base)
		}
		h := &harness{base: base, g: &gates{waiting: map[string]chan struct{}{}, args: map[string][]string{}, arrivals: map[string]int{}},
			pcaps: map[string]*pcapDef{}, tagDefs: map[string]string{}, ords: map[string]int{}, views: map[int]*viewRec{},
			jobHolds: map[string][]string{}, imported: map[string]bool{}}
		for _, d := range []string{"pcap", "index", "snapshot", "state", "converter"} {
			os.MkdirAll(filepath.Join(base, d), 0755)
		}
		// the deterministic converter is this very binary under the name conv1
		self, _ := os.Executable()
		data, _ := os.ReadFile(self)
		os.WriteFile(filepath.Join(base, "converter", "conv1"), data, 0755)
		manager.VerifGate = h.g.hook
		if *oracle != "" {
			f, err := os.Create(*oracle)
			if err != nil {
				fmt.Fprintln(os.Stderr, err)
				os.Exit(2)
			}
			defer f.Close()
			h.oracle = bufio.NewWriter(f)
			defer h.oracle.Flush()
		}
		if err := h.start(); err != nil {
			fmt.Fprintln(os.Stderr, err)
			os.Exit(2)
		}
		err := h.runScenario(os.Stdin, os.Stdout)
		if h.oracle != nil {
			h.oracle.Flush()
		}
		if err != nil {
			fmt.Fprintln(os.Stderr, err)
			os.RemoveAll(base)
			os.Exit(3)
		}
		os.RemoveAll(base)
		os.Exit(0)
	default:
		os.Exit(2)
	}
}
