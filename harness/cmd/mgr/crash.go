package main

// Crash / restart checks (property C12).  `crashcheck K` copies the data directory while every
// background job of the live service is parked at its gate (i.e. at a point between the file
// operations of import, merge, state save and converter caching), optionally cuts one of the
// most recently written files short (emulating a crash inside a write), starts a SECOND real
// manager on the copy and checks the property statement on it:
//   - the restart succeeds,
//   - every acknowledged tag (definition, colour, converter attachments) is there,
//   - every stream of a completed import is visible under its old id with its data,
//   - after the recovered service has settled, tag matches are correct again.
// The live service is not disturbed (its jobs stay parked in the gates instance they entered).

import (
	"encoding/json"
	"fmt"
	"io"
	"os"
	"path/filepath"
	"sort"
	"strings"
	"time"

	"github.com/spq/pkappa2/internal/index"
	"github.com/spq/pkappa2/internal/index/manager"
)

func copyTree(src, dst string) error {
	return filepath.Walk(src, func(p string, info os.FileInfo, err error) error {
		if err != nil {
			return err
		}
		rel, _ := filepath.Rel(src, p)
		target := filepath.Join(dst, rel)
		if info.IsDir() {
			return os.MkdirAll(target, 0755)
		}
		in, err := os.Open(p)
		if err != nil {
			return err
		}
		defer in.Close()
		out, err := os.OpenFile(target, os.O_CREATE|os.O_WRONLY|os.O_TRUNC, info.Mode())
		if err != nil {
			return err
		}
		if _, err := io.Copy(out, in); err != nil {
			out.Close()
			return err
		}
		return out.Close()
	})
}

type diskFile struct {
	Dir  string `json:"dir"`
	Name string `json:"name"`
	Size int64  `json:"size"`
}

func listDisk(base string) []diskFile {
	res := []diskFile{}
	for _, d := range []string{"index", "state", "snapshot"} {
		ents, _ := os.ReadDir(filepath.Join(base, d))
		for _, e := range ents {
			if e.IsDir() {
				continue
			}
			fi, err := e.Info()
			if err != nil {
				continue
			}
			res = append(res, diskFile{Dir: d, Name: e.Name(), Size: fi.Size()})
		}
	}
	sort.Slice(res, func(i, j int) bool {
		if res[i].Name != res[j].Name {
			return res[i].Name < res[j].Name
		}
		return res[i].Dir < res[j].Dir
	})
	return res
}

func newGates() *gates {
	return &gates{waiting: map[string]chan struct{}{}, args: map[string][]string{}, arrivals: map[string]int{}}
}

// crashcheck runs one crash experiment. k == 0: plain copy (kill between file operations);
// k > 0: additionally one of the newest files (by name = creation time) is cut short.
func (h *harness) crashcheck(k int) (event, error) {
	ev := event{"op": "crashcheck", "k": k}
	live := h.mgr.VerifDump()
	liveTags := h.mgr.ListTags()
	lv := h.mgr.GetView()
	liveObs, _ := readView(&lv, false, nil)
	lv.Release()
	h.mgr.VerifDump()

	liveConfig := h.mgr.Config()
	liveHooks := append([]string(nil), h.mgr.ListPcapProcessorWebhooks()...)
	liveEndpoints := []string{}
	for _, e := range h.mgr.ListPcapOverIPEndpoints() {
		liveEndpoints = append(liveEndpoints, e.Address)
	}
	sort.Strings(liveEndpoints)
	copyBase := h.base + fmt.Sprintf("-crash%d", h.lineNo)
	if err := copyTree(h.base, copyBase); err != nil {
		return nil, err
	}
	defer os.RemoveAll(copyBase)

	cut := ""
	midSave := false
	if k >= 100 {
		// crash inside the most recent state save: a PREFIX of its file operations has happened. The order of the
		// operations (create the new file, write it, close it, remove the old file) is read from the source of
		// saveState on every run (harness/cmd/c12extract -> VERIF_SAVE_ORDER); the copy shows the disk after all of
		// them, the old file is known from the observation of the directory around the call. Prefix lengths: 100 ->
		// all but the last operation, 101 -> two operations, 102 -> one. Only meaningful directly after the call
		// that saved.
		v := k - 100
		k = 0
		order := strings.Split(os.Getenv("VERIF_SAVE_ORDER"), ",")
		if len(order) != 4 {
			order = []string{"create", "write", "close", "remove"}
		}
		if h.removedState != nil && h.removedAt == h.lineNo-1 {
			j := []int{3, 2, 1}[v%3]
			done := map[string]bool{}
			for _, op := range order[:j] {
				done[op] = true
			}
			_, _, _, stateDir, _ := h.dirs()
			rel, _ := filepath.Rel(h.base, stateDir)
			ents, _ := os.ReadDir(filepath.Join(copyBase, rel))
			newest := ""
			for _, e := range ents {
				if strings.HasSuffix(e.Name(), ".state.json") && e.Name() > newest {
					newest = e.Name()
				}
			}
			what := []string{}
			if newest != "" {
				np := filepath.Join(copyBase, rel, newest)
				switch {
				case !done["create"]:
					os.Remove(np)
					what = append(what, "new-absent")
				case !done["write"]:
					// inside the write: nothing or half of the text
					at := int64(0)
					if fi, err := os.Stat(np); err == nil && h.lineNo%2 == 0 {
						at = fi.Size() / 2
					}
					os.Truncate(np, at)
					what = append(what, fmt.Sprintf("new-cut@%d", at))
				default:
					what = append(what, "new-complete")
				}
			}
			if !done["remove"] {
				if err := os.WriteFile(filepath.Join(copyBase, rel, h.removedState.name), h.removedState.data, 0644); err != nil {
					return nil, err
				}
				what = append(what, "old-present")
			} else {
				what = append(what, "old-removed")
			}
			cut = "state-save[" + strings.Join(order[:j], ",") + "]/" + strings.Join(what, ",")
			midSave = true
		}
	}
	if k > 0 {
		// Only a crash inside the LAST file operation before this point is a reachable state ("every prefix
		// of the file-operation sequence"): the file modified most recently is the one that may be cut.
		// (Cutting an older file would un-write data that later operations already relied on.)
		files := listDisk(copyBase)
		var newest *diskFile
		var newestT int64
		for i := range files {
			fi, err := os.Stat(filepath.Join(h.base, files[i].Dir, files[i].Name))
			if err != nil {
				continue
			}
			if t := fi.ModTime().UnixNano(); newest == nil || t > newestT || (t == newestT && files[i].Name > newest.Name) {
				newest, newestT = &files[i], t
			}
		}
		cands := []diskFile{}
		// state and snapshot files are replaced by "write the new file completely, then remove the old one":
		// while the new one is being written the old one still exists, a combination this copy (old one
		// already removed) cannot show — that crash window is covered by the Lean theorem
		// `saveState_crash_safe`; here only index files and converter cache files are cut
		// … and only a file that is still UNDER CONSTRUCTION from the service's point of view, i.e. written by a
		// job whose completion has not been delivered (not yet in the served list): once a merged file is
		// published its inputs are deleted, and a disk "inputs deleted + output cut" is not a prefix of any
		// operation sequence (Pk/Props/C12Idx.lean, crash_cut_delete_phase_counterexample / crash_cut_newest_only)
		if newest != nil && newest.Dir == "index" {
			published := false
			for _, fn := range live.Indexes {
				if filepath.Base(fn) == newest.Name {
					published = true
				}
			}
			if !published {
				cands = append(cands, *newest)
			}
		}
		if len(cands) != 0 {
			f := cands[0]
			points := []int64{0, 1, f.Size / 2, f.Size - 1, 16, f.Size - 8}
			at := points[(k-1)%len(points)]
			if at < 0 {
				at = 0
			}
			if at > f.Size {
				at = f.Size
			}
			path := filepath.Join(copyBase, f.Dir, f.Name)
			if strings.HasSuffix(f.Name, ".idx") {
				// index.Writer.Finalize writes the sections first and the header (with the magic) LAST, at offset 0:
				// a crash inside the write leaves a file whose header is still the zero placeholder, with any
				// prefix of the body behind it. (Cutting the tail of a file that already has its header is not a
				// state a crash can produce.)
				fh, err := os.OpenFile(path, os.O_WRONLY, 0)
				if err != nil {
					return nil, err
				}
				fh.WriteAt(make([]byte, 16), 0)
				fh.Close()
				if at > 16 {
					if err := os.Truncate(path, at); err != nil {
						return nil, err
					}
				}
			} else if err := os.Truncate(path, at); err != nil {
				return nil, err
			}
			cut = fmt.Sprintf("%s/%s@%d/%d", f.Dir, f.Name, at, f.Size)
		}
	}
	ev["cut"] = cut
	ev["disk"] = describeDisk(copyBase, cut)
	cutLabel := cut
	if midSave {
		cut = "" // for the oracles below: every tag acknowledged must be there; settings: as before or as after the call
	}

	// the recovered service gets its own gates
	oldGate := manager.VerifGate
	rg := newGates()
	manager.VerifGate = rg.hook
	defer func() { manager.VerifGate = oldGate }()

	rh := &harness{base: copyBase, g: rg, pcaps: h.pcaps, tagDefs: map[string]string{}, ords: map[string]int{},
		views: map[int]*viewRec{}, jobHolds: map[string][]string{}, imported: map[string]bool{}, oracle: nil, lineNo: h.lineNo}
	var startErr error
	func() {
		defer func() {
			if e := recover(); e != nil {
				startErr = fmt.Errorf("panic: %v", e)
			}
		}()
		startErr = rh.start()
	}()
	if startErr != nil {
		h.complain("C12", "restart on the crash copy (cut %q) fails: %v", cut, startErr)
		ev["restart"] = "failed"
		return ev, nil
	}
	ev["restart"] = "ok"
	closed := false
	defer func() {
		if !closed {
			rh.mgr.Close()
		}
	}()

	st0, err := rh.sync()
	if err != nil {
		h.complain("C12", "recovered service (cut %q) does not start its work: %v", cut, err)
		return ev, nil
	}
	ev["recovered"] = rh.canon(st0)
	{
		names := []string{}
		for _, fn := range st0.Indexes {
			names = append(names, filepath.Base(fn))
		}
		tags := []map[string]interface{}{}
		for _, t := range rh.mgr.ListTags() {
			def := t.Definition
			for _, vt := range st0.Tags {
				if vt.Name == t.Name {
					def = vt.Definition // ListTags hides mark definitions
				}
			}
			tags = append(tags, map[string]interface{}{"name": t.Name, "def": def, "color": t.Color, "convs": nn(t.Converters)})
		}
		// which file serves each stream id (newest file of the served list that holds it), and the next stream id
		view := [][]interface{}{}
		serving := map[int]string{}
		for _, fn := range st0.Indexes { // oldest first: later files overwrite
			for _, id := range st0.IndexIDs[fn] {
				serving[int(id)] = filepath.Base(fn)
			}
		}
		vids := []int{}
		for id := range serving {
			vids = append(vids, id)
		}
		sort.Ints(vids)
		for _, id := range vids {
			view = append(view, []interface{}{id, serving[id]})
		}
		ev["recovered_names"] = map[string]interface{}{"idx": names, "tags": tags, "next": st0.NextStreamID, "view": view}
	}
	// let the recovered service settle
	rh.prev = st0
	for n := 0; ; n++ {
		job := ""
		for _, kind := range []string{"import", "tag", "convert", "merge"} {
			if running(rh.prev)[kind] {
				job = kind
				break
			}
		}
		if job == "" {
			break
		}
		if n > 300 {
			h.complain("C12", "recovered service (cut %q) does not settle", cut)
			break
		}
		if _, err := rh.step("rel " + job); err != nil {
			h.complain("C12", "recovered service (cut %q): %v", cut, err)
			return ev, nil
		}
	}
	rst := rh.mgr.VerifDump()

	// --- acknowledged tags survive (definition, colour, converter attachments)
	rt := map[string]manager.TagInfo{}
	for _, t := range rh.mgr.ListTags() {
		rt[t.Name] = t
	}
	if cut == "" || !strings.HasPrefix(cut, "state/") {
		for _, t := range liveTags {
			r, ok := rt[t.Name]
			if !ok {
				h.complain("C12", "acknowledged tag %s is gone after a restart from the crash copy (cut %q)", t.Name, cutLabel)
				continue
			}
			if r.Definition != t.Definition || r.Color != t.Color || strings.Join(r.Converters, ",") != strings.Join(t.Converters, ",") {
				h.complain("C12", "tag %s differs after restart (cut %q): %q/%s/%v, acknowledged %q/%s/%v", t.Name, cut,
					r.Definition, r.Color, r.Converters, t.Definition, t.Color, t.Converters)
			}
		}
		if len(rt) != len(liveTags) {
			h.complain("C12", "restart (cut %q) shows %d tags, %d were acknowledged", cut, len(rt), len(liveTags))
		}
	}
	// --- acknowledged settings and endpoints survive
	if cut == "" || !strings.HasPrefix(cut, "state/") {
		// (a kill inside the state save of the call just made: the call was not acknowledged yet, the restart may
		// show what was acknowledged before it or what it asked for — Pk/Props/C12.lean saveState_crash_safe)
		if c := rh.mgr.Config(); c != liveConfig && !(midSave && c == h.preConfig) {
			h.complain("C12", "setting differs after restart (cut %q): %+v, acknowledged %+v", cutLabel, c, liveConfig)
		}
		if hooks := rh.mgr.ListPcapProcessorWebhooks(); strings.Join(hooks, ",") != strings.Join(liveHooks, ",") &&
			!(midSave && strings.Join(hooks, ",") == strings.Join(h.preHooks, ",")) {
			h.complain("C12", "webhooks differ after restart (cut %q): %v, acknowledged %v", cutLabel, hooks, liveHooks)
		}
		eps := []string{}
		for _, e := range rh.mgr.ListPcapOverIPEndpoints() {
			eps = append(eps, e.Address)
		}
		sort.Strings(eps)
		if strings.Join(eps, ",") != strings.Join(liveEndpoints, ",") && !(midSave && strings.Join(eps, ",") == strings.Join(h.preEndpoints, ",")) {
			h.complain("C12", "pcap-over-ip endpoints differ after restart (cut %q): %v, acknowledged %v", cutLabel, eps, liveEndpoints)
		}
	}
	// --- every stream of a completed import is visible under its old id, with its data
	rv := rh.mgr.GetView()
	robs, rerr := readView(&rv, true, nil)
	rv.Release()
	rh.mgr.VerifDump()
	if rerr != nil {
		h.complain("C12", "streams unreadable after restart (cut %q): %v", cut, rerr)
	}
	byID := map[uint64]streamObs{}
	for _, o := range robs {
		byID[o.id] = o
	}
	// the import job that is parked may have processed any prefix of its batch (a file that is not a capture stops
	// it): the recovered service may show the completed imports alone or together with any such prefix
	batch := h.importBatchIfRunning(live)
	tDone := truthOf(h.pcaps, h.done, nil)
	tPrefixes := []map[int]*flowTruth{}
	for k := 1; k <= len(batch); k++ {
		tPrefixes = append(tPrefixes, truthOf(h.pcaps, append(append([]string(nil), h.done...), batch[:k]...), nil))
	}
	cutIndex := strings.HasPrefix(cut, "index/") && strings.HasSuffix(strings.SplitN(cut, "@", 2)[0], ".idx")
	for _, lo := range liveObs {
		ro, ok := byID[lo.id]
		if !ok || flowOfPort(ro.cport) != flowOfPort(lo.cport) {
			if !cutIndex {
				h.complain("C12", "stream %d (flow %d) of a completed import is not visible under its id after restart (cut %q)", lo.id, flowOfPort(lo.cport), cut)
			}
			continue
		}
		fl := flowOfPort(lo.cport)
		okDone := tDone[fl] != nil && ro.cdata == tDone[fl].cdata && ro.sdata == tDone[fl].sdata
		okBatch := false
		for _, tb := range tPrefixes {
			if tb[fl] != nil && ro.cdata == tb[fl].cdata && ro.sdata == tb[fl].sdata {
				okBatch = true
			}
		}
		if !okDone && !okBatch && !cutIndex {
			h.complain("C12", "stream %d after restart (cut %q) has data %q/%q, completed imports give %q/%q", lo.id, cut, ro.cdata, ro.sdata, tDone[fl].cdata, tDone[fl].sdata)
		}
	}
	// --- tag matches converge to the correct sets (on the data the recovered service serves)
	rh.tagDefs = map[string]string{}
	for _, t := range rst.Tags {
		rh.tagDefs[t.Name] = t.Definition
	}
	for _, t := range rst.Tags {
		if len(t.Uncertain) != 0 {
			h.complain("C12", "after restart (cut %q) and settling tag %s still has %d streams pending", cut, t.Name, len(t.Uncertain))
			continue
		}
		mat := map[uint]bool{}
		for _, m := range t.Matches {
			mat[m] = true
		}
		rh.world = map[uint64]*flowTruth{}
		// after a crash the converter cache may hold output for a stream whose data an un-acknowledged import had
		// already rewritten on disk (no property covers that): answers that depend on converter output are left
		// undetermined here
		rh.convInFlight = true
		for _, o := range robs {
			ft := &flowTruth{cport: o.cport, sport: o.sport, cbytes: o.cbytes, sbytes: o.sbytes, cdata: o.cdata, sdata: o.sdata}
			for _, ids := range rst.Cached {
				for _, cid := range ids {
					if cid == o.id {
						ft.cached = true
					}
				}
			}
			rh.world[o.id] = ft
		}
		for _, o := range robs {
			ft := rh.world[o.id]
			want, ok := rh.evalDef(t.Definition, o.id, ft, 0)
			if ok && want != mat[uint(o.id)] {
				h.complain("C12", "after restart (cut %q) tag %s (%q) says %v for stream %d, its definition evaluates to %v", cut, t.Name, t.Definition, mat[uint(o.id)], o.id, want)
			}
		}
	}
	// --- "... and then any further history": one more acknowledged call on the recovered service, a clean
	//     shutdown and a second restart must show that call and everything that was there before it
	if cut == "" {
		const after = "tag/zzafter"
		// every second experiment makes one more acknowledged call before the clean shutdown; the others shut down
		// at once: what the first restart showed must then be there again (nothing may depend on a later save)
		var err error
		if h.lineNo%2 == 0 {
			err = rh.mgr.AddTag(after, "sport:2999", "#123456")
		}
		if err == nil {
			want := map[string]string{}
			for _, t := range rh.mgr.ListTags() {
				want[t.Name] = t.Definition + "|" + t.Color + "|" + strings.Join(t.Converters, ",")
			}
			wantCfg := rh.mgr.Config()
			wantHooks := strings.Join(rh.mgr.ListPcapProcessorWebhooks(), ",")
			weps := []string{}
			for _, e := range rh.mgr.ListPcapOverIPEndpoints() {
				weps = append(weps, e.Address)
			}
			sort.Strings(weps)
			// park/settle is not needed for a shutdown: release whatever is waiting so that Close can finish
			for n := 0; n < 50; n++ {
				released := false
				for _, kind := range []string{"import", "tag", "convert", "merge"} {
					if rg.at(kind) {
						rg.release(kind)
						released = true
					}
				}
				if !released {
					time.Sleep(2 * time.Millisecond)
					if !rg.at("import") && !rg.at("tag") && !rg.at("convert") && !rg.at("merge") {
						st := rh.mgr.VerifDump()
						if len(running(st)) == 0 {
							break
						}
					}
				}
			}
			rh.mgr.Close()
			closed = true
			rg2 := newGates()
			manager.VerifGate = rg2.hook
			rh2 := &harness{base: copyBase, g: rg2, pcaps: h.pcaps, tagDefs: map[string]string{}, ords: map[string]int{},
				views: map[int]*viewRec{}, jobHolds: map[string][]string{}, imported: map[string]bool{}, oracle: nil, lineNo: h.lineNo}
			var err2 error
			func() {
				defer func() {
					if e := recover(); e != nil {
						err2 = fmt.Errorf("panic: %v", e)
					}
				}()
				err2 = rh2.start()
			}()
			if err2 != nil {
				h.complain("C12", "second restart (after one more acknowledged call and a clean shutdown; first from %q) fails: %v", ev["cut"], err2)
				return ev, nil
			}
			got := map[string]string{}
			for _, t := range rh2.mgr.ListTags() {
				got[t.Name] = t.Definition + "|" + t.Color + "|" + strings.Join(t.Converters, ",")
			}
			for n, w := range want {
				if g, ok := got[n]; !ok {
					h.complain("C12", "tag %s acknowledged by the recovered service (first restart from %q) is gone after a clean shutdown and a second restart", n, ev["cut"])
				} else if g != w {
					h.complain("C12", "tag %s differs after the second restart (first from %q): %q, acknowledged %q", n, ev["cut"], g, w)
				}
			}
			if len(got) != len(want) {
				h.complain("C12", "second restart (first from %q) shows %d tags, %d were acknowledged", ev["cut"], len(got), len(want))
			}
			if c := rh2.mgr.Config(); c != wantCfg {
				h.complain("C12", "setting differs after the second restart (first from %q)", ev["cut"])
			}
			if hk := strings.Join(rh2.mgr.ListPcapProcessorWebhooks(), ","); hk != wantHooks {
				h.complain("C12", "webhooks differ after the second restart (first from %q): %q, acknowledged %q", ev["cut"], hk, wantHooks)
			}
			geps := []string{}
			for _, e := range rh2.mgr.ListPcapOverIPEndpoints() {
				geps = append(geps, e.Address)
			}
			sort.Strings(geps)
			if strings.Join(geps, ",") != strings.Join(weps, ",") {
				h.complain("C12", "pcap-over-ip endpoints differ after the second restart (first from %q): %v, acknowledged %v", ev["cut"], geps, weps)
			}
			for n := 0; n < 50; n++ {
				for _, kind := range []string{"import", "tag", "convert", "merge"} {
					if rg2.at(kind) {
						rg2.release(kind)
					}
				}
				time.Sleep(time.Millisecond)
			}
			rh2.mgr.Close()
		}
	}
	return ev, nil
}

// importBatchIfRunning returns the captures of the import job that is parked at its gate.
func (h *harness) importBatchIfRunning(live manager.VerifState) []string {
	if len(live.ImportJobs) == 0 {
		return nil
	}
	return h.importBatch
}

// describeDisk lists what a restart will find: index files (complete unless it is the file that was
// cut) and state files (with their Saved stamp and tags when they can be decoded).
func describeDisk(base, cut string) map[string]interface{} {
	idx := []map[string]interface{}{}
	ents, _ := os.ReadDir(filepath.Join(base, "index"))
	for _, e := range ents {
		if !strings.HasSuffix(e.Name(), ".idx") {
			continue
		}
		// "complete" = readable: the header (with the magic, written last) and all sections can be loaded
		complete := false
		ids := []int{}
		if r, err := index.NewReader(filepath.Join(base, "index", e.Name())); err == nil {
			complete = true
			for id := range r.StreamIDs() {
				ids = append(ids, int(id))
			}
			sort.Ints(ids)
			r.Close()
		}
		idx = append(idx, map[string]interface{}{"name": e.Name(), "complete": complete, "ids": ids})
	}
	states := []map[string]interface{}{}
	ents, _ = os.ReadDir(filepath.Join(base, "state"))
	for _, e := range ents {
		if !strings.HasSuffix(e.Name(), ".state.json") {
			continue
		}
		rec := map[string]interface{}{"name": e.Name(), "parsable": false, "saved": 0, "tags": []interface{}{}}
		data, err := os.ReadFile(filepath.Join(base, "state", e.Name()))
		if err == nil {
			var sf struct {
				Saved time.Time
				Tags  []struct {
					Name, Definition, Color string
					Converters              []string
				}
			}
			if json.Unmarshal(data, &sf) == nil {
				rec["parsable"] = true
				rec["saved"] = sf.Saved.UnixNano()
				tags := []interface{}{}
				for _, t := range sf.Tags {
					tags = append(tags, map[string]interface{}{"name": t.Name, "def": t.Definition, "color": t.Color, "convs": nn(t.Converters)})
				}
				rec["tags"] = tags
			}
		}
		states = append(states, rec)
	}
	return map[string]interface{}{"idx": idx, "states": states}
}
