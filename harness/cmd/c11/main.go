// c11: correspondence harness for the tag management API (property C11).
//
//	c11 gen -seed S -n N         write N generated cases (line protocol of Pk/Driver/C11.lean) to stdout
//	c11 annotate                 stdin ops -> stdout ops with the parse facts ("p") recomputed by the real query.Parse
//	c11 run [-oracle FILE]       execute the ops from stdin against REAL managers, one output line per op.
//	                             Every case (a "new" op and what follows) runs in its own child process on
//	                             fresh temp dirs, with a watchdog: a call or Status() that does not answer within
//	                             5 s is the outcome "hang", a crash of the child is the outcome "panic".
//	                             An independent oracle (written from the property statement, not from the Lean
//	                             model) writes `ORACLE line=<n> <msg>` complaints to FILE.
//	c11 child -dir D -base N     (internal) one case
//
// Canonicalisation: tags are listed in ListTags order (sorted by name), observed only when the service
// is quiet (no tagging job running, every UncertainCount = 0), errors are a class (ok/err), never text.
package main

import (
	"bufio"
	"bytes"
	"encoding/json"
	"flag"
	"fmt"
	"io"
	"log"
	"net/netip"
	"os"
	"os/exec"
	"path/filepath"
	"reflect"
	"runtime"
	"sort"
	"strings"
	"sync"
	"time"

	"github.com/gopacket/gopacket"
	"github.com/gopacket/gopacket/layers"
	"github.com/gopacket/gopacket/pcapgo"
	"github.com/spq/pkappa2/internal/index/manager"
	"github.com/spq/pkappa2/internal/query"
	"github.com/spq/pkappa2/internal/verifh/lib"
)

const (
	callTimeout   = 5 * time.Second  // an API call / Status() must answer within this
	settleTimeout = 30 * time.Second // tagging jobs must settle within this
	childTimeout  = 90 * time.Second // parent-side: silence of a child for this long = hang
)

// ---------------------------------------------------------------------------------------
// line protocol

type Facts struct {
	Err   bool     `json:"err"`
	Grp   bool     `json:"grp"`
	MT    []string `json:"mt"`
	ST    []string `json:"st"`
	MF    int      `json:"mf"`
	SF    int      `json:"sf"`
	IdsOk bool     `json:"idsok"`
	Ids   []uint64 `json:"ids"`
}

type Op struct {
	Op    string   `json:"op"`
	Name  string   `json:"name"`
	Color string   `json:"color"`
	Def   string   `json:"def"`
	To    string   `json:"to"`
	Convs []string `json:"convs"`
	Ids   []uint64 `json:"ids"`
	Next  uint64   `json:"next"`
	P     *Facts   `json:"p,omitempty"`
	X     string   `json:"x,omitempty"` // generator's intent, used for the distribution counters only
}

func (o Op) line() string {
	if o.Convs == nil {
		o.Convs = []string{}
	}
	if o.Ids == nil {
		o.Ids = []uint64{}
	}
	var b bytes.Buffer
	e := json.NewEncoder(&b)
	e.SetEscapeHTML(false)
	if err := e.Encode(o); err != nil {
		panic(err)
	}
	return strings.TrimRight(b.String(), "\n")
}

func parseOp(line string) (Op, bool) {
	var o Op
	d := json.NewDecoder(strings.NewReader(line))
	if err := d.Decode(&o); err != nil {
		return o, false
	}
	switch o.Op {
	case "new", "add", "del", "color", "query", "rename", "conv", "markadd", "markdel":
		return o, true
	}
	return o, false
}

// factsOf asks the real parser (this is the only place the harness feeds the model).
func factsOf(def string, next uint64) *Facts {
	f := &Facts{MT: []string{}, ST: []string{}, Ids: []uint64{}}
	q, err := query.Parse(def)
	if err != nil {
		f.Err = true
		return f
	}
	fs := q.Conditions.Features()
	f.Grp = q.Grouping != nil
	f.MT = append(f.MT, fs.MainTags...)
	f.ST = append(f.ST, fs.SubQueryTags...)
	f.MF, f.SF = int(fs.MainFeatures), int(fs.SubQueryFeatures)
	ids, ok := q.Conditions.StreamIDs(next)
	f.IdsOk = ok
	if ok {
		for i := uint(0); ids.Next(&i); i++ {
			f.Ids = append(f.Ids, uint64(i))
		}
	}
	return f
}

func annotate() int {
	in := bufio.NewScanner(os.Stdin)
	in.Buffer(make([]byte, 1<<22), 1<<22)
	out := bufio.NewWriter(os.Stdout)
	defer out.Flush()
	next := uint64(0)
	for in.Scan() {
		o, ok := parseOp(in.Text())
		if !ok {
			fmt.Fprintln(out, in.Text())
			continue
		}
		if o.Op == "new" {
			next = o.Next
		}
		if o.Op == "add" || o.Op == "query" {
			o.P = factsOf(o.Def, next)
		}
		fmt.Fprintln(out, o.line())
	}
	return 0
}

// ---------------------------------------------------------------------------------------
// generator

var (
	validNames   = []string{"tag/a", "tag/b", "service/s", "mark/m", "generated/g"}
	extraNames   = []string{"tag/c", "mark/n", "service/a", "tag/a/b"}
	invalidNames = []string{"", "a", "tag/", "mark/", "foo/x", "tag", "/a", "Tag/a"}
	colors       = []string{"red", "#00ff00", "blue"}
	plainDefs    = []string{"cport:80", "sport:1 or sport:2", "protocol:udp", "data:x", "id:1,2", "id:0", "id:-1", "-id:1", "id:2:", "id:9", "", "chost:1.2.3.4", "tag:a -tag:a", "cbytes:1:"}
	badDefs      = []string{"(", "foo:bar", "ltime:-1h:", "group:\"x\"", "sort:id", "id:x"}
	markDefs     = []string{"id:-1", "id:0", "id:1,2", "id:0,3", "id:1:2", "id:9", "id:2,9", "-id:1", "id:0:"}
	convPool     = []string{"cva", "cvb", "cvc"}
)

// refTerm renders a reference to the tag `name` (e.g. "tag/a") in query syntax.
func refTerm(r *lib.RNG, name string) string {
	typ, sub, _ := strings.Cut(name, "/")
	t := typ + ":" + sub
	switch r.Intn(6) {
	case 0:
		return "-" + t
	case 1:
		return "@q:" + t
	default:
		return t
	}
}

type genState struct {
	r      *lib.RNG
	exists map[string]bool     // shadow of the tag table (only steers the choice of names; never compared)
	refs   map[string][]string // references of the existing tags
	next   uint64
	convs  []string
}

func validName(n string) bool {
	typ, sub, ok := strings.Cut(n, "/")
	return ok && sub != "" && (typ == "tag" || typ == "service" || typ == "mark" || typ == "generated")
}

func isMarkName(n string) bool {
	return strings.HasPrefix(n, "mark/") || strings.HasPrefix(n, "generated/")
}

func (g *genState) referenced(n string) bool {
	for o, rs := range g.refs {
		if o == n {
			continue
		}
		for _, r := range rs {
			if r == n {
				return true
			}
		}
	}
	return false
}

// defAccepted: would AddTag / UpdateTag(query) accept the definition (cycles ignored)?
func (g *genState) defAccepted(name string, p *Facts) bool {
	if p.Err || p.Grp || (p.MF|p.SF)&32 != 0 || (isMarkName(name) && !p.IdsOk) {
		return false
	}
	for _, r := range append(append([]string{}, p.MT...), p.ST...) {
		if r == name || !g.exists[r] {
			return false
		}
	}
	return true
}

func (g *genState) reaches(from, to string, depth int) bool {
	if depth > 12 {
		return false
	}
	for _, r := range g.refs[from] {
		if r == to || g.reaches(r, to, depth+1) {
			return true
		}
	}
	return false
}

func (g *genState) cyclic() bool {
	state := map[string]int{}
	var visit func(n string) bool
	visit = func(n string) bool {
		if state[n] == 1 {
			return true
		}
		if state[n] == 2 {
			return false
		}
		state[n] = 1
		for _, r := range g.refs[n] {
			if visit(r) {
				return true
			}
		}
		state[n] = 2
		return false
	}
	for n := range g.refs {
		if visit(n) {
			return true
		}
	}
	return false
}

func (g *genState) existing() []string {
	res := []string{}
	for _, n := range append(append([]string{}, validNames...), extraNames...) {
		if g.exists[n] {
			res = append(res, n)
		}
	}
	return res
}

func (g *genState) pickName(wantExisting bool) (string, string) {
	r := g.r
	ex := g.existing()
	switch {
	case wantExisting && len(ex) != 0 && r.Chance(9, 10):
		return lib.Pick(r, ex), ""
	case r.Chance(1, 14):
		return lib.Pick(r, invalidNames), "invalid-name"
	case r.Chance(1, 8):
		return lib.Pick(r, extraNames), ""
	default:
		if !wantExisting { // a fresh name if there is one
			for i := 0; i < 3; i++ {
				if n := lib.Pick(r, validNames); !g.exists[n] {
					return n, ""
				}
			}
		}
		return lib.Pick(r, validNames), ""
	}
}

// genDef returns a definition for the tag `name` and the generator's intent.
func (g *genState) genDef(name string) (string, string) {
	r := g.r
	ex := g.existing()
	if strings.HasPrefix(name, "mark/") || strings.HasPrefix(name, "generated/") {
		if r.Chance(7, 10) {
			return lib.Pick(r, markDefs), "id-def"
		}
	}
	// close a cycle: reference a tag that (transitively) references this one
	if g.exists[name] && r.Chance(1, 5) {
		up := []string{}
		for o := range g.refs {
			if o != name && g.reaches(o, name, 0) {
				up = append(up, o)
			}
		}
		sort.Strings(up)
		if len(up) != 0 {
			return refTerm(r, lib.Pick(r, up)), "cycle"
		}
	}
	switch r.Intn(16) {
	case 0, 1, 2, 14, 15:
		return lib.Pick(r, plainDefs), "plain"
	case 3:
		return lib.Pick(r, badDefs), "bad-def"
	case 4:
		return refTerm(r, name), "self-ref"
	case 5:
		return refTerm(r, lib.Pick(r, []string{"tag/zz", "mark/zz", "tag/", "service/b"})), "missing-ref"
	case 6, 7, 8, 9, 10:
		// reference one or two existing tags (mutual references arise when both directions are tried)
		others := []string{}
		for _, n := range ex {
			if n != name {
				others = append(others, n)
			}
		}
		if len(others) == 0 {
			return lib.Pick(r, plainDefs), "plain"
		}
		d := refTerm(r, lib.Pick(r, others))
		if r.Chance(1, 3) {
			d += lib.Pick(r, []string{" ", " or ", " and "}) + refTerm(r, lib.Pick(r, others))
		}
		if r.Chance(1, 4) {
			d += " cport:80"
		}
		return d, "ref-existing"
	case 11:
		// existing and missing mixed
		if len(ex) != 0 {
			return refTerm(r, lib.Pick(r, ex)) + " " + refTerm(r, "tag/zz"), "missing-ref"
		}
		return "tag:zz", "missing-ref"
	case 12:
		// reference to any pool name, existing or not
		return refTerm(r, lib.Pick(r, validNames)), "ref-any"
	default:
		return lib.Pick(r, markDefs), "id-def"
	}
}

func (g *genState) genIds() ([]uint64, string) {
	r := g.r
	n := int(g.next)
	switch r.Intn(12) {
	case 0:
		return []uint64{}, "ids-empty"
	case 1, 2:
		return []uint64{0}, "ids-stream0"
	case 3:
		return []uint64{uint64(n)}, "ids-unknown"
	case 4:
		return []uint64{uint64(r.Intn(n + 1)), uint64(n + 1 + r.Intn(5))}, "ids-unknown"
	case 5:
		if n > 0 {
			return []uint64{uint64(n - 1)}, "ids-last"
		}
		return []uint64{0}, "ids-stream0"
	default:
		k := 1 + r.Intn(3)
		ids := make([]uint64, k)
		for i := range ids {
			ids[i] = uint64(r.Intn(n + 1)) // n itself is unknown: roughly one list in four is rejected
			if n > 0 && r.Chance(3, 4) {
				ids[i] = uint64(r.Intn(n))
			}
		}
		return ids, "ids-some"
	}
}

func genCase(r *lib.RNG, w io.Writer) {
	g := &genState{r: r, exists: map[string]bool{}, refs: map[string][]string{}}
	g.next = lib.Pick(r, []uint64{0, 1, 4, 4, 4, 6, 6})
	switch r.Intn(4) {
	case 0:
		g.convs = []string{}
	case 1:
		g.convs = []string{"cva"}
	default:
		g.convs = append([]string{}, convPool...)
	}
	fmt.Fprintln(w, Op{Op: "new", Next: g.next, Convs: g.convs}.line())
	n := 1 + r.Intn(30)
	for i := 0; i < n; i++ {
		o := Op{}
		k := r.Intn(100)
		if len(g.existing()) < 2 && r.Chance(1, 2) {
			k = 0
		}
		switch {
		case k < 26:
			o.Op = "add"
			o.Name, o.X = g.pickName(false)
			o.Color = lib.Pick(r, colors)
			var x string
			o.Def, x = g.genDef(o.Name)
			if o.X == "" {
				o.X = x
			}
			o.P = factsOf(o.Def, g.next)
			if validName(o.Name) && !g.exists[o.Name] && g.defAccepted(o.Name, o.P) {
				g.exists[o.Name] = true
				g.refs[o.Name] = append(append([]string{}, o.P.MT...), o.P.ST...)
			}
		case k < 36:
			o.Op = "del"
			o.Name, o.X = g.pickName(true)
			if g.exists[o.Name] && !g.referenced(o.Name) {
				delete(g.exists, o.Name)
				delete(g.refs, o.Name)
			} else if g.exists[o.Name] && o.X == "" {
				o.X = "del-referenced"
			}
		case k < 42:
			o.Op = "color"
			o.Name, o.X = g.pickName(true)
			o.Color = lib.Pick(r, append([]string{""}, colors...))
		case k < 64:
			o.Op = "query"
			o.Name, o.X = g.pickName(true)
			var x string
			o.Def, x = g.genDef(o.Name)
			if o.X == "" {
				o.X = x
			}
			o.P = factsOf(o.Def, g.next)
			if g.exists[o.Name] && g.defAccepted(o.Name, o.P) {
				// (a cycle makes the real call fail; the shadow then over-approximates, which is harmless)
				if g.referenced(o.Name) && o.X != "invalid-name" {
					o.X = "query-of-referenced:" + o.X
				}
				old := g.refs[o.Name]
				g.refs[o.Name] = append(append([]string{}, o.P.MT...), o.P.ST...)
				if g.cyclic() {
					g.refs[o.Name] = old
					o.X = "cycle-attempt"
				}
			}
		case k < 72:
			o.Op = "rename"
			o.Name, o.X = g.pickName(true)
			typ, _, _ := strings.Cut(o.Name, "/")
			switch r.Intn(6) {
			case 0:
				o.To = lib.Pick(r, invalidNames)
			case 1:
				o.To = lib.Pick(r, validNames)
			default:
				o.To = typ + "/" + lib.Pick(r, []string{"a", "b", "c", "s", "m", "n", "g"})
			}
			if g.exists[o.Name] && g.referenced(o.Name) && o.X == "" {
				o.X = "rename-referenced"
			}
			ot, _, _ := strings.Cut(o.To, "/")
			if g.exists[o.Name] && validName(o.To) && ot == typ && !g.exists[o.To] && !g.referenced(o.Name) {
				g.exists[o.To], g.refs[o.To] = true, g.refs[o.Name]
				delete(g.exists, o.Name)
				delete(g.refs, o.Name)
			}
		case k < 82:
			o.Op = "conv"
			o.Name, o.X = g.pickName(true)
			switch r.Intn(8) {
			case 0:
				o.Convs = append([]string{}, convPool...)
				o.X = "conv-all"
			case 1:
				o.Convs = []string{}
				o.X = "conv-none"
			default:
				m := r.Intn(4)
				for j := 0; j < m; j++ {
					if r.Chance(1, 8) {
						o.Convs = append(o.Convs, "nope")
						o.X = "conv-unknown"
					} else {
						o.Convs = append(o.Convs, lib.Pick(r, convPool))
					}
				}
			}
		default:
			o.Op = lib.Pick(r, []string{"markadd", "markadd", "markdel"})
			if r.Chance(9, 10) {
				cands := []string{}
				for _, nme := range g.existing() {
					if strings.HasPrefix(nme, "mark/") || strings.HasPrefix(nme, "generated/") {
						cands = append(cands, nme)
					}
				}
				if len(cands) != 0 {
					o.Name = lib.Pick(r, cands)
				} else {
					o.Name = lib.Pick(r, []string{"mark/m", "generated/g"})
				}
			} else {
				o.Name, o.X = g.pickName(true)
			}
			var x string
			o.Ids, x = g.genIds()
			if o.X == "" {
				o.X = x
			}
		}
		fmt.Fprintln(w, o.line())
	}
}

func gen(seed uint64, n int) {
	r := lib.NewRNG(seed)
	w := bufio.NewWriter(os.Stdout)
	defer w.Flush()
	for i := 0; i < n; i++ {
		genCase(r.Fork(), w)
	}
}

// ---------------------------------------------------------------------------------------
// child: one case against a real manager

type obsTag struct {
	N   string   `json:"n"`
	D   string   `json:"d"`
	SD  string   `json:"sd"`
	C   string   `json:"c"`
	Ref bool     `json:"ref"`
	CV  []string `json:"cv"`
	M   []uint64 `json:"m"`
}

type obsLine struct {
	R    string   `json:"r"`
	Tags []obsTag `json:"tags"`
}

type snapshot struct {
	list   []manager.TagInfo
	strict []manager.VerifC11Tag
}

type child struct {
	mgr    *manager.Manager
	next   uint64
	out    *bufio.Writer
	lineNo int
	prev   snapshot
}

func (c *child) complain(format string, a ...interface{}) {
	fmt.Fprintf(c.out, "O ORACLE line=%d %s\n", c.lineNo, fmt.Sprintf(format, a...))
}

func (c *child) result(v interface{}) {
	var b bytes.Buffer
	e := json.NewEncoder(&b)
	e.SetEscapeHTML(false)
	if err := e.Encode(v); err != nil {
		panic(err)
	}
	fmt.Fprintf(c.out, "R %s", b.String())
	c.out.Flush()
}

// within runs f and reports whether it returned in time (the goroutine is abandoned otherwise).
func within(d time.Duration, f func()) bool {
	done := make(chan struct{})
	go func() {
		f()
		close(done)
	}()
	select {
	case <-done:
		return true
	case <-time.After(d):
		return false
	}
}

func (c *child) hang(what string) {
	c.complain("service does not answer: %s did not return within %v", what, callTimeout)
	c.result(map[string]string{"r": "hang"})
	os.Exit(0)
}

// quiet waits until no tagging job runs and every tag is certain, then takes the snapshot.
func (c *child) quiet() (snapshot, bool) {
	deadline := time.Now().Add(settleTimeout)
	for {
		var st manager.Statistics
		if !within(callTimeout, func() { st = c.mgr.Status() }) {
			c.hang("Status()")
		}
		if !st.TaggingJobRunning && st.ImportJobCount == 0 {
			var s snapshot
			if !within(callTimeout, func() { s.list = c.mgr.ListTags(); s.strict = c.mgr.VerifC11Tags() }) {
				c.hang("ListTags()")
			}
			certain := true
			for _, t := range s.list {
				if t.UncertainCount != 0 {
					certain = false
				}
			}
			for _, t := range s.strict {
				if len(t.Uncertain) != 0 {
					certain = false
				}
			}
			if certain && len(s.list) == len(s.strict) {
				return s, true
			}
		}
		if time.Now().After(deadline) {
			return snapshot{}, false
		}
		time.Sleep(500 * time.Microsecond)
	}
}

func writePcap(path string, n int) error {
	f, err := os.Create(path)
	if err != nil {
		return err
	}
	defer f.Close()
	w, err := pcapgo.NewNgWriter(f, layers.LinkTypeIPv4)
	if err != nil {
		return err
	}
	t0 := time.Date(2020, 1, 1, 12, 0, 0, 0, time.UTC)
	for i := 0; i < n; i++ {
		cl := netip.MustParseAddrPort(fmt.Sprintf("1.2.3.4:%d", 1000+i))
		sv := netip.MustParseAddrPort("4.3.2.1:80")
		ip := layers.IPv4{Version: 4, TTL: 64, SrcIP: cl.Addr().AsSlice(), DstIP: sv.Addr().AsSlice(), Protocol: layers.IPProtocolUDP}
		udp := layers.UDP{SrcPort: layers.UDPPort(cl.Port()), DstPort: layers.UDPPort(sv.Port())}
		if err := udp.SetNetworkLayerForChecksum(&ip); err != nil {
			return err
		}
		buf := gopacket.NewSerializeBuffer()
		if err := gopacket.SerializeLayers(buf, gopacket.SerializeOptions{ComputeChecksums: true, FixLengths: true}, &ip, &udp, gopacket.Payload([]byte(fmt.Sprintf("x%d", i)))); err != nil {
			return err
		}
		data := buf.Bytes()
		if err := w.WritePacket(gopacket.CaptureInfo{Timestamp: t0.Add(time.Duration(i) * time.Second), CaptureLength: len(data), Length: len(data)}, data); err != nil {
			return err
		}
	}
	return w.Flush()
}

const converterScript = `#!/usr/bin/python3
import base64
import json
import sys

lines = []
while 1:
    line = sys.stdin.readline()
    if line == "":
        break
    line = line.strip()
    if line != "":
        lines.append(json.loads(line))
        continue
    print(json.dumps({"Direction": "client-to-server", "Content": base64.b64encode(b"c").decode(), "Time": "2222-02-22T22:22:22.222222"}))
    print()
    print("{}", flush=True)
    lines = []
`

func (c *child) start(dir string, o Op) bool {
	sub := map[string]string{}
	for _, d := range []string{"pcap", "index", "snapshot", "state", "converter"} {
		sub[d] = filepath.Join(dir, d) + "/"
		if err := os.MkdirAll(sub[d], 0755); err != nil {
			return false
		}
	}
	for _, cv := range o.Convs {
		if err := os.WriteFile(filepath.Join(sub["converter"], cv+".py"), []byte(converterScript), 0775); err != nil {
			return false
		}
	}
	mgr, err := manager.New(sub["pcap"], sub["index"], sub["snapshot"], sub["state"], sub["converter"], "")
	if err != nil {
		fmt.Fprintln(os.Stderr, "manager.New:", err)
		return false
	}
	c.mgr = mgr
	if o.Next != 0 {
		if err := writePcap(filepath.Join(sub["pcap"], "c11.pcap"), int(o.Next)); err != nil {
			fmt.Fprintln(os.Stderr, "writePcap:", err)
			return false
		}
		mgr.ImportPcaps([]string{"c11.pcap"})
	}
	deadline := time.Now().Add(settleTimeout)
	for {
		st := mgr.Status()
		if st.ImportJobCount == 0 && uint64(st.StreamCount) == o.Next && !st.TaggingJobRunning {
			break
		}
		if time.Now().After(deadline) {
			fmt.Fprintf(os.Stderr, "import did not produce %d streams: %+v\n", o.Next, st)
			return false
		}
		time.Sleep(time.Millisecond)
	}
	c.next = o.Next
	return true
}

// refsOfDef recomputes the references of a definition with the real parser (oracle side).
func refsOfDef(def string) ([]string, error) {
	q, err := query.Parse(def)
	if err != nil {
		return nil, err
	}
	fs := q.Conditions.Features()
	seen := map[string]bool{}
	res := []string{}
	for _, l := range [][]string{fs.MainTags, fs.SubQueryTags} {
		for _, n := range l {
			if !seen[n] {
				seen[n] = true
				res = append(res, n)
			}
		}
	}
	return res, nil
}

func idSet(ids []uint64) map[uint64]bool {
	m := map[uint64]bool{}
	for _, i := range ids {
		m[i] = true
	}
	return m
}

func sameSet(a, b map[uint64]bool) bool {
	if len(a) != len(b) {
		return false
	}
	for k := range a {
		if !b[k] {
			return false
		}
	}
	return true
}

func strSet(l []string) map[string]bool {
	m := map[string]bool{}
	for _, s := range l {
		m[s] = true
	}
	return m
}

func findInfo(l []manager.TagInfo, n string) *manager.TagInfo {
	for i := range l {
		if l[i].Name == n {
			return &l[i]
		}
	}
	return nil
}

func findStrict(l []manager.VerifC11Tag, n string) *manager.VerifC11Tag {
	for i := range l {
		if l[i].Name == n {
			return &l[i]
		}
	}
	return nil
}

// oracle: the property statement, checked on the real manager after every call.
func (c *child) oracle(o Op, failed bool, before, after snapshot) {
	// 1. the tag graph recomputed from the definitions: closed, acyclic, Referenced mirrors it
	refs := map[string][]string{}
	for _, t := range after.strict {
		rs, err := refsOfDef(t.Definition)
		if err != nil {
			c.complain("definition %q of %s does not parse: %v", t.Definition, t.Name, err)
		}
		refs[t.Name] = rs
	}
	referrers := map[string][]string{}
	for n, rs := range refs {
		for _, r := range rs {
			if _, ok := refs[r]; !ok {
				c.complain("tag %s references missing tag %s", n, r)
			}
			referrers[r] = append(referrers[r], n)
		}
	}
	state := map[string]int{}
	var visit func(n string) bool
	visit = func(n string) bool {
		switch state[n] {
		case 1:
			return true
		case 2:
			return false
		}
		state[n] = 1
		for _, r := range refs[n] {
			if _, ok := refs[r]; ok && visit(r) {
				return true
			}
		}
		state[n] = 2
		return false
	}
	names := []string{}
	for n := range refs {
		names = append(names, n)
	}
	sort.Strings(names)
	for _, n := range names {
		if visit(n) {
			c.complain("reference cycle through %s", n)
			break
		}
	}
	for _, t := range after.list {
		if t.Referenced != (len(referrers[t.Name]) != 0) {
			c.complain("ListTags: %s Referenced=%v but referrers=%v", t.Name, t.Referenced, referrers[t.Name])
		}
		if s := findStrict(after.strict, t.Name); s != nil && int(t.MatchingCount) != len(s.Matches) {
			c.complain("ListTags: %s MatchingCount=%d but %d matches", t.Name, t.MatchingCount, len(s.Matches))
		}
	}
	for i := 1; i < len(after.list); i++ {
		if !(after.list[i-1].Name < after.list[i].Name) {
			c.complain("ListTags not sorted / duplicate name %s", after.list[i].Name)
		}
	}
	// 2. an error leaves all tags unchanged
	if failed {
		if !reflect.DeepEqual(before.list, after.list) {
			c.complain("%s %s returned an error but ListTags changed: %+v -> %+v", o.Op, o.Name, before.list, after.list)
		} else if !reflect.DeepEqual(before.strict, after.strict) {
			c.complain("%s %s returned an error but tag internals changed: %+v -> %+v", o.Op, o.Name, before.strict, after.strict)
		}
		return
	}
	// 3. success applies the change, and only that
	target, newName := o.Name, o.Name
	bi, ai := findInfo(before.list, o.Name), findInfo(after.list, o.Name)
	wasReferenced := false
	if bs := findStrict(before.strict, o.Name); bs != nil {
		for _, t := range before.strict {
			if rs, err := refsOfDef(t.Definition); err == nil {
				for _, r := range rs {
					if r == o.Name {
						wasReferenced = true
					}
				}
			}
		}
	}
	switch o.Op {
	case "add":
		if bi != nil {
			c.complain("add %s succeeded but the tag existed", o.Name)
		}
		as := findStrict(after.strict, o.Name)
		if ai == nil || as == nil {
			c.complain("add %s succeeded but the tag is not listed", o.Name)
		} else if as.Definition != o.Def || ai.Color != o.Color {
			c.complain("add %s: stored (%q,%q), want (%q,%q)", o.Name, as.Definition, ai.Color, o.Def, o.Color)
		}
	case "del":
		if bi == nil {
			c.complain("del %s succeeded but the tag did not exist", o.Name)
		}
		if ai != nil {
			c.complain("del %s succeeded but the tag is still listed", o.Name)
		}
		if wasReferenced {
			c.complain("del %s succeeded although the tag was referenced", o.Name)
		}
		target = ""
	case "color":
		if ai == nil {
			c.complain("color %s succeeded but the tag is not listed", o.Name)
		} else if o.Color != "" && ai.Color != o.Color {
			c.complain("color %s: Color=%q, want %q", o.Name, ai.Color, o.Color)
		}
	case "query":
		as := findStrict(after.strict, o.Name)
		if as == nil {
			c.complain("query %s succeeded but the tag is not listed", o.Name)
		} else if as.Definition != o.Def {
			c.complain("query %s: definition %q, want %q", o.Name, as.Definition, o.Def)
		}
	case "rename":
		if o.To != "" {
			newName = o.To
			an := findInfo(after.list, o.To)
			if bi == nil || ai != nil || an == nil {
				c.complain("rename %s -> %s succeeded but before=%v old-after=%v new-after=%v", o.Name, o.To, bi != nil, ai != nil, an != nil)
			} else if an.Definition != bi.Definition || an.Color != bi.Color || !reflect.DeepEqual(an.Converters, bi.Converters) {
				c.complain("rename %s -> %s changed the tag: %+v -> %+v", o.Name, o.To, *bi, *an)
			}
			if wasReferenced {
				c.complain("rename %s succeeded although the tag was referenced", o.Name)
			}
		} else if ai == nil {
			c.complain("rename %s succeeded but the tag is not listed", o.Name)
		}
	case "conv":
		if ai == nil {
			c.complain("conv %s succeeded but the tag is not listed", o.Name)
		} else if !reflect.DeepEqual(strSet(ai.Converters), strSet(o.Convs)) || len(ai.Converters) != len(strSet(o.Convs)) {
			c.complain("conv %s %v succeeded but Converters=%v", o.Name, o.Convs, ai.Converters)
		}
	case "markadd", "markdel":
		bs, as := findStrict(before.strict, o.Name), findStrict(after.strict, o.Name)
		if bs == nil || as == nil {
			c.complain("%s %s succeeded but the tag is not listed", o.Op, o.Name)
			break
		}
		want := idSet(bs.Matches)
		for _, id := range o.Ids {
			if id >= c.next {
				c.complain("%s %s succeeded with unknown stream id %d", o.Op, o.Name, id)
			}
			if o.Op == "markadd" {
				want[id] = true
			} else {
				delete(want, id)
			}
		}
		if !sameSet(want, idSet(as.Matches)) {
			c.complain("%s %s %v: matches %v -> %v", o.Op, o.Name, o.Ids, bs.Matches, as.Matches)
		}
	}
	// every other tag keeps name, definition, colour, converters; marks keep their streams
	for _, b := range before.list {
		if b.Name == o.Name {
			continue
		}
		a := findInfo(after.list, b.Name)
		if a == nil {
			c.complain("%s %s: unrelated tag %s disappeared", o.Op, o.Name, b.Name)
			continue
		}
		if a.Definition != b.Definition || a.Color != b.Color || !reflect.DeepEqual(a.Converters, b.Converters) {
			c.complain("%s %s: unrelated tag %s changed: %+v -> %+v", o.Op, o.Name, b.Name, b, *a)
		}
		bs, as := findStrict(before.strict, b.Name), findStrict(after.strict, b.Name)
		if bs != nil && as != nil && bs.Definition != as.Definition {
			c.complain("%s %s: definition of unrelated tag %s changed", o.Op, o.Name, b.Name)
		}
		if bs != nil && as != nil && (strings.HasPrefix(b.Name, "mark/") || strings.HasPrefix(b.Name, "generated/")) {
			if rs, err := refsOfDef(bs.Definition); err == nil && len(rs) == 0 {
				if ids, ok := idOnly(bs.Definition, c.next); ok && sameSet(ids, idSet(bs.Matches)) && !sameSet(idSet(bs.Matches), idSet(as.Matches)) {
					c.complain("%s %s: streams of unrelated mark %s changed: %v -> %v", o.Op, o.Name, b.Name, bs.Matches, as.Matches)
				}
			}
		}
	}
	for _, a := range after.list {
		if a.Name != target && a.Name != newName && findInfo(before.list, a.Name) == nil {
			c.complain("%s %s: tag %s appeared", o.Op, o.Name, a.Name)
		}
	}
}

func idOnly(def string, next uint64) (map[uint64]bool, bool) {
	q, err := query.Parse(def)
	if err != nil {
		return nil, false
	}
	ids, ok := q.Conditions.StreamIDs(next)
	if !ok {
		return nil, false
	}
	m := map[uint64]bool{}
	for i := uint(0); ids.Next(&i); i++ {
		m[uint64(i)] = true
	}
	return m, true
}

func (c *child) call(o Op) error {
	switch o.Op {
	case "add":
		return c.mgr.AddTag(o.Name, o.Color, o.Def)
	case "del":
		return c.mgr.DelTag(o.Name)
	case "color":
		return c.mgr.UpdateTag(o.Name, manager.UpdateTagOperationUpdateColor(o.Color))
	case "query":
		return c.mgr.UpdateTag(o.Name, manager.UpdateTagOperationUpdateQuery(o.Def))
	case "rename":
		return c.mgr.UpdateTag(o.Name, manager.UpdateTagOperationUpdateName(o.To))
	case "conv":
		return c.mgr.UpdateTag(o.Name, manager.UpdateTagOperationSetConverter(o.Convs))
	case "markadd":
		return c.mgr.UpdateTag(o.Name, manager.UpdateTagOperationMarkAddStream(o.Ids))
	case "markdel":
		return c.mgr.UpdateTag(o.Name, manager.UpdateTagOperationMarkDelStream(o.Ids))
	}
	return nil
}

func (c *child) observe(r string, s snapshot) obsLine {
	l := obsLine{R: r, Tags: []obsTag{}}
	for _, t := range s.list {
		ot := obsTag{N: t.Name, D: t.Definition, C: t.Color, Ref: t.Referenced, CV: append([]string{}, t.Converters...), M: []uint64{}}
		if st := findStrict(s.strict, t.Name); st != nil {
			ot.SD = st.Definition
			ot.M = append(ot.M, st.Matches...)
		}
		l.Tags = append(l.Tags, ot)
	}
	return l
}

func runChild(dir string, base int) int {
	log.SetOutput(io.Discard)
	c := &child{out: bufio.NewWriter(os.Stdout), lineNo: base}
	in := bufio.NewScanner(os.Stdin)
	in.Buffer(make([]byte, 1<<22), 1<<22)
	for in.Scan() {
		c.lineNo++
		o, ok := parseOp(in.Text())
		switch {
		case !ok:
			c.result(map[string]string{"r": "bad-op"})
			continue
		case o.Op == "new":
			if c.mgr != nil || !c.start(dir, o) {
				c.result(map[string]string{"r": "harness-error"})
				return 3
			}
			c.prev, _ = c.quiet()
			c.result(map[string]interface{}{"r": "new", "next": c.next})
			continue
		case c.mgr == nil:
			c.result(map[string]string{"r": "no-manager"})
			continue
		}
		var err error
		if !within(callTimeout, func() { err = c.call(o) }) {
			c.hang(o.Op + " " + o.Name)
		}
		s, ok := c.quiet()
		if !ok {
			c.complain("tags did not settle within %v after %s %s", settleTimeout, o.Op, o.Name)
			c.result(map[string]string{"r": "unsettled"})
			return 0
		}
		c.oracle(o, err != nil, c.prev, s)
		c.prev = s
		r := "ok"
		if err != nil {
			r = "err"
		}
		c.result(c.observe(r, s))
	}
	c.out.Flush()
	return 0
}

// ---------------------------------------------------------------------------------------
// parent: split into cases, run children in parallel, watchdog

type caseRun struct {
	base  int      // index of the first line of the case (0-based)
	lines []string // input lines
	out   []string // one per input line
	orc   []string
}

func (cr *caseRun) run(self string, scratch string) {
	dir, err := os.MkdirTemp(scratch, "c11case")
	if err != nil {
		for range cr.lines {
			cr.out = append(cr.out, `{"r":"harness-error"}`)
		}
		return
	}
	defer os.RemoveAll(dir)
	cmd := exec.Command(self, "child", "-dir", dir, "-base", fmt.Sprint(cr.base))
	cmd.Stdin = strings.NewReader(strings.Join(cr.lines, "\n") + "\n")
	var stderr bytes.Buffer
	cmd.Stderr = &stderr
	stdout, err := cmd.StdoutPipe()
	if err == nil {
		err = cmd.Start()
	}
	if err != nil {
		for range cr.lines {
			cr.out = append(cr.out, `{"r":"harness-error"}`)
		}
		return
	}
	lines := make(chan string)
	go func() {
		sc := bufio.NewScanner(stdout)
		sc.Buffer(make([]byte, 1<<22), 1<<22)
		for sc.Scan() {
			lines <- sc.Text()
		}
		close(lines)
	}()
	killed := false
loop:
	for {
		select {
		case l, ok := <-lines:
			if !ok {
				break loop
			}
			if strings.HasPrefix(l, "O ") {
				cr.orc = append(cr.orc, l[2:])
			} else if strings.HasPrefix(l, "R ") {
				cr.out = append(cr.out, l[2:])
			}
		case <-time.After(childTimeout):
			killed = true
			_ = cmd.Process.Kill()
			break loop
		}
	}
	if killed {
		go func() {
			for range lines {
			}
		}()
	}
	werr := cmd.Wait()
	if len(cr.out) < len(cr.lines) {
		last := ""
		if len(cr.out) != 0 {
			last = cr.out[len(cr.out)-1]
		}
		if !(strings.Contains(last, `"r":"hang"`) || strings.Contains(last, `"r":"unsettled"`) || strings.Contains(last, `"r":"harness-error"`)) {
			n := cr.base + len(cr.out) + 1
			if killed {
				cr.out = append(cr.out, `{"r":"hang"}`)
				cr.orc = append(cr.orc, fmt.Sprintf("ORACLE line=%d service does not answer: no result within %v", n, childTimeout))
			} else {
				cr.out = append(cr.out, `{"r":"panic"}`)
				msg := stderr.String()
				if i := strings.Index(msg, "panic:"); i >= 0 {
					msg = msg[i:]
				}
				if len(msg) > 300 {
					msg = msg[:300]
				}
				cr.orc = append(cr.orc, fmt.Sprintf("ORACLE line=%d service crashed (%v): %s", n, werr, strings.ReplaceAll(msg, "\n", " | ")))
			}
		}
		for len(cr.out) < len(cr.lines) {
			cr.out = append(cr.out, `{"r":"dead"}`)
		}
	}
}

func run(oraclePath string, jobs int) int {
	self, err := os.Executable()
	if err != nil {
		fmt.Fprintln(os.Stderr, err)
		return 2
	}
	scratch := os.Getenv("VERIF_SCRATCH")
	if scratch == "" {
		scratch = "/var/tmp"
	}
	in := bufio.NewScanner(os.Stdin)
	in.Buffer(make([]byte, 1<<22), 1<<22)
	all := []string{}
	for in.Scan() {
		all = append(all, in.Text())
	}
	cases := []*caseRun{}
	for i, l := range all {
		o, ok := parseOp(l)
		if len(cases) == 0 || (ok && o.Op == "new") {
			cases = append(cases, &caseRun{base: i})
		}
		cr := cases[len(cases)-1]
		cr.lines = append(cr.lines, l)
	}
	if jobs <= 0 {
		jobs = runtime.NumCPU()
	}
	sem := make(chan struct{}, jobs)
	var wg sync.WaitGroup
	for _, cr := range cases {
		wg.Add(1)
		sem <- struct{}{}
		go func(cr *caseRun) {
			defer wg.Done()
			defer func() { <-sem }()
			cr.run(self, scratch)
		}(cr)
	}
	wg.Wait()
	out := bufio.NewWriter(os.Stdout)
	defer out.Flush()
	var orc *bufio.Writer
	if oraclePath != "" {
		f, err := os.Create(oraclePath)
		if err != nil {
			fmt.Fprintln(os.Stderr, err)
			return 2
		}
		defer f.Close()
		orc = bufio.NewWriter(f)
		defer orc.Flush()
	}
	for _, cr := range cases {
		for _, l := range cr.out {
			fmt.Fprintln(out, l)
		}
		if orc != nil {
			for _, l := range cr.orc {
				fmt.Fprintln(orc, l)
			}
		}
	}
	return 0
}

func main() {
	if len(os.Args) < 2 {
		fmt.Fprintln(os.Stderr, "usage: c11 gen|annotate|run ...")
		os.Exit(2)
	}
	fs := flag.NewFlagSet(os.Args[1], flag.ExitOnError)
	seed := fs.Uint64("seed", 1, "seed")
	n := fs.Int("n", 50, "number of cases")
	oracle := fs.String("oracle", "", "oracle complaint file")
	jobs := fs.Int("j", 0, "parallel children (default: number of CPUs)")
	dir := fs.String("dir", "", "child: data directory")
	base := fs.Int("base", 0, "child: index of the first line")
	fs.Parse(os.Args[2:])
	switch os.Args[1] {
	case "gen":
		gen(*seed, *n)
	case "annotate":
		os.Exit(annotate())
	case "run":
		os.Exit(run(*oracle, *jobs))
	case "child":
		os.Exit(runChild(*dir, *base))
	default:
		os.Exit(2)
	}
}
