// c17: register-machine harness for the three bitmask containers (property C17).
//
//	c17 gen -seed S -n N            write N generated ops (line protocol of Pk/Driver/C17.lean) to stdout
//	c17 run [-oracle FILE]          execute ops from stdin on the real types, one output line per op;
//	                                the integer-set oracle writes its complaints to FILE
package main

import (
	"bufio"
	"flag"
	"fmt"
	"os"
	"sort"
	"strconv"
	"strings"

	"github.com/spq/pkappa2/internal/tools/bitmask"
	"github.com/spq/pkappa2/internal/verifh/lib"
)

const nreg = 8

var boundary = []int{0, 1, 2, 31, 62, 63, 64, 65, 66, 126, 127, 128, 129, 130, 190, 191, 192, 193, 255, 256}

func genBit(r *lib.RNG) int {
	switch r.Intn(10) {
	case 0, 1, 2, 3:
		return lib.Pick(r, boundary)
	case 4, 5, 6:
		return r.Intn(20)
	case 7:
		return 60 + r.Intn(10)
	default:
		return r.Intn(300)
	}
}

func gen(seed uint64, n int) {
	r := lib.NewRNG(seed)
	w := bufio.NewWriter(os.Stdout)
	defer w.Flush()
	kinds := []string{"c", "l", "s"}
	for i := 0; i < n; i++ {
		// periodically reset a register so that states do not saturate
		k := lib.Pick(r, kinds)
		reg := func() int { return r.Intn(nreg) }
		switch r.Intn(24) {
		case 0:
			switch k {
			case "c":
				lo := genBit(r)
				fmt.Fprintf(w, "mk c %d %d %d\n", reg(), lo, lo+lib.Pick(r, []int{0, 0, 1, 2, 3, 63, 64, 70}))
			case "s":
				fmt.Fprintf(w, "mk s %d %x\n", reg(), genWord(r))
			default:
				nw := r.Intn(4)
				ws := make([]string, nw)
				for j := range ws {
					ws[j] = fmt.Sprintf("%x", genWord(r))
				}
				fmt.Fprintf(w, "mk l %d %s\n", reg(), strings.Join(ws, " "))
			}
		case 1, 2, 3, 4:
			fmt.Fprintf(w, "set %s %d %d\n", k, reg(), genBit(r))
		case 5, 6:
			fmt.Fprintf(w, "unset %s %d %d\n", k, reg(), genBit(r))
		case 7:
			fmt.Fprintf(w, "flip %s %d %d\n", k, reg(), genBit(r))
		case 8:
			// a burst of neighbouring sets to create touching / adjacent runs
			rg, b := reg(), genBit(r)
			for j := 0; j < 3; j++ {
				fmt.Fprintf(w, "set %s %d %d\n", k, rg, b+2*j)
			}
			i += 2
		case 9, 10, 11, 12:
			op := lib.Pick(r, []string{"or", "and", "xor", "sub"})
			fmt.Fprintf(w, "%s %s %d %d\n", op, k, reg(), reg())
		case 13, 14, 15, 16:
			op := lib.Pick(r, []string{"orc", "andc", "xorc", "subc"})
			fmt.Fprintf(w, "%s %s %d %d %d\n", op, k, reg(), reg(), reg())
		case 17:
			fmt.Fprintf(w, "copy %s %d %d\n", k, reg(), reg())
		case 18:
			if k == "c" {
				k = "l"
			}
			fmt.Fprintf(w, "shrink %s %d\n", k, reg())
		case 19, 20:
			fmt.Fprintf(w, "inject %s %d %d %d\n", k, reg(), genBit(r), r.Intn(2))
		case 21:
			if k == "l" {
				fmt.Fprintf(w, "next l %d %d\n", reg(), genBit(r))
			} else {
				fmt.Fprintf(w, "extract %s %d %d\n", k, reg(), genBit(r))
			}
		case 22:
			fmt.Fprintf(w, "isset %s %d %d\n", k, reg(), genBit(r))
		case 23:
			fmt.Fprintf(w, "equal %s %d %d\n", k, reg(), reg())
		}
	}
}

func genWord(r *lib.RNG) uint64 {
	switch r.Intn(6) {
	case 0:
		return 0
	case 1:
		return 1 << 63
	case 2:
		return ^uint64(0)
	case 3:
		return 1
	case 4:
		return r.U64() & r.U64() & r.U64()
	default:
		return r.U64()
	}
}

// ---------------------------------------------------------------------------------------

type set map[int]bool

func (s set) clone() set {
	r := set{}
	for k := range s {
		r[k] = true
	}
	return r
}
func (s set) max() int {
	m := -1
	for k := range s {
		if k > m {
			m = k
		}
	}
	return m
}
func setEq(a, b set) bool {
	if len(a) != len(b) {
		return false
	}
	for k := range a {
		if !b[k] {
			return false
		}
	}
	return true
}
func setBin(op string, a, b set) set {
	r := set{}
	switch op {
	case "or":
		for k := range a {
			r[k] = true
		}
		for k := range b {
			r[k] = true
		}
	case "and":
		for k := range a {
			if b[k] {
				r[k] = true
			}
		}
	case "xor":
		for k := range a {
			if !b[k] {
				r[k] = true
			}
		}
		for k := range b {
			if !a[k] {
				r[k] = true
			}
		}
	case "sub":
		for k := range a {
			if !b[k] {
				r[k] = true
			}
		}
	}
	return r
}
func setInject(a set, bit int, v bool) set {
	r := set{}
	for k := range a {
		if k >= bit {
			r[k+1] = true
		} else {
			r[k] = true
		}
	}
	if v {
		r[bit] = true
	}
	return r
}
func setExtract(a set, bit int) (set, bool) {
	r := set{}
	for k := range a {
		if k > bit {
			r[k-1] = true
		} else if k < bit {
			r[k] = true
		}
	}
	return r, a[bit]
}
func wordsToSet(ws []uint64) set {
	r := set{}
	for i, w := range ws {
		for b := 0; b < 64; b++ {
			if w>>uint(b)&1 != 0 {
				r[i*64+b] = true
			}
		}
	}
	return r
}

type machine struct {
	c  [nreg]bitmask.ConnectedBitmask
	l  [nreg]bitmask.LongBitmask
	s  [nreg]bitmask.ShortBitmask
	mc [nreg]set
	ml [nreg]set
	ms [nreg]set

	oracle *bufio.Writer
	lineNo int
	fails  int
}

func (m *machine) complain(format string, a ...interface{}) {
	m.fails++
	if m.oracle != nil {
		fmt.Fprintf(m.oracle, "ORACLE line=%d %s\n", m.lineNo, fmt.Sprintf(format, a...))
	}
}

type observer interface {
	IsSet(uint) bool
	OnesCount() int
	Len() int
	IsZero() bool
}

func (m *machine) checkObs(kind string, r int, o observer, want set) {
	mx := want.max()
	if o.OnesCount() != len(want) {
		m.complain("%s%d OnesCount=%d want %d", kind, r, o.OnesCount(), len(want))
	}
	if o.Len() != mx+1 {
		m.complain("%s%d Len=%d want %d", kind, r, o.Len(), mx+1)
	}
	if o.IsZero() != (len(want) == 0) {
		m.complain("%s%d IsZero=%v want %v", kind, r, o.IsZero(), len(want) == 0)
	}
	for b := 0; b <= mx+70; b++ {
		if o.IsSet(uint(b)) != want[b] {
			m.complain("%s%d IsSet(%d)=%v want %v", kind, r, b, o.IsSet(uint(b)), want[b])
			break
		}
	}
}

func reprC(c bitmask.ConnectedBitmask) string {
	es := c.VerifEntries()
	ss := make([]string, len(es))
	for i, e := range es {
		ss[i] = fmt.Sprintf("%d-%d", e[0], e[1])
	}
	return "[" + strings.Join(ss, ",") + "]"
}
func reprW(ws []uint64) string {
	ss := make([]string, len(ws))
	for i, w := range ws {
		ss[i] = fmt.Sprintf("%x", w)
	}
	return "[" + strings.Join(ss, ",") + "]"
}
func b01(b bool) string {
	if b {
		return "1"
	}
	return "0"
}
func obs(repr string, o observer) string {
	return fmt.Sprintf("%s ones=%d len=%d zero=%s", repr, o.OnesCount(), o.Len(), b01(o.IsZero()))
}

func (m *machine) outC(r int) string {
	m.checkObs("c", r, m.c[r], m.mc[r])
	return obs(reprC(m.c[r]), m.c[r])
}
func (m *machine) outL(r int) string {
	m.checkObs("l", r, m.l[r], m.ml[r])
	return obs(reprW(m.l[r].Mask()), m.l[r])
}
func (m *machine) outS(r int) string {
	m.checkObs("s", r, m.s[r], m.ms[r])
	return obs(reprW(m.s[r].VerifWords()), m.s[r])
}

func atoi(s string) (int, bool) {
	v, err := strconv.Atoi(s)
	return v, err == nil && v >= 0
}
func regOf(s string) (int, bool) {
	v, ok := atoi(s)
	return v, ok && v < nreg
}

func (m *machine) step(line string) string {
	f := strings.Fields(line)
	if len(f) < 3 {
		return "bad-op"
	}
	op, k := f[0], f[1]
	switch {
	case op == "mk":
		r, ok := regOf(f[2])
		if !ok {
			return "bad-op"
		}
		switch k {
		case "c":
			if len(f) != 5 {
				return "bad-op"
			}
			lo, ok1 := atoi(f[3])
			hi, ok2 := atoi(f[4])
			if !ok1 || !ok2 {
				return "bad-op"
			}
			m.c[r] = bitmask.MakeConnectedBitmask(uint(lo), uint(hi))
			m.mc[r] = set{}
			for b := lo; b <= hi; b++ {
				m.mc[r][b] = true
			}
			return m.outC(r)
		case "s":
			if len(f) != 4 {
				return "bad-op"
			}
			w, err := strconv.ParseUint(f[3], 16, 64)
			if err != nil {
				return "bad-op"
			}
			m.s[r] = bitmask.MakeShortBitmask(w)
			m.ms[r] = wordsToSet([]uint64{w})
			return m.outS(r)
		case "l":
			ws := []uint64{}
			for _, x := range f[3:] {
				w, err := strconv.ParseUint(x, 16, 64)
				if err != nil {
					return "bad-op"
				}
				ws = append(ws, w)
			}
			m.l[r] = bitmask.WrapAsLongBitmask(ws)
			m.ml[r] = wordsToSet(ws)
			return m.outL(r)
		}
		return "bad-op"
	case len(f) == 4:
		r, ok := regOf(f[2])
		x, ok2 := atoi(f[3])
		if !ok || !ok2 {
			return "bad-op"
		}
		bit := uint(x)
		switch op {
		case "set", "unset", "flip":
			upd := func(s set) {
				switch op {
				case "set":
					s[x] = true
				case "unset":
					delete(s, x)
				default:
					if s[x] {
						delete(s, x)
					} else {
						s[x] = true
					}
				}
			}
			switch k {
			case "c":
				switch op {
				case "set":
					m.c[r].Set(bit)
				case "unset":
					m.c[r].Unset(bit)
				default:
					m.c[r].Flip(bit)
				}
				upd(m.mc[r])
				return m.outC(r)
			case "l":
				switch op {
				case "set":
					m.l[r].Set(bit)
				case "unset":
					m.l[r].Unset(bit)
				default:
					m.l[r].Flip(bit)
				}
				upd(m.ml[r])
				return m.outL(r)
			case "s":
				switch op {
				case "set":
					m.s[r].Set(bit)
				case "unset":
					m.s[r].Unset(bit)
				default:
					m.s[r].Flip(bit)
				}
				upd(m.ms[r])
				return m.outS(r)
			}
		case "isset":
			var got, want bool
			switch k {
			case "c":
				got, want = m.c[r].IsSet(bit), m.mc[r][x]
			case "l":
				got, want = m.l[r].IsSet(bit), m.ml[r][x]
			case "s":
				got, want = m.s[r].IsSet(bit), m.ms[r][x]
			default:
				return "bad-op"
			}
			if got != want {
				m.complain("%s%d IsSet(%d)=%v want %v", k, r, x, got, want)
			}
			return "ret=" + b01(got)
		case "extract":
			switch k {
			case "c":
				got := m.c[r].Extract(bit)
				var want bool
				m.mc[r], want = setExtract(m.mc[r], x)
				if got != want {
					m.complain("c%d Extract(%d)=%v want %v", r, x, got, want)
				}
				return m.outC(r) + " ret=" + b01(got)
			case "s":
				got := m.s[r].Extract(bit)
				var want bool
				m.ms[r], want = setExtract(m.ms[r], x)
				if got != want {
					m.complain("s%d Extract(%d)=%v want %v", r, x, got, want)
				}
				return m.outS(r) + " ret=" + b01(got)
			}
		case "next":
			if k != "l" {
				return "bad-op"
			}
			b := bit
			found := m.l[r].Next(&b)
			want := -1
			for _, c := range sortedKeys(m.ml[r]) {
				if c >= x {
					want = c
					break
				}
			}
			if !found {
				if want != -1 {
					m.complain("l%d Next(%d)=none want %d", r, x, want)
				}
				return "ret=none"
			}
			if int(b) != want {
				m.complain("l%d Next(%d)=%d want %d", r, x, b, want)
			}
			return fmt.Sprintf("ret=%d", b)
		case "equal", "copy", "or", "and", "xor", "sub":
			if x >= nreg {
				return "bad-op"
			}
			q := x
			switch op {
			case "equal":
				var got, want bool
				switch k {
				case "c":
					got, want = m.c[r].Equal(m.c[q]), setEq(m.mc[r], m.mc[q])
				case "l":
					got, want = m.l[r].Equal(m.l[q]), setEq(m.ml[r], m.ml[q])
				case "s":
					got, want = m.s[r].Equal(m.s[q]), setEq(m.ms[r], m.ms[q])
				default:
					return "bad-op"
				}
				if got != want {
					m.complain("%s Equal(r%d,r%d)=%v want %v", k, r, q, got, want)
				}
				return "ret=" + b01(got)
			case "copy":
				switch k {
				case "c":
					m.c[r] = m.c[q].Copy()
					m.mc[r] = m.mc[q].clone()
					return m.outC(r)
				case "l":
					m.l[r] = m.l[q].Copy()
					m.ml[r] = m.ml[q].clone()
					return m.outL(r)
				case "s":
					m.s[r] = m.s[q].Copy()
					m.ms[r] = m.ms[q].clone()
					return m.outS(r)
				}
			default:
				switch k {
				case "c":
					switch op {
					case "or":
						m.c[r].Or(m.c[q])
					case "and":
						m.c[r].And(m.c[q])
					case "xor":
						m.c[r].Xor(m.c[q])
					case "sub":
						m.c[r].Sub(m.c[q])
					}
					m.mc[r] = setBin(op, m.mc[r], m.mc[q])
					return m.outC(r)
				case "l":
					switch op {
					case "or":
						m.l[r].Or(m.l[q])
					case "and":
						m.l[r].And(m.l[q])
					case "xor":
						m.l[r].Xor(m.l[q])
					case "sub":
						m.l[r].Sub(m.l[q])
					}
					m.ml[r] = setBin(op, m.ml[r], m.ml[q])
					return m.outL(r)
				case "s":
					switch op {
					case "or":
						m.s[r].Or(m.s[q])
					case "and":
						m.s[r].And(m.s[q])
					case "xor":
						m.s[r].Xor(m.s[q])
					case "sub":
						m.s[r].Sub(m.s[q])
					}
					m.ms[r] = setBin(op, m.ms[r], m.ms[q])
					return m.outS(r)
				}
			}
		}
		return "bad-op"
	case op == "shrink" && len(f) == 3:
		r, ok := regOf(f[2])
		if !ok {
			return "bad-op"
		}
		switch k {
		case "l":
			m.l[r].Shrink()
			return m.outL(r)
		case "s":
			m.s[r].Shrink()
			return m.outS(r)
		}
		return "bad-op"
	case op == "inject" && len(f) == 5:
		r, ok := regOf(f[2])
		x, ok2 := atoi(f[3])
		if !ok || !ok2 || (f[4] != "0" && f[4] != "1") {
			return "bad-op"
		}
		v := f[4] == "1"
		switch k {
		case "c":
			m.c[r].Inject(uint(x), v)
			m.mc[r] = setInject(m.mc[r], x, v)
			return m.outC(r)
		case "l":
			m.l[r].Inject(uint(x), v)
			m.ml[r] = setInject(m.ml[r], x, v)
			return m.outL(r)
		case "s":
			m.s[r].Inject(uint(x), v)
			m.ms[r] = setInject(m.ms[r], x, v)
			return m.outS(r)
		}
		return "bad-op"
	case len(f) == 5 && strings.HasSuffix(op, "c"):
		d, ok := regOf(f[2])
		r, ok2 := regOf(f[3])
		q, ok3 := regOf(f[4])
		if !ok || !ok2 || !ok3 {
			return "bad-op"
		}
		base := strings.TrimSuffix(op, "c")
		if base != "or" && base != "and" && base != "xor" && base != "sub" {
			return "bad-op"
		}
		switch k {
		case "c":
			var v bitmask.ConnectedBitmask
			switch base {
			case "or":
				v = m.c[r].OrCopy(m.c[q])
			case "and":
				v = m.c[r].AndCopy(m.c[q])
			case "xor":
				v = m.c[r].XorCopy(m.c[q])
			case "sub":
				v = m.c[r].SubCopy(m.c[q])
			}
			ns := setBin(base, m.mc[r], m.mc[q])
			m.c[d], m.mc[d] = v, ns
			return m.outC(d)
		case "l":
			var v bitmask.LongBitmask
			switch base {
			case "or":
				v = m.l[r].OrCopy(m.l[q])
			case "and":
				v = m.l[r].AndCopy(m.l[q])
			case "xor":
				v = m.l[r].XorCopy(m.l[q])
			case "sub":
				v = m.l[r].SubCopy(m.l[q])
			}
			ns := setBin(base, m.ml[r], m.ml[q])
			m.l[d], m.ml[d] = v, ns
			return m.outL(d)
		case "s":
			var v bitmask.ShortBitmask
			switch base {
			case "or":
				v = m.s[r].OrCopy(m.s[q])
			case "and":
				v = m.s[r].AndCopy(m.s[q])
			case "xor":
				v = m.s[r].XorCopy(m.s[q])
			case "sub":
				v = m.s[r].SubCopy(m.s[q])
			}
			ns := setBin(base, m.ms[r], m.ms[q])
			m.s[d], m.ms[d] = v, ns
			return m.outS(d)
		}
		return "bad-op"
	}
	return "bad-op"
}

func sortedKeys(s set) []int {
	ks := make([]int, 0, len(s))
	for k := range s {
		ks = append(ks, k)
	}
	sort.Ints(ks)
	return ks
}

func run(oraclePath string) int {
	m := &machine{}
	for i := 0; i < nreg; i++ {
		m.mc[i], m.ml[i], m.ms[i] = set{}, set{}, set{}
	}
	if oraclePath != "" {
		f, err := os.Create(oraclePath)
		if err != nil {
			fmt.Fprintln(os.Stderr, err)
			return 2
		}
		defer f.Close()
		m.oracle = bufio.NewWriter(f)
		defer m.oracle.Flush()
	}
	in := bufio.NewScanner(os.Stdin)
	in.Buffer(make([]byte, 1<<20), 1<<20)
	out := bufio.NewWriter(os.Stdout)
	defer out.Flush()
	for in.Scan() {
		m.lineNo++
		res := func() (res string) {
			defer func() {
				if e := recover(); e != nil {
					res = "panic"
					m.complain("panic: %v", e)
				}
			}()
			return m.step(in.Text())
		}()
		fmt.Fprintln(out, res)
	}
	return 0
}

func main() {
	if len(os.Args) < 2 {
		fmt.Fprintln(os.Stderr, "usage: c17 gen|run ...")
		os.Exit(2)
	}
	fs := flag.NewFlagSet(os.Args[1], flag.ExitOnError)
	seed := fs.Uint64("seed", 1, "seed")
	n := fs.Int("n", 1000, "number of ops")
	oracle := fs.String("oracle", "", "oracle complaint file")
	fs.Parse(os.Args[2:])
	switch os.Args[1] {
	case "gen":
		gen(*seed, *n)
	case "run":
		os.Exit(run(*oracle))
	default:
		os.Exit(2)
	}
}
