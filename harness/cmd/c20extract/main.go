// c20extract: regenerates the access table of property C20 from the Go sources.
//
//	c20extract -repo DIR -lean OUT.lean -json OUT.json
//
// Stand-alone (stdlib only: go/parser, go/ast, go/types with a lenient importer that works offline:
// packages of the repository are type-checked from source, the standard library through the source
// importer, third-party packages are replaced by empty stand-ins; type errors are ignored).
//
// For every function / func literal of packages manager, builder, converters it infers
//   - the CONTEXTS it can run in (call graph over direct calls and func literals, over-approximate),
//   - the struct FIELDS of the tracked types it reads or writes (selector expressions),
//   - the MUTEXES held at each access (Lock/RLock ... Unlock/defer Unlock in the enclosing body, plus
//     the mutexes held at every call site of the enclosing function).
// The result is aggregated to rows (field, context, read|write, lockset) = Pk/Gen/Access.lean.
//
// Contexts: see lean/Pk/Model/Access.lean.
// Limits: value-level sharing (slice backing arrays, pointers stored in events), function values
// stored in fields and calls through interfaces other than index.ConverterAccess are invisible;
// lock identity is per field declaration (not per object); a func literal that is neither sent to
// mgr.jobs, started with `go`, passed to time.AfterFunc nor invoked on the spot is assumed to run in
// the context of the function that creates it, without the locks held there.
package main

import (
	"encoding/json"
	"flag"
	"fmt"
	"go/ast"
	"go/build"
	"go/build/constraint"
	"go/importer"
	"go/parser"
	"go/token"
	"go/types"
	"os"
	"path/filepath"
	"sort"
	"strings"
)

const modPath = "github.com/spq/pkappa2/"

var trackedPkgs = []string{"internal/index/builder", "internal/index/converters", "internal/index/manager"}

// struct types whose fields are tracked
var trackedTypes = map[string]bool{
	"manager.Manager": true, "manager.pcapOverIPEndpoint": true, "manager.PcapOverIPEndpointInfo": true,
	"builder.Builder": true,
	"converters.Converter": true, "converters.CachedConverter": true, "converters.cacheFile": true, "converters.Process": true,
}

var jobFuncs = map[string]string{
	"manager.Manager.importPcapJob": "job:import", "manager.Manager.mergeIndexesJob": "job:merge",
	"manager.Manager.updateTagJob": "job:tag", "manager.Manager.convertStreamJob": "job:convert",
}

var mutators = map[string]bool{"Set": true, "Unset": true, "Flip": true, "Or": true, "And": true, "Sub": true, "Xor": true,
	"Shrink": true, "Inject": true, "Extract": true, "Stop": true, "Reset": true}

// ------------------------------------------------------------------------------------------------

type lenientImporter struct {
	repo  string
	fset  *token.FileSet
	std   types.Importer
	pkgs  map[string]*types.Package
	infos map[string]*types.Info
	files map[string][]*ast.File
	stats map[string]int
}

func buildOK(f *ast.File) bool {
	for _, cg := range f.Comments {
		if cg.Pos() >= f.Package {
			break
		}
		for _, c := range cg.List {
			if constraint.IsGoBuild(c.Text) {
				e, err := constraint.Parse(c.Text)
				if err != nil {
					return true
				}
				return e.Eval(func(tag string) bool {
					return tag == "linux" || tag == "amd64" || tag == "unix" || tag == "cgo" || strings.HasPrefix(tag, "go1.")
				})
			}
		}
	}
	return true
}

func (li *lenientImporter) Import(path string) (*types.Package, error) {
	if p, ok := li.pkgs[path]; ok {
		return p, nil
	}
	if strings.HasPrefix(path, modPath) {
		return li.checkDir(path, filepath.Join(li.repo, strings.TrimPrefix(path, modPath)))
	}
	if !strings.Contains(strings.Split(path, "/")[0], ".") && li.std != nil {
		if p, err := li.std.Import(path); err == nil {
			li.pkgs[path] = p
			li.stats["std"]++
			return p, nil
		}
	}
	// stand-in
	name := path[strings.LastIndex(path, "/")+1:]
	if strings.HasPrefix(name, "v") && len(name) <= 3 {
		parts := strings.Split(path, "/")
		name = parts[len(parts)-2]
	}
	p := types.NewPackage(path, name)
	p.MarkComplete()
	li.pkgs[path] = p
	li.stats["standin"]++
	return p, nil
}

func (li *lenientImporter) checkDir(path, dir string) (*types.Package, error) {
	ents, err := os.ReadDir(dir)
	if err != nil {
		return nil, err
	}
	files := []*ast.File{}
	for _, e := range ents {
		n := e.Name()
		if e.IsDir() || !strings.HasSuffix(n, ".go") || strings.HasSuffix(n, "_test.go") || strings.HasPrefix(n, "zz_verif_") {
			continue
		}
		f, err := parser.ParseFile(li.fset, filepath.Join(dir, n), nil, parser.ParseComments|parser.SkipObjectResolution)
		if err != nil {
			return nil, err
		}
		if !buildOK(f) {
			continue
		}
		files = append(files, f)
	}
	info := &types.Info{Uses: map[*ast.Ident]types.Object{}, Defs: map[*ast.Ident]types.Object{},
		Selections: map[*ast.SelectorExpr]*types.Selection{}, Types: map[ast.Expr]types.TypeAndValue{}}
	conf := types.Config{Importer: li, Error: func(error) { li.stats["typeerrors"]++ }, FakeImportC: true}
	// placeholder against import cycles
	pkg, _ := conf.Check(path, li.fset, files, info)
	if pkg == nil {
		return nil, fmt.Errorf("cannot check %s", path)
	}
	li.pkgs[path] = pkg
	li.infos[path] = info
	li.files[path] = files
	li.stats["repo"]++
	return pkg, nil
}

// ------------------------------------------------------------------------------------------------

type lockRef struct {
	Name string // Type.field
	Mode string // r | w
}

type access struct {
	Field string
	Write bool
	Pos   token.Pos
	Locks []lockRef // local
	Line  int
}

type edgeKind int

const (
	eCall  edgeKind = iota // direct call, or func literal invoked on the spot: same context, locks inherited
	eLater                 // func literal kept for later: same context, no locks
	eGo                    // go statement / time.AfterFunc
	eLoop                  // sent to mgr.jobs
)

type edge struct {
	To    *node
	Kind  edgeKind
	Pos   token.Pos
	Locks []lockRef
	Job   string // context of a job function started with `go`
	IsLoopStart bool
}

type lockEvent struct {
	Pos      token.Pos
	Name     string
	Op       string // Lock RLock Unlock RUnlock
	Deferred bool
}

type node struct {
	Name     string // pkg.Recv.Func or parent$litN
	Pkg      string
	Decl     string // enclosing top-level declaration
	Body     *ast.BlockStmt
	Pos, End token.Pos
	Exported bool
	Acc      []access
	Edges    []*edge
	LockEv   []lockEvent
	Ctx      map[string]bool
	Entry    map[string]string // lock name -> mode; nil = not yet known (top)
	EntrySet bool
	IsNew    bool // manager.New: contexts by position
	Spawns   bool
	allocs   map[types.Object]bool // local variables holding a freshly allocated tracked struct
	nlit     int
}

type extractor struct {
	li       *lenientImporter
	fset     *token.FileSet
	nodes    []*node
	byFunc   map[*types.Func]*node
	fieldOf  map[*types.Var]string // field object -> Type.field
	mutexes  map[string]bool
	structOf map[string]string   // field -> tracked struct type it holds by value
	fieldsOf map[string][]string // tracked struct type -> its fields
	newP1    token.Pos // first spawn in New
	newP2    token.Pos // start of the service loop in New
	ifaceFns []string  // methods of index.ConverterAccess
	skippedFresh int
	skippedFreshCalls int
}

func short(pkgPath string) string { return pkgPath[strings.LastIndex(pkgPath, "/")+1:] }

func (x *extractor) collectTypes() {
	for _, rel := range trackedPkgs {
		path := modPath + rel
		pkg := x.li.pkgs[path]
		scope := pkg.Scope()
		for _, n := range scope.Names() {
			tn, ok := scope.Lookup(n).(*types.TypeName)
			if !ok {
				continue
			}
			full := short(path) + "." + n
			if !trackedTypes[full] {
				continue
			}
			st, ok := tn.Type().Underlying().(*types.Struct)
			if !ok {
				continue
			}
			for i := 0; i < st.NumFields(); i++ {
				f := st.Field(i)
				name := n + "." + f.Name()
				x.fieldOf[f] = name
				x.fieldsOf[n] = append(x.fieldsOf[n], name)
				if nt, ok := f.Type().(*types.Named); ok && nt.Obj().Pkg() != nil && trackedTypes[short(nt.Obj().Pkg().Path())+"."+nt.Obj().Name()] {
					x.structOf[name] = nt.Obj().Name()
				}
				ts := types.TypeString(f.Type(), nil)
				if ts == "sync.Mutex" || ts == "sync.RWMutex" {
					x.mutexes[name] = true
				}
			}
		}
		// AST fallback for mutex detection (when package sync is a stand-in)
		for _, f := range x.li.files[path] {
			ast.Inspect(f, func(nd ast.Node) bool {
				ts, ok := nd.(*ast.TypeSpec)
				if !ok {
					return true
				}
				st, ok := ts.Type.(*ast.StructType)
				if !ok || !trackedTypes[short(path)+"."+ts.Name.Name] {
					return true
				}
				for _, fl := range st.Fields.List {
					if se, ok := fl.Type.(*ast.SelectorExpr); ok {
						if id, ok := se.X.(*ast.Ident); ok && id.Name == "sync" && (se.Sel.Name == "Mutex" || se.Sel.Name == "RWMutex") {
							for _, nm := range fl.Names {
								x.mutexes[ts.Name.Name+"."+nm.Name] = true
							}
						}
					}
				}
				return true
			})
		}
	}
}

func recvName(fd *ast.FuncDecl) string {
	if fd.Recv == nil || len(fd.Recv.List) == 0 {
		return ""
	}
	t := fd.Recv.List[0].Type
	if s, ok := t.(*ast.StarExpr); ok {
		t = s.X
	}
	if id, ok := t.(*ast.Ident); ok {
		return id.Name
	}
	return ""
}

func (x *extractor) collectFuncs() {
	for _, rel := range trackedPkgs {
		path := modPath + rel
		info := x.li.infos[path]
		for _, f := range x.li.files[path] {
			for _, d := range f.Decls {
				fd, ok := d.(*ast.FuncDecl)
				if !ok || fd.Body == nil {
					continue
				}
				name := short(path) + "."
				if r := recvName(fd); r != "" {
					name += r + "."
				}
				name += fd.Name.Name
				n := &node{Name: name, Pkg: short(path), Decl: name, Body: fd.Body, Pos: fd.Pos(), End: fd.End(), Exported: fd.Name.IsExported(),
					Ctx: map[string]bool{}, allocs: map[types.Object]bool{}}
				if name == "manager.New" {
					n.IsNew = true
				}
				if fn, ok := info.Defs[fd.Name].(*types.Func); ok {
					x.byFunc[fn] = n
				}
				x.nodes = append(x.nodes, n)
			}
		}
	}
}

// ------------------------------------------------------------------------------------------------
// walking a body

type walker struct {
	x    *extractor
	info *types.Info
	n    *node
}

func (w *walker) fieldName(sel *ast.SelectorExpr) (string, bool) {
	if s, ok := w.info.Selections[sel]; ok && s.Kind() == types.FieldVal {
		if v, ok := s.Obj().(*types.Var); ok {
			if name, ok := w.x.fieldOf[v]; ok {
				return name, true
			}
		}
	}
	return "", false
}

// baseIdent returns the identifier at the root of a selector / index / star chain
func baseIdent(e ast.Expr) *ast.Ident {
	for {
		switch v := e.(type) {
		case *ast.Ident:
			return v
		case *ast.SelectorExpr:
			e = v.X
		case *ast.IndexExpr:
			e = v.X
		case *ast.StarExpr:
			e = v.X
		case *ast.ParenExpr:
			e = v.X
		case *ast.UnaryExpr:
			e = v.X
		default:
			return nil
		}
	}
}

func (w *walker) isFresh(sel *ast.SelectorExpr) bool {
	if w.n.IsNew {
		return false
	}
	id := baseIdent(sel.X)
	if id == nil {
		return false
	}
	obj := w.info.Uses[id]
	return obj != nil && w.n.allocs[obj]
}

func (w *walker) addAccess(sel *ast.SelectorExpr, write bool) {
	name, ok := w.fieldName(sel)
	if !ok || w.x.mutexes[name] {
		return
	}
	if w.isFresh(sel) {
		w.x.skippedFresh++
		return
	}
	w.n.Acc = append(w.n.Acc, access{Field: name, Write: write, Pos: sel.Pos(), Line: w.x.fset.Position(sel.Pos()).Line})
	if st, ok := w.x.structOf[name]; ok {
		// a tracked struct held by value (embedded): touching it as a whole touches all its fields
		for _, f := range w.x.fieldsOf[st] {
			if !w.x.mutexes[f] {
				w.n.Acc = append(w.n.Acc, access{Field: f, Write: write, Pos: sel.Pos(), Line: w.x.fset.Position(sel.Pos()).Line})
			}
		}
	}
}

func (w *walker) calleeNode(call *ast.CallExpr) (*node, string) {
	var obj types.Object
	switch f := call.Fun.(type) {
	case *ast.Ident:
		obj = w.info.Uses[f]
	case *ast.SelectorExpr:
		if s, ok := w.info.Selections[f]; ok {
			obj = s.Obj()
		} else {
			obj = w.info.Uses[f.Sel]
		}
	}
	if fn, ok := obj.(*types.Func); ok {
		full := ""
		if fn.Pkg() != nil {
			full = fn.Pkg().Path() + "." + fn.Name()
		}
		return w.x.byFunc[fn], full
	}
	return nil, ""
}

func (w *walker) newLit(lit *ast.FuncLit, sameGoroutine bool) *node {
	w.n.nlit++
	root := w.n
	allocs := map[types.Object]bool{}
	if sameGoroutine {
		// a literal that runs elsewhere (goroutine, service loop) sees a published object
		allocs = root.allocs
	}
	n := &node{Name: fmt.Sprintf("%s$%d", root.Name, w.x.fset.Position(lit.Pos()).Line), Pkg: root.Pkg, Decl: root.Decl, Body: lit.Body,
		Pos: lit.Pos(), End: lit.End(), Ctx: map[string]bool{}, allocs: allocs}
	w.x.nodes = append(w.x.nodes, n)
	(&walker{x: w.x, info: w.info, n: n}).walkBody()
	return n
}

func (w *walker) lockCall(call *ast.CallExpr, deferred bool) bool {
	sel, ok := call.Fun.(*ast.SelectorExpr)
	if !ok {
		return false
	}
	switch sel.Sel.Name {
	case "Lock", "RLock", "Unlock", "RUnlock":
	default:
		return false
	}
	inner, ok := sel.X.(*ast.SelectorExpr)
	if !ok {
		return false
	}
	name, ok := w.fieldName(inner)
	if !ok || !w.x.mutexes[name] {
		return false
	}
	w.n.LockEv = append(w.n.LockEv, lockEvent{Pos: call.Pos(), Name: name, Op: sel.Sel.Name, Deferred: deferred})
	return true
}

func isJobsSend(w *walker, s *ast.SendStmt) bool {
	if sel, ok := s.Chan.(*ast.SelectorExpr); ok {
		if name, ok := w.fieldName(sel); ok && name == "Manager.jobs" {
			return true
		}
	}
	return false
}

func containsRangeJobs(w *walker, body *ast.BlockStmt) bool {
	found := false
	ast.Inspect(body, func(nd ast.Node) bool {
		if rs, ok := nd.(*ast.RangeStmt); ok {
			if sel, ok := rs.X.(*ast.SelectorExpr); ok {
				if name, ok := w.fieldName(sel); ok && name == "Manager.jobs" {
					found = true
				}
			}
		}
		return true
	})
	return found
}

func (w *walker) walkBody() {
	// allocations of tracked structs held in local variables (constructor pattern)
	ast.Inspect(w.n.Body, func(nd ast.Node) bool {
		as, ok := nd.(*ast.AssignStmt)
		if !ok || as.Tok != token.DEFINE || len(as.Lhs) != len(as.Rhs) {
			return true
		}
		for i, r := range as.Rhs {
			e := r
			if u, ok := e.(*ast.UnaryExpr); ok && u.Op == token.AND {
				e = u.X
			}
			if cl, ok := e.(*ast.CompositeLit); ok {
				if tv, ok := w.info.Types[cl]; ok {
					if nt, ok := tv.Type.(*types.Named); ok && nt.Obj().Pkg() != nil && trackedTypes[short(nt.Obj().Pkg().Path())+"."+nt.Obj().Name()] {
						if id, ok := as.Lhs[i].(*ast.Ident); ok {
							if obj := w.info.Defs[id]; obj != nil {
								w.n.allocs[obj] = true
							}
						}
					}
				}
			}
		}
		return true
	})
	w.stmtList(w.n.Body)
}

func (w *walker) stmtList(root ast.Node) {
	var visit func(nd ast.Node) bool
	handled := map[ast.Node]bool{}
	writeSel := map[*ast.SelectorExpr]bool{}
	visit = func(nd ast.Node) bool {
		if nd == nil || handled[nd] {
			return false
		}
		switch v := nd.(type) {
		case *ast.FuncLit:
			// a literal in an unclassified position: kept for later
			child := w.newLit(v, true)
			w.n.Edges = append(w.n.Edges, &edge{To: child, Kind: eLater, Pos: v.Pos()})
			return false
		case *ast.SendStmt:
			if lit, ok := v.Value.(*ast.FuncLit); ok && isJobsSend(w, v) {
				child := w.newLit(lit, false)
				w.n.Edges = append(w.n.Edges, &edge{To: child, Kind: eLoop, Pos: v.Pos()})
				handled[lit] = true
			}
			return true
		case *ast.GoStmt:
			w.n.Spawns = true
			if lit, ok := v.Call.Fun.(*ast.FuncLit); ok {
				child := w.newLit(lit, false)
				e := &edge{To: child, Kind: eGo, Pos: v.Pos()}
				if containsRangeJobs(w, lit.Body) {
					e.IsLoopStart = true
				}
				w.n.Edges = append(w.n.Edges, e)
				// the arguments are evaluated by the spawning goroutine
				for _, a := range v.Call.Args {
					ast.Inspect(a, visit)
				}
				return false
			} else if callee, _ := w.calleeNode(v.Call); callee != nil {
				w.n.Edges = append(w.n.Edges, &edge{To: callee, Kind: eGo, Pos: v.Pos(), Job: jobFuncs[callee.Name]})
				handled[v.Call.Fun] = true
				// arguments are evaluated here
				for _, a := range v.Call.Args {
					ast.Inspect(a, visit)
				}
				if sel, ok := v.Call.Fun.(*ast.SelectorExpr); ok {
					ast.Inspect(sel.X, visit)
				}
				return false
			}
			return true
		case *ast.DeferStmt:
			if w.lockCall(v.Call, true) {
				return false
			}
			if lit, ok := v.Call.Fun.(*ast.FuncLit); ok {
				child := w.newLit(lit, true)
				w.n.Edges = append(w.n.Edges, &edge{To: child, Kind: eLater, Pos: v.Pos()})
				for _, a := range v.Call.Args {
					ast.Inspect(a, visit)
				}
				return false
			}
			return true
		case *ast.CallExpr:
			if w.lockCall(v, false) {
				return false
			}
			if lit, ok := v.Fun.(*ast.FuncLit); ok {
				child := w.newLit(lit, true)
				w.n.Edges = append(w.n.Edges, &edge{To: child, Kind: eCall, Pos: v.Pos()})
				handled[lit] = true
				return true
			}
			callee, full := w.calleeNode(v)
			if sel, ok := v.Fun.(*ast.SelectorExpr); ok && full == "" {
				if id, ok := sel.X.(*ast.Ident); ok && id.Name == "time" && sel.Sel.Name == "AfterFunc" {
					full = "time.AfterFunc"
				}
			}
			if full == "time.AfterFunc" && len(v.Args) == 2 {
				if lit, ok := v.Args[1].(*ast.FuncLit); ok {
					w.n.Spawns = true
					child := w.newLit(lit, false)
					w.n.Edges = append(w.n.Edges, &edge{To: child, Kind: eGo, Pos: v.Pos()})
					handled[lit] = true
				}
			}
			if id, ok := v.Fun.(*ast.Ident); ok && len(v.Args) >= 1 {
				if id.Name == "delete" || id.Name == "clear" {
					w.markWriteCollect(v.Args[0], writeSel)
				}
			}
			if callee != nil {
				freshRecv := false
				if sel, ok := v.Fun.(*ast.SelectorExpr); ok && !w.n.IsNew {
					if id := baseIdent(sel.X); id != nil {
						if obj := w.info.Uses[id]; obj != nil && w.n.allocs[obj] {
							if _, isMethod := w.info.Selections[sel]; isMethod {
								freshRecv = true
							}
						}
					}
				}
				if freshRecv {
					// method call on an object this function has just allocated and not yet published
					w.x.skippedFreshCalls++
				} else {
					w.n.Edges = append(w.n.Edges, &edge{To: callee, Kind: eCall, Pos: v.Pos()})
				}
			}
			if full == modPath+"internal/index.SearchStreams" {
				for _, m := range w.x.ifaceFns {
					for _, cand := range w.x.nodes {
						if cand.Name == "converters.CachedConverter."+m {
							w.n.Edges = append(w.n.Edges, &edge{To: cand, Kind: eCall, Pos: v.Pos() + 1})
						}
					}
				}
			}
			// method call on a field value: x.f.M(...)  — a mutator writes the field
			if sel, ok := v.Fun.(*ast.SelectorExpr); ok {
				if inner, ok := sel.X.(*ast.SelectorExpr); ok {
					if _, ok := w.fieldName(inner); ok && mutators[sel.Sel.Name] {
						if s, ok := w.info.Selections[inner]; ok {
							if _, isPtr := s.Type().Underlying().(*types.Pointer); !isPtr {
								writeSel[inner] = true
							}
						}
					}
				}
			}
			return true
		case *ast.AssignStmt:
			for _, l := range v.Lhs {
				w.markWriteCollect(l, writeSel)
			}
			return true
		case *ast.IncDecStmt:
			w.markWriteCollect(v.X, writeSel)
			return true
		case *ast.RangeStmt:
			if v.Tok == token.ASSIGN {
				if v.Key != nil {
					w.markWriteCollect(v.Key, writeSel)
				}
				if v.Value != nil {
					w.markWriteCollect(v.Value, writeSel)
				}
			}
			return true
		case *ast.UnaryExpr:
			if v.Op == token.AND {
				w.markWriteCollect(v.X, writeSel)
			}
			return true
		case *ast.SelectorExpr:
			if _, ok := w.fieldName(v); ok {
				w.addAccess(v, writeSel[v])
			}
			return true
		}
		return true
	}
	ast.Inspect(root, visit)
}

// markWriteCollect remembers that the selector at the root of e is written (the selector itself is
// visited later by the generic case, which then records one access with write=true)
func (w *walker) markWriteCollect(e ast.Expr, writeSel map[*ast.SelectorExpr]bool) {
	for {
		switch v := e.(type) {
		case *ast.SelectorExpr:
			writeSel[v] = true
			return
		case *ast.IndexExpr:
			e = v.X
		case *ast.ParenExpr:
			e = v.X
		case *ast.SliceExpr:
			e = v.X
		default:
			return
		}
	}
}

// ------------------------------------------------------------------------------------------------
// locks

func heldAt(n *node, pos token.Pos) []lockRef {
	res := map[string]string{}
	for i, le := range n.LockEv {
		if le.Deferred || (le.Op != "Lock" && le.Op != "RLock") || le.Pos > pos {
			continue
		}
		end := n.End
		deferred := false
		for _, u := range n.LockEv {
			if u.Name == le.Name && u.Deferred && (u.Op == "Unlock" || u.Op == "RUnlock") {
				deferred = true
			}
		}
		if !deferred {
			for _, u := range n.LockEv[i+1:] {
				if u.Name == le.Name && !u.Deferred && (u.Op == "Unlock" || u.Op == "RUnlock") && u.Pos > le.Pos {
					end = u.Pos
					break
				}
			}
		}
		if pos <= end {
			mode := "w"
			if le.Op == "RLock" {
				mode = "r"
			}
			if old, ok := res[le.Name]; !ok || (old == "r" && mode == "w") {
				res[le.Name] = mode
			}
		}
	}
	out := []lockRef{}
	for k, m := range res {
		out = append(out, lockRef{k, m})
	}
	sort.Slice(out, func(i, j int) bool { return out[i].Name < out[j].Name })
	return out
}

func meet(a map[string]string, b map[string]string) map[string]string {
	res := map[string]string{}
	for k, m := range a {
		if m2, ok := b[k]; ok {
			if m == "r" || m2 == "r" {
				res[k] = "r"
			} else {
				res[k] = "w"
			}
		}
	}
	return res
}

func union(a map[string]string, ls []lockRef) map[string]string {
	res := map[string]string{}
	for k, m := range a {
		res[k] = m
	}
	for _, l := range ls {
		if old, ok := res[l.Name]; !ok || (old == "r" && l.Mode == "w") {
			res[l.Name] = l.Mode
		}
	}
	return res
}

// ------------------------------------------------------------------------------------------------

func (x *extractor) ctxOfNewPos(pos token.Pos) string {
	switch {
	case x.newP1 == token.NoPos || pos < x.newP1:
		return "pre"
	case x.newP2 == token.NoPos || pos < x.newP2:
		return "init"
	default:
		return "api"
	}
}

func childCtx(parent string, e *edge) string {
	switch e.Kind {
	case eLoop:
		return "loop"
	case eGo:
		if e.IsLoopStart {
			return "loop"
		}
		if e.Job != "" {
			return e.Job
		}
		if parent == "pre" || parent == "init" || parent == "watcher" {
			return "watcher"
		}
		return "worker"
	}
	return parent
}

func (x *extractor) spawnsTransitively() {
	for changed := true; changed; {
		changed = false
		for _, n := range x.nodes {
			if n.Spawns {
				continue
			}
			for _, e := range n.Edges {
				if (e.Kind == eCall || e.Kind == eLater) && e.To.Spawns {
					n.Spawns = true
					changed = true
				}
			}
		}
	}
}

func (x *extractor) propagate() {
	type item struct {
		n   *node
		ctx string
	}
	work := []item{}
	add := func(n *node, c string) {
		if !n.Ctx[c] {
			n.Ctx[c] = true
			work = append(work, item{n, c})
		}
	}
	for _, n := range x.nodes {
		if n.IsNew {
			// contexts by position; handled edge by edge
			n.Ctx["pre"], n.Ctx["init"], n.Ctx["api"] = true, true, true
			for _, e := range n.Edges {
				add(e.To, childCtx(x.ctxOfNewPos(e.Pos), e))
			}
			continue
		}
		if n.Pkg == "manager" && n.Exported && !strings.Contains(n.Name, "$") {
			add(n, "api")
		}
	}
	for len(work) > 0 {
		it := work[len(work)-1]
		work = work[:len(work)-1]
		if it.n.IsNew {
			continue
		}
		for _, e := range it.n.Edges {
			add(e.To, childCtx(it.ctx, e))
		}
	}
}

func (x *extractor) entryLocks() {
	incoming := map[*node][]struct {
		from *node
		e    *edge
	}{}
	for _, n := range x.nodes {
		for _, e := range n.Edges {
			incoming[e.To] = append(incoming[e.To], struct {
				from *node
				e    *edge
			}{n, e})
		}
	}
	for _, n := range x.nodes {
		root := len(incoming[n]) == 0 || (n.Pkg == "manager" && n.Exported)
		for _, in := range incoming[n] {
			if in.e.Kind != eCall {
				root = true
			}
		}
		if root {
			n.Entry, n.EntrySet = map[string]string{}, true
		}
	}
	for changed := true; changed; {
		changed = false
		for _, n := range x.nodes {
			if n.EntrySet && len(n.Entry) == 0 {
				continue
			}
			var acc map[string]string
			known := false
			for _, in := range incoming[n] {
				if !in.from.EntrySet {
					continue // top
				}
				at := union(in.from.Entry, heldAt(in.from, in.e.Pos))
				if !known {
					acc, known = at, true
				} else {
					acc = meet(acc, at)
				}
			}
			if !known {
				continue
			}
			if !n.EntrySet || len(acc) != len(n.Entry) || fmt.Sprint(acc) != fmt.Sprint(n.Entry) {
				n.Entry, n.EntrySet = acc, true
				changed = true
			}
		}
	}
	for _, n := range x.nodes {
		if !n.EntrySet {
			n.Entry, n.EntrySet = map[string]string{}, true
		}
	}
}

// ------------------------------------------------------------------------------------------------

type row struct {
	Field string    `json:"field"`
	Ctx   string    `json:"ctx"`
	Write bool      `json:"write"`
	Locks []lockRef `json:"locks"`
	Sites []string  `json:"sites"` // function:line of the accesses aggregated into this row
}

func locksKey(ls []lockRef) string {
	parts := []string{}
	for _, l := range ls {
		parts = append(parts, l.Name+":"+l.Mode)
	}
	return strings.Join(parts, ",")
}

// a ⊆ b : every lock of a is in b in at least the same mode
func subsumes(a, b []lockRef) bool {
	for _, l := range a {
		ok := false
		for _, m := range b {
			if m.Name == l.Name && (m.Mode == "w" || l.Mode == "r") {
				ok = true
			}
		}
		if !ok {
			return false
		}
	}
	return true
}

var ctxOrder = []string{"pre", "init", "loop", "job:import", "job:merge", "job:tag", "job:convert", "watcher", "worker", "api"}
var ctxLean = map[string]string{"pre": ".pre", "init": ".init", "loop": ".loop", "job:import": ".jobImport", "job:merge": ".jobMerge",
	"job:tag": ".jobTag", "job:convert": ".jobConvert", "watcher": ".watcher", "worker": ".worker", "api": ".api"}

func ctxIdx(c string) int {
	for i, x := range ctxOrder {
		if x == c {
			return i
		}
	}
	return 99
}

func main() {
	repo := flag.String("repo", ".", "repository root")
	leanOut := flag.String("lean", "", "output Lean file")
	jsonOut := flag.String("json", "", "output JSON file")
	flag.Parse()
	fset := token.NewFileSet()
	build.Default.CgoEnabled = false
	li := &lenientImporter{repo: *repo, fset: fset, pkgs: map[string]*types.Package{}, infos: map[string]*types.Info{},
		files: map[string][]*ast.File{}, stats: map[string]int{}}
	if os.Getenv("C20_NOSTD") == "" {
		li.std = importer.ForCompiler(fset, "source", nil)
	}
	for _, rel := range trackedPkgs {
		if _, err := li.Import(modPath + rel); err != nil {
			fmt.Fprintln(os.Stderr, "c20extract:", err)
			os.Exit(1)
		}
	}
	x := &extractor{li: li, fset: fset, byFunc: map[*types.Func]*node{}, fieldOf: map[*types.Var]string{}, mutexes: map[string]bool{},
		structOf: map[string]string{}, fieldsOf: map[string][]string{}}
	// methods of index.ConverterAccess
	if ip := li.pkgs[modPath+"internal/index"]; ip != nil {
		if tn, ok := ip.Scope().Lookup("ConverterAccess").(*types.TypeName); ok {
			if it, ok := tn.Type().Underlying().(*types.Interface); ok {
				for i := 0; i < it.NumMethods(); i++ {
					x.ifaceFns = append(x.ifaceFns, it.Method(i).Name())
				}
			}
		}
	}
	if len(x.ifaceFns) == 0 {
		x.ifaceFns = []string{"Data", "DataForSearch"}
	}
	x.collectTypes()
	x.collectFuncs()
	decls := append([]*node(nil), x.nodes...)
	for _, n := range decls {
		path := ""
		for _, rel := range trackedPkgs {
			if short(rel) == n.Pkg {
				path = modPath + rel
			}
		}
		(&walker{x: x, info: li.infos[path], n: n}).walkBody()
	}
	x.spawnsTransitively()
	// phases of New
	for _, n := range x.nodes {
		if !n.IsNew {
			continue
		}
		for _, e := range n.Edges {
			spawning := e.Kind == eGo || ((e.Kind == eCall || e.Kind == eLater) && e.To.Spawns)
			if spawning && (x.newP1 == token.NoPos || e.Pos < x.newP1) {
				x.newP1 = e.Pos
			}
			if e.Kind == eGo && e.IsLoopStart {
				x.newP2 = e.Pos
			}
		}
	}
	x.propagate()
	x.entryLocks()

	// rows
	type key struct {
		f, c string
		w    bool
		l    string
	}
	agg := map[key]*row{}
	fnFields := map[string]map[string]string{} // top-level decl -> field -> r|w
	for _, n := range x.nodes {
		for _, a := range n.Acc {
			locks := union(n.Entry, heldAt(n, a.Pos))
			ls := []lockRef{}
			for k, m := range locks {
				ls = append(ls, lockRef{k, m})
			}
			sort.Slice(ls, func(i, j int) bool { return ls[i].Name < ls[j].Name })
			ctxs := []string{}
			if n.IsNew {
				ctxs = []string{x.ctxOfNewPos(a.Pos)}
			} else {
				for c := range n.Ctx {
					ctxs = append(ctxs, c)
				}
			}
			if fnFields[n.Decl] == nil {
				fnFields[n.Decl] = map[string]string{}
			}
			if a.Write {
				fnFields[n.Decl][a.Field] = "w"
			} else if fnFields[n.Decl][a.Field] == "" {
				fnFields[n.Decl][a.Field] = "r"
			}
			for _, c := range ctxs {
				k := key{a.Field, c, a.Write, locksKey(ls)}
				r := agg[k]
				if r == nil {
					r = &row{Field: a.Field, Ctx: c, Write: a.Write, Locks: ls}
					agg[k] = r
				}
				site := fmt.Sprintf("%s:%d", n.Decl, a.Line)
				if len(r.Sites) < 6 {
					dup := false
					for _, s := range r.Sites {
						if s == site {
							dup = true
						}
					}
					if !dup {
						r.Sites = append(r.Sites, site)
					}
				}
			}
		}
	}
	rows := []*row{}
	for _, r := range agg {
		rows = append(rows, r)
	}
	// drop dominated rows: same field+ctx, another row with weaker-or-equal locks that writes if this one writes
	kept := []*row{}
	for _, r := range rows {
		dominated := false
		for _, o := range rows {
			if o == r || o.Field != r.Field || o.Ctx != r.Ctx {
				continue
			}
			if (o.Write || !r.Write) && subsumes(o.Locks, r.Locks) {
				same := o.Write == r.Write && locksKey(o.Locks) == locksKey(r.Locks)
				if !same {
					// strict domination, or tie broken deterministically
					if o.Write != r.Write || len(o.Locks) < len(r.Locks) || locksKey(o.Locks) < locksKey(r.Locks) || !subsumes(r.Locks, o.Locks) {
						dominated = true
					}
				}
			}
		}
		if !dominated {
			kept = append(kept, r)
		}
	}
	rows = kept
	sort.Slice(rows, func(i, j int) bool {
		a, b := rows[i], rows[j]
		if a.Field != b.Field {
			return a.Field < b.Field
		}
		if a.Ctx != b.Ctx {
			return ctxIdx(a.Ctx) < ctxIdx(b.Ctx)
		}
		if a.Write != b.Write {
			return !a.Write
		}
		return locksKey(a.Locks) < locksKey(b.Locks)
	})
	for _, r := range rows {
		sort.Strings(r.Sites)
	}
	fieldNames, lockNames := []string{}, []string{}
	seenF, seenL := map[string]int{}, map[string]int{}
	for _, r := range rows {
		if _, ok := seenF[r.Field]; !ok {
			seenF[r.Field] = len(fieldNames)
			fieldNames = append(fieldNames, r.Field)
		}
	}
	for m := range x.mutexes {
		lockNames = append(lockNames, m)
	}
	sort.Strings(lockNames)
	for i, m := range lockNames {
		seenL[m] = i
	}

	// per-function contexts (diagnostics)
	type fnInfo struct {
		Ctx    []string          `json:"ctx"`
		Fields map[string]string `json:"fields"`
	}
	fns := map[string]*fnInfo{}
	unreached := []string{}
	for _, n := range x.nodes {
		if strings.Contains(n.Name, "$") {
			continue
		}
		cs := []string{}
		for c := range n.Ctx {
			cs = append(cs, c)
		}
		sort.Slice(cs, func(i, j int) bool { return ctxIdx(cs[i]) < ctxIdx(cs[j]) })
		fns[n.Name] = &fnInfo{Ctx: cs, Fields: fnFields[n.Name]}
		if len(cs) == 0 {
			unreached = append(unreached, n.Name)
		}
	}
	// contexts of the literals are folded into their declaration for the function table
	for _, n := range x.nodes {
		if !strings.Contains(n.Name, "$") {
			continue
		}
		fi := fns[n.Decl]
		if fi == nil {
			continue
		}
		for c := range n.Ctx {
			found := false
			for _, o := range fi.Ctx {
				if o == c {
					found = true
				}
			}
			if !found {
				fi.Ctx = append(fi.Ctx, c)
			}
		}
		sort.Slice(fi.Ctx, func(i, j int) bool { return ctxIdx(fi.Ctx[i]) < ctxIdx(fi.Ctx[j]) })
	}
	sort.Strings(unreached)

	if *jsonOut != "" {
		out := map[string]interface{}{
			"rows": rows, "fields": fieldNames, "locks": lockNames, "functions": fns, "unreached": unreached,
			"stats": map[string]interface{}{"nodes": len(x.nodes), "rows": len(rows), "fields": len(fieldNames),
				"constructor_accesses_skipped": x.skippedFresh, "constructor_calls_skipped": x.skippedFreshCalls, "importer": li.stats,
				"new_first_spawn_line": fset.Position(x.newP1).Line, "new_loop_start_line": fset.Position(x.newP2).Line,
				"converter_access_methods": x.ifaceFns},
		}
		b, _ := json.MarshalIndent(out, "", " ")
		if err := os.WriteFile(*jsonOut, b, 0644); err != nil {
			fmt.Fprintln(os.Stderr, err)
			os.Exit(1)
		}
	}
	if *leanOut != "" {
		sb := &strings.Builder{}
		fmt.Fprintf(sb, "/- REGENERATED on every run of `./check C20` by harness/cmd/c20extract from the Go sources of\n   internal/index/{manager,builder,converters} — do not edit, not committed. -/\nimport Pk.Model.Access\n\nnamespace Pk.Gen.Access\nopen Pk.Access\n\n")
		fmt.Fprintf(sb, "def fieldNames : List String := [")
		for i, f := range fieldNames {
			if i > 0 {
				sb.WriteString(", ")
			}
			fmt.Fprintf(sb, "%q", f)
		}
		fmt.Fprintf(sb, "]\n\ndef lockNames : List String := [")
		for i, f := range lockNames {
			if i > 0 {
				sb.WriteString(", ")
			}
			fmt.Fprintf(sb, "%q", f)
		}
		fmt.Fprintf(sb, "]\n\n")
		ident := func(s string) string { return strings.NewReplacer(".", "_", "-", "_").Replace(s) }
		for i, f := range fieldNames {
			fmt.Fprintf(sb, "def F_%s : Nat := %d\n", ident(f), i)
		}
		for i, f := range lockNames {
			fmt.Fprintf(sb, "def L_%s : Nat := %d\n", ident(f), i)
		}
		fmt.Fprintf(sb, "\ndef table : Table := [\n")
		for i, r := range rows {
			ls := []string{}
			for _, l := range r.Locks {
				ls = append(ls, fmt.Sprintf("(%d, .%s)", seenL[l.Name], l.Mode))
			}
			sep := ","
			if i == len(rows)-1 {
				sep = ""
			}
			fmt.Fprintf(sb, "  ⟨%d, %s, %v, [%s]⟩%s  -- %s %s %s\n", seenF[r.Field], ctxLean[r.Ctx], r.Write, strings.Join(ls, ", "), sep,
				r.Field, map[bool]string{true: "W", false: "R"}[r.Write], strings.Join(r.Sites, " "))
		}
		fmt.Fprintf(sb, "]\n\nend Pk.Gen.Access\n")
		if err := os.WriteFile(*leanOut, []byte(sb.String()), 0644); err != nil {
			fmt.Fprintln(os.Stderr, err)
			os.Exit(1)
		}
	}
	fmt.Printf("rows=%d fields=%d nodes=%d\n", len(rows), len(fieldNames), len(x.nodes))
}
