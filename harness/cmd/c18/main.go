// c18: harness for the regex length / suffix analyses (property C18).
//
//	c18 gen -seed S -n N        write N generated cases (one JSON object per line) to stdout
//	c18 mk                      read AST lines (JSON arrays) on stdin, write full case lines
//	c18 run [-oracle FILE]      execute case lines from stdin on the REAL AcceptedLength /
//	                            ConstantSuffix, one output line per case; the property oracle
//	                            writes `ORACLE line=<n> kind=<k> ...` complaints to FILE
//	c18 shrink -kind K          read ONE case line, print the structurally smallest case line on
//	                            which the oracle still produces a complaint of kind K
//
// A case line is {"re":text,"ast":AST,"nosuffix":0|1,"prog":{"start":n,"inst":[[op,out,arg,[runes]],..]}|null}.
// "prog" is syntax.Compile(syntax.Parse(re, Perl).Simplify()) of rsc.io/binaryregexp — exactly what
// regexAnalysis.go walks — dumped so that the Lean model runs its transliterated walks on the SAME
// program ("prog":null when the text does not parse).  The real functions get only the text.
//
// Output line:  min=<n> max=<n> suffix=<hex|-> amin=<n|*> amax=<n|*>   |  error  |  panic  |  bad-case
// (amin/amax repeat the real lengths when the AST is "regular", so that the model side, which prints
// lenRange of the AST there, is compared with them; `*` otherwise.)
//
// The oracle is written from the property statement and from the regex syntax documentation; it does
// not use the program, the Lean model or the analyses' own reasoning:
//   - words are sampled from the AST, put into random contexts and VALIDATED with the real matcher
//     (\A.{p}(?:re).{q}\z on context+word+context); every validated word must satisfy
//     min <= len <= max and end with the reported suffix; so must every match FindAllIndex reports;
//   - the shortest and (when finite) longest words of the AST are constructed, validated, and checked;
//   - when min / max are finite there must be a validated word of exactly that length
//     (bounded, category-complete enumeration; inconclusive if the budget is exhausted).
package main

import (
	"bufio"
	"bytes"
	"encoding/hex"
	"encoding/json"
	"flag"
	"fmt"
	"math"
	"os"
	"strings"

	"rsc.io/binaryregexp"
	"rsc.io/binaryregexp/syntax"

	regexanalysis "github.com/spq/pkappa2/internal/tools/regexAnalysis"
	"github.com/spq/pkappa2/internal/verifh/lib"
)

const suffixPathLimit = 20000

// ---------------------------------------------------------------------------------------
// case lines

type caseLine struct {
	Re       string          `json:"re"`
	Ast      json.RawMessage `json:"ast"`
	NoSuffix int             `json:"nosuffix"`
	Prog     json.RawMessage `json:"prog"`
}

func dumpProg(re string) string {
	r, err := syntax.Parse(re, syntax.Perl)
	if err != nil {
		return "null"
	}
	p, err := syntax.Compile(r.Simplify())
	if err != nil {
		return "null"
	}
	var sb strings.Builder
	fmt.Fprintf(&sb, `{"start":%d,"inst":[`, p.Start)
	for i, in := range p.Inst {
		if i > 0 {
			sb.WriteByte(',')
		}
		fmt.Fprintf(&sb, "[%d,%d,%d,[", in.Op, in.Out, in.Arg)
		for j, r := range in.Rune {
			if j > 0 {
				sb.WriteByte(',')
			}
			fmt.Fprintf(&sb, "%d", r)
		}
		sb.WriteString("]]")
	}
	sb.WriteString("]}")
	return sb.String()
}

func progSize(re string) int {
	r, err := syntax.Parse(re, syntax.Perl)
	if err != nil {
		return 0
	}
	p, err := syntax.Compile(r.Simplify())
	if err != nil {
		return 0
	}
	return len(p.Inst)
}

func mkCase(n *Node) string {
	re := n.render()
	ns := 0
	if n.pathEstimate() > suffixPathLimit {
		ns = 1
	}
	reJSON, _ := json.Marshal(re)
	return fmt.Sprintf(`{"re":%s,"ast":%s,"nosuffix":%d,"prog":%s}`, reJSON, n.String(), ns, dumpProg(re))
}

// ---------------------------------------------------------------------------------------
// generator

var smallAlpha = []int{'a', 'b', 'c', 'x'}
var oddBytes = []int{'\n', ' ', 0, 0xff, 'A', 'B', '_', '0', 'z', 'Z', '-', 0x80, '.', '\r'}

func genByte(r *lib.RNG) int {
	if r.Chance(4, 5) {
		return lib.Pick(r, smallAlpha)
	}
	if r.Chance(3, 4) {
		return lib.Pick(r, oddBytes)
	}
	return r.Intn(256)
}

func genAtom(r *lib.RNG) *Node {
	switch x := r.Intn(100); {
	case x < 62:
		b := genByte(r)
		return &Node{K: "lit", B: b, Fold: b < 0x80 && r.Chance(1, 8)}
	case x < 76:
		n := &Node{K: "cls"}
		k := r.Range(1, 3)
		ascii := true
		for i := 0; i < k; i++ {
			lo := genByte(r)
			hi := lo
			if r.Chance(1, 2) {
				hi = lo + r.Intn(4)
				if r.Chance(1, 6) {
					hi = lo + r.Intn(64)
				}
				if hi > 255 {
					hi = 255
				}
			}
			if hi >= 0x80 {
				ascii = false
			}
			n.R = append(n.R, [2]int{lo, hi})
		}
		if r.Chance(1, 5) {
			n.Neg = true
		} else if ascii && r.Chance(1, 6) {
			n.Fold = true
		}
		return n
	case x < 81:
		return &Node{K: "any"}
	case x < 86:
		return &Node{K: "anynl"}
	case x < 96:
		return &Node{K: "as", A: lib.Pick(r, []string{"bot", "bot2", "eot", "eot2", "bol", "eol", "wb", "wb", "nwb", "nwb"})}
	case x < 99:
		return &Node{K: "eps"}
	default:
		return &Node{K: "none"}
	}
}

func genCount(r *lib.RNG) (int, int) {
	var mn int
	switch r.Intn(10) {
	case 0:
		mn = 0
	case 1, 2, 3:
		mn = r.Range(1, 3)
	case 4, 5:
		mn = r.Range(0, 8)
	case 6:
		mn = lib.Pick(r, []int{16, 31, 32, 33, 63, 64})
	case 7:
		mn = r.Range(0, 64)
	default:
		mn = r.Range(0, 2)
	}
	switch r.Intn(6) {
	case 0:
		return mn, -1
	case 1, 2:
		return mn, mn
	case 3:
		return mn, mn + r.Range(1, 3)
	case 4:
		return mn, mn + r.Range(0, 64)
	default:
		return mn, mn + r.Range(0, 8)
	}
}

func genNode(r *lib.RNG, depth int, noAssert bool) *Node {
	atom := func() *Node {
		for {
			a := genAtom(r)
			if noAssert && a.K == "as" {
				continue
			}
			return a
		}
	}
	if depth <= 0 {
		return atom()
	}
	sub := func() *Node { return genNode(r, depth-1-r.Intn(2), noAssert) }
	switch x := r.Intn(100); {
	case x < 32:
		n := &Node{K: "cat"}
		for i, k := 0, r.Range(2, 4); i < k; i++ {
			n.Sub = append(n.Sub, sub())
		}
		return n
	case x < 50:
		n := &Node{K: "alt"}
		for i, k := 0, r.Range(2, 3); i < k; i++ {
			n.Sub = append(n.Sub, sub())
		}
		return n
	case x < 60:
		return &Node{K: "star", NG: r.Chance(1, 6), Sub: []*Node{sub()}}
	case x < 70:
		return &Node{K: "plus", NG: r.Chance(1, 6), Sub: []*Node{sub()}}
	case x < 78:
		return &Node{K: "quest", NG: r.Chance(1, 6), Sub: []*Node{sub()}}
	case x < 88:
		mn, mx := genCount(r)
		return &Node{K: "rep", Min: mn, Max: mx, NG: r.Chance(1, 8), Sub: []*Node{sub()}}
	case x < 93:
		return &Node{K: "cap", Sub: []*Node{sub()}}
	default:
		return atom()
	}
}

// shapes named in DESIGN §5 C18 and the shapes around an optional prefix in front of a loop
func genShape(r *lib.RNG) *Node {
	lit := func() *Node { return &Node{K: "lit", B: lib.Pick(r, smallAlpha)} }
	small := func() *Node { return genNode(r, r.Intn(2), false) }
	un := func(k string, s *Node) *Node { return &Node{K: k, Sub: []*Node{s}} }
	cat := func(s ...*Node) *Node { return &Node{K: "cat", Sub: s} }
	alt := func(s ...*Node) *Node { return &Node{K: "alt", Sub: s} }
	opt := func(s *Node) *Node {
		switch r.Intn(3) {
		case 0:
			return un("quest", s)
		case 1:
			return un("star", s)
		default:
			return alt(s, &Node{K: "eps"})
		}
	}
	loop := func(s *Node) *Node {
		switch r.Intn(3) {
		case 0:
			return un("plus", s)
		case 1:
			return &Node{K: "rep", Min: r.Range(1, 3), Max: -1, Sub: []*Node{s}}
		default:
			return un("star", s)
		}
	}
	switch r.Intn(10) {
	case 0:
		return un("star", cat(un("star", lit()), small())) // (a*b)*
	case 1:
		return un("plus", alt(lit(), un("plus", small()))) // (a|b+)+
	case 2:
		return cat(opt(small()), loop(small())) // x?a+
	case 3:
		return cat(small(), opt(small()), loop(small()), small())
	case 4:
		return un("plus", cat(opt(small()), loop(small()))) // (x?a+)+
	case 5:
		return cat(alt(small(), small()), loop(small()), lit())
	case 6:
		return cat(small(), &Node{K: "as", A: lib.Pick(r, []string{"wb", "nwb", "eot2", "bot2", "bol", "eol"})}, small()) // a\bb
	case 7:
		return alt(cat(lit(), &Node{K: "as", A: "wb"}, lit()), cat(lit(), lit(), lit())) // a\bb|ccc
	case 8:
		mn, mx := genCount(r)
		return cat(&Node{K: "rep", Min: mn, Max: mx, Sub: []*Node{alt(small(), small())}}, lit()) // (?:a|bb){n}x
	default:
		return cat(loop(cat(small(), lit())), lit(), lit()) // common literal suffix after a loop
	}
}

func repProduct(n *Node) int {
	p := 1
	for _, s := range n.Sub {
		if q := repProduct(s); q > p {
			p = q
		}
	}
	if n.K == "rep" {
		m := n.Max
		if m < n.Min {
			m = n.Min
		}
		if m > 1 {
			p *= m
		}
	}
	return p
}

func genCase(r *lib.RNG) *Node {
	for try := 0; ; try++ {
		var n *Node
		switch x := r.Intn(100); {
		case x < 25:
			n = genShape(r)
		case x < 55:
			n = genNode(r, r.Range(1, 4), true) // assertion-free: "attained" must hold exactly
		default:
			n = genNode(r, r.Range(1, 4), false)
		}
		if n.size() > 40 {
			continue
		}
		if repProduct(n) > 1000 && !r.Chance(1, 50) {
			continue // mostly stay below the parser's nested-repeat limit
		}
		if lo, _ := n.alen(); lo < inf && lo > 3000 {
			continue
		}
		if n.pathEstimate() > suffixPathLimit && r.Chance(3, 4) {
			continue // keep some for the length analysis (suffix call skipped, flagged in the case)
		}
		return n
	}
}

func gen(seed uint64, n int) {
	r := lib.NewRNG(seed)
	w := bufio.NewWriter(os.Stdout)
	defer w.Flush()
	for i := 0; i < n; i++ {
		fmt.Fprintln(w, mkCase(genCase(r.Fork())))
	}
}

func mk() int {
	sc := bufio.NewScanner(os.Stdin)
	sc.Buffer(make([]byte, 1<<20), 1<<28)
	w := bufio.NewWriter(os.Stdout)
	defer w.Flush()
	for sc.Scan() {
		line := strings.TrimSpace(sc.Text())
		if line == "" || strings.HasPrefix(line, "#") {
			continue
		}
		var v interface{}
		if err := json.Unmarshal([]byte(line), &v); err != nil {
			fmt.Fprintln(os.Stderr, "mk:", err)
			return 1
		}
		n, err := dec(v)
		if err != nil {
			fmt.Fprintln(os.Stderr, "mk:", err)
			return 1
		}
		fmt.Fprintln(w, mkCase(n))
	}
	return 0
}

// ---------------------------------------------------------------------------------------
// the real code

type real struct {
	err      bool
	panicked bool
	min, max uint
	suffix   []byte
	noSuffix bool
}

func callReal(re string, noSuffix bool) (res real) {
	defer func() {
		if recover() != nil {
			res = real{panicked: true}
		}
	}()
	l, err := regexanalysis.AcceptedLength(re)
	if err != nil {
		return real{err: true}
	}
	res.min, res.max = l.MinLength, l.MaxLength
	res.noSuffix = noSuffix
	if !noSuffix {
		s, err := regexanalysis.ConstantSuffix(re)
		if err != nil {
			return real{err: true}
		}
		res.suffix = s
	}
	return res
}

func (x real) line(n *Node) string {
	if x.panicked {
		return "panic"
	}
	if x.err {
		return "error"
	}
	suf := "-"
	if !x.noSuffix {
		suf = hex.EncodeToString(x.suffix)
	}
	amin, amax := "*", "*"
	if n.regular() {
		amin, amax = fmt.Sprint(x.min), fmt.Sprint(x.max)
	}
	return fmt.Sprintf("min=%d max=%d suffix=%s amin=%s amax=%s", x.min, x.max, suf, amin, amax)
}

// ---------------------------------------------------------------------------------------
// property oracle

type complaint struct {
	kind, text string
}

var ctxBytes = []string{"", "a", " ", "\n"}

type membership struct {
	re  string
	ctx [3][3]*binaryregexp.Regexp
}

// member: does the expression match exactly w when w stands between pre and post?
func (m *membership) member(pre, w, post []byte) bool {
	p, q := len(pre), len(post)
	if p > 2 || q > 2 {
		panic("context too long")
	}
	if m.ctx[p][q] == nil {
		m.ctx[p][q] = binaryregexp.MustCompile(fmt.Sprintf(`\A(?s:.{%d})(?:%s)(?s:.{%d})\z`, p, m.re, q))
	}
	t := append(append(append([]byte(nil), pre...), w...), post...)
	return m.ctx[p][q].Match(t)
}

// anyContext returns a context (from the 16 that empty-width assertions can distinguish) in which w is matched.
func (m *membership) anyContext(w []byte) (string, string, bool) {
	for _, pre := range ctxBytes {
		for _, post := range ctxBytes {
			if m.member([]byte(pre), w, []byte(post)) {
				return pre, post, true
			}
		}
	}
	return "", "", false
}

type stats struct {
	validated, rejected, found, inconclusive, engineDisagrees int
}

func oracle(n *Node, re string, x real, r *lib.RNG, nsamples int, st *stats) []complaint {
	var out []complaint
	add := func(kind, format string, a ...interface{}) {
		for _, c := range out {
			if c.kind == kind {
				return
			}
		}
		out = append(out, complaint{kind, fmt.Sprintf(format, a...)})
	}
	plain, err := binaryregexp.Compile(re)
	if err != nil {
		return nil
	}
	if x.err || x.panicked {
		add("analysis-error", "the matcher compiles the expression but the analysis fails (error=%v panic=%v)", x.err, x.panicked)
		return out
	}
	mem := &membership{re: re}
	maxFinite := x.max != math.MaxUint
	checkWord := func(w []byte, pre, post string, how string) {
		if uint(len(w)) < x.min {
			add("len-below-min", "%s: matched string %q (context %q_%q) has length %d < MinLength %d", how, w, pre, post, len(w), x.min)
		}
		if maxFinite && uint(len(w)) > x.max {
			add("len-above-max", "%s: matched string %q (context %q_%q) has length %d > MaxLength %d", how, w, pre, post, len(w), x.max)
		}
		if !x.noSuffix && !bytes.HasSuffix(w, x.suffix) {
			add("suffix-not-suffix", "%s: matched string %q (context %q_%q) does not end with the constant suffix %q", how, w, pre, post, x.suffix)
		}
	}
	// 1. sampled words in sampled contexts, validated by the real matcher; plus what FindAllIndex reports
	for i := 0; i < nsamples; i++ {
		var w []byte
		if !n.sample(r, &w) || len(w) > 20000 {
			continue
		}
		pre, post := "", ""
		if r.Chance(1, 2) {
			pre = lib.Pick(r, ctxBytes)
		}
		if r.Chance(1, 2) {
			post = lib.Pick(r, ctxBytes)
		}
		if mem.member([]byte(pre), w, []byte(post)) {
			st.validated++
			checkWord(w, pre, post, "sampled")
		} else {
			st.rejected++
		}
		t := []byte(pre + string(w) + post)
		for _, m := range plain.FindAllIndex(t, 8) {
			st.found++
			checkWord(t[m[0]:m[1]], string(t[:m[0]]), string(t[m[1]:]), "found")
		}
	}
	// 2. constructed shortest / longest words of the AST
	alo, ahi := n.alen()
	const budget = 60000
	// every candidate word costs up to 16 runs of the matcher (program size x text length each):
	// bound the number of candidates per enumeration accordingly
	psize := progSize(re)
	emits := func(L int) int {
		e := 4000000 / ((psize + 10) * (L + 10))
		if e < 24 {
			e = 24
		}
		if e > 3000 {
			e = 3000
		}
		return e
	}
	try := func(L int, how string) {
		if L >= inf || L > 5000 {
			return
		}
		left := emits(L)
		n.enumLen(L, budget, func(w []byte) bool {
			if left--; left < 0 {
				return true
			}
			if pre, post, ok := mem.anyContext(w); ok {
				st.validated++
				checkWord(w, pre, post, how)
				return true
			}
			return false
		})
	}
	try(alo, "shortest")
	if ahi < inf {
		try(ahi, "longest")
	}
	// 3. attained when finite
	attained := func(L uint, which string) {
		if L > 5000 {
			st.inconclusive++
			return
		}
		hit := false
		cands := 0
		left := emits(int(L))
		complete := n.enumLen(int(L), budget, func(w []byte) bool {
			if left--; left < 0 {
				return true
			}
			cands++
			_, _, ok := mem.anyContext(w)
			hit = hit || ok
			return ok
		})
		complete = complete && left >= 0
		if hit {
			return
		}
		if !complete {
			st.inconclusive++
			return
		}
		// The AST has `cands` (representative) words of that length and the matcher rejects them all.
		// Would they be matched if empty-width assertions were ignored?
		erased := 0
		if cands > 0 {
			e := n.eraseAssertions()
			em := &membership{re: e.render()}
			left := emits(int(L))
			e.enumLen(int(L), budget, func(w []byte) bool {
				if left--; left < 0 {
					return true
				}
				if _, _, ok := em.anyContext(w); ok {
					erased = 1
				}
				return erased == 1
			})
			if erased == 0 {
				// not even then: the engine does not implement the documented semantics of this expression
				// (e.g. binaryregexp factors `Ba{1}|(?i:B)` into `B(?:a{1}|(?:))` and loses the fold flag).
				// The oracle's notion of "the strings the expression matches" is void here: abstain.
				st.engineDisagrees++
				return
			}
		}
		add(which+"-not-attained", "%s=%d but no string of that length is matched in any context (assertions=%d candidates=%d attained-with-assertions-erased=%d)",
			which, L, b01(n.has("as")), cands, erased)
	}
	// A class that matches no byte at all makes branches (or the whole expression) unmatchable; the
	// analyses count it like any other class.  "Attained" is only demanded for expressions whose
	// classes have members (DESIGN §5 C18); soundness (1., 2.) is checked regardless.
	if !n.has("none") && !hasEmptyAtom(n) {
		if x.min != math.MaxUint {
			attained(x.min, "MinLength")
		}
		if maxFinite {
			attained(x.max, "MaxLength")
		}
	}
	return out
}

// ---------------------------------------------------------------------------------------

func parseCase(line string) (*Node, *caseLine, error) {
	var c caseLine
	if err := json.Unmarshal([]byte(line), &c); err != nil {
		return nil, nil, err
	}
	var v interface{}
	if err := json.Unmarshal(c.Ast, &v); err != nil {
		return nil, nil, err
	}
	n, err := dec(v)
	if err != nil {
		return nil, nil, err
	}
	if n.render() != c.Re {
		return nil, nil, fmt.Errorf("re is not the rendering of ast")
	}
	return n, &c, nil
}

func run(oraclePath string, nsamples int) int {
	var ow *bufio.Writer
	if oraclePath != "" {
		f, err := os.Create(oraclePath)
		if err != nil {
			fmt.Fprintln(os.Stderr, err)
			return 2
		}
		defer f.Close()
		ow = bufio.NewWriter(f)
		defer ow.Flush()
	}
	sc := bufio.NewScanner(os.Stdin)
	sc.Buffer(make([]byte, 1<<20), 1<<28)
	w := bufio.NewWriter(os.Stdout)
	defer w.Flush()
	var st stats
	lineNo := 0
	for sc.Scan() {
		lineNo++
		n, c, err := parseCase(sc.Text())
		if err != nil {
			fmt.Fprintln(w, "bad-case")
			continue
		}
		x := callReal(c.Re, c.NoSuffix != 0)
		fmt.Fprintln(w, x.line(n))
		if ow != nil {
			r := lib.NewRNG(uint64(lineNo)*7919 + uint64(len(c.Re)))
			for _, cp := range oracle(n, c.Re, x, r, nsamples, &st) {
				fmt.Fprintf(ow, "ORACLE line=%d kind=%s re=%q %s\n", lineNo, cp.kind, c.Re, cp.text)
			}
		}
	}
	if ow != nil {
		fmt.Fprintf(ow, "STATS validated=%d rejected=%d found=%d inconclusive=%d engine_disagrees=%d\n", st.validated, st.rejected, st.found, st.inconclusive, st.engineDisagrees)
	}
	return 0
}

// ---------------------------------------------------------------------------------------
// structural shrinking (oracle complaints only)

func candidates(n *Node) []*Node {
	var out []*Node
	// replace the node by one of its children
	for _, s := range n.Sub {
		out = append(out, s.clone())
	}
	switch n.K {
	case "cat", "alt":
		if len(n.Sub) > 2 {
			for i := range n.Sub {
				c := n.clone()
				c.Sub = append(c.Sub[:i], c.Sub[i+1:]...)
				out = append(out, c)
			}
		}
	case "rep":
		for _, d := range [][2]int{{n.Min / 2, n.Max}, {n.Min, n.Min}, {n.Min - 1, n.Max}, {n.Min, n.Max - 1}, {n.Min - 1, n.Max - 1}, {n.Min, (n.Min + n.Max) / 2}} {
			if d[0] >= 0 && (d[1] == -1 && n.Max == -1 || d[1] >= d[0]) && (d[0] != n.Min || d[1] != n.Max) {
				c := n.clone()
				c.Min, c.Max = d[0], d[1]
				out = append(out, c)
			}
		}
	case "cls":
		if len(n.R) > 0 {
			out = append(out, &Node{K: "lit", B: n.R[0][0]})
		}
		if n.Fold || n.Neg {
			c := n.clone()
			c.Fold, c.Neg = false, false
			out = append(out, c)
		}
	case "lit":
		if n.Fold {
			out = append(out, &Node{K: "lit", B: n.B})
		}
		if n.B != 'a' && n.B != 'b' && n.B != 'c' {
			out = append(out, &Node{K: "lit", B: 'a'})
		}
	case "any", "anynl":
		out = append(out, &Node{K: "lit", B: 'a'})
	}
	if n.NG {
		c := n.clone()
		c.NG = false
		out = append(out, c)
	}
	// recurse: replace one child by one of its candidates
	for i, s := range n.Sub {
		for _, sc := range candidates(s) {
			c := n.clone()
			c.Sub[i] = sc
			out = append(out, c)
		}
	}
	return out
}

func complains(n *Node, kind string) bool {
	re := n.render()
	ns := n.pathEstimate() > suffixPathLimit
	x := callReal(re, ns)
	var st stats
	for _, seed := range []uint64{1, 2} {
		for _, c := range oracle(n, re, x, lib.NewRNG(seed), 40, &st) {
			if c.kind == kind {
				return true
			}
		}
	}
	return false
}

func shrink(kind string) int {
	sc := bufio.NewScanner(os.Stdin)
	sc.Buffer(make([]byte, 1<<20), 1<<28)
	if !sc.Scan() {
		return 2
	}
	n, _, err := parseCase(sc.Text())
	if err != nil {
		fmt.Fprintln(os.Stderr, "shrink:", err)
		return 2
	}
	if !complains(n, kind) {
		fmt.Println(mkCase(n))
		return 1
	}
	for changed, rounds := true, 0; changed && rounds < 200; rounds++ {
		changed = false
		for _, c := range candidates(n) {
			if c.size() <= n.size() && c.String() != n.String() && complains(c, kind) {
				n, changed = c, true
				break
			}
		}
	}
	fmt.Println(mkCase(n))
	return 0
}

func main() {
	if len(os.Args) < 2 {
		fmt.Fprintln(os.Stderr, "usage: c18 gen|mk|run|shrink ...")
		os.Exit(2)
	}
	fs := flag.NewFlagSet(os.Args[1], flag.ExitOnError)
	seed := fs.Uint64("seed", 1, "seed")
	n := fs.Int("n", 1000, "number of cases")
	oraclePath := fs.String("oracle", "", "oracle complaint file")
	samples := fs.Int("samples", 24, "sampled words per case")
	kind := fs.String("kind", "", "complaint kind to preserve while shrinking")
	fs.Parse(os.Args[2:])
	switch os.Args[1] {
	case "gen":
		gen(*seed, *n)
	case "mk":
		os.Exit(mk())
	case "run":
		os.Exit(run(*oraclePath, *samples))
	case "shrink":
		os.Exit(shrink(*kind))
	default:
		os.Exit(2)
	}
}
