package main

// Regex AST of the C18 harness: generation, JSON coding, rendering to binaryregexp (Perl) syntax,
// byte-set semantics of atoms, word sampling and bounded word enumeration.
//
// JSON coding (arrays, decoded by lean/Pk/Driver/C18.lean as well):
//   ["eps"] ["lit",b,fold] ["cls",neg,fold,[[lo,hi],..]] ["any"] ["anynl"] ["none"]
//   ["as",kind]  kind: bot(\A) bot2(^) eot(\z) eot2($) bol((?m:^)) eol((?m:$)) wb(\b) nwb(\B)
//   ["cat",[..]] ["alt",[..]] ["star",ng,s] ["plus",ng,s] ["quest",ng,s] ["rep",min,max,ng,s] ["cap",s]
// max = -1 means unbounded.  "none" is the class that matches nothing (compiles to InstFail).

import (
	"bytes"
	"encoding/json"
	"fmt"
	"strings"

	"github.com/spq/pkappa2/internal/verifh/lib"
)

type Node struct {
	K        string
	B        int
	Fold     bool
	Neg      bool
	R        [][2]int
	A        string
	Min, Max int
	NG       bool
	Sub      []*Node
}

func b01(b bool) int {
	if b {
		return 1
	}
	return 0
}

func (n *Node) enc() interface{} {
	switch n.K {
	case "eps", "any", "anynl", "none":
		return []interface{}{n.K}
	case "lit":
		return []interface{}{"lit", n.B, b01(n.Fold)}
	case "cls":
		rs := make([]interface{}, 0, len(n.R))
		for _, r := range n.R {
			rs = append(rs, []interface{}{r[0], r[1]})
		}
		return []interface{}{"cls", b01(n.Neg), b01(n.Fold), rs}
	case "as":
		return []interface{}{"as", n.A}
	case "cat", "alt":
		ss := make([]interface{}, 0, len(n.Sub))
		for _, s := range n.Sub {
			ss = append(ss, s.enc())
		}
		return []interface{}{n.K, ss}
	case "star", "plus", "quest":
		return []interface{}{n.K, b01(n.NG), n.Sub[0].enc()}
	case "rep":
		return []interface{}{"rep", n.Min, n.Max, b01(n.NG), n.Sub[0].enc()}
	case "cap":
		return []interface{}{"cap", n.Sub[0].enc()}
	}
	panic("enc: bad node " + n.K)
}

func num(v interface{}) (int, bool) {
	f, ok := v.(float64)
	return int(f), ok
}

func dec(v interface{}) (*Node, error) {
	a, ok := v.([]interface{})
	if !ok || len(a) == 0 {
		return nil, fmt.Errorf("node is not an array")
	}
	k, ok := a[0].(string)
	if !ok {
		return nil, fmt.Errorf("node kind")
	}
	bad := fmt.Errorf("malformed %s node", k)
	n := &Node{K: k}
	switch k {
	case "eps", "any", "anynl", "none":
		if len(a) != 1 {
			return nil, bad
		}
	case "lit":
		if len(a) != 3 {
			return nil, bad
		}
		b, ok1 := num(a[1])
		f, ok2 := num(a[2])
		if !ok1 || !ok2 || b < 0 || b > 255 {
			return nil, bad
		}
		n.B, n.Fold = b, f != 0
	case "cls":
		if len(a) != 4 {
			return nil, bad
		}
		ng, ok1 := num(a[1])
		f, ok2 := num(a[2])
		rs, ok3 := a[3].([]interface{})
		if !ok1 || !ok2 || !ok3 {
			return nil, bad
		}
		n.Neg, n.Fold = ng != 0, f != 0
		for _, r := range rs {
			p, ok := r.([]interface{})
			if !ok || len(p) != 2 {
				return nil, bad
			}
			lo, ok1 := num(p[0])
			hi, ok2 := num(p[1])
			if !ok1 || !ok2 || lo < 0 || hi > 255 || lo > hi {
				return nil, bad
			}
			n.R = append(n.R, [2]int{lo, hi})
		}
	case "as":
		if len(a) != 2 {
			return nil, bad
		}
		s, ok := a[1].(string)
		if !ok {
			return nil, bad
		}
		switch s {
		case "bot", "bot2", "eot", "eot2", "bol", "eol", "wb", "nwb":
		default:
			return nil, bad
		}
		n.A = s
	case "cat", "alt":
		if len(a) != 2 {
			return nil, bad
		}
		ss, ok := a[1].([]interface{})
		if !ok || len(ss) < 2 {
			return nil, bad
		}
		for _, s := range ss {
			c, err := dec(s)
			if err != nil {
				return nil, err
			}
			n.Sub = append(n.Sub, c)
		}
	case "star", "plus", "quest":
		if len(a) != 3 {
			return nil, bad
		}
		g, ok := num(a[1])
		if !ok {
			return nil, bad
		}
		c, err := dec(a[2])
		if err != nil {
			return nil, err
		}
		n.NG, n.Sub = g != 0, []*Node{c}
	case "rep":
		if len(a) != 5 {
			return nil, bad
		}
		mn, ok1 := num(a[1])
		mx, ok2 := num(a[2])
		g, ok3 := num(a[3])
		if !ok1 || !ok2 || !ok3 || mn < 0 || mx < -1 {
			return nil, bad
		}
		c, err := dec(a[4])
		if err != nil {
			return nil, err
		}
		n.Min, n.Max, n.NG, n.Sub = mn, mx, g != 0, []*Node{c}
	case "cap":
		if len(a) != 2 {
			return nil, bad
		}
		c, err := dec(a[1])
		if err != nil {
			return nil, err
		}
		n.Sub = []*Node{c}
	default:
		return nil, fmt.Errorf("unknown node kind %q", k)
	}
	return n, nil
}

func (n *Node) String() string {
	b, _ := json.Marshal(n.enc())
	return string(b)
}

func (n *Node) clone() *Node {
	c := *n
	c.R = append([][2]int(nil), n.R...)
	c.Sub = nil
	for _, s := range n.Sub {
		c.Sub = append(c.Sub, s.clone())
	}
	return &c
}

// ---------------------------------------------------------------------------------------
// rendering

func isAlnum(b int) bool {
	return b >= '0' && b <= '9' || b >= 'a' && b <= 'z' || b >= 'A' && b <= 'Z'
}
func isLetter(b int) bool { return b >= 'a' && b <= 'z' || b >= 'A' && b <= 'Z' }

func litText(b int) string {
	if isAlnum(b) {
		return string(rune(b))
	}
	return fmt.Sprintf(`\x%02x`, b)
}

func (n *Node) isAtomText() bool {
	switch n.K {
	case "lit", "cls", "any", "anynl", "none", "cap":
		return true
	}
	return false
}

func (n *Node) render() string {
	switch n.K {
	case "eps":
		return "(?:)"
	case "lit":
		if n.Fold {
			return "(?i:" + litText(n.B) + ")"
		}
		return litText(n.B)
	case "cls":
		var sb strings.Builder
		sb.WriteString("[")
		if n.Neg {
			sb.WriteString("^")
		}
		for _, r := range n.R {
			if r[0] == r[1] {
				fmt.Fprintf(&sb, `\x%02x`, r[0])
			} else {
				fmt.Fprintf(&sb, `\x%02x-\x%02x`, r[0], r[1])
			}
		}
		sb.WriteString("]")
		if n.Fold {
			return "(?i:" + sb.String() + ")"
		}
		return sb.String()
	case "none":
		return `[^\x00-\x{10FFFF}]`
	case "any":
		return "(?s:.)"
	case "anynl":
		return "(?-s:.)"
	case "as":
		switch n.A {
		case "bot":
			return `\A`
		case "bot2":
			return `^`
		case "eot":
			return `\z`
		case "eot2":
			return `$`
		case "bol":
			return `(?m:^)`
		case "eol":
			return `(?m:$)`
		case "wb":
			return `\b`
		case "nwb":
			return `\B`
		}
	case "cat":
		var sb strings.Builder
		for _, s := range n.Sub {
			if s.K == "alt" {
				sb.WriteString("(?:" + s.render() + ")")
			} else {
				sb.WriteString(s.render())
			}
		}
		return sb.String()
	case "alt":
		parts := make([]string, len(n.Sub))
		for i, s := range n.Sub {
			parts[i] = s.render()
		}
		return strings.Join(parts, "|")
	case "star", "plus", "quest", "rep":
		s := n.Sub[0]
		t := s.render()
		if !s.isAtomText() {
			t = "(?:" + t + ")"
		}
		switch n.K {
		case "star":
			t += "*"
		case "plus":
			t += "+"
		case "quest":
			t += "?"
		default:
			if n.Max == n.Min {
				t += fmt.Sprintf("{%d}", n.Min)
			} else if n.Max < 0 {
				t += fmt.Sprintf("{%d,}", n.Min)
			} else {
				t += fmt.Sprintf("{%d,%d}", n.Min, n.Max)
			}
		}
		if n.NG {
			t += "?"
		}
		return t
	case "cap":
		return "(" + n.Sub[0].render() + ")"
	}
	panic("render: bad node " + n.K)
}

// ---------------------------------------------------------------------------------------
// semantics of atoms, written from the syntax documentation (independent of the analyses)

func swapCase(b int) int {
	if b >= 'a' && b <= 'z' {
		return b - 32
	}
	if b >= 'A' && b <= 'Z' {
		return b + 32
	}
	return b
}

// set returns the bytes an atom node matches (nil for non-atoms).
func (n *Node) set() *[256]bool {
	var s [256]bool
	switch n.K {
	case "lit":
		s[n.B] = true
		if n.Fold {
			s[swapCase(n.B)] = true
		}
	case "cls":
		for _, r := range n.R {
			for b := r[0]; b <= r[1]; b++ {
				s[b] = true
				if n.Fold {
					s[swapCase(b)] = true
				}
			}
		}
		if n.Neg {
			for b := range s {
				s[b] = !s[b]
			}
		}
	case "any":
		for b := range s {
			s[b] = true
		}
	case "anynl":
		for b := range s {
			s[b] = b != '\n'
		}
	case "none":
	default:
		return nil
	}
	return &s
}

func isWordByte(b byte) bool {
	return b >= '0' && b <= '9' || b >= 'a' && b <= 'z' || b >= 'A' && b <= 'Z' || b == '_'
}

// reps returns up to three representative bytes of an atom: a word byte, a newline, another byte.
func (n *Node) reps() []byte {
	s := n.set()
	var out []byte
	pref := func(cands []byte, ok func(byte) bool) {
		for _, c := range cands {
			if s[c] && ok(c) {
				out = append(out, c)
				return
			}
		}
		for b := 0; b < 256; b++ {
			if s[b] && ok(byte(b)) {
				out = append(out, byte(b))
				return
			}
		}
	}
	pref([]byte("abcxyz"), isWordByte)
	pref(nil, func(b byte) bool { return b == '\n' })
	pref([]byte(" "), func(b byte) bool { return b != '\n' && !isWordByte(b) })
	// plus the other case of a letter and the extreme members (the engine is third party: do not rely
	// on one representative per category being enough)
	extra := []int{-1, -1, -1}
	if len(out) > 0 {
		extra[0] = swapCase(int(out[0]))
	}
	for b := 0; b < 256; b++ {
		if s[b] {
			if extra[1] < 0 {
				extra[1] = b
			}
			extra[2] = b
		}
	}
	for _, e := range extra {
		if e >= 0 && s[e] && bytes.IndexByte(out, byte(e)) < 0 {
			out = append(out, byte(e))
		}
	}
	return out
}

func (n *Node) walk(f func(*Node)) {
	f(n)
	for _, s := range n.Sub {
		s.walk(f)
	}
}

func (n *Node) has(kind string) bool {
	found := false
	n.walk(func(m *Node) {
		if m.K == kind {
			found = true
		}
	})
	return found
}

func (n *Node) size() int {
	c := 0
	n.walk(func(*Node) { c++ })
	return c
}

// repBounds gives (min,max) iteration counts of a repetition node; max -1 = unbounded.
func (n *Node) repBounds() (int, int) {
	switch n.K {
	case "star":
		return 0, -1
	case "plus":
		return 1, -1
	case "quest":
		return 0, 1
	}
	return n.Min, n.Max
}

const inf = int(1) << 40

// alen: assertion-erased length bounds of the AST, used ONLY to prune the word enumeration and to
// decide which cases are "regular" for the AST-level tie; the oracle's verdicts never use it.
func (n *Node) alen() (int, int) {
	switch n.K {
	case "eps", "as":
		return 0, 0
	case "lit", "cls", "any", "anynl":
		return 1, 1
	case "none":
		return inf, 0 // empty language
	case "cap":
		return n.Sub[0].alen()
	case "cat":
		lo, hi := 0, 0
		for _, s := range n.Sub {
			l, h := s.alen()
			lo, hi = addInf(lo, l), addInf(hi, h)
		}
		return lo, hi
	case "alt":
		lo, hi := inf, 0
		for _, s := range n.Sub {
			l, h := s.alen()
			if l >= inf {
				continue
			}
			if l < lo {
				lo = l
			}
			if h > hi {
				hi = h
			}
		}
		return lo, hi
	default:
		mn, mx := n.repBounds()
		l, h := n.Sub[0].alen()
		if l >= inf {
			if mn == 0 {
				return 0, 0
			}
			return inf, 0
		}
		lo := mulInf(mn, l)
		var hi int
		if mx < 0 {
			if h == 0 {
				hi = 0
			} else {
				hi = inf
			}
		} else {
			hi = mulInf(mx, h)
		}
		return lo, hi
	}
}

func addInf(a, b int) int {
	if a >= inf || b >= inf || a+b >= inf {
		return inf
	}
	return a + b
}
func mulInf(a, b int) int {
	if a == 0 || b == 0 {
		return 0
	}
	if a >= inf || b >= inf || a*b >= inf {
		return inf
	}
	return a * b
}

// regular: the AST-level tie (Lean lenRange vs. real lengths) is only claimed for regexes without a
// match-nothing class and without an unbounded loop over a body that can only match the empty string
// (the code reports "unbounded" or 0 for those depending on what Simplify does).
func hasEmptyAtom(n *Node) bool {
	found := false
	n.walk(func(m *Node) {
		if s := m.set(); s != nil {
			any := false
			for _, v := range s {
				any = any || v
			}
			found = found || !any
		}
	})
	return found
}

func (n *Node) regular() bool {
	ok := !hasEmptyAtom(n)
	n.walk(func(m *Node) {
		switch m.K {
		case "none":
			ok = false
		case "star", "plus", "rep":
			_, mx := m.repBounds()
			if _, h := m.Sub[0].alen(); mx < 0 && h == 0 {
				ok = false
			}
		}
		if m.K == "rep" && m.Max >= 0 && m.Max < m.Min {
			ok = false
		}
	})
	return ok
}

// pathEstimate bounds the number of evaluate() calls of the (memo-less) ConstantSuffix walk.
func (n *Node) pathEstimate() float64 {
	capf := func(x float64) float64 {
		if x > 1e18 {
			return 1e18
		}
		return x
	}
	switch n.K {
	case "cat":
		p := 1.0
		for _, s := range n.Sub {
			p = capf(p * s.pathEstimate())
		}
		return p
	case "alt":
		p := 0.0
		for _, s := range n.Sub {
			p = capf(p + s.pathEstimate())
		}
		return p
	case "cap":
		return n.Sub[0].pathEstimate()
	case "star", "plus", "quest", "rep":
		mn, mx := n.repBounds()
		q := n.Sub[0].pathEstimate()
		p := 1.0
		for i := 0; i < mn && p < 1e18; i++ {
			p = capf(p * q)
		}
		if mx < 0 {
			return capf(p * (q + 1))
		}
		for i := mn; i < mx && p < 1e18; i++ {
			p = capf(p * (q + 1))
		}
		return p
	}
	return 1
}

// ---------------------------------------------------------------------------------------
// sampling a word of the (assertion-erased) language; ok=false if a match-nothing class is hit

func (n *Node) sample(r *lib.RNG, out *[]byte) bool {
	switch n.K {
	case "eps", "as":
		return true
	case "lit", "cls", "any", "anynl", "none":
		s := n.set()
		rp := n.reps()
		if len(rp) == 0 {
			return false
		}
		if r.Chance(3, 4) {
			*out = append(*out, lib.Pick(r, rp))
			return true
		}
		start := r.Intn(256)
		for i := 0; i < 256; i++ {
			b := (start + i) % 256
			if s[b] {
				*out = append(*out, byte(b))
				return true
			}
		}
		return false
	case "cap":
		return n.Sub[0].sample(r, out)
	case "cat":
		for _, s := range n.Sub {
			if !s.sample(r, out) {
				return false
			}
		}
		return true
	case "alt":
		start := r.Intn(len(n.Sub))
		for i := range n.Sub {
			save := len(*out)
			if n.Sub[(start+i)%len(n.Sub)].sample(r, out) {
				return true
			}
			*out = (*out)[:save]
		}
		return false
	default:
		mn, mx := n.repBounds()
		k := mn
		switch r.Intn(4) {
		case 0:
		case 1:
			k = mn + 1
		case 2:
			k = mn + r.Intn(4)
		case 3:
			if mx >= 0 {
				k = mx
			} else {
				k = mn + 2
			}
		}
		if mx >= 0 && k > mx {
			k = mx
		}
		if k > mn+40 && len(*out) > 4000 {
			k = mn
		}
		for i := 0; i < k; i++ {
			if !n.Sub[0].sample(r, out) {
				return k == 0
			}
		}
		return true
	}
}

// enumLen calls emit for representative words of the assertion-erased language that have exactly
// length L (atoms contribute at most three representative bytes: word / newline / other, which is
// all an empty-width assertion can distinguish).  It stops when emit returns true or the step budget
// is used up; the result says whether the enumeration was complete.
func (n *Node) enumLen(L int, budget int, emit func([]byte) bool) (complete bool) {
	steps := 0
	stop := false
	var gen func(n *Node, pre []byte, rem int, restMin, restMax int, k func([]byte, int) bool) bool
	gen = func(n *Node, pre []byte, rem int, restMin, restMax int, k func([]byte, int) bool) bool {
		steps++
		if steps > budget {
			stop = true
			return true
		}
		lo, hi := n.alen()
		if lo >= inf || addInf(lo, restMin) > rem {
			return false
		}
		if hi < inf && restMax < inf && hi+restMax < rem {
			return false
		}
		switch n.K {
		case "eps", "as":
			return k(pre, rem)
		case "lit", "cls", "any", "anynl", "none":
			for _, b := range n.reps() {
				if k(append(pre[:len(pre):len(pre)], b), rem-1) {
					return true
				}
			}
			return false
		case "cap":
			return gen(n.Sub[0], pre, rem, restMin, restMax, k)
		case "alt":
			for _, s := range n.Sub {
				if gen(s, pre, rem, restMin, restMax, k) {
					return true
				}
			}
			return false
		case "cat":
			var seq func(i int, pre []byte, rem int) bool
			seq = func(i int, pre []byte, rem int) bool {
				if i == len(n.Sub) {
					return k(pre, rem)
				}
				rmin, rmax := restMin, restMax
				for _, s := range n.Sub[i+1:] {
					l, h := s.alen()
					rmin, rmax = addInf(rmin, l), addInf(rmax, h)
				}
				return gen(n.Sub[i], pre, rem, rmin, rmax, func(p []byte, r int) bool { return seq(i+1, p, r) })
			}
			return seq(0, pre, rem)
		default:
			mn, mx := n.repBounds()
			sl, sh := n.Sub[0].alen()
			var it func(done int, pre []byte, rem int) bool
			it = func(done int, pre []byte, rem int) bool {
				steps++
				if steps > budget {
					stop = true
					return true
				}
				if done >= mn {
					if k(pre, rem) {
						return true
					}
				}
				if mx >= 0 && done >= mx {
					return false
				}
				// remaining mandatory iterations after this one
				need := 0
				if done+1 < mn {
					need = mulInf(mn-done-1, sl)
				}
				more := inf
				if mx >= 0 {
					more = mulInf(mx-done-1, sh)
				} else if sh == 0 {
					more = 0
				}
				return gen(n.Sub[0], pre, rem, addInf(need, restMin), addInf(more, restMax), func(p []byte, r int) bool {
					if r == rem && done >= mn {
						return false // an empty iteration beyond the minimum adds nothing
					}
					return it(done+1, p, r)
				})
			}
			return it(0, pre, rem)
		}
	}
	gen(n, nil, L, 0, 0, func(p []byte, rem int) bool {
		if rem != 0 {
			return false
		}
		return emit(p)
	})
	return !stop
}

// eraseAssertions returns a copy with every empty-width assertion replaced by eps.
func (n *Node) eraseAssertions() *Node {
	c := n.clone()
	c.walk(func(m *Node) {
		if m.K == "as" {
			m.K, m.A = "eps", ""
		}
	})
	return c
}
