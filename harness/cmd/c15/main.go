// c15: harness for the converter cache file (property C15).
//
//	c15 gen -seed S -n N [-mode small|big|half|sweep]  write one generated case (line protocol of
//	                                               Pk/Driver/C15.lean) to stdout
//	c15 run [-oracle FILE] [-dir DIR]              execute ops from stdin on the REAL cacheFile (through the
//	                                               injected accessor), one output line per op; the map oracle
//	                                               writes its complaints to FILE
//
// Line protocol (one op per line):
//
//	new                         close, delete the cache file, open a fresh one
//	store ID T0 CHUNK*          CHUNK = D:CONTENT:T:CT  D∈{c,s}; CONTENT = hex | r<a>x<n> (pattern) | empty;
//	                            T, T0 = signed ns relative to a fixed base; CT = content type (may be empty)
//	inval ID*                   InvalidateChangedStreams
//	reset | reopen | cut K | cutat N     (cut: drop the last K bytes of the file, then reopen)
//	read ID | search ID | contains ID | count | obs
//
// Output line = `<result> || len=<n> fnv=<h|-> sum=<a>.<b> fsz=<n> free=<n> fstart=<n> infos=[id:off:size,...]`
// (observable part, strict part). fnv is `-` once a record with two or more distinct content types has been
// written since the last reset/new: Go map iteration makes the order of the content-type entries of such a
// record nondeterministic; the commutative checksum `sum` and all lengths/offsets are still compared.
package main

import (
	"bufio"
	"bytes"
	"encoding/hex"
	"flag"
	"fmt"
	"io"
	"log"
	"os"
	"path/filepath"
	"sort"
	"strconv"
	"strings"
	"time"

	"github.com/spq/pkappa2/internal/index"
	"github.com/spq/pkappa2/internal/index/converters"
	"github.com/spq/pkappa2/internal/verifh/lib"
)

var base = time.Unix(1700000000, 0).UTC()

var universe = []uint64{0, 1, 2, 3, 4, 5, 70000, 1099511627779}

type chunk struct {
	dir     int
	content []byte
	t       int64
	ct      string
}

// ---------------------------------------------------------------------------------------
// content tokens

func pattern(a, n int) []byte {
	b := make([]byte, n)
	for i := range b {
		b[i] = byte(a + 7*i)
	}
	return b
}

func parseContent(s string) ([]byte, error) {
	if s == "" {
		return []byte{}, nil
	}
	if s[0] == 'r' {
		p := strings.Split(s[1:], "x")
		if len(p) != 2 {
			return nil, fmt.Errorf("bad pattern")
		}
		a, e1 := strconv.Atoi(p[0])
		n, e2 := strconv.Atoi(p[1])
		if e1 != nil || e2 != nil || n < 0 || n > 1<<26 {
			return nil, fmt.Errorf("bad pattern")
		}
		return pattern(a, n), nil
	}
	return hex.DecodeString(s)
}

func fnv(b []byte) uint64 {
	h := uint64(14695981039346656037)
	for _, x := range b {
		h ^= uint64(x)
		h *= 1099511628211
	}
	return h
}

func showContent(b []byte) string {
	if len(b) <= 24 {
		return hex.EncodeToString(b)
	}
	return fmt.Sprintf("#%d.%x", len(b), fnv(b))
}

func parseChunk(tok string) (chunk, error) {
	p := strings.SplitN(tok, ":", 4)
	if len(p) != 4 || (p[0] != "c" && p[0] != "s") {
		return chunk{}, fmt.Errorf("bad chunk")
	}
	c := chunk{ct: p[3]}
	if p[0] == "s" {
		c.dir = 1
	}
	var err error
	if c.content, err = parseContent(p[1]); err != nil {
		return chunk{}, err
	}
	if c.t, err = strconv.ParseInt(p[2], 10, 64); err != nil {
		return chunk{}, err
	}
	return c, nil
}

func tm(ns int64) time.Time { return base.Add(time.Duration(ns)) }

// ---------------------------------------------------------------------------------------
// oracle: a plain map from stream id to the latest stored chunks

type version struct {
	t0     int64
	chunks []chunk
}

type oracle struct {
	cur   map[uint64]version
	older map[uint64][]version // versions stored since the last invalidate/reset of the id (cut tolerance)
	out   *bufio.Writer
	line  int
}

func (o *oracle) complain(f string, a ...interface{}) {
	if o.out != nil {
		fmt.Fprintf(o.out, "ORACLE line=%d %s\n", o.line, fmt.Sprintf(f, a...))
	}
}

// norm: what a reader may expect back. Chunks without bytes cannot be represented by the file format
// (a zero length is the direction marker); the repaired code drops them at store time.
func norm(cs []chunk) []chunk {
	r := []chunk{}
	for _, c := range cs {
		if len(c.content) != 0 {
			r = append(r, c)
		}
	}
	return r
}

func absd(a int64) int64 {
	if a < 0 {
		return -a
	}
	return a
}

// matches reports whether what was read equals version v read with first-packet time t0read
func matches(got []index.Data, cb, sb uint64, v version, t0read int64) string {
	want := norm(v.chunks)
	if got == nil {
		return "stored stream reads as nothing"
	}
	if len(got) != len(want) {
		return fmt.Sprintf("%d chunks read, %d stored", len(got), len(want))
	}
	var wcb, wsb uint64
	for i, w := range want {
		g := got[i]
		if int(g.Direction) != w.dir {
			return fmt.Sprintf("chunk %d direction", i)
		}
		if !bytes.Equal(g.Content, w.content) {
			return fmt.Sprintf("chunk %d bytes", i)
		}
		if g.ContentType != w.ct {
			return fmt.Sprintf("chunk %d content type %q, stored %q", i, g.ContentType, w.ct)
		}
		gt := g.Time.Sub(base).Nanoseconds()
		if d := absd(gt - (w.t + (t0read - v.t0))); d >= 1000 {
			return fmt.Sprintf("chunk %d time off by %dns (more than a microsecond)", i, d)
		}
		if w.dir == 0 {
			wcb += uint64(len(w.content))
		} else {
			wsb += uint64(len(w.content))
		}
	}
	if cb != wcb || sb != wsb {
		return "byte counts"
	}
	return ""
}

func matchesSearch(d [2][]byte, sizes [][2]int, cb, sb uint64, v version) string {
	want := norm(v.chunks)
	var w [2][]byte
	ws := [][2]int{{0, 0}}
	for _, c := range want {
		w[c.dir] = append(w[c.dir], c.content...)
		ws = append(ws, [2]int{len(w[0]), len(w[1])})
	}
	if !bytes.Equal(d[0], w[0]) || !bytes.Equal(d[1], w[1]) {
		return "search data"
	}
	if len(sizes) != len(ws) {
		return "search sizes length"
	}
	for i := range ws {
		if sizes[i] != ws[i] {
			return "search sizes"
		}
	}
	if cb != uint64(len(w[0])) || sb != uint64(len(w[1])) {
		return "search byte counts"
	}
	return ""
}

// check compares every read of every id with the map. adopt: after a truncating reopen an id whose latest
// record was cut may read as nothing or as an older version stored since its last invalidation.
func (o *oracle) check(h *state, cut map[uint64]bool) {
	if h.cf == nil {
		return
	}
	ids := map[uint64]bool{}
	for _, id := range universe {
		ids[id] = true
	}
	for id := range o.cur {
		ids[id] = true
	}
	for id := range cut {
		ids[id] = true
	}
	sorted := make([]uint64, 0, len(ids))
	for id := range ids {
		sorted = append(sorted, id)
	}
	sort.Slice(sorted, func(i, j int) bool { return sorted[i] < sorted[j] })
	for _, id := range sorted {
		t0 := h.t0s[id]
		got, cb, sb, err := h.cf.Read(id, tm(t0))
		sd, ss, scb, ssb, present, serr := h.cf.Search(id)
		has := h.cf.Contains(id)
		if err != nil || serr != nil {
			o.complain("id=%d read error: %v %v", id, err, serr)
			continue
		}
		if cut[id] {
			// latest record was cut off: nothing, or an older complete version
			if got == nil {
				delete(o.cur, id)
			} else {
				found := false
				for _, v := range o.older[id] {
					if matches(got, cb, sb, v, t0) == "" {
						o.cur[id] = version{t0: t0, chunks: shift(v, t0)}
						found = true
						break
					}
				}
				if !found {
					o.complain("id=%d record was cut off but reads as something never stored", id)
					delete(o.cur, id)
					continue
				}
			}
		}
		v, ok := o.cur[id]
		if has != ok || present != ok {
			o.complain("id=%d contains=%v present=%v, map has=%v", id, has, present, ok)
		}
		if !ok {
			if got != nil {
				o.complain("id=%d not in map (never stored, invalidated or reset) but reads %d chunks", id, len(got))
			}
			if len(sd[0]) != 0 || len(sd[1]) != 0 || len(ss) != 0 {
				o.complain("id=%d not in map but search data non-empty", id)
			}
			continue
		}
		if m := matches(got, cb, sb, v, t0); m != "" {
			o.complain("id=%d read differs from latest store: %s", id, m)
		}
		if m := matchesSearch(sd, ss, scb, ssb, v); m != "" {
			o.complain("id=%d DataForSearch differs from latest store: %s", id, m)
		}
	}
	if n := h.cf.Count(); n != uint64(len(o.cur)) {
		o.complain("StreamCount=%d, map size=%d", n, len(o.cur))
	}
}

func shift(v version, t0 int64) []chunk {
	r := make([]chunk, len(v.chunks))
	for i, c := range v.chunks {
		c.t += t0 - v.t0
		r[i] = c
	}
	return r
}

// ---------------------------------------------------------------------------------------
// run

type state struct {
	dir   string
	path  string
	cf    *converters.VerifCacheFile
	t0s   map[uint64]int64
	multi bool
}

func (h *state) open() bool {
	cf, err := converters.VerifOpenCacheFile(h.path)
	if err != nil {
		h.cf = nil
		return false
	}
	h.cf = cf
	return true
}

func (h *state) strict() string {
	raw, err := os.ReadFile(h.path)
	if err != nil {
		return "len=? "
	}
	var s1, s2 uint64
	for _, b := range raw {
		s1 += uint64(b)
		s2 += uint64(b) * uint64(b)
	}
	f := "-"
	if !h.multi {
		f = fmt.Sprintf("%x", fnv(raw))
	}
	if h.cf == nil {
		return fmt.Sprintf("len=%d fnv=%s sum=%d.%d closed", len(raw), f, s1, s2)
	}
	fsz, free, fstart, infos := h.cf.Accounting()
	parts := make([]string, len(infos))
	for i, in := range infos {
		parts[i] = fmt.Sprintf("%d:%d:%d", in[0], in[1], in[2])
	}
	return fmt.Sprintf("len=%d fnv=%s sum=%d.%d fsz=%d free=%d fstart=%d infos=[%s]", len(raw), f, s1, s2, fsz, free, fstart,
		strings.Join(parts, ","))
}

func showData(d []index.Data, cb, sb uint64, err error) string {
	if err != nil {
		return "data=err"
	}
	if d == nil {
		return fmt.Sprintf("data=nil cb=%d sb=%d", cb, sb)
	}
	parts := make([]string, len(d))
	for i, c := range d {
		parts[i] = fmt.Sprintf("%s:%s:%d:%s", []string{"c", "s"}[c.Direction&1], showContent(c.Content),
			c.Time.Sub(base).Nanoseconds(), c.ContentType)
	}
	return fmt.Sprintf("data=[%s] cb=%d sb=%d", strings.Join(parts, ","), cb, sb)
}

func showSearch(d [2][]byte, sizes [][2]int, cb, sb uint64, present bool, err error) string {
	if err != nil {
		return "search=err"
	}
	parts := make([]string, len(sizes))
	for i, s := range sizes {
		parts[i] = fmt.Sprintf("%d/%d", s[0], s[1])
	}
	p := 0
	if present {
		p = 1
	}
	return fmt.Sprintf("search=%s|%s sizes=[%s] cb=%d sb=%d present=%d", showContent(d[0]), showContent(d[1]),
		strings.Join(parts, ","), cb, sb, p)
}

func b01(b bool) int {
	if b {
		return 1
	}
	return 0
}

func (h *state) exec(o *oracle, line string) (res string) {
	defer func() {
		if r := recover(); r != nil {
			res = "panic"
			o.complain("panic: %v", r)
		}
	}()
	f := strings.Fields(line)
	if len(f) == 0 {
		return "bad-op"
	}
	num := func(s string) (uint64, bool) {
		v, err := strconv.ParseUint(s, 10, 64)
		return v, err == nil
	}
	if h.cf == nil && f[0] != "new" && f[0] != "reopen" && f[0] != "cut" && f[0] != "cutat" {
		return "closed"
	}
	switch f[0] {
	case "new":
		if h.cf != nil {
			h.cf.Close()
		}
		os.Remove(h.path)
		h.t0s = map[uint64]int64{}
		h.multi = false
		o.cur, o.older = map[uint64]version{}, map[uint64][]version{}
		if !h.open() {
			o.complain("fresh cache file does not open")
			return "open=fail"
		}
		o.check(h, nil)
		return "open=ok"
	case "store":
		if len(f) < 3 {
			return "bad-op"
		}
		id, ok := num(f[1])
		t0, err := strconv.ParseInt(f[2], 10, 64)
		if !ok || err != nil {
			return "bad-op"
		}
		cs := make([]chunk, 0, len(f)-3)
		for _, tok := range f[3:] {
			c, err := parseChunk(tok)
			if err != nil {
				return "bad-op"
			}
			cs = append(cs, c)
		}
		data := make([]index.Data, len(cs))
		cts := map[string]bool{}
		for i, c := range cs {
			data[i] = index.Data{Direction: index.Direction(c.dir), Content: c.content, Time: tm(c.t), ContentType: c.ct}
			if c.ct != "" && len(c.content) != 0 {
				cts[c.ct] = true
			}
		}
		if len(cts) >= 2 {
			h.multi = true
		}
		h.t0s[id] = t0
		if err := h.cf.Store(id, tm(t0), data); err != nil {
			o.complain("store id=%d failed: %v", id, err)
			return "store=err"
		}
		v := version{t0: t0, chunks: cs}
		o.cur[id] = v
		o.older[id] = append(o.older[id], v)
		o.check(h, nil)
		return "store=ok"
	case "inval":
		ids := []uint{}
		for _, s := range f[1:] {
			id, ok := num(s)
			if !ok || id > 1<<20 {
				return "bad-op"
			}
			ids = append(ids, uint(id))
		}
		got := h.cf.Invalidate(ids)
		want := map[uint]bool{}
		for _, id := range ids {
			if _, ok := o.cur[uint64(id)]; ok {
				want[id] = true
			}
			delete(o.cur, uint64(id))
			delete(o.older, uint64(id))
		}
		parts := make([]string, len(got))
		for i, id := range got {
			parts[i] = fmt.Sprint(id)
			if !want[id] {
				o.complain("id=%d reported invalidated but was not in the map", id)
			}
			delete(want, id)
		}
		if len(want) != 0 {
			o.complain("%d cached ids not reported as invalidated", len(want))
		}
		o.check(h, nil)
		return "inv=[" + strings.Join(parts, ",") + "]"
	case "reset":
		if err := h.cf.Reset(); err != nil {
			o.complain("reset failed: %v", err)
			return "reset=err"
		}
		h.multi = false
		o.cur, o.older = map[uint64]version{}, map[uint64][]version{}
		o.check(h, nil)
		return "reset=ok"
	case "reopen", "cut", "cutat":
		cut := map[uint64]bool{}
		if h.cf != nil {
			_, _, _, infos := h.cf.Accounting()
			h.cf.Close()
			h.cf = nil
			if f[0] != "reopen" {
				if len(f) != 2 {
					return "bad-op"
				}
				k, ok := num(f[1])
				if !ok {
					return "bad-op"
				}
				st, err := os.Stat(h.path)
				if err != nil {
					return "bad-op"
				}
				n := uint64(st.Size())
				p := k
				if f[0] == "cut" {
					p = 0
					if k < n {
						p = n - k
					}
				}
				if p < n {
					if err := os.Truncate(h.path, int64(p)); err != nil {
						return "bad-op"
					}
					for _, in := range infos {
						if in[1]+in[2] > p {
							cut[in[0]] = true
						}
					}
				}
			}
		} else if f[0] != "reopen" {
			return "closed"
		}
		if !h.open() {
			o.complain("cache file does not open (a partly written last record must be tolerated)")
			return "open=fail"
		}
		o.check(h, cut)
		return "open=ok"
	case "read", "search", "contains":
		if len(f) != 2 {
			return "bad-op"
		}
		id, ok := num(f[1])
		if !ok {
			return "bad-op"
		}
		switch f[0] {
		case "read":
			d, cb, sb, err := h.cf.Read(id, tm(h.t0s[id]))
			return showData(d, cb, sb, err)
		case "search":
			d, sz, cb, sb, p, err := h.cf.Search(id)
			return showSearch(d, sz, cb, sb, p, err)
		}
		return fmt.Sprintf("contains=%d", b01(h.cf.Contains(id)))
	case "count":
		return fmt.Sprintf("count=%d", h.cf.Count())
	case "obs":
		parts := []string{}
		for _, id := range universe {
			d, cb, sb, err := h.cf.Read(id, tm(h.t0s[id]))
			sd, sz, scb, ssb, p, serr := h.cf.Search(id)
			parts = append(parts, fmt.Sprintf("%d{%d %s %s}", id, b01(h.cf.Contains(id)), showData(d, cb, sb, err),
				showSearch(sd, sz, scb, ssb, p, serr)))
		}
		return fmt.Sprintf("obs count=%d %s", h.cf.Count(), strings.Join(parts, " "))
	}
	return "bad-op"
}

func run(oraclePath, dir string) {
	log.SetOutput(io.Discard) // the cache file logs resets and partial records
	var ow *bufio.Writer
	if oraclePath != "" {
		f, err := os.Create(oraclePath)
		if err != nil {
			fmt.Fprintln(os.Stderr, err)
			os.Exit(2)
		}
		defer f.Close()
		ow = bufio.NewWriter(f)
		defer ow.Flush()
	}
	if dir == "" {
		dir = os.Getenv("VERIF_SCRATCH")
	}
	if dir == "" {
		dir = "/var/tmp"
	}
	tmp, err := os.MkdirTemp(dir, "c15-")
	if err != nil {
		fmt.Fprintln(os.Stderr, err)
		os.Exit(2)
	}
	defer os.RemoveAll(tmp)
	h := &state{dir: tmp, path: filepath.Join(tmp, "converterindex-verif.cidx"), t0s: map[uint64]int64{}}
	o := &oracle{cur: map[uint64]version{}, older: map[uint64][]version{}, out: ow}
	if !h.open() {
		o.complain("fresh cache file does not open")
	}
	in := bufio.NewReaderSize(os.Stdin, 1<<20)
	w := bufio.NewWriter(os.Stdout)
	defer w.Flush()
	for {
		line, err := in.ReadString('\n')
		if line == "" && err != nil {
			break
		}
		line = strings.TrimRight(line, "\r\n")
		o.line++
		res := h.exec(o, line)
		fmt.Fprintf(w, "%s || %s\n", res, h.strict())
		if err != nil {
			break
		}
	}
	if h.cf != nil {
		h.cf.Close()
	}
}

// ---------------------------------------------------------------------------------------
// gen

var ctPool = []string{"", "", "", "", "a", "text/html", "application/octet-stream", strings.Repeat("x", 130), "b"}
var lenPool = []int{1, 1, 2, 3, 5, 8, 20, 24, 25, 127, 128, 129, 300}
var idPool = []uint64{0, 1, 2, 3, 4, 5}

func genContent(r *lib.RNG, allowEmpty bool) string {
	if allowEmpty && r.Chance(1, 25) {
		return ""
	}
	n := lib.Pick(r, lenPool)
	if r.Chance(1, 60) {
		n = lib.Pick(r, []int{16383, 16384, 16385, 70000})
	}
	if n <= 8 {
		b := make([]byte, n)
		for i := range b {
			b[i] = byte(lib.Pick(r, []int{0, 1, 0x7f, 0x80, 0xff, r.Intn(256)}))
		}
		return hex.EncodeToString(b)
	}
	return fmt.Sprintf("r%dx%d", r.Intn(256), n)
}

func genDelta(r *lib.RNG) int64 {
	switch r.Intn(12) {
	case 0:
		return 0
	case 1:
		return 1
	case 2:
		return 999
	case 3:
		return 1000
	case 4:
		return 1001
	case 5:
		return 5800
	case 6:
		return -1
	case 7:
		return -1500
	case 8:
		return -int64(r.Intn(5000000))
	case 9:
		return int64(r.Intn(1000000000)) * 1000
	default:
		return int64(r.Intn(2000000000))
	}
}

func genChunks(r *lib.RNG, t0 int64, allowEmpty bool) string {
	n := r.Intn(10)
	switch r.Intn(20) {
	case 0:
		n = 17 + r.Intn(4)
	case 1:
		n = 55 + r.Intn(12)
	}
	dir := r.Intn(2) // server-first half of the time
	flip := lib.Pick(r, []int{1, 2, 4})
	t := t0
	if r.Chance(1, 4) {
		t += genDelta(r)
	}
	var sb strings.Builder
	ctMode := r.Intn(4) // 0: none, 1: one type on a subset, 2/3: any
	one := lib.Pick(r, ctPool[4:])
	for i := 0; i < n; i++ {
		if i > 0 && r.Intn(4) < flip {
			dir ^= 1
		}
		ct := ""
		switch ctMode {
		case 1:
			if r.Bool() {
				ct = one
			}
		case 2, 3:
			ct = lib.Pick(r, ctPool)
		}
		fmt.Fprintf(&sb, " %s:%s:%d:%s", []string{"c", "s"}[dir], genContent(r, allowEmpty), t, ct)
		t += genDelta(r)
	}
	return sb.String()
}

func genT0(r *lib.RNG) int64 {
	if r.Chance(1, 5) {
		return int64(r.Intn(1000)) * 1000000
	}
	return int64(r.U64() % 1000000000000)
}

func gen(seed uint64, n int, mode string) {
	// Fork: NewRNG(seed) and NewRNG(seed+1) are the same splitmix stream shifted by one draw
	r := lib.NewRNG(seed).Fork()
	w := bufio.NewWriter(os.Stdout)
	defer w.Flush()
	fmt.Fprintln(w, "new")
	switch mode {
	case "big", "half":
		genBig(r, w, seed, n, mode == "half")
		return
	case "sweep":
		genSweep(r, w)
		return
	}
	allowEmpty := r.Chance(1, 3)
	ids := idPool
	if r.Chance(1, 3) {
		ids = append(append([]uint64{}, idPool...), 70000)
	}
	pickID := func() uint64 {
		if r.Chance(1, 40) {
			return 1099511627779
		}
		return lib.Pick(r, ids)
	}
	lastEst := 40
	for i := 1; i < n; i++ {
		switch x := r.Intn(100); {
		case x < 38:
			t0 := genT0(r)
			cs := genChunks(r, t0, allowEmpty)
			lastEst = len(cs)/2 + 16
			fmt.Fprintf(w, "store %d %d%s\n", pickID(), t0, cs)
		case x < 50:
			k := lib.Pick(r, []int{1, 1, 1, 2, 3, 6})
			parts := []string{}
			for j := 0; j < k; j++ {
				parts = append(parts, fmt.Sprint(lib.Pick(r, ids)))
			}
			fmt.Fprintf(w, "inval %s\n", strings.Join(parts, " "))
		case x < 58:
			fmt.Fprintln(w, "reopen")
		case x < 65:
			k := 1 + r.Intn(12)
			switch r.Intn(4) {
			case 0:
				k = 1 + r.Intn(lastEst+1)
			case 1:
				k = 1 + r.Intn(2*lastEst+40)
			}
			if r.Chance(1, 12) {
				fmt.Fprintf(w, "cutat %d\n", r.Intn(20))
			} else {
				fmt.Fprintf(w, "cut %d\n", k)
			}
		case x < 67:
			fmt.Fprintln(w, "reset")
		case x < 75:
			fmt.Fprintf(w, "read %d\n", pickID())
		case x < 80:
			fmt.Fprintf(w, "search %d\n", pickID())
		case x < 83:
			fmt.Fprintf(w, "contains %d\n", pickID())
		case x < 85:
			fmt.Fprintln(w, "count")
		default:
			fmt.Fprintln(w, "obs")
		}
	}
}

// genBig drives the compaction rule of setData (at least 16 MiB dead and at least half of the file).
// A record holding one client chunk of n bytes (2^21 <= n < 2^28) at the stream's first-packet time and without
// content type occupies exactly n+16 bytes, so the dead space can be put exactly on the threshold.
func genBig(r *lib.RNG, w *bufio.Writer, seed uint64, n int, half bool) {
	const mib = 1 << 20
	exact := func(id, rec int) { // a record of exactly rec bytes
		fmt.Fprintf(w, "store %d 1000 c:r%dx%d:1000:\n", id, r.Intn(256), rec-16)
	}
	small := func() {
		fmt.Fprintf(w, "store %d 5 c:6162:7: s:63:2500:a\n", 4+r.Intn(2))
	}
	switch half {
	case false:
		// threshold scenario: dead space = 16 MiB + delta (delta in -1,0,+1) made of 4 or 5 records, by
		// invalidation and/or replacement; the next store compacts iff delta >= 0.
		delta := 0 // exactly on the threshold for even seeds, one byte off for odd ones
		if seed%2 == 1 {
			delta = r.Intn(2)*2 - 1
		}
		k := 4 + r.Intn(2)
		total := 16*mib + delta
		if r.Bool() {
			small()
		}
		for i := 0; i < k; i++ {
			sz := total / k
			if i == 0 {
				sz += total % k
			}
			exact(i%3, sz) // ids 0..2: the 4th/5th record replaces an earlier one (dead by replacement)
			if r.Chance(1, 4) {
				small()
			}
		}
		// live records BEHIND the space that is about to die: compaction moves them; replacing one
		// of them in the very store that compacts exercises "old record freed after it moved"
		behind := r.Chance(2, 3)
		if behind {
			fmt.Fprintf(w, "store 6 5 c:616263:7: s:63:2500:a\n")
			fmt.Fprintf(w, "store 7 9 c:r%dx%d:9:\n", r.Intn(256), 3000+r.Intn(5000))
		}
		fmt.Fprintln(w, "inval 0 1 2")
		if r.Chance(1, 3) {
			fmt.Fprintln(w, "reopen") // compaction at load instead
		}
		if behind {
			fmt.Fprintf(w, "store 6 5 c:6465:7: s:66:2500:b\n")
			fmt.Fprintln(w, "obs")
			fmt.Fprintln(w, "read 7")
		}
		small()
		fmt.Fprintln(w, "obs")
		small()
		fmt.Fprintln(w, "reopen")
		fmt.Fprintln(w, "obs")
	default:
		// half-of-the-file rule: dead >= 16 MiB but live data keeps it just below / at half
		dead := 16*mib + r.Intn(3)*7
		exact(0, dead/2)
		exact(1, dead-dead/2)
		// fileSize = 8 + dead + live; rule: dead >= fileSize/2
		live := dead - 8 + r.Intn(4) - 1 // fileSize/2 in {dead-1 .. dead+1}
		exact(2, live)
		fmt.Fprintln(w, "inval 0 1")
		small()
		fmt.Fprintln(w, "obs")
		fmt.Fprintln(w, "cut 5")
		fmt.Fprintln(w, "obs")
	}
	// a few random operations on the now small or still large file
	for i := 0; i < n; i++ {
		switch x := r.Intn(100); {
		case x < 30:
			t0 := genT0(r)
			fmt.Fprintf(w, "store %d %d%s\n", lib.Pick(r, idPool), t0, genChunks(r, t0, false))
		case x < 50:
			fmt.Fprintf(w, "inval %d %d\n", lib.Pick(r, idPool), lib.Pick(r, idPool))
		case x < 60:
			fmt.Fprintln(w, "reopen")
		case x < 70:
			fmt.Fprintf(w, "cut %d\n", 1+r.Intn(40))
		default:
			fmt.Fprintln(w, "obs")
		}
	}
}

// genSweep: a short history, then a truncating reopen at every byte of (at least) the last two records,
// each on a fresh replay of the same history.
func genSweep(r *lib.RNG, w *bufio.Writer) {
	prefix := []string{}
	est := []int{}
	k := 2 + r.Intn(3)
	for i := 0; i < k; i++ {
		t0 := genT0(r)
		cs := genChunks(r, t0, false)
		prefix = append(prefix, fmt.Sprintf("store %d %d%s", lib.Pick(r, idPool[:3]), t0, cs))
		e := 20
		for _, tok := range strings.Fields(cs) {
			p := strings.Split(tok, ":")
			e += 14 + len(p[3])
			if strings.HasPrefix(p[1], "r") {
				n, _ := strconv.Atoi(strings.Split(p[1], "x")[1])
				e += n
			} else {
				e += len(p[1]) / 2
			}
		}
		est = append(est, e)
		if r.Chance(1, 4) {
			prefix = append(prefix, fmt.Sprintf("inval %d", lib.Pick(r, idPool[:3])))
		}
	}
	total := est[len(est)-1] + est[len(est)-2]
	if total > 1500 {
		total = 1500
	}
	for c := 1; c <= total; c++ {
		if c > 1 {
			fmt.Fprintln(w, "new")
		}
		for _, p := range prefix {
			fmt.Fprintln(w, p)
		}
		fmt.Fprintf(w, "cut %d\n", c)
		fmt.Fprintln(w, "obs")
	}
}

func main() {
	if len(os.Args) < 2 {
		fmt.Fprintln(os.Stderr, "usage: c15 gen|run ...")
		os.Exit(2)
	}
	switch os.Args[1] {
	case "gen":
		fs := flag.NewFlagSet("gen", flag.ExitOnError)
		seed := fs.Uint64("seed", 1, "")
		n := fs.Int("n", 40, "")
		mode := fs.String("mode", "small", "")
		fs.Parse(os.Args[2:])
		gen(*seed, *n, *mode)
	case "run":
		fs := flag.NewFlagSet("run", flag.ExitOnError)
		orc := fs.String("oracle", "", "")
		dir := fs.String("dir", "", "")
		fs.Parse(os.Args[2:])
		run(*orc, *dir)
	default:
		fmt.Fprintln(os.Stderr, "usage: c15 gen|run ...")
		os.Exit(2)
	}
}
