// c05: correspondence harness of property C05 (pcap import); shared implementation in
// harness/lib/importh (see its package comment for the protocol).
package main

import "github.com/spq/pkappa2/internal/verifh/lib/importh"

func main() { importh.Main("c05") }
