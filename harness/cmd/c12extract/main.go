// c12extract: go/ast fact extractor for property C12 (stand-alone, standard library only).
//
//	c12extract -src $VERIF_REPO/internal/index/manager/manager.go
//
// Reads the ORDER of the file operations of (*Manager).saveState from the source: os.Create (create),
// the first .Encode call (write), the last .Close call — a deferred one counts as last of all — (close) and
// os.Remove (remove). Prints one JSON object {"order":[...],"found":{...}}. The Lean model of the state save
// (Pk/Model/Recover.lean `saveOps`: createPartial, complete, remove) and the crash states the scenario harness
// emulates inside a state save (harness/cmd/mgr/crash.go, VERIF_SAVE_ORDER) both follow this order.
package main

import (
	"encoding/json"
	"flag"
	"fmt"
	"go/ast"
	"go/parser"
	"go/token"
	"os"
	"sort"
)

func main() {
	src := flag.String("src", "", "manager.go")
	flag.Parse()
	fset := token.NewFileSet()
	f, err := parser.ParseFile(fset, *src, nil, 0)
	if err != nil {
		fmt.Fprintln(os.Stderr, err)
		os.Exit(2)
	}
	pos := map[string]int{}
	for _, d := range f.Decls {
		fd, ok := d.(*ast.FuncDecl)
		if !ok || fd.Name.Name != "saveState" || fd.Recv == nil || fd.Body == nil {
			continue
		}
		deferred := map[ast.Node]bool{}
		ast.Inspect(fd.Body, func(n ast.Node) bool {
			if ds, ok := n.(*ast.DeferStmt); ok {
				deferred[ds.Call] = true
			}
			call, ok := n.(*ast.CallExpr)
			if !ok {
				return true
			}
			sel, ok := call.Fun.(*ast.SelectorExpr)
			if !ok {
				return true
			}
			at := fset.Position(call.Pos()).Offset
			pkg := ""
			if id, ok := sel.X.(*ast.Ident); ok {
				pkg = id.Name
			}
			switch {
			case pkg == "os" && sel.Sel.Name == "Create":
				if _, seen := pos["create"]; !seen {
					pos["create"] = at
				}
			case sel.Sel.Name == "Encode":
				if _, seen := pos["write"]; !seen {
					pos["write"] = at
				}
			case sel.Sel.Name == "Close":
				if deferred[call] {
					at = 1 << 40
				}
				if at > pos["close"] {
					pos["close"] = at
				}
			case pkg == "os" && (sel.Sel.Name == "Remove" || sel.Sel.Name == "RemoveAll"):
				if _, seen := pos["remove"]; !seen {
					pos["remove"] = at
				}
			}
			return true
		})
	}
	order := []string{}
	for k := range pos {
		order = append(order, k)
	}
	sort.Slice(order, func(i, j int) bool { return pos[order[i]] < pos[order[j]] })
	b, _ := json.Marshal(map[string]interface{}{"order": order, "found": pos})
	fmt.Println(string(b))
}
