// c19: generator and stand-alone part of the harness for property C19 (file endpoints).
//
//	c19 gen -seed S -n N      write one generated case (ops of Pk/Driver/C19.lean) to stdout
//	c19 run [-oracle FILE]    execute ops from stdin; without the real router only the path ops
//	                          (base/clean/join against the real path/filepath) are available
//
// The same code linked into cmd/pkappa2 (`pkappa2 verif-c19 run`, see
// harness/inject/cmd/pkappa2/zz_verif_c19.go) runs the request ops against the real router.
package main

import (
	"os"

	"github.com/spq/pkappa2/internal/verifh/lib/c19h"
)

func main() { os.Exit(c19h.Main(os.Args[1:], nil)) }
