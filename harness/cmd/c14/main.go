// c14: totality fuzz of the real query.Parse (property C14).
//
//	c14 fuzz -seed S -n N [-workers W] [-timeout 2s]
//	    generates N inputs (random bytes, token soup of the lexer rule set, long value lists, deep
//	    nesting, arithmetic on variables, malformed values, rendered generator cases) and runs each
//	    one through the real parser TWICE inside child processes (`c14 child`) under a watchdog:
//	    a child that does not answer within the timeout is killed and the input is reported as a hang.
//	    Output: `FINDING kind=<hang|panic|nondeterministic|slow> class=<c> input=<hex>` lines and a final
//	    `SUMMARY <json>` line.
//	c14 one -hex H [-timeout 2s]      the same for one input (used for shrinking / replay)
//	c14 child                         worker: reads hex inputs from stdin, answers `B i` / `E i <µs> <outcome>`
package main

import (
	"bufio"
	"encoding/hex"
	"encoding/json"
	"flag"
	"fmt"
	"io"
	"math/big"
	"os"
	"os/exec"
	"sort"
	"strings"
	"sync"
	"sync/atomic"
	"time"

	"github.com/spq/pkappa2/internal/query"
	"github.com/spq/pkappa2/internal/verifh/lib"
	"github.com/spq/pkappa2/internal/verifh/lib/qh"
)

// ---------------------------------------------------------------------------------------------
// input generator

type input struct {
	class string
	text  string
}

var soupTokens = []string{"-", "!", "(", ")", " or ", " and ", " then ", " ", "@a:", "@b:", "id", "tag", "service", "mark",
	"protocol", "generated", "ftime", "ltime", "time", "cdata", "sdata", "data", "port", "cport", "sport", "host", "chost",
	"shost", "bytes", "cbytes", "sbytes", ".conv", "sort", "limit", "group", ":1", ":1:5", ":a,b", ":tcp", ":\"x y\"",
	":10.0.0.1/8", ":-1h:", ":@id@+1", ":@a:cport@", "=5", ":", "\"", ":\"\"", ":id,-ftime", ":@a:protocol@"}

var malformed = []string{"id:abc", "id:1:2:3", "id:99999999999999999999", "id:1,,2", "id:,", "host:999.1.1.1", "host:1.2.3.4/999",
	"host:1.2.3.4/-129", "host:1.2.3.4/99999", "host::::", "host:@id@", "ftime:1H", "ftime:\"2024-13-45 9999\"", "ftime:1200",
	"ftime:\"2024-01-01  1200\"", "ftime:1.5h", "ftime:.5s", "ftime:@id@", "cdata:\"(\"", "cdata:\"[\"", "cdata:\"a{2,1}\"",
	"cdata:\"@@\"", "cdata:\"@x@\"", "cdata:\"@a:x@\"", "protocol:", "protocol:icmp", "protocol:@id@", "protocol:TCP", "tag:",
	"tag:,", "tag:\"\"", "id:\"\"", "time:\"\"", "host:\"\"", "protocol:\"\"", "@:id:1", "@a:", "id.conv:1", "data.:x", "data.conv",
	"sort:foo", "sort:id sort:id", "limit:-1", "limit:x", "limit:1 limit:2", "group:\"@x@\"", "group:@a:x@", "group:a group:b",
	"id:1 or", "or id:1", "then", "()", "(id:1", "id:1)", "-", "--", "id:+", "id:-", "id:+-+-5", "id:5-", "cport:@cport@:@cport@",
	"id:@id@", "id:@id@-@id@:", "ltime:\"@ftime@+5m:\"", "time:\"@a:ftime@-@a:ltime@:\"", "id:0x10", "id: 5", "id :5", "ID:5", "Id:5 OR iD:6",
	"tag:a THEN tag:b", "cdata:\"x\" then -cdata:\"x\"", "-(cdata:\"x\" then cdata:\"y\")", "id=5", "id=\"5\"", "\x00", "id:\x00", "tag:\xff\xfe"}

func genInputs(seed uint64, n int) []input {
	r := lib.NewRNG(seed)
	res := []input{}
	add := func(c, t string) { res = append(res, input{c, t}) }
	for _, m := range malformed {
		add("malformed", m)
	}
	// the arithmetic regime of F2 (common factors of summand factors), systematically
	for a := 1; a <= 4; a++ {
		for b := 1; b <= 4; b++ {
			for _, k := range []int{0, 3, 6} {
				add("arithmetic", fmt.Sprintf("cport:%s%s+%d", strings.Repeat("+@cport@", a+1), strings.Repeat("+@a:sport@", b), k))
				add("arithmetic", fmt.Sprintf("id:%d%s%s:", k, strings.Repeat("-@b:id@", a), strings.Repeat("+@a:cbytes@", b)))
			}
		}
	}
	for len(res) < n {
		cr := r.Fork()
		switch cr.Intn(12) {
		case 0: // random bytes
			b := make([]byte, cr.Intn(40))
			for i := range b {
				b[i] = byte(cr.Intn(256))
			}
			add("bytes", string(b))
		case 1: // random characters of the query alphabet
			const alpha = "idtagporhsclme:=\"()-!@., +/0159\\"
			b := make([]byte, cr.Intn(40))
			for i := range b {
				b[i] = alpha[cr.Intn(len(alpha))]
			}
			add("alphabet", string(b))
		case 2, 3: // token soup (at most 8 tokens that can start a term)
			s, terms := "", 0
			for i, k := 0, 2+cr.Intn(14); i < k; i++ {
				t := lib.Pick(cr, soupTokens)
				if len(t) > 1 && t[0] >= 'a' && t[0] <= 'z' {
					terms++
					if terms > 8 {
						continue
					}
				}
				s += t
			}
			add("soup", s)
		case 4: // long value lists (never under a negation: the normal form is exponential there)
			k := 10 + cr.Intn(2000)
			switch cr.Intn(5) {
			case 0:
				l := make([]string, k)
				for i := range l {
					l[i] = fmt.Sprint(cr.Intn(3000))
				}
				add("long-list", "id:"+strings.Join(l, ","))
			case 1:
				l := make([]string, k%300+1)
				for i := range l {
					l[i] = fmt.Sprintf("t%d", cr.Intn(50))
				}
				add("long-list", "tag:"+strings.Join(l, ","))
			case 2:
				l := make([]string, k%150+1)
				for i := range l {
					a := cr.Intn(60000)
					l[i] = fmt.Sprintf("%d:%d", a, a+cr.Intn(100))
				}
				add("long-list", "sport:"+strings.Join(l, ","))
			case 3:
				l := make([]string, k%80+1)
				for i := range l {
					l[i] = fmt.Sprintf("10.%d.%d.0/24", cr.Intn(4), cr.Intn(256))
				}
				add("long-list", "chost:"+strings.Join(l, ","))
			default:
				// (cleanFlagConditions costs about 1 ms per call: 2^16 bitmap per condition, so the
				// quadratic absorption pass of Clean makes long protocol lists slow, not divergent)
				l := make([]string, k%30+1)
				for i := range l {
					l[i] = lib.Pick(cr, []string{"tcp", "udp", "sctp", "other"})
				}
				add("long-list", "protocol:"+strings.Join(l, ","))
			}
		case 5: // deep nesting
			d := 1 + cr.Intn(300)
			switch cr.Intn(4) {
			case 0:
				add("deep", strings.Repeat("(", d)+"id:1"+strings.Repeat(")", d))
			case 1:
				add("deep", strings.Repeat("-", d)+"tag:a")
			case 2:
				add("deep", strings.Repeat("-(", d%60)+"id:1 sport:2"+strings.Repeat(")", d%60))
			default:
				add("deep", strings.Repeat("(", d)+"id:1"+strings.Repeat(")", d/2))
			}
		case 6: // arithmetic on variables
			s := lib.Pick(cr, []string{"id", "cport", "sport", "port", "cbytes", "bytes"}) + ":"
			for i, k := 0, 1+cr.Intn(8); i < k; i++ {
				s += lib.Pick(cr, []string{"+", "-", "", "+-", "--"})
				if cr.Chance(2, 3) {
					s += "@" + lib.Pick(cr, []string{"", "a:", "b:"}) + lib.Pick(cr, []string{"id", "cport", "sport", "cbytes", "sbytes"}) + "@"
				} else {
					s += fmt.Sprint(cr.Intn(100))
				}
				if i == 0 && s[len(s)-1] != '@' && cr.Chance(1, 3) {
					s += "+"
				}
			}
			if cr.Chance(1, 3) {
				s += ":"
			}
			add("arithmetic", s)
		case 7: // mutated malformed values
			m := []byte(lib.Pick(cr, malformed))
			if len(m) > 0 {
				for i, k := 0, 1+cr.Intn(3); i < k; i++ {
					switch cr.Intn(3) {
					case 0:
						m[cr.Intn(len(m))] = byte(cr.Intn(128))
					case 1:
						p := cr.Intn(len(m))
						m = append(m[:p], m[p+1:]...)
					default:
						p := cr.Intn(len(m) + 1)
						m = append(m[:p], append([]byte{":\"()-@,"[cr.Intn(7)]}, m[p:]...)...)
					}
					if len(m) == 0 {
						break
					}
				}
			}
			add("malformed-mutated", string(m))
		default: // rendered generator cases of the full sub-language, moderate normal forms
			g := &qh.Gen{R: cr, Cfg: qh.GenCfg{Level: 2, MaxDepth: 4}}
			var e *qh.Expr
			for {
				e = g.Expr()
				if _, _, worst := qh.DNFBound(e); e.Size() <= 60 && worst <= 24 {
					break
				}
			}
			add("structured", e.Render(cr.U64()))
		}
	}
	return res[:n]
}

// ---------------------------------------------------------------------------------------------
// child

// canonical dump modulo the reference time: Duration - ReferenceTimeFactor*ref is what two parses
// of the same text must agree on
func dumpModRef(q *query.Query) string {
	if q.Conditions == nil {
		return "false"
	}
	ref := big.NewInt(q.ReferenceTime.UnixNano())
	conjs := []string{}
	for _, c := range q.Conditions {
		l := []string{}
		for _, cc := range c {
			if tc, ok := cc.(*query.TimeCondition); ok {
				abs := new(big.Int).Sub(big.NewInt(int64(tc.Duration)), new(big.Int).Mul(big.NewInt(int64(tc.ReferenceTimeFactor)), ref))
				d := *tc
				d.Duration = 0
				l = append(l, qh.DumpCond(&d)+"@"+abs.String())
			} else {
				l = append(l, qh.DumpCond(cc))
			}
		}
		conjs = append(conjs, strings.Join(l, " & "))
	}
	sort.Strings(conjs)
	extra := fmt.Sprintf(" sort=%v limit=%v group=%v", q.Sorting, q.Limit != nil, q.Grouping != nil)
	if q.Limit != nil {
		extra += fmt.Sprint(*q.Limit)
	}
	if q.Grouping != nil {
		extra += fmt.Sprintf("%q%v", q.Grouping.Constant, q.Grouping.Variables)
	}
	return strings.Join(conjs, " | ") + extra
}

func outcome(text string) string {
	a := qh.ParseDirect(text)
	b := qh.ParseDirect(text)
	if a.Kind != b.Kind {
		return fmt.Sprintf("nondeterministic first=%s second=%s", a.Kind, b.Kind)
	}
	switch a.Kind {
	case "panic":
		return "panic " + hex.EncodeToString([]byte(a.Msg))
	case "err":
		return "err"
	}
	da, db := dumpModRef(a.Q), dumpModRef(b.Q)
	if da != db {
		return "nondeterministic " + hex.EncodeToString([]byte(da+" <> "+db))
	}
	return "ok"
}

func child() {
	sc := bufio.NewScanner(os.Stdin)
	sc.Buffer(make([]byte, 1<<20), 1<<26)
	w := bufio.NewWriter(os.Stdout)
	for i := 0; sc.Scan(); i++ {
		b, _ := hex.DecodeString(sc.Text())
		fmt.Fprintf(w, "B %d\n", i)
		w.Flush()
		t0 := time.Now()
		o := outcome(string(b))
		fmt.Fprintf(w, "E %d %d %s\n", i, time.Since(t0).Microseconds(), o)
		w.Flush()
	}
}

// ---------------------------------------------------------------------------------------------
// parent

type result struct {
	kind   string // ok err panic hang nondeterministic
	detail string
	us     int64
}

// hangs counts watchdog expiries over all workers: after maxHangs the remaining inputs are skipped
// (a broken tree would otherwise cost one watchdog period per hanging input).
var (
	hangs    int64
	maxHangs int64 = 16
)

// runSlice runs the inputs in child processes, restarting after a hang.
func runSlice(inputs []input, timeout time.Duration) []result {
	res := make([]result, len(inputs))
	start := 0
	for start < len(inputs) {
		if atomic.LoadInt64(&hangs) >= maxHangs {
			for i := start; i < len(inputs); i++ {
				res[i] = result{kind: "skipped"}
			}
			break
		}
		cmd := exec.Command(os.Args[0], "child")
		cmd.Env = append(os.Environ(), "GOMAXPROCS=2", "GOMEMLIMIT=2GiB")
		stdin, _ := cmd.StdinPipe()
		stdout, _ := cmd.StdoutPipe()
		if err := cmd.Start(); err != nil {
			panic(err)
		}
		go func(from int) {
			w := bufio.NewWriter(stdin)
			for _, in := range inputs[from:] {
				fmt.Fprintln(w, hex.EncodeToString([]byte(in.text)))
			}
			w.Flush()
			stdin.Close()
		}(start)
		lines := make(chan string, 64)
		go func() {
			sc := bufio.NewScanner(stdout)
			sc.Buffer(make([]byte, 1<<20), 1<<26)
			for sc.Scan() {
				lines <- sc.Text()
			}
			close(lines)
		}()
		cur, done := start, start
		hung := false
	loop:
		for {
			select {
			case l, ok := <-lines:
				if !ok {
					break loop
				}
				var i int
				var us int64
				if strings.HasPrefix(l, "B ") {
					fmt.Sscanf(l, "B %d", &i)
					cur = start + i
				} else if strings.HasPrefix(l, "E ") {
					f := strings.SplitN(l, " ", 5)
					fmt.Sscanf(f[1], "%d", &i)
					fmt.Sscanf(f[2], "%d", &us)
					r := result{kind: f[3], us: us}
					if len(f) > 4 {
						r.detail = f[4]
					}
					res[start+i] = r
					done = start + i + 1
				}
			case <-time.After(timeout):
				hung = true
				break loop
			}
		}
		cmd.Process.Kill()
		cmd.Wait()
		if hung {
			atomic.AddInt64(&hangs, 1)
			res[cur] = result{kind: "hang"}
			start = cur + 1
		} else if done < len(inputs) {
			// the child died (out of memory, fatal error) on input `cur`
			res[cur] = result{kind: "panic", detail: hex.EncodeToString([]byte("child process died"))}
			start = cur + 1
		} else {
			start = len(inputs)
		}
	}
	return res
}

func fuzz(seed uint64, n, workers int, timeout time.Duration, out io.Writer) {
	inputs := genInputs(seed, n)
	res := make([]result, len(inputs))
	var wg sync.WaitGroup
	per := (len(inputs) + workers - 1) / workers
	for w := 0; w < workers; w++ {
		lo, hi := w*per, (w+1)*per
		if hi > len(inputs) {
			hi = len(inputs)
		}
		if lo >= hi {
			continue
		}
		wg.Add(1)
		go func(lo, hi int) {
			defer wg.Done()
			// interleave classes across workers: each worker gets every `workers`-th input
			copy(res[lo:hi], runSlice(inputs[lo:hi], timeout))
		}(lo, hi)
	}
	wg.Wait()
	classes := map[string]int{}
	outcomes := map[string]int{}
	distinct := map[string]bool{}
	maxUs, slow := int64(0), 0
	samples := []string{}
	for i, in := range inputs {
		r := res[i]
		classes[in.class]++
		outcomes[in.class+":"+r.kind]++
		if r.us > maxUs {
			maxUs = r.us
		}
		if r.kind == "skipped" {
			continue
		}
		if r.kind == "ok" || r.kind == "err" {
			if r.kind == "ok" && in.class != "bytes" {
				distinct[in.text] = true
			}
			if r.us > 1000000 {
				slow++ // a statistic (wall time under load), not a verdict
			}
			if len(samples) < 6 && i%97 == 0 {
				samples = append(samples, fmt.Sprintf("%s: %.80q -> %s", in.class, in.text, r.kind))
			}
			continue
		}
		fmt.Fprintf(out, "FINDING kind=%s class=%s detail=%s input=%s\n", r.kind, in.class, r.detail, hex.EncodeToString([]byte(in.text)))
	}
	sum, _ := json.Marshal(map[string]interface{}{"inputs": len(inputs), "classes": classes, "outcomes": outcomes,
		"max_parse_us": maxUs, "slower_than_1s": slow, "distinct_accepted": len(distinct), "samples": samples})
	fmt.Fprintf(out, "SUMMARY %s\n", sum)
}

func main() {
	if len(os.Args) < 2 {
		fmt.Fprintln(os.Stderr, "usage: c14 fuzz|one|child …")
		os.Exit(2)
	}
	fs := flag.NewFlagSet(os.Args[1], flag.ExitOnError)
	seed := fs.Uint64("seed", 1, "")
	n := fs.Int("n", 1000, "")
	workers := fs.Int("workers", 8, "")
	timeout := fs.Duration("timeout", 30*time.Second, "")
	hx := fs.String("hex", "", "")
	fs.Parse(os.Args[2:])
	switch os.Args[1] {
	case "child":
		child()
	case "fuzz":
		w := bufio.NewWriter(os.Stdout)
		defer w.Flush()
		fuzz(*seed, *n, *workers, *timeout, w)
	case "one":
		b, err := hex.DecodeString(*hx)
		if err != nil {
			panic(err)
		}
		r := runSlice([]input{{"one", string(b)}}, *timeout)[0]
		fmt.Printf("%s %s\n", r.kind, r.detail)
	default:
		os.Exit(2)
	}
}
