// c04: payload filter harness (property C04).
//
//	c04 gen -seed S -n N [-wide]   write N generated cases (one JSON object per line)
//	c04 run [-oracle FILE]         for every case on stdin: write the stream with the REAL index.Writer,
//	                               serve converter outputs through a fake ConverterAccess, parse the rendered
//	                               query with the real parser, call the real index.SearchStreams and the real
//	                               progressVariant.find (through the injected accessor); print one JSON line
//	                               (input of `pkmodel c04`); the plain-scan oracle (binaryregexp
//	                               FindSubmatchIndex on the remaining bytes in conversation order) writes
//	                               `ORACLE line=<n> <msg>` complaints to FILE.
package main

import (
	"bufio"
	"context"
	"encoding/hex"
	"encoding/json"
	"flag"
	"fmt"
	"os"
	"sort"
	"strings"
	"time"

	"github.com/spq/pkappa2/internal/index"
	"github.com/spq/pkappa2/internal/query"
	"github.com/spq/pkappa2/internal/verifh/lib"
	slib "github.com/spq/pkappa2/internal/verifh/lib/search"
	"rsc.io/binaryregexp"
)

type Case struct {
	Stream    *slib.StreamV `json:"stream"`
	ConvNames []string      `json:"convs,omitempty"`
	Query     *slib.Node    `json:"query"`
}

// ---------------------------------------------------------------------------------------
// generator
// ---------------------------------------------------------------------------------------

type gen struct {
	r    *lib.RNG
	wide bool
}

func (g *gen) lit() string {
	n := 1 + g.r.Intn(3)
	s := ""
	for i := 0; i < n; i++ {
		s += string("abcd"[g.r.Intn(4)])
	}
	return s
}

// atom renders a small regular expression; assert reports whether it contains an empty-width assertion.
func (g *gen) regex(depth int, allowAssert bool) (string, bool) {
	r := g.r
	if depth <= 0 {
		switch r.Intn(8) {
		case 0, 1, 2, 3:
			return g.lit(), false
		case 4:
			return ".", false
		case 5:
			return lib.Pick(r, []string{"[ab]", "[^a]", "[a-c]", "[bd]"}), false
		case 6:
			return string("abcd"[r.Intn(4)]), false
		default:
			return lib.Pick(r, []string{"a", "b", "ab", "cd"}), false
		}
	}
	switch r.Intn(10) {
	case 0, 1, 2: // concatenation
		n := 2 + r.Intn(2)
		s, as := "", false
		for i := 0; i < n; i++ {
			x, a := g.regex(depth-1, allowAssert)
			s += x
			as = as || a
		}
		return s, as
	case 3: // alternation
		a, aa := g.regex(depth-1, allowAssert)
		b, ba := g.regex(depth-1, allowAssert)
		if r.Chance(1, 2) {
			return "(" + a + "|" + b + ")", aa || ba
		}
		return "(?:" + a + "|" + b + ")", aa || ba
	case 4, 5: // repetition
		x, a := g.regex(depth-1, allowAssert)
		op := lib.Pick(r, []string{"*", "+", "?", "{2}", "{1,2}", "{0,2}", "*?", "+?", "{2,}"})
		return "(?:" + x + ")" + op, a
	case 6: // capture
		x, a := g.regex(depth-1, allowAssert)
		return "(" + x + ")", a
	case 7: // literal prefix / suffix around something
		x, a := g.regex(depth-1, allowAssert)
		switch r.Intn(3) {
		case 0:
			return g.lit() + x, a
		case 1:
			return x + g.lit(), a
		default:
			return g.lit() + x + g.lit(), a
		}
	case 8:
		if !allowAssert {
			return g.lit(), false
		}
		x, _ := g.regex(depth-1, allowAssert)
		switch r.Intn(6) {
		case 0:
			return "^" + x, true
		case 1:
			return x + "$", true
		case 2:
			return x + `\b`, true
		case 3:
			return `\b` + x, true
		case 4:
			return x + `\B`, true
		default:
			return "^" + x + "$", true
		}
	default:
		return g.regex(depth-1, allowAssert)
	}
}

func (g *gen) chunks(maxChunks, maxLen int) []slib.Chunk {
	r := g.r
	n := r.Intn(maxChunks + 1)
	dir := r.Intn(2)
	cs := []slib.Chunk{}
	for i := 0; i < n; i++ {
		l := 1 + r.Intn(maxLen)
		s := ""
		for j := 0; j < l; j++ {
			if r.Chance(1, 12) {
				// non-word / other characters for \b, upper case for (?i), a newline for ".", two bytes >= 0x80 (values
				// captured from them are substituted into later elements, F63; buffers may start inside the character)
				s += []string{" ", ".", "A", "é", "B", "\n"}[r.Intn(6)]
			} else {
				s += string("abcd"[r.Intn(4)])
			}
		}
		cs = append(cs, slib.Chunk{Dir: dir, Data: s})
		if !r.Chance(1, 4) {
			dir ^= 1
		}
	}
	return cs
}

// mergeSameDir mirrors what the importer hands to the writer: bursts of one direction are one chunk.
func mergeSameDir(cs []slib.Chunk) []slib.Chunk {
	out := []slib.Chunk{}
	for _, c := range cs {
		if len(out) > 0 && out[len(out)-1].Dir == c.Dir {
			out[len(out)-1].Data += c.Data
		} else {
			out = append(out, c)
		}
	}
	return out
}

func genCase(r *lib.RNG, wide bool) *Case {
	g := &gen{r: r, wide: wide}
	c := &Case{}
	maxLen := 3
	if wide {
		maxLen = 4
	}
	s := &slib.StreamV{ID: 0, CHost: "10.0.0.1", SHost: "10.0.0.2", CPort: 1000, SPort: 80, FTms: 0, LTms: 1000}
	s.Chunks = mergeSameDir(g.chunks(4, maxLen))
	nconv := lib.Pick(r, []int{0, 0, 1, 1, 2, 3})
	for i := 0; i < nconv; i++ {
		name := fmt.Sprintf("c%d", i)
		c.ConvNames = append(c.ConvNames, name)
		if r.Chance(3, 4) { // cached output exists
			if s.Conv == nil {
				s.Conv = map[string][]slib.Chunk{}
			}
			if r.Chance(1, 3) && len(s.Chunks) > 0 {
				// a re-chunked copy of the raw payload: same bytes, other boundaries
				out := []slib.Chunk{}
				for _, ch := range s.Chunks {
					d := ch.Data
					for len(d) > 0 {
						k := 1 + r.Intn(len(d))
						out = append(out, slib.Chunk{Dir: ch.Dir, Data: d[:k]})
						d = d[k:]
					}
				}
				s.Conv[name] = out
			} else {
				s.Conv[name] = g.chunks(4, maxLen)
			}
		}
	}
	c.Stream = s
	// converter selection is the same for every data term of a query (the engine rejects mixtures)
	conv := ""
	switch r.Intn(6) {
	case 0, 1:
		conv = "none"
	case 2:
		if nconv > 0 {
			conv = c.ConvNames[r.Intn(nconv)]
		}
	}
	allowAssert := r.Chance(1, 5)
	pool := []string{} // expressions are reused inside a query (sharing)
	nvars := 0
	term := func() *slib.Node {
		var re string
		if len(pool) > 0 && r.Chance(1, 3) {
			re = lib.Pick(r, pool)
		} else {
			re, _ = g.regex(lib.Pick(r, []int{0, 1, 1, 2, 2, 3}), allowAssert)
			if r.Chance(1, 10) {
				// flags: case folding changes the literal facts, (?s) lets "." match a newline,
				// (?m) turns ^ $ into line anchors
				fl := lib.Pick(r, []string{"(?i)", "(?s)", "(?is)", "(?m)"})
				if fl == "(?m)" && !allowAssert {
					fl = "(?i)"
				}
				re = fl + re
			}
			pool = append(pool, re)
		}
		key := lib.Pick(r, []string{"cdata", "sdata", "cdata", "sdata", "data"})
		return &slib.Node{Op: "term", Key: key, Regex: re, Conv: conv}
	}
	cond := func() *slib.Node {
		var n *slib.Node
		if r.Chance(2, 5) {
			k := 2 + r.Intn(3)
			kids := []*slib.Node{}
			for i := 0; i < k; i++ {
				t := term()
				if t.Key == "data" && r.Chance(2, 3) {
					t.Key = lib.Pick(r, []string{"cdata", "sdata"})
				}
				kids = append(kids, t)
			}
			n = &slib.Node{Op: "then", Kids: kids}
			if r.Chance(1, 4) {
				// a named capture in one element, used (quoted) by a later element of the same chain
				nvars++
				name := fmt.Sprintf("v%d", nvars)
				i := r.Intn(k - 1)
				j := i + 1 + r.Intn(k-1-i)
				def, _ := g.regex(lib.Pick(r, []int{0, 0, 1}), false)
				opt := ""
				if r.Chance(1, 4) {
					def = "(?:" + def + ")?" // a group that may not take part in the match
				} else if nvars%3 == 0 {
					opt = "?" // the NAMED group itself may not take part (its variable is then empty); no draw: the other cases stay as they were
				}
				pre, post := "", ""
				if r.Chance(1, 2) {
					pre, _ = g.regex(0, false)
				}
				if r.Chance(1, 2) {
					post, _ = g.regex(0, false)
				}
				kids[i] = &slib.Node{Op: "term", Key: kids[i].Key, Conv: conv, Regex: pre + "(?P<" + name + ">" + def + ")" + opt + post}
				use := "@" + name + "@"
				if r.Chance(1, 2) {
					use = g.lit() + use
				}
				if r.Chance(1, 3) {
					use += g.lit()
				}
				kids[j] = &slib.Node{Op: "term", Key: kids[j].Key, Conv: conv, Regex: use}
			}
		} else {
			n = term()
		}
		if r.Chance(1, 4) {
			// the normaliser negates by multiplying out: (chain length)^(number of direction
			// alternatives) conjuncts; keep at most one either-direction term in a negated chain
			seen := false
			for _, k := range n.Kids {
				if k.Key == "data" {
					if seen {
						k.Key = lib.Pick(r, []string{"cdata", "sdata"})
					}
					seen = true
				}
			}
			n = &slib.Node{Op: "not", Kids: []*slib.Node{n}}
		}
		return n
	}
	switch r.Intn(6) {
	case 0, 1, 2:
		c.Query = cond()
	case 3, 4:
		c.Query = &slib.Node{Op: "and", Kids: []*slib.Node{cond(), cond()}}
		if r.Chance(1, 3) {
			c.Query.Kids = append(c.Query.Kids, cond())
		}
	default:
		c.Query = &slib.Node{Op: "or", Kids: []*slib.Node{cond(), cond()}}
	}
	return c
}

func doGen(seed uint64, n int, wide bool) {
	r := lib.NewRNG(seed)
	w := bufio.NewWriter(os.Stdout)
	defer w.Flush()
	for i := 0; i < n; i++ {
		c := genCase(r.Fork(), wide)
		b, _ := json.Marshal(c)
		w.Write(b)
		w.WriteByte('\n')
	}
}

// ---------------------------------------------------------------------------------------
// runner + oracle
// ---------------------------------------------------------------------------------------

// hexStr: bytes that go to the Lean driver and to the check as a hex string — payload is bytes, a JSON string
// cannot carry a buffer that starts or ends inside a multi-byte character
type hexStr string

func (h hexStr) MarshalJSON() ([]byte, error) {
	return []byte(`"` + hex.EncodeToString([]byte(h)) + `"`), nil
}

type (
	srcOut struct {
		C  hexStr   `json:"c"`
		S  hexStr   `json:"s"`
		BL [][2]int `json:"bl"`
	}
	tableEntry struct {
		Sub hexStr `json:"b"`
		S   int    `json:"s"`
		E   int    `json:"e"` // -1: no match
	}
	regexOut struct {
		Expr   string       `json:"expr"`
		Prefix hexStr       `json:"p"`
		Suffix hexStr       `json:"x"`
		Min    uint64       `json:"min"`
		Max    uint64       `json:"max"`
		Table  []tableEntry `json:"t"`
		Assert bool         `json:"assert"`
		Ctx    bool         `json:"ctx"`
	}
	condOut struct {
		Els [][2]int `json:"els"` // (regex index, direction)
		Inv bool     `json:"inv"`
	}
	findOut struct {
		Re   int    `json:"re"`
		Src  int    `json:"src"`
		Dir  int    `json:"dir"`
		Off  [2]int `json:"off"`
		Res  []int  `json:"res"` // [start,end] or empty
		NOff [2]int `json:"noff"`
	}
	outLine struct {
		Sources []srcOut    `json:"sources"`
		Regexes []*regexOut `json:"regexes"`
		Parts   [][]condOut `json:"parts"`
		Finds   []findOut   `json:"finds"`
		Vars    bool        `json:"vars,omitempty"` // the query binds variables by captures: no engine-level dump
		Real    bool        `json:"real"`
		Oracle  bool        `json:"oracle"`
		Err     string      `json:"err,omitempty"`
		Query   string      `json:"query,omitempty"`
	}
)

type runner struct {
	dir    string
	oracle *bufio.Writer
	lineNo int
}

func (rn *runner) complain(format string, a ...interface{}) {
	if rn.oracle != nil {
		fmt.Fprintf(rn.oracle, "ORACLE line=%d %s\n", rn.lineNo, fmt.Sprintf(format, a...))
	}
}

// hasAssert: the expression contains an empty-width assertion (^ $ \b \B; the generator writes ^ inside
// a class only as "[^")
func hasAssert(expr string) bool {
	return strings.Contains(expr, "$") || strings.Contains(expr, `\b`) || strings.Contains(expr, `\B`) ||
		strings.Count(expr, "^") != strings.Count(expr, "[^")
}

func (rn *runner) runCase(c *Case) (out outLine) {
	defer func() {
		if r := recover(); r != nil {
			out.Err = "panic"
			rn.complain("panic: %v", r)
		}
	}()
	env := &slib.Env{Tags: map[string]*slib.Tag{}, ConvNames: c.ConvNames}
	// decoy stream 1 keeps the index non-trivial
	decoy := &slib.StreamV{ID: 1, CHost: "10.0.0.1", SHost: "10.0.0.2", CPort: 1001, SPort: 80, FTms: 0, LTms: 1000,
		Chunks: []slib.Chunk{{Dir: 0, Data: "zz"}, {Dir: 1, Data: "zz"}}}
	r, err := slib.BuildIndex(rn.dir, 0, []*slib.StreamV{decoy, c.Stream})
	if err != nil {
		out.Err = "build"
		rn.complain("index build failed: %v", err)
		return
	}
	defer func() {
		r.Close()
		os.Remove(r.Filename())
	}()
	convs := map[string]index.ConverterAccess{}
	for _, name := range c.ConvNames {
		fc := &slib.FakeConverter{Out: map[uint64][]slib.Chunk{}}
		if o, ok := c.Stream.Conv[name]; ok {
			fc.Out[0] = o
		}
		convs[name] = fc
	}
	text := c.Query.Render()
	out.Query = text
	q, err := query.Parse(text)
	if err != nil {
		out.Err = "parse"
		rn.complain("query %q rejected by the parser: %v", text, err)
		return
	}
	res, _, _, err := index.SearchStreams(context.Background(), []*index.Reader{r}, nil, q.ReferenceTime, q.Conditions, nil,
		[]query.Sorting{{Key: query.SortingKeyID, Dir: query.SortingDirAscending}}, 0, 0, nil, convs, false)
	if err != nil {
		out.Err = "error"
		rn.complain("SearchStreams(%q) failed: %v (payload %s, converters %s)", text, err, mustJSON(c.Stream.Chunks), mustJSON(c.Stream.Conv))
		return
	}
	for _, s := range res {
		if s.ID() == 0 {
			out.Real = true
		}
	}
	// --- oracle: plain scan semantics of the surface AST
	out.Oracle = env.Eval(c.Query, c.Stream)
	if env.Err != nil {
		out.Err = "oracle"
		rn.complain("oracle cannot evaluate: %v", env.Err)
		return
	}
	if out.Real != out.Oracle {
		rn.complain("query %q: stream selected=%v, the plain scan says %v (payload %s, converters %s)", text, out.Real, out.Oracle,
			mustJSON(c.Stream.Chunks), mustJSON(c.Stream.Conv))
	}

	// --- engine-level dump for the Lean model
	out.Sources, out.Regexes, out.Parts, out.Finds = []srcOut{}, []*regexOut{}, [][]condOut{}, []findOut{}
	conv := ""
	c.Query.Walk(func(n *slib.Node) {
		if n.Op == "term" {
			conv = n.Conv
		}
	})
	srcs := env.Sources(c.Stream, conv)
	for _, s := range srcs {
		data, bl := slib.SizesOf(s)
		out.Sources = append(out.Sources, srcOut{C: hexStr(data[0]), S: hexStr(data[1]), BL: bl})
	}
	reIdx := map[string]int{}
	usedDirs := map[[2]int]bool{}
	for _, conj := range q.Conditions {
		for _, cc := range conj {
			if dc, ok := cc.(*query.DataCondition); ok {
				for _, e := range dc.Elements {
					if len(e.Variables) != 0 {
						out.Vars = true
					}
				}
			}
		}
	}
	if out.Vars {
		return
	}
	for _, conj := range q.Conditions {
		part := []condOut{}
		for _, cc := range conj {
			dc, ok := cc.(*query.DataCondition)
			if !ok {
				out.Err = "non-data-condition"
				return
			}
			co := condOut{Inv: dc.Inverted, Els: [][2]int{}}
			for _, e := range dc.Elements {
				i, ok := reIdx[e.Regex]
				if !ok {
					i = len(out.Regexes)
					reIdx[e.Regex] = i
					f, err := index.VerifRegexFacts(e.Regex)
					if err != nil {
						out.Err = "facts"
						return
					}
					mx := uint64(f.MaxLen)
					if mx > 1<<40 {
						mx = 1 << 40
					}
					out.Regexes = append(out.Regexes, &regexOut{Table: []tableEntry{}, Expr: e.Regex, Prefix: hexStr(f.Prefix), Suffix: hexStr(f.Suffix),
						Min: uint64(f.MinLen), Max: mx, Assert: hasAssert(e.Regex), Ctx: f.ContextSensitive})
				}
				d := int(e.Flags & query.DataRequirementSequenceFlagsDirection)
				co.Els = append(co.Els, [2]int{i, d})
				usedDirs[[2]int{i, d}] = true
			}
			part = append(part, co)
		}
		out.Parts = append(out.Parts, part)
	}
	// matcher tables: the regex engine on every distinct sub-slice of every buffer it can be asked about
	for expr, i := range reIdx {
		re := binaryregexp.MustCompile(expr)
		seen := map[string]bool{}
		for _, s := range out.Sources {
			for d, buf := range []string{string(s.C), string(s.S)} {
				if !usedDirs[[2]int{i, d}] {
					continue
				}
				for a := 0; a <= len(buf); a++ {
					for b := a; b <= len(buf); b++ {
						sub := buf[a:b]
						if seen[sub] {
							continue
						}
						seen[sub] = true
						m := re.FindSubmatchIndex([]byte(sub))
						te := tableEntry{Sub: hexStr(sub), S: 0, E: -1}
						if m != nil {
							te.S, te.E = m[0], m[1]
						}
						out.Regexes[i].Table = append(out.Regexes[i].Table, te)
					}
				}
			}
		}
		sort.Slice(out.Regexes[i].Table, func(a, b int) bool { return out.Regexes[i].Table[a].Sub < out.Regexes[i].Table[b].Sub })
	}
	// the real find on every (expression, source, direction, offset); its oracle: a plain
	// FindSubmatchIndex on the rest of the buffer
	keys := [][2]int{}
	for k := range usedDirs {
		keys = append(keys, k)
	}
	sort.Slice(keys, func(a, b int) bool {
		return keys[a][0] < keys[b][0] || (keys[a][0] == keys[b][0] && keys[a][1] < keys[b][1])
	})
	for _, k := range keys {
		ro := out.Regexes[k[0]]
		re := binaryregexp.MustCompile(ro.Expr)
		for si, s := range out.Sources {
			bufs := [2][]byte{[]byte(s.C), []byte(s.S)}
			for off := 0; off <= len(bufs[k[1]]); off++ {
				offs := [2]int{}
				offs[k[1]] = off
				res, noff, err := index.VerifFind(ro.Expr, bufs, uint8(k[1]), offs)
				if err != nil {
					continue
				}
				fo := findOut{Re: k[0], Src: si, Dir: k[1], Off: offs, NOff: noff, Res: []int{}}
				rest := bufs[k[1]][off:]
				plain := re.FindSubmatchIndex(rest)
				if res != nil {
					fo.Res = []int{res[0], res[1]}
				}
				// compare in absolute positions (find may have skipped a prefix)
				switch {
				case (res == nil) != (plain == nil):
					rn.complain("find(%q) on %q at offset %d: shortcut scan %v, plain scan %v (prefix %q suffix %q length %d..%d)", ro.Expr, string(bufs[k[1]]), off, res, plain, ro.Prefix, ro.Suffix, ro.Min, ro.Max)
				case res != nil && (noff[k[1]]+res[0] != off+plain[0] || noff[k[1]]+res[1] != off+plain[1]):
					rn.complain("find(%q) on %q at offset %d: shortcut scan match [%d,%d), plain scan [%d,%d) (prefix %q suffix %q length %d..%d)", ro.Expr, string(bufs[k[1]]), off,
						noff[k[1]]+res[0], noff[k[1]]+res[1], off+plain[0], off+plain[1], ro.Prefix, ro.Suffix, ro.Min, ro.Max)
				}
				out.Finds = append(out.Finds, fo)
			}
		}
	}
	return
}

func mustJSON(v interface{}) string {
	b, _ := json.Marshal(v)
	return string(b)
}

func doRun(oraclePath string) {
	time.Local = time.UTC
	rn := &runner{}
	var err error
	rn.dir, err = os.MkdirTemp(os.Getenv("VERIF_SCRATCH_DIR"), "c04-")
	if err != nil {
		fmt.Fprintln(os.Stderr, err)
		os.Exit(2)
	}
	defer os.RemoveAll(rn.dir)
	if oraclePath != "" {
		f, err := os.Create(oraclePath)
		if err != nil {
			fmt.Fprintln(os.Stderr, err)
			os.Exit(2)
		}
		defer f.Close()
		rn.oracle = bufio.NewWriter(f)
		defer rn.oracle.Flush()
	}
	in := bufio.NewReaderSize(os.Stdin, 1<<20)
	w := bufio.NewWriter(os.Stdout)
	defer w.Flush()
	for {
		line, err := in.ReadString('\n')
		if strings.TrimSpace(line) != "" {
			rn.lineNo++
			c := &Case{}
			var out outLine
			if jerr := json.Unmarshal([]byte(line), c); jerr != nil || c.Query == nil || c.Stream == nil {
				out = outLine{Err: "bad-case"}
			} else {
				out = rn.runCase(c)
			}
			b, _ := json.Marshal(out)
			w.Write(b)
			w.WriteByte('\n')
			w.Flush()
			if rn.oracle != nil {
				rn.oracle.Flush()
			}
		}
		if err != nil {
			break
		}
	}
}

func main() {
	if len(os.Args) < 2 {
		fmt.Fprintln(os.Stderr, "usage: c04 gen|run")
		os.Exit(2)
	}
	fs := flag.NewFlagSet(os.Args[1], flag.ExitOnError)
	seed := fs.Uint64("seed", 1, "")
	n := fs.Int("n", 100, "")
	wide := fs.Bool("wide", false, "")
	oracle := fs.String("oracle", "", "")
	fs.Parse(os.Args[2:])
	switch os.Args[1] {
	case "gen":
		doGen(*seed, *n, *wide)
	case "run":
		doRun(*oracle)
	default:
		os.Exit(2)
	}
}
