// c01: correspondence harness for property C01 (index files return every stored stream exactly
// as written).
//
//	c01 gen -seed S -case I [-tier quick|thorough]   write the ops of generated case I to stdout
//	c01 run -dir D [-oracle FILE]                   execute ops from stdin on the REAL index.Writer /
//	                                                Reader, one output line per op; the round-trip
//	                                                oracle writes its complaints to FILE
package main

import (
	"bufio"
	"flag"
	"fmt"
	"os"

	"github.com/spq/pkappa2/internal/verifh/lib"
	"github.com/spq/pkappa2/internal/verifh/lib/idx"
)

func main() {
	if len(os.Args) < 2 {
		fmt.Fprintln(os.Stderr, "usage: c01 gen|run ...")
		os.Exit(2)
	}
	fs := flag.NewFlagSet(os.Args[1], flag.ExitOnError)
	seed := fs.Uint64("seed", 1, "")
	cs := fs.Int("case", 0, "")
	tier := fs.String("tier", "quick", "")
	dir := fs.String("dir", "", "")
	orc := fs.String("oracle", "", "")
	fs.Parse(os.Args[2:])
	switch os.Args[1] {
	case "gen":
		w := bufio.NewWriter(os.Stdout)
		defer w.Flush()
		for _, l := range genCase(*seed, *cs, *tier == "thorough") {
			fmt.Fprintln(w, l)
		}
	case "run":
		d := *dir
		if d == "" {
			var err error
			if d, err = os.MkdirTemp("/var/tmp", "c01run"); err != nil {
				panic(err)
			}
			defer os.RemoveAll(d)
		}
		var of *os.File
		if *orc != "" {
			var err error
			if of, err = os.Create(*orc); err != nil {
				panic(err)
			}
			defer of.Close()
		}
		out := bufio.NewWriterSize(os.Stdout, 1<<20)
		var m *idx.Machine
		if of != nil {
			m = idx.NewMachine(d, out, of)
		} else {
			m = idx.NewMachine(d, out, nil)
		}
		m.Run(os.Stdin)
	default:
		os.Exit(2)
	}
}

// ---------------------------------------------------------------------------------------------

const baseTime = int64(1600000000) * 1e9

// genCase: case index selects the regime (so every run covers every regime), the seed the values.
func genCase(seed uint64, cs int, thorough bool) []string {
	r := lib.NewRNG(seed*1000003 + uint64(cs))
	g := idx.NewGen(r)
	kind := ""
	switch cs {
	case 0:
		kind = "big_v6"
		bigHosts(g, 16, cs)
	case 1:
		kind = "big_v4"
		bigHosts(g, 4, cs)
	case 2:
		kind = "big_v6_odd"
		bigHosts(g, 16, cs)
	default:
		kinds := []string{"mixed", "chunks", "skip", "wrap", "burst", "many", "tiny"}
		kind = kinds[(cs-3)%len(kinds)]
		general(g, kind, thorough)
	}
	return append([]string{g.Header(kind)}, g.Lines...)
}

// bigHosts: more hosts of one family than one host group holds, so a second group exists; the
// boundary is approached with both parities so that the failed second add (undo path) runs.
func bigHosts(g *idx.Gen, hostSize int, cs int) {
	r := g.R
	capHosts := 65536 / hostSize
	addr := func(n int) []byte {
		if hostSize == 4 {
			return idx.Addr4(uint32(n))
		}
		return idx.Addr6(uint32(n))
	}
	g.Emit("new")
	id := uint64(0)
	var sample []uint64
	one := func(c, s int) {
		st := g.Stream(id, addr(c), addr(s), idx.StreamOpt{Base: baseTime + int64(r.Intn(1000))*1e9 + int64(r.Intn(1e9)), NData: 0})
		// keep the big cases cheap: a single packet, sometimes one small chunk
		st.P = st.P[:1]
		st.D = nil
		if r.Chance(1, 50) {
			st.D = []idx.ChunkIn{{Pos: 0, Hex: "6869"}}
		}
		g.Emit("add %s", st.JSON())
		id++
	}
	odd := cs == 2 || r.Chance(1, 2)
	h := 0
	if odd {
		one(0, 0) // one host only
		h = 1
		g.Regimes["boundary_parity_odd"]++
	} else {
		g.Regimes["boundary_parity_even"]++
	}
	for h+2 <= capHosts {
		one(h, h+1)
		h += 2
	}
	// here h == capHosts (even) or capHosts-1 (odd: the next pair fails on its second host)
	boundary := id
	extra := r.Range(3, 40)
	for k := 0; k < extra; k++ {
		one(capHosts+2*k, capHosts+2*k+1)
	}
	// a stream with one new host and one host of the first group; one across both groups
	one(capHosts+1000, 1)
	one(2, capHosts)
	one(capHosts+2000, capHosts+2000)
	g.Regimes[fmt.Sprintf("second_host_group_v%d", map[int]int{4: 4, 16: 6}[hostSize])]++
	g.Emit("fin 0")
	g.Emit("dig 0")
	g.Emit("ids 0")
	g.Emit("all 0")
	sample = append(sample, 0, 1, boundary-2, boundary-1, boundary, boundary+1, id-3, id-2, id-1, id)
	for k := 0; k < 30; k++ {
		sample = append(sample, uint64(r.Intn(int(id))))
	}
	for _, s := range sample {
		g.Emit("obs 0 %d", s)
	}
}

func general(g *idx.Gen, kind string, thorough bool) {
	r := g.R
	n := r.Range(1, 12)
	opt := idx.StreamOpt{Sizes: []int{0, 1, 2, 3, 7, 20, 48, 100, 1000}, Gaps: idx.GapsMixed, Dataless: []int{0, 0, 0, 1, 2, 3}, MultiRef: true}
	maxData := 6
	switch kind {
	case "mixed":
		n = r.Range(2, 30)
	case "chunks":
		n = r.Range(1, 4)
		opt.Sizes = []int{0, 1, 65534, 65535, 65536, 65537, 131070, 131071, 200000, 5, 300}
		maxData = 5
	case "skip":
		n = r.Range(1, 3)
		opt.Dataless = []int{0, 1, 100, 253, 254, 255, 256, 257, 300, 600}
		opt.MultiRef = false
		maxData = 4
	case "wrap":
		n = r.Range(1, 5)
		opt.Gaps = idx.GapsWrap
		maxData = 5
	case "burst":
		n = r.Range(1, 8)
		opt.Gaps = idx.GapsBurst
		maxData = 12
		opt.AsciiData = true
	case "many":
		n = r.Range(100, 400)
		if thorough {
			n = r.Range(300, 1500)
		}
		opt.Sizes = []int{0, 1, 5, 20}
		maxData = 3
		opt.Dataless = []int{0, 0, 1}
	case "tiny":
		n = r.Range(1, 2)
		maxData = 2
	}
	sparse := r.Chance(2, 3)
	ids := g.IDs(n, sparse)
	npool := r.Range(1, 2+n/2)
	fam := r.Intn(3) // 0 v4 only, 1 v6 only, 2 mixed
	if kind == "mixed" {
		fam = 2
	}
	if fam == 2 {
		g.Regimes["ipv4_ipv6_mixed"]++
	}
	smallAlphabet := r.Chance(1, 3)
	if smallAlphabet {
		g.Regimes["hosts_small_byte_alphabet"]++
	}
	g.Emit("new")
	type src struct {
		f string
		i uint64
	}
	var firsts []src
	var others []src
	for k, id := range ids {
		six := fam == 1 || (fam == 2 && r.Chance(1, 2))
		a, b := uint32(r.Intn(npool)), uint32(r.Intn(npool))
		var c, s []byte
		if six {
			c, s = idx.Addr6(a), idx.Addr6(b)
		} else {
			c, s = idx.Addr4(a), idx.Addr4(b)
		}
		if smallAlphabet {
			// addresses over a tiny byte alphabet: an address is then often an UNALIGNED substring of the
			// concatenated host table (tail of one stored host + head of the next)
			mk := func() []byte {
				n := 4
				if six {
					n = 16
				}
				b := make([]byte, n)
				for j := range b {
					b[j] = lib.Pick(r, []byte{0, 0, 1, 10})
				}
				return b
			}
			c, s = mk(), mk()
		}
		o := opt
		// reference second moves in both directions over the set
		o.Base = baseTime + int64(r.Intn(5000))*1e9 + int64(r.Intn(1e9))
		if r.Chance(1, 10) {
			o.Base = baseTime - int64(r.Intn(100000))*1e9
		}
		o.NData = r.Intn(maxData + 1)
		o.SrvFirst = r.Chance(1, 4)
		o.UDP = r.Chance(1, 5)
		st := g.Stream(id, c, s, o)
		g.Emit("add %s", st.JSON())
		fs := st.FirstSource()
		firsts = append(firsts, src{fs.File, fs.Index})
		if len(st.P) > 1 {
			p := st.P[len(st.P)-1]
			others = append(others, src{p.Refs[0].File, p.Refs[0].Index})
		}
		_ = k
	}
	g.Emit("fin 0")
	g.Emit("dig 0")
	if n <= 12 {
		g.Emit("dump 0")
	}
	g.Emit("ids 0")
	g.Emit("all 0")
	for k, id := range ids {
		if n > 60 && !r.Chance(60, n) {
			continue
		}
		g.Emit("obs 0 %d", id)
		if r.Chance(1, 4) {
			g.Emit("obs 0 %d", id+1) // mostly absent
		}
		f := firsts[k]
		g.Emit("src 0 %d %s", f.i, f.f)
		switch r.Intn(6) {
		case 0:
			g.Emit("src 0 %d %s", f.i+1, f.f)
		case 1:
			g.Emit("src 0 %d %s", f.i-1, f.f)
		case 2:
			g.Emit("src 0 %d %s", f.i, "zz-unknown.pcap")
		case 3:
			g.Emit("src 0 %d %s", f.i, "0.pcap")
		case 4:
			if len(others) > 0 {
				o := lib.Pick(r, others)
				g.Emit("src 0 %d %s", o.i, o.f)
			}
		}
	}
	g.Emit("obs 0 %d", r.U64())
	g.Emit("close 0")
}
