// c07: correspondence harness for property C07 (merging index files is invisible).
//
//	c07 gen -seed S -case I [-tier quick|thorough]   write the ops of generated case I to stdout
//	c07 run -dir D [-oracle FILE]                   execute ops from stdin: real index files are written,
//	                                                runs of them merged with the REAL index.Merge; the oracle
//	                                                compares every observable (visible streams = newest
//	                                                version per id, metadata, payload, packets, a handful of
//	                                                SearchStreams queries) of the stack before and after
package main

import (
	"bufio"
	"flag"
	"fmt"
	"os"
	"strconv"
	"strings"

	"github.com/spq/pkappa2/internal/verifh/lib"
	"github.com/spq/pkappa2/internal/verifh/lib/idx"
)

func main() {
	if len(os.Args) < 2 {
		fmt.Fprintln(os.Stderr, "usage: c07 gen|run ...")
		os.Exit(2)
	}
	fs := flag.NewFlagSet(os.Args[1], flag.ExitOnError)
	seed := fs.Uint64("seed", 1, "")
	cs := fs.Int("case", 0, "")
	tier := fs.String("tier", "quick", "")
	dir := fs.String("dir", "", "")
	orc := fs.String("oracle", "", "")
	fs.Parse(os.Args[2:])
	switch os.Args[1] {
	case "gen":
		w := bufio.NewWriter(os.Stdout)
		defer w.Flush()
		for _, l := range genCase(*seed, *cs, *tier == "thorough") {
			fmt.Fprintln(w, l)
		}
	case "run":
		d := *dir
		if d == "" {
			var err error
			if d, err = os.MkdirTemp("/var/tmp", "c07run"); err != nil {
				panic(err)
			}
			defer os.RemoveAll(d)
		}
		out := bufio.NewWriterSize(os.Stdout, 1<<20)
		var m *idx.Machine
		if *orc != "" {
			of, err := os.Create(*orc)
			if err != nil {
				panic(err)
			}
			defer of.Close()
			m = idx.NewMachine(d, out, of)
		} else {
			m = idx.NewMachine(d, out, nil)
		}
		m.Search = true
		m.Run(os.Stdin)
	default:
		os.Exit(2)
	}
}

const baseTime = int64(1600000000) * 1e9

func regs(rs []int) string {
	s := make([]string, len(rs))
	for i, r := range rs {
		s[i] = strconv.Itoa(r)
	}
	return strings.Join(s, ",")
}

type fileSpec struct {
	ids []uint64
}

func genCase(seed uint64, cs int, thorough bool) []string {
	r := lib.NewRNG(seed*1000003 + 7777 + uint64(cs))
	g := idx.NewGen(r)
	kind := ""
	switch cs {
	case 0:
		kind = "nearcap_v6"
		nearCapacity(g, false)
	case 1:
		kind = "nearcap_v6_twogroups"
		nearCapacity(g, true)
	default:
		kinds := []string{"overlap", "reftime", "hosts", "repeat", "pair", "payload"}
		kind = kinds[(cs-2)%len(kinds)]
		stack(g, kind, thorough)
	}
	return append([]string{g.Header(kind)}, g.Lines...)
}

// observers on a merged file
func observeMerged(g *idx.Gen, reg int, ids []uint64) {
	r := g.R
	g.Emit("dig %d", reg)
	g.Emit("ids %d", reg)
	g.Emit("all %d", reg)
	for _, id := range ids {
		if len(ids) > 30 && !r.Chance(30, len(ids)) {
			continue
		}
		g.Emit("obs %d %d", reg, id)
	}
	g.Emit("obs %d %d", reg, r.U64())
}

func stack(g *idx.Gen, kind string, thorough bool) {
	r := g.R
	nfiles := r.Range(2, 6)
	idPool := r.Range(2, 14)
	perFile := [2]int{1, 8}
	hostPool := r.Range(2, 10)
	refSpread := int64(5000)
	opt := idx.StreamOpt{Sizes: []int{0, 1, 3, 7, 20, 48, 300}, Gaps: idx.GapsMixed, Dataless: []int{0, 0, 1, 2}, MultiRef: true, AsciiData: true}
	maxData := 4
	switch kind {
	case "pair":
		nfiles = 2
	case "overlap":
		idPool = r.Range(2, 6)
	case "reftime":
		refSpread = 400000
	case "hosts":
		hostPool = r.Range(8, 40)
		perFile = [2]int{3, 14}
		idPool = 30
	case "repeat":
		nfiles = r.Range(4, 6)
	case "payload":
		opt.Sizes = []int{0, 1, 65535, 65536, 70000, 5, 300}
		opt.Dataless = []int{0, 1, 254, 255, 256, 300}
		opt.Gaps = idx.GapsWrap
		maxData = 3
		perFile = [2]int{1, 3}
	}
	sparse := r.Chance(1, 2)
	pool := g.IDs(idPool, sparse)
	famMode := r.Intn(3)
	if famMode == 2 {
		g.Regimes["ipv4_ipv6_mixed"]++
	}
	// per-file time window: later files may lie earlier or later than older ones
	var stackRegs []int
	allIDs := map[uint64]bool{}
	prevWin := int64(0)
	for f := 0; f < nfiles; f++ {
		n := r.Range(perFile[0], perFile[1])
		if n > len(pool) {
			n = len(pool)
		}
		// choose n distinct ids from the pool
		perm := append([]uint64(nil), pool...)
		for i := len(perm) - 1; i > 0; i-- {
			j := r.Intn(i + 1)
			perm[i], perm[j] = perm[j], perm[i]
		}
		ids := perm[:n]
		win := int64(r.Intn(int(refSpread))) * 1e9
		if f > 0 {
			if win < prevWin {
				g.Regimes["newer_file_earlier_reference"]++
			} else {
				g.Regimes["newer_file_later_reference"]++
			}
		}
		prevWin = win
		g.Emit("new")
		// host sets: per file an offset into the host space so that files share some hosts and not others
		hostBase := uint32(r.Intn(hostPool))
		for k, id := range ids {
			six := famMode == 1 || (famMode == 2 && r.Chance(1, 2))
			a, b := hostBase+uint32(r.Intn(hostPool)), hostBase+uint32(r.Intn(hostPool))
			var c, s []byte
			if six {
				c, s = idx.Addr6(a), idx.Addr6(b)
			} else {
				c, s = idx.Addr4(a), idx.Addr4(b)
			}
			o := opt
			o.Base = baseTime + win + int64(r.Intn(3000))*1e9 + int64(r.Intn(1e9))
			if k == 0 && r.Chance(1, 2) {
				// the earliest stream of this file: it is shadowed when a newer file holds the same id
				o.Base = baseTime + win - int64(r.Range(1, 100))*1e9
			}
			o.NData = r.Intn(maxData + 1)
			o.SrvFirst = r.Chance(1, 4)
			o.UDP = r.Chance(1, 5)
			st := g.Stream(id, c, s, o)
			g.Emit("add %s", st.JSON())
			if allIDs[id] {
				g.Regimes["id_in_several_files"]++
			}
		}
		for _, id := range ids {
			allIDs[id] = true
		}
		g.Emit("fin %d", f)
		stackRegs = append(stackRegs, f)
	}
	var visible []uint64
	for _, id := range pool {
		if allIDs[id] {
			visible = append(visible, id)
		}
	}
	rounds := 1
	if kind == "repeat" || r.Chance(1, 3) {
		rounds = r.Range(2, 3)
	}
	for round := 0; round < rounds && len(stackRegs) >= 2; round++ {
		// any suffix of at least one file (a suffix of one file is a plain copy)
		j := r.Intn(len(stackRegs))
		if r.Chance(3, 4) && len(stackRegs) >= 2 {
			j = r.Intn(len(stackRegs) - 1)
		}
		if j == 0 {
			g.Regimes["merge_whole_stack"]++
		} else if j == len(stackRegs)-1 {
			g.Regimes["merge_single_file"]++
		} else {
			g.Regimes["merge_proper_suffix"]++
		}
		dst := 10 * (round + 1)
		g.Emit("merge %d %s", dst, regs(stackRegs[j:]))
		after := append(append([]int(nil), stackRegs[:j]...), dst)
		g.Emit("eqv %s %s", regs(stackRegs), regs(after))
		observeMerged(g, dst, visible)
		if round > 0 {
			g.Regimes["merge_of_merged_file"]++
		}
		stackRegs = after
	}
	g.Regimes[fmt.Sprintf("files_%d", nfiles)]++
}

// nearCapacity: an IPv6 host table close to the 4096-host capacity of one group takes part in a merge, so
// that adding an index to a writer group fails half way (hosts popped again) and a second group is needed.
func nearCapacity(g *idx.Gen, twoGroups bool) {
	r := g.R
	id := uint64(0)
	one := func(c, s int) uint64 {
		st := g.Stream(id, idx.Addr6(uint32(c)), idx.Addr6(uint32(s)), idx.StreamOpt{Base: baseTime + int64(r.Intn(1000))*1e9 + int64(r.Intn(1e9)), NData: 0})
		st.P = st.P[:1]
		st.D = nil
		if r.Chance(1, 40) {
			st.D = []idx.ChunkIn{{Pos: 0, Hex: "6162636465"}}
		}
		g.Emit("add %s", st.JSON())
		id++
		return id - 1
	}
	var sample []uint64
	small := func(base int, shared [][2]int) {
		g.Emit("new")
		for k := 0; k < r.Range(3, 8); k++ {
			sample = append(sample, one(base+2*k, base+2*k+1))
		}
		for _, p := range shared {
			sample = append(sample, one(p[0], p[1]))
		}
	}
	big := func() {
		g.Emit("new")
		if twoGroups {
			// 4095 hosts, then a stream with two new hosts: group 0 stays one short of full, group 1 starts
			sample = append(sample, one(0, 0))
			for h := 1; h+2 <= 4096; h += 2 {
				one(h, h+1)
			}
			sample = append(sample, one(5000, 5001), one(5002, 5003), one(5001, 5000))
			g.Regimes["big_file_two_groups_first_not_full"]++
		} else {
			n := 4096 - 2*r.Range(1, 6) // hosts in group 0
			for h := 0; h+2 <= n; h += 2 {
				one(h, h+1)
			}
			g.Regimes["big_file_one_group_near_full"]++
		}
		sample = append(sample, id-1, id-2, 7, 8)
	}
	if twoGroups {
		// the big file is the newest: its groups enter the merge writer first, older files add hosts to them
		small(100000, nil)
		g.Emit("fin 0")
		small(200000, [][2]int{{100000, 200001}})
		saved := id
		id = 7 + 4096 // an id the big file will hold a newer version of
		one(7000, 7001)
		id = saved
		g.Emit("fin 1")
		big()
		g.Emit("fin 2")
	} else {
		small(100000, nil)
		g.Emit("fin 0")
		big()
		g.Emit("fin 1")
		// newest: new hosts that do not fit into what is left of the big group, and some shared ones
		small(200000, [][2]int{{3, 200000}, {100000, 4}})
		saved := id
		id = 7 // a newer version of an id of the big file
		one(7000, 7001)
		id = saved
		g.Emit("fin 2")
	}
	g.Regimes["host_table_near_capacity"]++
	order := [][]int{{0, 1, 2}}
	if r.Chance(1, 2) {
		order = [][]int{{1, 2}, {0, 10}}
		g.Regimes["merge_proper_suffix"]++
		g.Regimes["merge_of_merged_file"]++
	} else {
		g.Regimes["merge_whole_stack"]++
	}
	stackRegs := []int{0, 1, 2}
	for round, suffix := range order {
		dst := 10 * (round + 1)
		g.Emit("merge %d %s", dst, regs(suffix))
		after := append(append([]int(nil), stackRegs[:len(stackRegs)-len(suffix)]...), dst)
		g.Emit("eqv %s %s", regs(stackRegs), regs(after))
		g.Emit("dig %d", dst)
		g.Emit("ids %d", dst)
		for _, s := range sample {
			g.Emit("obs %d %d", dst, s)
		}
		stackRegs = after
	}
	g.Regimes["files_3"]++
}
