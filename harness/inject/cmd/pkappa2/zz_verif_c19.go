//go:build verif

package main

// Entry hook of the C19 correspondence harness (injected by build overlay, never part of the
// repository): `pkappa2 verif-c19 run ...` runs the harness around the REAL router built by
// setupRouter from this working tree, instead of starting the server. package main cannot be
// imported, so the harness reaches setupRouter and the directory flags through this file.

import (
	"net/http"
	"os"

	"github.com/spq/pkappa2/internal/index/manager"
	"github.com/spq/pkappa2/internal/verifh/lib/c19h"
)

func init() {
	if len(os.Args) > 1 && os.Args[1] == "verif-c19" {
		os.Exit(c19h.Main(os.Args[2:], &c19h.Hooks{
			NewRouter: func(mgr *manager.Manager) http.Handler { return setupRouter(mgr, nil, nil) },
			SetDirs: func(base, pcap string) {
				*baseDir = base
				*pcapDir = pcap
				*userPassword = ""
				*pcapPassword = ""
			},
		}))
	}
}
