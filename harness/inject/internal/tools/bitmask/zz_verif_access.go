//go:build verif

package bitmask

// Read-only accessors for the correspondence harness (injected by build overlay, never part of
// the repository).

// VerifEntries returns the run list of a ConnectedBitmask as (min,max) pairs.
func (bm ConnectedBitmask) VerifEntries() [][2]uint {
	res := make([][2]uint, 0, len(bm.entries))
	for _, e := range bm.entries {
		res = append(res, [2]uint{e.min, e.max})
	}
	return res
}

// VerifWords returns the linked words of a ShortBitmask.
func (bm ShortBitmask) VerifWords() []uint64 {
	res := []uint64{bm.mask}
	for n := bm.next; n != nil; n = n.next {
		res = append(res, n.mask)
	}
	return res
}
