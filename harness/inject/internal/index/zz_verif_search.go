//go:build verif

package index

// Read-only accessors for the /verif correspondence harnesses (C02, C04). Compiled into the package
// only through `go build -tags verif -overlay`; never part of a normal build.

import (
	"errors"
	"reflect"

	"github.com/spq/pkappa2/internal/query"
)

// VerifScanIDs returns the stream IDs of the file in the order of the given lookup section
// ("id", "ftime", "ltime") or in file order ("").
func (r *Reader) VerifScanIDs(lookup string) ([]uint64, error) {
	n := r.StreamCount()
	order := make([]uint32, n)
	switch lookup {
	case "":
		for i := range order {
			order[i] = uint32(i)
		}
	case "id", "ftime", "ltime":
		sec := map[string]section{"id": sectionStreamsByStreamID, "ftime": sectionStreamsByFirstPacketTime, "ltime": sectionStreamsByLastPacketTime}[lookup]
		if err := r.readObjects(sec, order); err != nil {
			return nil, err
		}
	default:
		return nil, errors.New("unknown lookup")
	}
	ids := make([]uint64, n)
	for i, si := range order {
		s, err := r.streamByIndex(si)
		if err != nil {
			return nil, err
		}
		ids[i] = s.StreamID
	}
	return ids, nil
}

// VerifFacts are the facts the data filter derives from an expression (as dataConditionsContainer.finalize does).
type VerifFacts struct {
	Prefix, Suffix []byte
	MinLen, MaxLen uint
	// ContextSensitive: the expression contains empty-width assertions, find takes no shortcut
	ContextSensitive bool
}

// verifVariant lets the REAL code derive the facts of an expression: a one-element data condition goes
// through dataConditionsContainer.add/finalize and progressGroup.prepare (the converter name keeps
// finalize from opening the data section; its data source closure is never called).
func verifVariant(expr string) (*progressVariant, error) {
	dcc := dataConditionsContainer{}
	cc := &query.DataCondition{Elements: []query.DataConditionElement{{Regex: expr, ConverterName: "verif"}}}
	if err := dcc.add(cc, "", nil); err != nil {
		return nil, err
	}
	if _, err := dcc.finalize(nil, 0, nil, map[string]ConverterAccess{"verif": nil}); err != nil {
		return nil, err
	}
	if len(dcc.regexes) != 1 {
		return nil, errors.New("verif: expected one regex")
	}
	pg := progressGroup{variants: []progressVariant{{}}}
	p, err := pg.prepare(&dcc.regexes[0], 0, &cc.Elements[0], nil)
	if err != nil {
		return nil, err
	}
	cp := *p
	return &cp, nil
}

// verifContextSensitive reads progressVariant.contextSensitive if the field exists (it was introduced by the
// repair of F7; through reflection the harness also builds against a tree without it).
func verifContextSensitive(p *progressVariant) bool {
	f := reflect.ValueOf(p).Elem().FieldByName("contextSensitive")
	return f.IsValid() && f.Kind() == reflect.Bool && f.Bool()
}

// VerifRegexFacts computes prefix/suffix/length facts exactly like finalize.
func VerifRegexFacts(expr string) (VerifFacts, error) {
	p, err := verifVariant(expr)
	if err != nil {
		return VerifFacts{}, err
	}
	return VerifFacts{Prefix: p.prefix, Suffix: p.suffix, MinLen: p.acceptedLength.MinLength, MaxLen: p.acceptedLength.MaxLength, ContextSensitive: verifContextSensitive(p)}, nil
}

// VerifFind runs the real progressVariant.find on (buffers, dir) starting at the given offsets and
// returns the submatch indexes and the offsets afterwards.
func VerifFind(expr string, buffers [2][]byte, dir uint8, offsets [2]int) ([]int, [2]int, error) {
	p, err := verifVariant(expr)
	if err != nil {
		return nil, offsets, err
	}
	p.streamOffset = offsets
	res := p.find(buffers, dir)
	return res, p.streamOffset, nil
}
