//go:build verif

package builder

import "sort"

// Read-only accessors for the correspondence harness (injected by build overlay, never part of
// the repository).

// VerifSnapshot is a canonical copy of one reassembly snapshot.
type VerifSnapshot struct {
	TimestampMicro int64
	ChunkCount     uint64
	Files          []string   // sorted
	Refs           [][]uint64 // Refs[i] = referenced packet indexes of Files[i], in stored order
}

// VerifSnapshots returns the snapshots the builder currently holds, in order.
func (b *Builder) VerifSnapshots() []VerifSnapshot {
	res := []VerifSnapshot{}
	for _, s := range b.snapshots {
		v := VerifSnapshot{TimestampMicro: s.timestamp.UnixMicro(), ChunkCount: s.chunkCount}
		for fn := range s.referencedPackets {
			v.Files = append(v.Files, fn)
		}
		sort.Strings(v.Files)
		for _, fn := range v.Files {
			v.Refs = append(v.Refs, append([]uint64(nil), s.referencedPackets[fn]...))
		}
		res = append(res, v)
	}
	return res
}
