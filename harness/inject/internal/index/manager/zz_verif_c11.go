//go:build verif

package manager

import "sort"

// Read-only accessors for the C11 correspondence harness (injected by build overlay, never part
// of the repository).

// VerifC11Tag is the internal view of one tag: the real definition (ListTags hides it for marks),
// the match/uncertain sets as id lists and the reverse reference set.
type VerifC11Tag struct {
	Name         string
	Definition   string
	Matches      []uint64
	Uncertain    []uint64
	ReferencedBy []string
	MainTags     []string
	SubQueryTags []string
}

// VerifC11Tags returns all tags sorted by name, read inside the service loop.
func (mgr *Manager) VerifC11Tags() []VerifC11Tag {
	c := make(chan []VerifC11Tag)
	mgr.jobs <- func() {
		res := []VerifC11Tag{}
		for name, t := range mgr.tags {
			vt := VerifC11Tag{Name: name, Definition: t.definition, Matches: []uint64{}, Uncertain: []uint64{}}
			for i := uint(0); t.Matches.Next(&i); i++ {
				vt.Matches = append(vt.Matches, uint64(i))
			}
			for i := uint(0); t.Uncertain.Next(&i); i++ {
				vt.Uncertain = append(vt.Uncertain, uint64(i))
			}
			for r := range t.referencedBy {
				vt.ReferencedBy = append(vt.ReferencedBy, r)
			}
			sort.Strings(vt.ReferencedBy)
			vt.MainTags = append(vt.MainTags, t.features.MainTags...)
			vt.SubQueryTags = append(vt.SubQueryTags, t.features.SubQueryTags...)
			res = append(res, vt)
		}
		sort.Slice(res, func(i, j int) bool { return res[i].Name < res[j].Name })
		c <- res
		close(c)
	}
	return <-c
}
