//go:build verif

package manager

// VerifListenerCount returns the number of registered event listeners, read inside the service loop
// (read-only accessor for the free-running mode of the scenario harness, property C20).
func (mgr *Manager) VerifListenerCount() int {
	c := make(chan int)
	mgr.jobs <- func() {
		c <- len(mgr.listeners)
		close(c)
	}
	return <-c
}
