//go:build verif

package manager

// Accessors for the C19 correspondence harness (injected by build overlay, never part of the
// repository). The upload handler's only contact with the manager is mgr.ImportPcaps; a stub
// manager whose job channel is drained by the harness makes every queued file name observable
// without starting the import machinery.

const verifQueueSentinel = "\x00verif-queue-sentinel"

// VerifUploadStub returns a Manager that has only a job channel. The import queue is seeded with a
// sentinel entry so that the closure posted by ImportPcaps appends to the queue but does not start
// an import job (it starts one only when the queue was empty before).
func VerifUploadStub() *Manager {
	return &Manager{
		jobs:       make(chan func(), 1<<14),
		importJobs: []string{verifQueueSentinel},
	}
}

// VerifDrainImportQueue runs every closure posted so far (as the service loop would) and returns a
// copy of the file names queued for import, in order.
func (mgr *Manager) VerifDrainImportQueue() []string {
	for {
		select {
		case f := <-mgr.jobs:
			f()
		default:
			return append([]string(nil), mgr.importJobs[1:]...)
		}
	}
}

// VerifTruncateImportQueue forgets all but the first n queued names (harness bookkeeping after a
// concurrent-upload experiment).
func (mgr *Manager) VerifTruncateImportQueue(n int) {
	mgr.VerifDrainImportQueue()
	if n+1 < len(mgr.importJobs) {
		mgr.importJobs = mgr.importJobs[:n+1]
	}
}
