//go:build verif

package manager

import (
	"sort"

	"github.com/spq/pkappa2/internal/index"
	"github.com/spq/pkappa2/internal/tools/bitmask"
)

// Read-only accessors for the correspondence harness (injected by build overlay, never part of
// the repository). Everything runs inside the service loop.

type (
	VerifTag struct {
		Name, Definition, Color string
		Matches, Uncertain      []uint
		Converters              []string
		ReferencedBy            []string
		MainTags, SubQueryTags  []string
		MainFeatures, SubFeat   uint8
	}
	VerifState struct {
		Tags                []VerifTag
		Indexes             []string          // filenames in service-list order
		IndexIDs            map[string][]uint64 // stream IDs per served file
		Used                map[string]uint
		NextStreamID        uint64
		AllStreams          []uint
		ImportJobs          []string
		Merge, Tag, Convert bool
		NUnmergeable        int
		NStreamRecords      int
		Updated, Reset      []uint
		Added               []uint
		ToConvert           map[string][]uint
		Converters          []string
		Cached              map[string][]uint64 // converter -> stream ids with cached output
		KnownPcaps          []string
		StateFilename       string
	}
)

func verifBits(bm bitmask.LongBitmask) []uint {
	res := []uint{}
	for i := uint(0); bm.Next(&i); i++ {
		res = append(res, i)
	}
	return res
}

// VerifDump returns a snapshot of the service state, taken inside the service loop.
func (mgr *Manager) VerifDump() VerifState {
	c := make(chan VerifState)
	mgr.jobs <- func() {
		st := VerifState{
			IndexIDs:       map[string][]uint64{},
			Used:           map[string]uint{},
			NextStreamID:   mgr.nextStreamID,
			AllStreams:     verifBits(mgr.allStreams),
			ImportJobs:     append([]string(nil), mgr.importJobs...),
			Merge:          mgr.mergeJobRunning,
			Tag:            mgr.taggingJobRunning,
			Convert:        mgr.converterJobRunning,
			NUnmergeable:   mgr.nUnmergeableIndexes,
			NStreamRecords: mgr.nStreamRecords,
			Updated:        verifBits(mgr.updatedStreamsDuringTaggingJob),
			Reset:          verifBits(mgr.resetStreamsDuringTaggingJob),
			Added:          verifBits(mgr.addedStreamsDuringTaggingJob),
			ToConvert:      map[string][]uint{},
			Cached:         map[string][]uint64{},
			StateFilename:  mgr.stateFilename,
		}
		for n, t := range mgr.tags {
			vt := VerifTag{
				Name: n, Definition: t.definition, Color: t.color,
				Matches: verifBits(t.Matches), Uncertain: verifBits(t.Uncertain),
				Converters:   t.converterNames(),
				MainTags:     append([]string(nil), t.features.MainTags...),
				SubQueryTags: append([]string(nil), t.features.SubQueryTags...),
				MainFeatures: uint8(t.features.MainFeatures), SubFeat: uint8(t.features.SubQueryFeatures),
			}
			for r := range t.referencedBy {
				vt.ReferencedBy = append(vt.ReferencedBy, r)
			}
			sort.Strings(vt.ReferencedBy)
			sort.Strings(vt.MainTags)
			sort.Strings(vt.SubQueryTags)
			st.Tags = append(st.Tags, vt)
		}
		sort.Slice(st.Tags, func(i, j int) bool { return st.Tags[i].Name < st.Tags[j].Name })
		for _, idx := range mgr.indexes {
			st.Indexes = append(st.Indexes, idx.Filename())
		}
		for idx, n := range mgr.usedIndexes {
			st.Used[idx.Filename()] = n
			ids := []uint64{}
			for id := range idx.StreamIDs() {
				ids = append(ids, id)
			}
			sort.Slice(ids, func(i, j int) bool { return ids[i] < ids[j] })
			st.IndexIDs[idx.Filename()] = ids
		}
		for n, bm := range mgr.streamsToConvert {
			st.ToConvert[n] = verifBits(*bm)
		}
		for n, cv := range mgr.converters {
			st.Converters = append(st.Converters, n)
			ids := []uint64{}
			for id := uint64(0); id < mgr.nextStreamID; id++ {
				if cv.Contains(id) {
					ids = append(ids, id)
				}
			}
			st.Cached[n] = ids
		}
		sort.Strings(st.Converters)
		for _, p := range mgr.builder.KnownPcaps() {
			st.KnownPcaps = append(st.KnownPcaps, p.Filename)
		}
		c <- st
		close(c)
	}
	return <-c
}

// VerifViewIndexes returns the file names a view holds (after fetch).
func (v *View) VerifViewIndexes() []string {
	res := []string{}
	for _, idx := range v.indexes {
		res = append(res, idx.Filename())
	}
	return res
}

var _ = index.DirectionClientToServer
