//go:build verif

package index

// Read-only accessors for the C01/C07 correspondence harness (injected by build overlay, never
// part of the repository).

// VerifHosts returns the raw client and server address bytes the reader resolves for a stream.
func (s *Stream) VerifHosts() (client, server []byte) {
	hg := &s.r.hostGroups[s.HostGroup]
	c, sv := hg.get(s.ClientHost), hg.get(s.ServerHost)
	return append([]byte(nil), c...), append([]byte(nil), sv...)
}

// VerifWriterState is a digest of the writer's in-memory tables after an AddStream/AddIndex.
type VerifWriterState struct {
	HostGroupBytes []int // len(hosts) of every host group
	HostGroupSize  []int // hostSize of every host group
	Imports        int
	Packets        int
	Streams        int
	Ref            uint64
}

func (w *Writer) VerifState() VerifWriterState {
	st := VerifWriterState{Imports: len(w.imports), Packets: len(w.packets), Streams: len(w.streams), Ref: w.header.FirstPacketTime}
	for _, g := range w.hostGroups {
		st.HostGroupBytes = append(st.HostGroupBytes, len(g.hosts))
		st.HostGroupSize = append(st.HostGroupSize, g.hostSize)
	}
	return st
}
