//go:build verif

package converters

// Accessor for the C15 correspondence harness (injected by build overlay, never part of the
// repository). It only forwards to the real, unexported cacheFile methods and exposes the
// in-memory accounting read-only.

import (
	"sort"
	"time"

	"github.com/spq/pkappa2/internal/index"
	"github.com/spq/pkappa2/internal/tools/bitmask"
)

type VerifCacheFile struct{ cf *cacheFile }

func VerifOpenCacheFile(path string) (*VerifCacheFile, error) {
	cf, err := NewCacheFile(path)
	if err != nil {
		return nil, err
	}
	return &VerifCacheFile{cf: cf}, nil
}

func (v *VerifCacheFile) Close() error { return v.cf.Close() }
func (v *VerifCacheFile) Reset() error { return v.cf.Reset() }
func (v *VerifCacheFile) Store(id uint64, t0 time.Time, chunks []index.Data) error {
	return v.cf.setData(id, t0, chunks)
}
func (v *VerifCacheFile) Read(id uint64, t0 time.Time) ([]index.Data, uint64, uint64, error) {
	return v.cf.data(id, t0)
}
func (v *VerifCacheFile) Search(id uint64) ([2][]byte, [][2]int, uint64, uint64, bool, error) {
	return v.cf.DataForSearch(id)
}
func (v *VerifCacheFile) Contains(id uint64) bool { return v.cf.Contains(id) }
func (v *VerifCacheFile) Count() uint64           { return v.cf.StreamCount() }

// Invalidate calls the real InvalidateChangedStreams with a LongBitmask holding ids and returns
// the ids reported as invalidated, ascending.
func (v *VerifCacheFile) Invalidate(ids []uint) []uint {
	bm := bitmask.LongBitmask{}
	for _, id := range ids {
		bm.Set(id)
	}
	res := v.cf.InvalidateChangedStreams(&bm)
	out := []uint{}
	for id := uint(0); res.Next(&id); id++ {
		out = append(out, id)
	}
	return out
}

// Accounting returns fileSize, freeSize, freeStart and the offset table sorted by id.
func (v *VerifCacheFile) Accounting() (int64, int64, int64, [][3]uint64) {
	v.cf.rwmutex.RLock()
	defer v.cf.rwmutex.RUnlock()
	infos := make([][3]uint64, 0, len(v.cf.streamInfos))
	for id, in := range v.cf.streamInfos {
		infos = append(infos, [3]uint64{id, uint64(in.offset), in.size})
	}
	sort.Slice(infos, func(i, j int) bool { return infos[i][0] < infos[j][0] })
	return v.cf.fileSize, v.cf.freeSize, v.cf.freeStart, infos
}
