/-
  Model of `Writer.AddIndex` (writer.go 624–858) and `index.Merge` (merger.go), core Lean only.
  The reader side of a merge input is the `Reader` model of IndexFormat.lean.

  Also defines what a user can observe of a stream (`StreamView`: absolute times, host addresses,
  ports, protocol, source packets, payload) and the view of a stack of index files (newest file that
  contains an id wins) — the vocabulary of property C07.
-/
import Pk.Model.IndexFormat

namespace Pk.Index
open Pk Pk.Bytes

/-! ## AddIndex -/

/-- writer.go 647–662 -/
def mergeImports : List ImportKey → List (Bytes × Nat) → List ImportKey × List Nat
  | imports, [] => (imports, [])
  | imports, k :: ks =>
    let (imports', i) := if imports.contains k then (imports, imports.idxOf k) else (imports ++ [k], imports.length)
    let (imports'', remap) := mergeImports imports' ks
    (imports'', (i % 2 ^ 32) :: remap)

structure HgRemap where
  group : Nat
  hostRemap : List Nat
  deriving Repr, DecidableEq, Inhabited

/-- writer.go 700–710: add the hosts `hs` of reader group `rhg` to writer group `g`.
    Result: group, remap so far, number of hosts added, failed. -/
def addHosts (rhg : RHostGroup) : List Nat → HostGroup → List Nat → Nat → HostGroup × List Nat × Nat × Bool
  | [], g, remap, n => (g, remap, n, false)
  | h :: hs, g, remap, n =>
    match g.add (rhg.get h) with
    | none => (g, remap, n, true)
    | some (g', idx, added) => addHosts rhg hs g' (remap ++ [idx]) (if added then n + 1 else n)

/-- writer.go 679–718: first writer group that takes every host of the reader group, else a new group
    (which shares the reader's bytes). A writer group that fails has the hosts it took popped again. -/
def placeGroup (rhg : RHostGroup) : List HostGroup → Nat → List HostGroup × HgRemap
  | [], idx =>
    ([{ hostSize := rhg.hostSize, hosts := rhg.hosts }],
     { group := idx % 65536, hostRemap := (List.range rhg.hostCount).map (· % 65536) })
  | g :: gs, idx =>
    let (g', remap, nAdded, failed) := addHosts rhg (List.range rhg.hostCount) g [] 0
    if failed then
      let (gs', m) := placeGroup rhg gs (idx + 1)
      (g'.popN nAdded :: gs', m)
    else (g' :: gs, { group := idx % 65536, hostRemap := remap })

def placeGroups : List RHostGroup → List HostGroup → List HostGroup × List HgRemap
  | [], gs => (gs, [])
  | rhg :: rest, gs =>
    let (gs', m) := placeGroup rhg gs 0
    let (gs'', ms) := placeGroups rest gs'
    (gs'', m :: ms)

/-- writer.go 763–774 -/
def copyPackets (importRemap : List Nat) : List PacketRec → Except Fail (List PacketRec)
  | [] => .error .err
  | p :: ps =>
    match importRemap[p.imp]? with
    | none => .error .panic
    | some i =>
      let p' := { p with imp := i }
      if p.flags % 2 = 0 then .ok [p']
      else match copyPackets importRemap ps with
        | .error e => .error e
        | .ok r => .ok (p' :: r)

/-- writer.go 791–821: copy segmentation varints until they account for `count` payload bytes -/
def copySeg : Nat → Nat → Bytes → Except Fail Bytes
  | 0, _, _ => .error .err
  | fuel + 1, count, seg =>
    if count = 0 then .ok [] else
    match decVarint seg with
    | none => .error .err
    | some (sz, rest) =>
      if sz > count then .error .panic else
      match copySeg fuel (count - sz) rest with
      | .error e => .error e
      | .ok more => .ok (seg.take (seg.length - rest.length) ++ more)

structure CopyAcc where
  packets : List PacketRec
  streams : List StreamRec     -- new streams, times still relative to the reader's reference second
  blobs : List Bytes
  dataLen : Nat
  minFirst : Nat

/-- writer.go 745–828 -/
def copyStreams (r : Reader) (existing : List Nat) (importRemap : List Nat) (hgRemap : List HgRemap) :
    List StreamRec → CopyAcc → Except Fail CopyAcc
  | [], acc => .ok acc
  | s :: ss, acc =>
    if existing.contains s.id then copyStreams r existing importRemap hgRemap ss acc else
    match hgRemap[s.hg]? with
    | none => .error .panic
    | some hgr =>
      match hgr.hostRemap[s.ch]?, hgr.hostRemap[s.sh]? with
      | some ch, some sh =>
        match copyPackets importRemap (r.f.packets.drop s.pstart) with
        | .error e => .error e
        | .ok ps =>
          let count := add64 s.cb s.sb
          let blobE : Except Fail Bytes :=
            if count = 0 then .ok [] else
            let d := r.f.data.drop s.dataStart
            if d.length < count then .error .err else
            match copySeg (d.length + 1) count (d.drop count) with
            | .error e => .error e
            | .ok seg => .ok (d.take count ++ seg)
          match blobE with
          | .error e => .error e
          | .ok blob =>
            let s' := { s with hg := hgr.group, ch := ch, sh := sh, pstart := acc.packets.length % 2 ^ 32, dataStart := acc.dataLen }
            copyStreams r existing importRemap hgRemap ss
              { packets := acc.packets ++ ps, streams := acc.streams ++ [s'], blobs := acc.blobs ++ [blob],
                dataLen := acc.dataLen + blob.length, minFirst := if acc.minFirst > s.first then s.first else acc.minFirst }
      | _, _ => .error .panic

/-- `Writer.AddIndex`; the boolean is the `added` result (always true below the 2^32 capacity limits) -/
def Writer.addIndex (w : Writer) (r : Reader) : Except Fail (Writer × Bool) :=
  let (imports, importRemap) := mergeImports w.imports r.imports
  let (hgs, hgRemap) := placeGroups r.hostGroups w.hostGroups
  let existing := w.streams.map (·.id)
  match copyStreams r existing importRemap hgRemap r.f.streams
      { packets := w.packets, streams := [], blobs := w.blobs, dataLen := w.dataLen, minFirst := 2 ^ 64 - 1 } with
  | .error e => .error e
  | .ok acc =>
    if acc.streams.isEmpty then
      -- "no new streams": undo. The import table is restored; groups created for this reader are
      -- dropped; hosts added to older groups stay (`nAdded` of the remap entries is never set).
      .ok ({ w with hostGroups := hgs.take w.hostGroups.length }, true)
    else
      let streamCountBefore := w.streams.length
      let newFirst0 := unixSec ((r.f.ref : Int) * 1000000000 + i64 acc.minFirst)
      let newFirst := if streamCountBefore ≠ 0 ∧ newFirst0 > w.ref then w.ref else newFirst0
      let newDiff := mul64 (sub64 r.f.ref newFirst) 1000000000
      let oldDiff := mul64 (sub64 w.ref newFirst) 1000000000
      let shift (d : Nat) (s : StreamRec) : StreamRec := { s with first := add64 s.first d, last := add64 s.last d }
      .ok ({ hostGroups := hgs, imports := imports, packets := acc.packets,
             streams := w.streams.map (shift oldDiff) ++ acc.streams.map (shift newDiff),
             blobs := acc.blobs, dataLen := acc.dataLen, ref := newFirst }, true)

/-! ## Merge -/

/-- merger.go 17–33 for one input: first writer that takes it, else a fresh one -/
def tryWriters : List Writer → Reader → Except Fail (List Writer)
  | [], r =>
    match ({} : Writer).addIndex r with
    | .error e => .error e
    | .ok (w, _) => .ok [w]
  | w :: ws, r =>
    match w.addIndex r with
    | .error e => .error e
    | .ok (w', true) => .ok (w' :: ws)
    | .ok (w', false) =>
      match tryWriters ws r with
      | .error e => .error e
      | .ok ws' => .ok (w' :: ws')

/-- inputs newest first -/
def mergeWriters : List Reader → List Writer → Except Fail (List Writer)
  | [], ws => .ok ws
  | r :: rs, ws =>
    match tryWriters ws r with
    | .error e => .error e
    | .ok ws' => mergeWriters rs ws'

def finalizeAll : List Writer → Except Fail (List Reader)
  | [] => .ok []
  | w :: ws =>
    match newReader w.finalize, finalizeAll ws with
    | .ok r, .ok rs => .ok (r :: rs)
    | .error e, _ => .error e
    | _, .error e => .error e

/-- `index.Merge(indexes)`: `indexes` oldest first, as the manager keeps them -/
def merge (indexes : List Reader) : Except Fail (List Reader) :=
  match mergeWriters indexes.reverse [] with
  | .error e => .error e
  | .ok ws => finalizeAll ws

/-! ## What a user sees -/

structure StreamView where
  client : Bytes
  cport : Nat
  server : Bytes
  sport : Nat
  proto : String
  first : Int          -- absolute unix ns
  last : Int
  cb : Nat
  sb : Nat
  packets : Except Fail (List PacketOut)
  data : Except Fail (List DataOut)

instance : DecidableEq (Except Fail (List PacketOut)) := fun a b =>
  match a, b with
  | .ok x, .ok y => if h : x = y then isTrue (by rw [h]) else isFalse (by intro h'; cases h'; exact h rfl)
  | .error x, .error y => if h : x = y then isTrue (by rw [h]) else isFalse (by intro h'; cases h'; exact h rfl)
  | .ok _, .error _ => isFalse (by intro h; cases h)
  | .error _, .ok _ => isFalse (by intro h; cases h)

instance : DecidableEq (Except Fail (List DataOut)) := fun a b =>
  match a, b with
  | .ok x, .ok y => if h : x = y then isTrue (by rw [h]) else isFalse (by intro h'; cases h'; exact h rfl)
  | .error x, .error y => if h : x = y then isTrue (by rw [h]) else isFalse (by intro h'; cases h'; exact h rfl)
  | .ok _, .error _ => isFalse (by intro h; cases h)
  | .error _, .ok _ => isFalse (by intro h; cases h)

deriving instance DecidableEq for StreamView

/-- everything the reader accessors return for a stream; `none` = resolving the hosts panics -/
def Reader.view (r : Reader) (s : StreamRec) : Option StreamView :=
  match r.hosts s with
  | .error _ => none
  | .ok (c, sv) =>
    some { client := c, cport := s.cp, server := sv, sport := s.sp, proto := protoName s.flags,
           first := r.firstPacket s, last := r.lastPacket s, cb := s.cb, sb := s.sb,
           packets := r.packets s, data := r.data s }

/-- newest file (last of the list) that contains the id -/
def stackLookup : List Reader → Nat → Option (Reader × Nat × StreamRec)
  | [], _ => none
  | r :: rs, id =>
    match stackLookup rs id with
    | some x => some x
    | none => (r.streamByID id).map fun (i, s) => (r, i, s)

def stackView (stack : List Reader) (id : Nat) : Option (Option StreamView) :=
  (stackLookup stack id).map fun (r, _, s) => r.view s

end Pk.Index
