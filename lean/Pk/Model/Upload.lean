/-
  Upload.lean — the two file endpoints of cmd/pkappa2/main.go (POST /upload/{filename},
  GET /api/download/pcap/{file}) as step machines over a disk model, parameterised by the
  *facts* that the go/ast extractor regenerates from the source on every run
  (lean/Pk/Gen/Routes.lean; expectation in Pk/Props/C19.lean).  Core Lean only.

  Upload handler, statement by statement (main.go 96–130):
      filename := chi.URLParam(r, "filename")
      if filename != filepath.Base(filename) { 400; return }                  -- guard
      tools.AssertFolderRWXPermissions(..., filepath.Join(*baseDir, *pcapDir))
      fullFilename := filepath.Join(*baseDir, *pcapDir, filename)
      dst, err := os.OpenFile(fullFilename, O_CREATE|O_EXCL|O_WRONLY, 0666)   -- step `start`
      if err != nil { 500; return }
      if _, err := io.Copy(dst, r.Body); err != nil {                         -- step `opened`
          500; dst.Close(); os.Remove(fullFilename); return }                 -- steps `copyFailed`, `cfClosed`
      if err := dst.Close(); err != nil { 500; os.Remove(fullFilename); return }   -- step `copied`
      mgr.ImportPcaps([]string{filename}); 200                                -- step `closed`
  Every line that touches the file system or the manager is one atomic step of a request, so
  that concurrent requests can be interleaved at exactly the points where the Go scheduler can
  switch between handler goroutines in a way that is visible on disk.
-/
import Pk.Model.Path

namespace Pk.Upload
open Pk.Path

/-- summary facts about the two handlers (regenerated from the source) the model depends on -/
structure Facts where
  upGuard : Bool            -- `filename != filepath.Base(filename)` → return precedes every fs call
  upCreate : Bool           -- os.O_CREATE among the OpenFile flags
  upExcl : Bool             -- os.O_EXCL
  upTrunc : Bool            -- os.O_TRUNC
  upRemoveOnCopyFail : Bool -- error path of io.Copy removes fullFilename
  upImports : Nat           -- number of mgr.ImportPcaps([]string{filename}) calls on the success path
  downGuard : Bool
  deriving DecidableEq, Repr

/-- what the unchanged tree says -/
def Facts.expected : Facts :=
  { upGuard := true, upCreate := true, upExcl := true, upTrunc := false,
    upRemoveOnCopyFail := true, upImports := 1, downGuard := true }

/-- what the go/ast extractor records about one handler registration -/
structure HandlerFacts where
  method : String            -- router method used to register it (Post / Get / ...)
  pattern : String           -- chi route pattern
  paramVar : String          -- variable assigned from chi.URLParam
  paramKey : String          -- name of the URL parameter
  guardFirst : Bool          -- the base-name guard precedes every other call; the variable is never rewritten
  joinArgs : List String     -- argument lists of the filepath.Join calls
  events : List String       -- normalised statement listing (message literals masked)
  deriving DecidableEq, Repr

/-- everything regenerated from cmd/pkappa2/main.go (Pk/Gen/Routes.lean) -/
structure Routes where
  uploads : List HandlerFacts
  downloads : List HandlerFacts
  openFlags : List String
  openPerm : String
  mainPath : List String       -- calls of the upload handler outside error branches, in order
  openFailPath : List String
  copyFailPath : List String
  closeFailPath : List String
  facts : Facts
  deriving DecidableEq, Repr

/-! ### disk -/

/-- a request body is identified by a number; a file holds a body, completely (`upto = none`)
    or only its first `k` bytes (`some k`, copy interrupted); `owner` = request that created it
    (0 = was there before) -/
structure File where
  body : Nat
  upto : Option Nat
  owner : Nat
  deriving DecidableEq, Repr

inductive Entry
  | file (f : File)
  | dir
  deriving DecidableEq, Repr

/-- cleaned absolute or relative path ↦ entry; at most one binding per path is ever looked at -/
abbrev Disk := List (P × Entry)

def Disk.lookup (d : Disk) (k : P) : Option Entry :=
  match d with
  | [] => none
  | (k', e) :: t => if k' = k then some e else Disk.lookup t k

def Disk.erase (d : Disk) (k : P) : Disk := d.filter (fun x => x.1 ≠ k)

def Disk.insert (d : Disk) (k : P) (e : Entry) : Disk := (k, e) :: Disk.erase d k

/-- names the operating system refuses (open(2): EINVAL for NUL through Go's syscall layer,
    ENAMETOOLONG for an element over 255 bytes or a path over 4095) -/
def hasNul (full : P) : Bool := full.contains (Char.ofNat 0)
def tooLong (full : P) : Bool := (base full).length > 255 || full.length > 4095
def sysRejects (full : P) : Bool := hasNul full || tooLong full

/-! ### upload request as a step machine -/

inductive Pc
  | start | opened | copyFailed | cfClosed | copied | closed | done
  deriving DecidableEq, Repr

structure Req where
  id : Nat                 -- ≥ 1
  param : P                -- chi.URLParam(r, "filename")
  body : Nat
  failAt : Option Nat      -- io.Copy returns an error after this many bytes
  pc : Pc := .start
  code : Nat := 0          -- HTTP status once `done`
  deriving DecidableEq, Repr

structure World where
  disk : Disk
  queue : List P           -- names handed to mgr.ImportPcaps, in order
  deriving DecidableEq, Repr

structure Cfg where
  facts : Facts
  baseDir : P
  pcapDir : P

def Cfg.captureDir (c : Cfg) : P := join [c.baseDir, c.pcapDir]
def Cfg.full (c : Cfg) (param : P) : P := join [c.baseDir, c.pcapDir, param]

def finish (r : Req) (code : Nat) : Req := { r with pc := .done, code := code }

/-- one atomic step of request `r` -/
def step (c : Cfg) (w : World) (r : Req) : World × Req :=
  let full := c.full r.param
  match r.pc with
  | .start =>
    if c.facts.upGuard && r.param ≠ base r.param then (w, finish r 400)
    else if sysRejects full then (w, finish r 500)
    else match w.disk.lookup full with
      | some .dir => (w, finish r 500)                               -- EISDIR / EEXIST
      | some (.file f) =>
        if c.facts.upExcl && c.facts.upCreate then (w, finish r 500) -- EEXIST
        else if c.facts.upTrunc then
          ({ w with disk := w.disk.insert full (.file { f with body := r.body, upto := some 0 }) },
           { r with pc := .opened })
        else (w, { r with pc := .opened })
      | none =>
        if c.facts.upCreate then
          ({ w with disk := w.disk.insert full (.file ⟨r.body, some 0, r.id⟩) }, { r with pc := .opened })
        else (w, finish r 500)                                       -- ENOENT
  | .opened =>
    -- io.Copy(dst, r.Body): writes through the descriptor opened above
    let written : Option Nat := r.failAt
    let d' := match w.disk.lookup full with
      | some (.file f) => w.disk.insert full (.file { f with body := r.body, upto := written })
      | _ => w.disk          -- file was unlinked meanwhile: the bytes go to the orphaned inode
    ({ w with disk := d' }, { r with pc := if r.failAt.isSome then .copyFailed else .copied })
  | .copyFailed => (w, { r with pc := .cfClosed })                   -- dst.Close()
  | .cfClosed =>
    if c.facts.upRemoveOnCopyFail then
      let d' := match w.disk.lookup full with
        | some (.file _) => w.disk.erase full                        -- os.Remove(fullFilename)
        | _ => w.disk
      ({ w with disk := d' }, finish r 500)
    else (w, finish r 500)
  | .copied => (w, { r with pc := .closed })                         -- dst.Close() (failure not modelled)
  | .closed =>
    ({ w with queue := w.queue ++ List.replicate c.facts.upImports r.param }, finish r 200)
  | .done => (w, r)

/-- run one request to completion (sequential request) -/
def runReq (c : Cfg) (w : World) (r : Req) : World × Req :=
  let s1 := step c w r
  let s2 := step c s1.1 s1.2
  let s3 := step c s2.1 s2.2
  let s4 := step c s3.1 s3.2
  step c s4.1 s4.2

/-! ### several requests in flight -/

structure Sys where
  world : World
  reqs : List Req
  deriving DecidableEq, Repr

def setAt (l : List Req) (i : Nat) (r : Req) : List Req :=
  match l, i with
  | [], _ => []
  | _ :: t, 0 => r :: t
  | h :: t, i + 1 => h :: setAt t i r

/-- request number `i` performs its next atomic step (no-op if there is no such request) -/
def Sys.step (c : Cfg) (s : Sys) (i : Nat) : Sys :=
  match s.reqs[i]? with
  | none => s
  | some r =>
    let x := Upload.step c s.world r
    { world := x.1, reqs := setAt s.reqs i x.2 }

def Sys.run (c : Cfg) (s : Sys) (sched : List Nat) : Sys := sched.foldl (Sys.step c) s

def Sys.allDone (s : Sys) : Bool := s.reqs.all (·.pc = .done)

/-- all complete schedules of two requests (each needs at most 5 steps): interleavings of
    five 0s and five 1s.  Used by the driver to enumerate outcomes of a race. -/
def interleavings : Nat → Nat → List (List Nat)
  | 0, 0 => [[]]
  | a + 1, 0 => (interleavings a 0).map (0 :: ·)
  | 0, b + 1 => (interleavings 0 b).map (1 :: ·)
  | a + 1, b + 1 => (interleavings a (b + 1)).map (0 :: ·) ++ (interleavings (a + 1) b).map (1 :: ·)

/-! ### download request -/

inductive DownResult
  | code (n : Nat)              -- 400 / 404 / 500 / 301
  | served (f : File)           -- 200 with the content of this file
  deriving DecidableEq, Repr

/-- GET handler: `urlPath` is `r.URL.Path` (what `http.ServeFile` inspects), `param` what chi extracted.
    Returns the path handed to `http.ServeFile` (if any) and the outcome. -/
def download (c : Cfg) (d : Disk) (urlPath param : P) : Option P × DownResult :=
  if c.facts.downGuard && param ≠ base param then (none, .code 400)
  else
    let full := c.full param
    if containsDotDot urlPath then (none, .code 400)                 -- http.ServeFile's own check
    else if hasNul full then (none, .code 404)                       -- http.Dir.Open: filepath.Localize refuses
    else if tooLong full then (some full, .code 500)                 -- os.Open: ENAMETOOLONG
    else match d.lookup full with
      | none => (some full, .code 404)
      | some .dir => (some full, .code 301)
      | some (.file f) => (some full, .served f)

end Pk.Upload
