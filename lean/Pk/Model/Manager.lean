/-
  Pk.Model.Manager — the service loop of /repo/internal/index/manager/manager.go as a transition
  system.  One `Ev` per closure executed by the service loop (API calls and the four background
  job completions); each `step` case is a transliteration of that closure.

  What the model does NOT compute is supplied by the event as a payload observed on the real
  system (and checked by the harness oracle independently):
    * the facts `query.Parse` reports for a definition (features, referenced tags, id list),
    * the builder's result of an import (created files, updated/reset/added ids),
    * the search result of a tagging job, the files produced by a merge,
    * which tag `startTaggingJobIfNeeded` picked (Go map iteration order) — validated to be eligible.
  Everything else (uncertainty propagation, masks, queues, flags, lock counts, converter queues
  and caches, views) is computed here and compared with the real state after every event.

  Core Lean only (linked into `pkmodel`).
-/
namespace Pk.Mgr

/-! ## finite sets of stream ids as strictly increasing lists -/

abbrev IdSet := List Nat

def ins (x : Nat) : List Nat → List Nat
  | [] => [x]
  | y :: ys => if x < y then x :: y :: ys else if x = y then y :: ys else y :: ins x ys

def union (a b : IdSet) : IdSet := b.foldl (fun acc x => ins x acc) a
def diff (a b : IdSet) : IdSet := a.filter (fun x => !b.contains x)
def inter (a b : IdSet) : IdSet := a.filter (fun x => b.contains x)
def rangeSet (n : Nat) : IdSet := List.range n
def ofList (l : List Nat) : IdSet := union [] l

/-! ## assoc lists keyed by String / Nat, kept sorted by key -/

def sins {α} (k : String) (v : α) : List (String × α) → List (String × α)
  | [] => [(k, v)]
  | (k', v') :: r => if k < k' then (k, v) :: (k', v') :: r else if k = k' then (k, v) :: r else (k', v') :: sins k v r
def sget {α} (l : List (String × α)) (k : String) : Option α := (l.find? (·.1 == k)).map (·.2)
def sdel {α} (l : List (String × α)) (k : String) : List (String × α) := l.filter (·.1 != k)

def nins {α} (k : Nat) (v : α) : List (Nat × α) → List (Nat × α)
  | [] => [(k, v)]
  | (k', v') :: r => if k < k' then (k, v) :: (k', v') :: r else if k = k' then (k, v) :: r else (k', v') :: nins k v r
def nget {α} (l : List (Nat × α)) (k : Nat) : Option α := (l.find? (·.1 == k)).map (·.2)
def ndel {α} (l : List (Nat × α)) (k : Nat) : List (Nat × α) := l.filter (·.1 != k)

/-- insert into a sorted list of strings (set semantics) -/
def strIns (x : String) : List String → List String
  | [] => [x]
  | y :: ys => if x < y then x :: y :: ys else if x = y then y :: ys else y :: strIns x ys
def strSet (l : List String) : List String := l.foldl (fun acc x => strIns x acc) []

/-! ## state -/

/-- feature bits of `query.Feature` -/
def fID : Nat := 1
def fTimeAbs : Nat := 16
def fTimeRel : Nat := 32
def fData : Nat := 128

structure Tag where
  defn : String
  mainT : List String         -- Features().MainTags (sorted)
  subT : List String          -- Features().SubQueryTags (sorted)
  mfeat : Nat
  sfeat : Nat
  isMarkDef : Bool := false   -- not used by the loop; kept for printing
  mat : IdSet := []
  unc : IdSet := []
  color : String := ""
  convs : List String := []
  refBy : List String := []   -- sorted set
  gen : Nat := 0              -- identity of the AddTag call that created the tag (`created`); updates keep it
deriving Repr, Inhabited, BEq

def Tag.refs (t : Tag) : List String := strSet (t.mainT ++ t.subT)

structure St where
  tags : List (String × Tag) := []
  idx : List Nat := []                    -- service list: file ordinals, oldest first
  files : List (Nat × List Nat) := []     -- content (stream ids) of every open file
  used : List (Nat × Nat) := []           -- lock counts
  next : Nat := 0
  ngen : Nat := 0                         -- number of tags created so far (source of `Tag.gen`)
  all : Nat := 0                          -- allStreams = {0..all-1}
  queue : List String := []
  merge : Bool := false
  tag : Bool := false
  convert : Bool := false
  unm : Nat := 0
  nrec : Nat := 0
  upd : IdSet := []
  rst : IdSet := []
  add : IdSet := []
  toconv : List (String × IdSet) := []
  cached : List (String × IdSet) := []
  convs : List String := []
  pcaps : List String := []
  -- in-flight jobs with the arguments they captured at start
  jImport : Option (Nat × List Nat) := none           -- nextStreamID, held files
  jTag : Option (String × Tag × List Nat) := none     -- name, tag snapshot, held files
  jMerge : Option (Nat × List Nat) := none            -- offset, held files (= inputs)
  jConv : Option (List (String × IdSet) × List Nat) := none
  views : List (Nat × List Nat) := []
  diverged : Bool := false                            -- a fixed-point walk ran out of fuel
  badChoice : Bool := false                           -- the reported tagging choice was not eligible
deriving Inhabited

/-! ## index locks -/

def lock (used : List (Nat × Nat)) (fs : List Nat) : List (Nat × Nat) :=
  fs.foldl (fun u f => nins f ((nget u f).getD 0 + 1) u) used

/-- `indexReleaser.release`: decrement; at zero the file is closed and removed -/
def release (s : St) (fs : List Nat) : St :=
  fs.foldl (fun s f =>
    match nget s.used f with
    | none => s
    | some n => if n ≤ 1 then { s with used := ndel s.used f, files := ndel s.files f }
                else { s with used := nins f (n - 1) s.used }) s

/-! ## uncertainty propagation -/

def tagUnc (tags : List (String × Tag)) (n : String) : IdSet := ((sget tags n).map (·.unc)).getD []

/-- the body executed for a tag once all tags it references are resolved -/
def inheritOne (all : Nat) (tags : List (String × Tag)) (t : Tag) : Tag :=
  if t.mainT.isEmpty && t.subT.isEmpty then t
  else if t.subT.any (fun r => !(tagUnc tags r).isEmpty) then { t with unc := rangeSet all }
  else { t with unc := t.mainT.foldl (fun u r => union u (tagUnc tags r)) t.unc }

/-- one sweep over the tag table in name order -/
def inheritPass (all : Nat) (tags : List (String × Tag)) (resolved : List String) :
    List (String × Tag) × List String :=
  tags.foldl (fun (acc : List (String × Tag) × List String) (nt : String × Tag) =>
    let (tags, resolved) := acc
    let n := nt.1
    if resolved.contains n then acc
    else match sget tags n with
      | none => acc
      | some t =>
        if t.refs.all (fun r => resolved.contains r) then
          (sins n (inheritOne all tags t) tags, n :: resolved)
        else acc) (tags, resolved)

def inheritLoop (all : Nat) : Nat → List (String × Tag) → List String → List (String × Tag) × Bool
  | 0, tags, resolved => (tags, resolved.length == tags.length)
  | fuel + 1, tags, resolved =>
    if resolved.length == tags.length then (tags, true)
    else
      let (tags', resolved') := inheritPass all tags resolved
      inheritLoop all fuel tags' resolved'

/-- `inheritTagUncertainty` -/
def inherit (s : St) : St :=
  let (tags, ok) := inheritLoop s.all (s.tags.length + 1) s.tags []
  { s with tags := tags, diverged := s.diverged || !ok }

/-- `invalidateTags` -/
def invalidateTags (s : St) (upd rst add : IdSet) : St :=
  let tags := s.tags.map fun (n, t) =>
    if t.sfeat ≠ 0 then (n, { t with unc := rangeSet s.all })
    else if t.mfeat &&& (255 - fID) == 0 then
      (if add.isEmpty then (n, t) else (n, { t with unc := union t.unc add }))
    else
      let u := union (union t.unc add) rst
      let u := if t.mfeat &&& (fData ||| fTimeAbs ||| fTimeRel) ≠ 0 then union u upd else u
      (n, { t with unc := u })
  inherit { s with tags := tags }

/-- `invalidatedDuringTaggingJob`: edits of tags while a tagging job runs are re-applied at its completion -/
def invalidatedDuringTaggingJob (s : St) (ids : IdSet) : St :=
  if s.tag then { s with rst := union s.rst ids } else s

/-- `invalidateConverters` -/
def invalidateConverters (s : St) (upd : IdSet) : St :=
  s.convs.foldl (fun s c =>
    let cache := (sget s.cached c).getD []
    let inv := inter upd cache
    { s with cached := sins c (diff cache inv) s.cached,
             toconv := sins c (union ((sget s.toconv c).getD []) inv) s.toconv }) s

/-! ## job starts -/

def getIndexesCopy (s : St) (start : Nat) : St × List Nat :=
  let fs := s.idx.drop start
  ({ s with used := lock s.used fs }, fs)

def fileCount (s : St) (f : Nat) : Nat := ((nget s.files f).map (·.length)).getD 0

/-- the eligibility scan of `startMergeJobIfNeeded` -/
def mergeOffsetGo (s : St) : List Nat → Nat → Nat → Option Nat
  | [], _, _ => none
  | f :: fs, i, n =>
    let c := fileCount s f
    let n := n - c
    if i ≥ s.unm ∧ c < n then some i else mergeOffsetGo s fs (i + 1) n

def mergeOffset (s : St) : Option Nat := mergeOffsetGo s s.idx 0 s.nrec

/-- `startMergeJobIfNeeded` -/
def startMerge (s : St) : St :=
  if s.merge || s.tag || s.convert || !s.queue.isEmpty then s
  else if s.tags.any (fun nt => !nt.2.unc.isEmpty) then s
  else match mergeOffset s with
    | none => s
    | some i =>
      let (s, fs) := getIndexesCopy s i
      { s with merge := true, jMerge := some (i, fs) }

/-- a tag is eligible for `startTaggingJobIfNeeded` -/
def eligible (s : St) (t : Tag) : Bool :=
  !t.unc.isEmpty && t.refs.all (fun r => (tagUnc s.tags r).isEmpty)

/-- `startTaggingJobIfNeeded`; `choice` is the tag the real service picked (map iteration order) -/
def startTagging (s : St) (choice : Option String) : St :=
  if s.tag then s
  else if !(s.tags.any (fun nt => eligible s nt.2)) then s
  else
    let pick : Option (String × Tag) :=
      match choice with
      | some n => (match sget s.tags n with
          | some t => if eligible s t then some (n, t) else none
          | none => none)
      | none => none
    match pick with
    | none =>
      -- the implementation started a job (some tag is eligible) but the reported choice is not
      -- an eligible tag: fall back to the first eligible one and flag it
      match s.tags.find? (fun nt => eligible s nt.2) with
      | none => s
      | some (n, t) =>
        let (s, fs) := getIndexesCopy s 0
        { s with tag := true, upd := [], rst := [], add := [], jTag := some (n, t, fs), badChoice := true }
    | some (n, t) =>
      let (s, fs) := getIndexesCopy s 0
      { s with tag := true, upd := [], rst := [], add := [], jTag := some (n, t, fs) }

/-- `startConverterJobIfNeeded`. The conversions themselves run before the job reaches its
    gate, so the cache already holds the requested streams when the next event is processed. -/
def startConverter (s : St) : St :=
  if s.convert then s
  else
    let active := s.convs.filterMap fun c =>
      let req := (sget s.toconv c).getD []
      if req.isEmpty then none else some (c, req)
    if active.isEmpty then s
    else
      let s := active.foldl (fun s (c, _) => { s with toconv := sins c [] s.toconv }) s
      let (s, fs) := getIndexesCopy s 0
      -- a stream that is in none of the held files fails twice and is dropped from the set
      let found : IdSet := fs.foldl (fun acc f => union acc ((nget s.files f).getD [])) []
      -- streams already cached are reported back as not converted (`alreadyCached` → Unset)
      let remaining := active.map fun (c, req) => (c, inter (diff req ((sget s.cached c).getD [])) found)
      let s := active.foldl (fun s (c, req) =>
        { s with cached := sins c (union ((sget s.cached c).getD []) (inter req found)) s.cached }) s
      { s with convert := true, jConv := some (remaining, fs) }

/-- start of `importPcapJob` with the whole queue as its batch. The builder appends the batch to
    its list of known captures inside the job goroutine, i.e. before the job reaches its gate. -/
def startImport (s : St) : St :=
  let (s, fs) := getIndexesCopy s 0
  { s with jImport := some (s.next, fs), pcaps := s.pcaps ++ s.queue }

/-! ## events -/

structure Facts where
  err : Bool
  main : List String
  sub : List String
  mfeat : Nat
  sfeat : Nat
  idsok : Bool
  ids : List Nat
deriving Inhabited

structure Started where
  tag : Option String := none
deriving Inhabited

inductive Ev where
  | nop
  | importPcaps (names : List String)
  | importDone (processed usednew : Nat) (created : List (Nat × List Nat)) (upd rst add : List Nat)
  | tagDone (name : String) (result : List Nat)
  | mergeDone (merged : List (Nat × List Nat))
  | convertDone
  | addTag (name color defn : String) (f : Facts)
  | updQuery (name defn : String) (f : Facts)
  | updColor (name color : String)
  | updName (name new : String)
  | updConv (name : String) (convs : List String)
  | markAdd (name : String) (ids : List Nat)
  | markDel (name : String) (ids : List Nat)
  | delTag (name : String)
  | viewOpen (k : Nat)
  | viewRelease (k : Nat)
deriving Inhabited

inductive Res where
  | ok | err | none
deriving BEq, Repr, Inhabited

def parseTagName (full : String) : String × String × Bool :=
  match full.splitOn "/" with
  | typ :: rest@(_ :: _) =>
    let name := "/".intercalate rest
    let isMark := typ == "mark" || typ == "generated"
    if typ != "tag" && typ != "service" && !isMark then ("", "", false) else (typ, name, isMark)
  | _ => ("", "", false)

def setTag (s : St) (n : String) (t : Tag) : St := { s with tags := sins n t s.tags }

def addRefBy (s : St) (target referrer : String) : St :=
  match sget s.tags target with
  | some t => setTag s target { t with refBy := strIns referrer t.refBy }
  | none => s
def delRefBy (s : St) (target referrer : String) : St :=
  match sget s.tags target with
  | some t => setTag s target { t with refBy := t.refBy.filter (· != referrer) }
  | none => s

/-- `attachConverterToTag` -/
def attachConv (s : St) (n : String) (c : String) : St × Bool :=
  match sget s.tags n with
  | none => (s, false)
  | some t =>
    if t.convs.contains c then (s, true)
    else if t.mfeat &&& fData ≠ 0 || t.sfeat &&& fData ≠ 0 || !t.mainT.isEmpty || !t.subT.isEmpty then (s, false)
    else
      let s := setTag s n { t with convs := t.convs ++ [c] }
      ({ s with toconv := sins c (union ((sget s.toconv c).getD []) t.mat) s.toconv }, true)

/-- `converterOutputDropped`: every tag that looks at payload becomes pending for all streams (a data filter
    also matches on cached converter output, which is gone), then the uncertainty sweep, the during-job mask
    and `startTaggingJobIfNeeded` -/
def outputDropped (s : St) (choice : Option String) : St :=
  if s.tags.any (fun nt => (nt.2.mfeat ||| nt.2.sfeat) &&& fData != 0) then
    let s := { s with tags := s.tags.map fun (n, t) =>
      if (t.mfeat ||| t.sfeat) &&& fData != 0 then (n, { t with unc := rangeSet s.all }) else (n, t) }
    let s := inherit s
    let s := invalidatedDuringTaggingJob s (rangeSet s.all)
    startTagging s choice
  else s

/-- `detachConverterFromTag` -/
def detachConv (s : St) (n : String) (c : String) (choice : Option String := none) : St :=
  match sget s.tags n with
  | none => s
  | some t =>
    let t' := { t with convs := t.convs.filter (· != c) }
    let s := setTag s n t'
    let others := s.tags.foldl (fun acc (n', t2) =>
      if n' != n && t2.convs.contains c then union acc t2.mat else acc) ([] : IdSet)
    -- "only keep streams queued that the other tags still need"
    let s := { s with toconv := sins c (inter ((sget s.toconv c).getD []) others) s.toconv }
    if others.isEmpty then outputDropped { s with cached := sins c [] s.cached } choice else s

def isPlainIdList (d : String) : Bool :=
  d.startsWith "id:" &&
    let rest := (d.drop 3).toString
    let parts := rest.splitOn ","
    !rest.isEmpty && parts.all (fun p => !p.isEmpty && p.all Char.isDigit)

def mkQuery (ids : List Nat) : String := "id:" ++ ",".intercalate (ids.map toString)

/-- the closure of `UpdateTag` for a mark add / mark del (after the `maxUsedStreamID` prologue) -/
def markUpdate (s : St) (name : String) (addIds delIds : List Nat) : St × Res :=
  match sget s.tags name with
  | none => (s, .err)
  | some t =>
    let prevU := t.unc
    -- add
    let (t, s) :=
      if addIds.isEmpty then (t, s) else
        let fresh := addIds.foldl (fun (acc : List Nat) x => if t.mat.contains x || acc.contains x then acc else acc ++ [x]) []
        let t1 := { t with mat := union t.mat fresh, unc := union t.unc fresh }
        let s := t.convs.foldl (fun s c => { s with toconv := sins c (union ((sget s.toconv c).getD []) fresh) s.toconv }) s
        if fresh.isEmpty then (t1, s)
        else
          let mq := mkQuery fresh
          let d := if t1.defn == "id:-1" then mq
                   else if isPlainIdList t1.defn then t1.defn ++ "," ++ (mq.drop 3)
                   else "(" ++ t1.defn ++ ") or " ++ mq
          ({ t1 with defn := d }, s)
    -- del
    let t :=
      if delIds.isEmpty then t else
        let gone := delIds.filter (fun x => t.mat.contains x)
        let t1 := { t with mat := diff t.mat gone, unc := union t.unc gone }
        if t1.mat.isEmpty then { t1 with defn := "id:-1" } else { t1 with defn := mkQuery t1.mat }
    let s := setTag s name t
    let s := inherit s
    let s := invalidatedDuringTaggingJob s t.unc
    let s := match sget s.tags name with
      | some t' => setTag s name { t' with unc := prevU }
      | none => s
    (s, .ok)

/-- one sweep of `createsTagCycle`: resolve every tag whose references are all resolved -/
def cyclePass (tags : List (String × Tag)) (resolved : List String) : List String :=
  tags.foldl (fun resolved (n, t) =>
    if resolved.contains n then resolved
    else if t.refs.all (fun r => resolved.contains r) then n :: resolved else resolved) resolved

def cycleLoop : Nat → List (String × Tag) → List String → List String
  | 0, _, resolved => resolved
  | fuel + 1, tags, resolved =>
    let r' := cyclePass tags resolved
    if r'.length == resolved.length then resolved else cycleLoop fuel tags r'

/-- `createsTagCycle`: would replacing `name` by `nt` leave tags that can never be resolved? -/
def createsTagCycle (tags : List (String × Tag)) (name : String) (nt : Tag) : Bool :=
  let tags' := tags.map fun (n, t) => if n == name then (n, nt) else (n, t)
  (cycleLoop (tags'.length + 1) tags' []).length != tags'.length

def step (s : St) (e : Ev) (st : Started) : St × Res :=
  match e with
  | .nop => (s, .none)
  | .importPcaps names =>
    if names.isEmpty then (s, .none) else
    let s := { s with queue := s.queue ++ names }
    (if s.queue.length == names.length then startImport s else s, .none)
  | .importDone processed usednew created upd rst add =>
    match s.jImport with
    | none => (s, .none)
    | some (jnext, held) =>
      let upd := ofList upd; let rst := ofList rst; let add := ofList add
      let next' := jnext + usednew
      let s := { s with all := next', jImport := none }
      let s := release s held
      let s :=
        if created.isEmpty then s else
          let ords := created.map (·.1)
          let s := { s with idx := s.idx ++ ords,
                            files := created.foldl (fun fs (o, ids) => nins o ids fs) s.files,
                            nrec := s.nrec + (created.map (·.2.length)).sum,
                            next := next',
                            used := lock s.used ords,
                            upd := union s.upd upd, rst := union s.rst rst, add := union s.add add }
          let s := invalidateTags s upd rst add
          invalidateConverters (invalidateConverters s upd) rst
      let s := { s with queue := s.queue.drop processed }
      let s := if s.queue.isEmpty then s else startImport s
      let s := startTagging s st.tag
      let s := startConverter s
      let s := startMerge s
      (s, .none)
  | .tagDone name result =>
    match s.jTag with
    | none => (s, .none)
    | some (jn, snap, held) =>
      if jn != name then ({ s with badChoice := true }, .none) else
      let result := ofList result
      let newMatches := union (diff snap.mat snap.unc) result
      let s := { s with jTag := none }
      let s :=
        match sget s.tags name with
        | some ot =>
          -- "don't touch the tag if it was modified, or deleted and added again while the job was running"
          if ot.defn == snap.defn && ot.gen == snap.gen then
            let t : Tag := { snap with mat := newMatches, unc := [], color := ot.color, convs := ot.convs, refBy := ot.refBy }
            let s := t.convs.foldl (fun (s : St) c => { s with toconv := sins c (union ((sget s.toconv c).getD []) t.mat) s.toconv }) s
            let s := setTag s name t
            if s.upd.isEmpty && s.rst.isEmpty && s.add.isEmpty then s
            else invalidateTags s s.upd s.rst s.add
          else s
        | none => s
      let s := { s with tag := false }
      let s := startTagging s st.tag
      let s := startConverter s
      let s := startMerge s
      (release s held, .none)
  | .mergeDone merged =>
    match s.jMerge with
    | none => (s, .none)
    | some (off, held) =>
      let s := { s with jMerge := none }
      let s :=
        if merged.isEmpty then { s with unm := s.unm + 1 }
        else
          let old := (s.idx.drop off).take held.length
          let s := release s old
          let ords := merged.map (·.1)
          let before := (old.map (fileCountOf s.files held)).sum
          { s with used := lock s.used ords,
                   files := merged.foldl (fun fs (o, ids) => nins o ids fs) s.files,
                   idx := s.idx.take off ++ ords ++ s.idx.drop (off + held.length),
                   unm := s.unm + (merged.length - 1),
                   nrec := s.nrec + (merged.map (·.2.length)).sum - before }
      let s := { s with merge := false }
      let s := startMerge s
      (release s held, .none)
  | .convertDone =>
    match s.jConv with
    | none => (s, .none)
    | some (sets, held) =>
      let s := { s with convert := false, jConv := none }
      let s := sets.foldl (fun s (c, ids) =>
        if !s.convs.contains c then s
        else
          let tags := s.tags.map fun (n, t) =>
            if t.sfeat &&& fData != 0 then (n, if ids.isEmpty then t else { t with unc := rangeSet s.all })
            else if t.mfeat &&& fData == 0 then (n, t)
            else (n, { t with unc := union t.unc ids })
          { s with tags := tags, upd := union s.upd ids }) s
      let s := inherit s
      let s := startTagging s st.tag
      let s := startConverter s
      (release s held, .none)
  | .addTag name color defn f =>
    let (typ, sub, isMark) := parseTagName name
    if typ == "" || sub == "" then (s, .err)
    else if f.err then (s, .err)
    else
      let nt : Tag := { defn := defn, mainT := f.main, subT := f.sub, mfeat := f.mfeat, sfeat := f.sfeat, color := color, isMarkDef := isMark,
                        gen := s.ngen }
      if nt.refs.contains name then (s, .err)
      else if isMark && !f.idsok then (s, .err)
      else if (sget s.tags name).isSome then (s, .err)
      else if nt.refs.any (fun r => (sget s.tags r).isNone) then (s, .err)
      else
        let (s, nt) :=
          if isMark then (s, { nt with mat := ofList f.ids })
          else (s, { nt with unc := rangeSet s.all })
        let s := setTag { s with ngen := s.ngen + 1 } name nt
        let s := if isMark then s else startTagging s st.tag
        let s := nt.refs.foldl (fun s r => addRefBy s r name) s
        (s, .ok)
  | .updQuery name defn f =>
    if f.err then (s, .err)
    else
      let nt : Tag := { defn := defn, mainT := f.main, subT := f.sub, mfeat := f.mfeat, sfeat := f.sfeat }
      if nt.refs.contains name then (s, .err)
      else if (name.startsWith "mark/" || name.startsWith "generated/") && !f.idsok then (s, .err)
      else match sget s.tags name with
        | none => (s, .err)
        | some t =>
          if nt.refs.any (fun r => (sget s.tags r).isNone) then (s, .err)
          else if createsTagCycle s.tags name nt then (s, .err)
          else if !t.convs.isEmpty &&
              (nt.mfeat &&& fData ≠ 0 || nt.sfeat &&& fData ≠ 0 || !nt.mainT.isEmpty || !nt.subT.isEmpty) then (s, .err)
          else
          let nt := { nt with color := t.color, convs := t.convs, refBy := t.refBy, gen := t.gen, unc := rangeSet s.all }
          let before := t.refs
          let after := nt.refs
          let s := (before.filter (fun r => !after.contains r)).foldl (fun s r => delRefBy s r name) s
          let s := (after.filter (fun r => !before.contains r)).foldl (fun s r => addRefBy s r name) s
          let s := setTag s name nt
          let s := inherit s
          let s := invalidatedDuringTaggingJob s (rangeSet s.all)
          let s := startTagging s st.tag
          let s := startConverter s
          (s, .ok)
  | .updColor name color =>
    match sget s.tags name with
    | none => (s, .err)
    | some t => (if color == "" then s else setTag s name { t with color := color }, .ok)
  | .updName name new =>
    match sget s.tags name with
    | none => (s, .err)
    | some t =>
      if new == "" then (s, .ok) else
      let (oldTyp, _, _) := parseTagName name
      let (newTyp, newSub, _) := parseTagName new
      if newTyp != oldTyp then (s, .err)
      else if newSub == "" then (s, .err)
      else if (sget s.tags new).isSome then (s, .err)
      else if !t.refBy.isEmpty then (s, .err)
      else
        let s := { s with tags := sins new t (sdel s.tags name) }
        let s := t.refs.foldl (fun s r => addRefBy (delRefBy s r name) r new) s
        (s, .ok)
  | .updConv name convs =>
    match sget s.tags name with
    | none => (s, .err)
    | some t =>
      -- validate the selection before changing anything
      let attachable := !(t.mfeat &&& fData ≠ 0 || t.sfeat &&& fData ≠ 0 || !t.mainT.isEmpty || !t.subT.isEmpty)
      if convs.any (fun c => !t.convs.contains c && (!s.convs.contains c || !attachable)) then (s, .err) else
      -- detach deselected converters
      let s := (t.convs.filter (fun c => !convs.contains c)).foldl (fun s c => detachConv s name c st.tag) s
      -- attach new ones (the selection was validated above, so attaching cannot fail)
      let cur := ((sget s.tags name).map (·.convs)).getD []
      let s := (convs.filter (fun c => !cur.contains c)).foldl (fun s c => (attachConv s name c).1) s
      (startConverter s, .ok)
  | .markAdd name ids =>
    if !ids.isEmpty && !(name.startsWith "mark/" || name.startsWith "generated/") then (s, .err) else
    match sget s.tags name with
    | none => (s, .err)
    | some _ =>
      if ids.isEmpty then (s, .ok)
      else if ids.foldl max 0 ≥ s.next then (s, .err)
      else
        let (s, r) := markUpdate s name ids []
        let s := startTagging s st.tag
        (startConverter s, r)
  | .markDel name ids =>
    if !ids.isEmpty && !(name.startsWith "mark/" || name.startsWith "generated/") then (s, .err) else
    match sget s.tags name with
    | none => (s, .err)
    | some _ =>
      if ids.isEmpty then (s, .ok)
      else if ids.foldl max 0 ≥ s.next then (s, .err)
      else
        let (s, r) := markUpdate s name [] ids
        let s := startTagging s st.tag
        (startConverter s, r)
  | .delTag name =>
    match sget s.tags name with
    | none => (s, .err)
    | some t =>
      if !t.refBy.isEmpty then (s, .err)
      else
        let s := t.convs.foldl (fun s c => detachConv s name c st.tag) s
        let s := { s with tags := sdel s.tags name }
        let s := t.refs.foldl (fun s r => delRefBy s r name) s
        (s, .ok)
  | .viewOpen k =>
    if (nget s.views k).isSome || s.idx.isEmpty then (s, .none)
    else
      let (s, fs) := getIndexesCopy s 0
      ({ s with views := nins k fs s.views }, .none)
  | .viewRelease k =>
    match nget s.views k with
    | none => (s, .none)
    | some fs => (release { s with views := ndel s.views k } fs, .none)
where
  fileCountOf (files : List (Nat × List Nat)) (_held : List Nat) (f : Nat) : Nat :=
    ((nget files f).map (·.length)).getD 0

end Pk.Mgr
