/-
  Path.lean — `path/filepath` (unix flavour) on byte strings, and the two chi route patterns of
  the file endpoints of cmd/pkappa2/main.go (property C19).  Core Lean only.

  A path is a `List Char`; byte `b` of the Go string is the character `Char.ofNat b` (the
  functions only ever compare with '/', '.', '\\', '\n' and NUL, so the encoding of the other
  bytes is irrelevant).

  `base` follows `filepath.Base` statement by statement.  `clean` follows `filepath.Clean` at the
  granularity of path components: Go's loop scans the bytes and, per component, takes one of
  four branches (empty / "." / ".." / other) acting on the output buffer `out` and the index
  `dotdot`; here the buffer is the list of components written so far (`out.w > dotdot` becomes
  `dd < stk.length`).  `join` is `filepath.Join`.  All three are tied differentially to the real
  functions on generated strings by the C19 check (ops `base`, `clean`, `join`).

  The standard library and chi are third-party for pkappa2: they are modelled here, exercised by
  the tie, and not verified.
-/
namespace Pk.Path

abbrev P := List Char

/-! ### strings.Split(s, "/") and strings.Join(xs, "/") -/

/-- first component and remaining components of `s` split at every '/' -/
def splitAux : P → P × List P
  | [] => ([], [])
  | c :: cs =>
    let r := splitAux cs
    if c = '/' then ([], r.1 :: r.2) else (c :: r.1, r.2)

def split (s : P) : List P := (splitAux s).1 :: (splitAux s).2

def joinSlash : List P → P
  | [] => []
  | [a] => a
  | a :: b :: t => a ++ '/' :: joinSlash (b :: t)

/-! ### filepath.Clean -/

/-- one component of the scan loop of `filepath.Clean`; state = (components written, dotdot) -/
def cleanStep (rooted : Bool) (st : List P × Nat) (c : P) : List P × Nat :=
  if c = [] then st                                   -- case os.IsPathSeparator(path[r])
  else if c = ['.'] then st                           -- case "." element
  else if c = ['.', '.'] then                         -- case ".." element
    if st.2 < st.1.length then (st.1.dropLast, st.2)  --   out.w > dotdot: backtrack
    else if rooted then st                            --   cannot backtrack, rooted: drop
    else (st.1 ++ [c], st.1.length + 1)               --   cannot backtrack: append "..", dotdot = out.w
  else (st.1 ++ [c], st.2)                            -- default: real path element

def isRooted (p : P) : Bool := p.head? = some '/'

def clean (p : P) : P :=
  if p = [] then ['.'] else
  let st := (split p).foldl (cleanStep (isRooted p)) ([], 0)
  if isRooted p then '/' :: joinSlash st.1
  else if st.1 = [] then ['.'] else joinSlash st.1

/-! ### filepath.Base -/

def base (p : P) : P :=
  if p = [] then ['.'] else
  -- strip trailing slashes
  let r := p.reverse.dropWhile (· = '/')
  -- find the last element
  let e := (r.takeWhile (· ≠ '/')).reverse
  -- if empty now, it had only slashes
  if e = [] then ['/'] else e

/-! ### filepath.Join -/

def join (elems : List P) : P :=
  match elems.dropWhile (· = []) with
  | [] => []
  | e :: es => clean (joinSlash (e :: es))

/-! ### vocabulary of the property -/

/-- a plain file name: non-empty, no separator, not a dot segment -/
def plain (n : P) : Prop := n ≠ [] ∧ '/' ∉ n ∧ n ≠ ['.'] ∧ n ≠ ['.', '.']

instance (n : P) : Decidable (plain n) := by unfold plain; exact inferInstance

/-- the path of the entry called `n` directly inside the (cleaned) directory `d` -/
def child (d n : P) : P :=
  if d = [] then n
  else if d = ['.'] then n
  else if d = ['/'] then '/' :: n
  else d ++ '/' :: n

/-! ### chi: which string the router hands to the two handlers

  `Mux.routeHTTP` routes on `r.URL.RawPath` when it is non-empty, else on `r.URL.Path`; an empty
  route path becomes "/".  A `{name:regex}` segment that ends the pattern matches the rest of the
  path up to the next '/', must consume the whole rest (no child nodes), and the regex is
  anchored (`^…$`).  Go regexp: `.` does not match '\n', `[^/\\]` does, `$` is end of text. -/

def routePath (path rawPath : P) : P :=
  let rp := if rawPath ≠ [] then rawPath else path
  if rp = [] then ['/'] else rp

def stripPrefix : P → P → Option P
  | [], s => some s
  | _ :: _, [] => none
  | a :: as, b :: bs => if a = b then stripPrefix as bs else none

def stripSuffix (suf s : P) : Option P :=
  (stripPrefix suf.reverse s.reverse).map List.reverse

def dotPcap : P := ['.', 'p', 'c', 'a', 'p']
def dotPcapng : P := ['.', 'p', 'c', 'a', 'p', 'n', 'g']
def uploadPrefix : P := "/upload/".toList
def downloadPrefix : P := "/api/download/pcap/".toList

/-- `^.+[.]pcap(ng)?$` -/
def matchUploadRegex (s : P) : Bool :=
  let ok (pre : Option P) : Bool := match pre with
    | some p => p ≠ [] ∧ '\n' ∉ p
    | none => false
  ok (stripSuffix dotPcap s) || ok (stripSuffix dotPcapng s)

/-- `^[^/\\]+[.]pcap$` -/
def matchDownloadRegex (s : P) : Bool :=
  match stripSuffix dotPcap s with
  | some p => p ≠ [] ∧ '/' ∉ p ∧ '\\' ∉ p
  | none => false

/-- value of `chi.URLParam(r, "filename")` when POST `rp` reaches the upload handler -/
def uploadParam (rp : P) : Option P :=
  match stripPrefix uploadPrefix rp with
  | some rest => if '/' ∉ rest ∧ matchUploadRegex rest then some rest else none
  | none => none

/-- value of `chi.URLParam(r, "file")` when GET `rp` reaches the capture download handler -/
def downloadParam (rp : P) : Option P :=
  match stripPrefix downloadPrefix rp with
  | some rest => if '/' ∉ rest ∧ matchDownloadRegex rest then some rest else none
  | none => none

/-- net/http `containsDotDot` (fs.go), applied by `http.ServeFile` to `r.URL.Path` -/
def splitAuxBS : P → P × List P
  | [] => ([], [])
  | c :: cs =>
    let r := splitAuxBS cs
    if c = '/' ∨ c = '\\' then ([], r.1 :: r.2) else (c :: r.1, r.2)

def containsDotDot (s : P) : Bool :=
  let r := splitAuxBS s
  (r.1 :: r.2).any (· = ['.', '.'])

end Pk.Path
