/-
  Pk.Model.Import — executable transliteration of the pcap import path of /repo:

    internal/index/builder/builder.go     New, FromPcap (packet ordering, replay of older captures,
                                          snapshot choice/creation, ID assignment, classification)
    internal/index/builder/packet.go      readPackets (PcapInfo: min/max timestamp, count)
    internal/index/builder/snapshots.go   snapshot = timestamp + referenced packets (save/load is the
                                          identity on what the builder uses)
    internal/index/streams/streams.go     StreamFactory, Stream.Accept / ReassembledSG / AddUDPPacket
    internal/index/udpreassembly/...      UDP flow table, FlushCloseOlderThan
  and a *reference reassembler* for TCP that follows github.com/gopacket/gopacket/reassembly
  (AssembleWithContext, handleBytes, checkOverlap, overlapExisting, sendToConnection,
  addContiguous, closeHalfConnection, FlushWithOptions, TCPSimpleFSM.CheckState,
  Sequence.Add/Difference) closely enough to be compared with it on all generated traffic.
  gopacket is third party: the theorems in Props/C05, C08 treat it through assumption records,
  this reference is what those assumptions are validated against by the correspondence check.

  Core Lean only (linked into `pkmodel`).  Conventions:
    * time is `Nat` microseconds (pcap resolution); `0` plays the role of Go's zero `time.Time`
      (all generated timestamps are > 0); `x.Before(ts.Add(-5min))` is written `x + timeout < ts`;
    * a `*PcapInfo` is identified by its file name (the builder never holds two different infos
      for one name: names come from one directory listing / one FromPcap argument list);
    * mutation becomes a returned value, Go loops become structural recursion;
    * `streamFactory.Streams` is an `Array Stream`; a stream keeps its packet and data lists
      newest-first (`pktsRev`, `dataRev`) together with the packet count, so that appending is O(1);
    * not modelled (flagged at run time through `RState.unmodelled`, so that the correspondence
      check cannot silently agree): payloads larger than one reassembly page (1900 bytes);
      IPv4 fragments are not generated.
-/
namespace Pk.Import

abbrev Bytes := List UInt8

/-- `streams.InactivityTimeout` (5 minutes) in microseconds -/
def timeout : Nat := 300000000
/-- packets between two reassembly snapshots (builder.go:294) -/
def snapshotEvery : Nat := 100000

/-! ## packets -/

/-- a decoded packet of a capture file (`builder.Packet` + what the layers expose) -/
structure Pkt where
  ts : Nat
  file : String
  idx : Nat
  udp : Bool
  src : String
  dst : String
  sport : Nat
  dport : Nat
  syn : Bool := false
  ack : Bool := false
  fin : Bool := false
  rst : Bool := false
  seq : Nat := 0
  payload : Bytes := []
deriving Repr, Inhabited, DecidableEq

/-- `comparePackets` (builder.go:201-211): timestamp, then file name, then index -/
def pktLt (a b : Pkt) : Bool :=
  if a.ts ≠ b.ts then a.ts < b.ts
  else if a.file ≠ b.file then a.file < b.file
  else a.idx < b.idx

def pktLe (a b : Pkt) : Bool := !pktLt b a

/-- `sortPackets`: `sort.Slice` with a strict total order — the sorted permutation -/
def sortPkts (ps : List Pkt) : List Pkt := ps.mergeSort pktLe

/-! ## capture metadata (`pcapmetadata.PcapInfo`, readPackets) -/

structure PcapInfo where
  name : String
  tmin : Nat
  tmax : Nat
  count : Nat
deriving Repr, Inhabited, DecidableEq

/-- the update loop of `readPackets` (packet.go:79-88) -/
def infoOf (name : String) (ps : List Pkt) : PcapInfo :=
  ps.foldl (fun i p =>
    { i with tmin := if i.tmin = 0 ∨ i.tmin > p.ts then p.ts else i.tmin,
             tmax := if i.tmax < p.ts then p.ts else i.tmax,
             count := i.count + 1 })
    { name := name, tmin := 0, tmax := 0, count := 0 }

/-! ## TCP sequence numbers (gopacket/reassembly Sequence) -/

def uint32Max : Nat := 0xFFFFFFFF

/-- `Sequence.Add`: `(s + t) & uint32Max` -/
def seqAdd (s t : Nat) : Nat := (s + t) % 4294967296

/-- `Sequence.Difference` — transliterated including its use of `uint32Max` (2^32 - 1, not 2^32)
    as the wrap correction -/
def seqDiff (s t : Nat) : Int :=
  if s > uint32Max - uint32Max / 4 ∧ t < uint32Max / 4 then ((t + uint32Max : Nat) : Int) - s
  else if t > uint32Max - uint32Max / 4 ∧ s < uint32Max / 4 then (t : Int) - ((s + uint32Max : Nat) : Int)
  else (t : Int) - s

/-! ## streams (streams.go) -/

structure PRef where
  ts : Nat
  file : String
  idx : Nat
deriving Repr, Inhabited, DecidableEq

def Pkt.ref (p : Pkt) : PRef := ⟨p.ts, p.file, p.idx⟩

inductive TcpState | closed | synSent | established | closeWait | lastAck | reset
deriving Repr, Inhabited, DecidableEq

/-- `reassembly.TCPSimpleFSM` with `SupportMissingEstablishment = false`; `dir = false` is client→server -/
structure Fsm where
  state : TcpState := .closed
  dir : Bool := false
deriving Repr, Inhabited, DecidableEq

/-- `TCPSimpleFSM.CheckState` -/
def Fsm.check (f : Fsm) (p : Pkt) (dir : Bool) : Fsm × Bool :=
  match f.state with
  | .closed =>
    if p.syn ∧ ¬ p.ack then ({ state := .synSent, dir := dir }, true) else (f, false)
  | .synSent =>
    if p.rst then ({ f with state := .reset }, true)
    else if p.syn ∧ p.ack ∧ dir = !f.dir then ({ f with state := .established }, true)
    else if p.syn ∧ ¬ p.ack ∧ dir = f.dir then (f, true)
    else (f, false)
  | .established =>
    if p.rst then ({ f with state := .reset }, true)
    else if p.fin then ({ state := .closeWait, dir := dir }, true)
    else (f, true)
  | .closeWait =>
    if p.rst then ({ f with state := .reset }, true)
    else if p.fin ∧ p.ack ∧ dir = !f.dir then ({ f with state := .lastAck }, true)
    else if p.ack then (f, true)
    else (f, false)
  | .lastAck =>
    if p.rst then ({ f with state := .reset }, true)
    else if p.ack ∧ f.dir = dir then ({ f with state := .closed }, true)
    else (f, false)
  | .reset => (f, false)

/-- `streams.Stream` -/
structure Stream where
  caddr : String
  saddr : String
  cport : Nat
  sport : Nat
  udp : Bool
  /-- `Packets` / `PacketDirections`, newest first; direction `false` = client→server -/
  pktsRev : List (PRef × Bool) := []
  npkts : Nat := 0
  /-- `Data` (PacketIndex, Bytes), newest first -/
  dataRev : List (Nat × Bytes) := []
  /-- `Flags & StreamFlagsComplete` -/
  complete : Bool := false
  fsm : Fsm := {}
deriving Repr, Inhabited

def Stream.pkts (s : Stream) : List (PRef × Bool) := s.pktsRev.reverse
def Stream.data (s : Stream) : List (Nat × Bytes) := s.dataRev.reverse

/-- append to `Packets` and `PacketDirections` (first two lines of Accept / AddUDPPacket) -/
def Stream.addPkt (s : Stream) (r : PRef) (dir : Bool) : Stream :=
  { s with pktsRev := (r, dir) :: s.pktsRev, npkts := s.npkts + 1 }

/-- the backwards search of ReassembledSG / AddUDPPacket: index of the latest packet equal to `r`.
    `n` is the index of the head of the newest-first list. -/
def findPktIdx (r : PRef) : List (PRef × Bool) → Nat → Option Nat
  | [], _ => none
  | (q, _) :: rest, n => if q = r then some n else findPktIdx r rest (n - 1)

/-- append a data chunk attributed to packet `r` (the Go loop does not terminate when the packet is
    absent; that cannot happen because the packet was appended before) -/
def Stream.addData (s : Stream) (r : PRef) (b : Bytes) : Stream :=
  match findPktIdx r s.pktsRev (s.npkts - 1) with
  | some i => { s with dataRev := (i, b) :: s.dataRev }
  | none => s

/-- direction of packet number `i` -/
def Stream.dirOf (s : Stream) (i : Nat) : Bool :=
  match s.pktsRev[s.npkts - 1 - i]? with
  | some (_, d) => d
  | none => false

/-! ## UDP flow table (udpreassembly.go) -/

structure UdpConn where
  lastActivity : Nat
  stream : Nat
deriving Repr, Inhabited, DecidableEq

/-- classification of a datagram against one open flow (udpreassembly.go:71-84):
    `none` = not this flow, `some false` = client→server, `some true` = server→client -/
def udpMatch (s : Stream) (p : Pkt) : Option Bool :=
  let aIsClient := s.caddr = p.src ∧ s.cport = p.sport
  let aIsServer := s.saddr = p.src ∧ s.sport = p.sport
  let bIsClient := s.caddr = p.dst ∧ s.cport = p.dport
  let bIsServer := s.saddr = p.dst ∧ s.sport = p.dport
  let isC2S : Bool := aIsClient ∧ bIsServer
  let isS2C : Bool := bIsClient ∧ aIsServer
  if isC2S = isS2C then none else some (decide aIsServer)

/-- search of the open flows (all flows with the same endpoints share one hash bucket and keep
    their creation order; flows in other buckets never match): position, direction -/
def udpLookup (streams : Array Stream) (p : Pkt) : List UdpConn → Nat → Option (Nat × Bool)
  | [], _ => none
  | c :: cs, i =>
    match udpMatch (streams[c.stream]!) p with
    | some d => some (i, d)
    | none => udpLookup streams p cs (i + 1)

/-! ## TCP reassembly (reference model of gopacket/reassembly) -/

/-- an out-of-order page (one page per packet: payload ≤ 1900 bytes) -/
structure Page where
  seq : Nat
  bytes : Bytes
  ref : PRef
  fin : Bool
deriving Repr, Inhabited, DecidableEq

structure Half where
  nextSeq : Option Nat := none
  closed : Bool := false
  lastSeen : Nat := 0
  queue : List Page := []
deriving Repr, Inhabited

structure TcpConn where
  /-- index of the assembler (`0xff & (k ^ k>>8)`, k = sport xor dport) -/
  k : Nat
  src : String
  dst : String
  sport : Nat
  dport : Nat
  c2s : Half
  s2c : Half
  stream : Nat
deriving Repr, Inhabited

structure RState where
  streams : Array Stream := #[]
  tcp : List TcpConn := []
  udp : List UdpConn := []
  unmodelled : Bool := false
deriving Repr, Inhabited

def assemblerIndex (p : Pkt) : Nat :=
  let k := p.sport ^^^ p.dport
  (k ^^^ (k >>> 8)) &&& 0xff

/-- `checkOverlap` walk from the last queued page backwards.  `revq` = pages not yet visited
    (newest first), `after` = pages already passed (in order).  Returns the pages that stay before
    the insertion point (in order), those after it, and the remaining new bytes. -/
def overlapWalk (start end_ : Nat) : List Page → List Page → Bytes → List Page × List Page × Bytes
  | [], after, bytes => ([], after, bytes)
  | cur :: prev, after, bytes =>
    if seqDiff end_ cur.seq > 0 then overlapWalk start end_ prev (cur :: after) bytes       -- (5)
    else
      let curEnd := seqAdd cur.seq cur.bytes.length
      if seqDiff start curEnd ≤ 0 then ((cur :: prev).reverse, after, bytes)                -- (1)
      else
        let diffStart := seqDiff start cur.seq
        let diffEnd := seqDiff end_ curEnd
        if diffEnd ≤ 0 ∧ diffStart ≥ 0 then overlapWalk start end_ prev after bytes          -- (3) drop cur
        else if diffEnd < 0 ∧ seqDiff start curEnd > 0 then                                 -- (2) cut cur's end
          let cur' := { cur with bytes := cur.bytes.take (-(seqDiff start cur.seq)).toNat }
          ((cur' :: prev).reverse, after, bytes)
        else if diffStart > 0 ∧ seqDiff end_ cur.seq < 0 then                               -- (4) cut cur's start
          let n := (-(seqDiff end_ cur.seq)).toNat
          let cur' := { cur with bytes := cur.bytes.drop n, seq := seqAdd cur.seq n }
          overlapWalk start end_ prev (cur' :: after) bytes
        else if diffEnd ≥ 0 ∧ diffStart ≤ 0 then                                            -- (6) overwrite inside cur
          let off := (-diffStart).toNat
          let cur' := { cur with bytes := cur.bytes.take off ++ bytes ++ cur.bytes.drop (off + bytes.length) }
          overlapWalk start end_ prev (cur' :: after) []
        else overlapWalk start end_ prev (cur :: after) bytes

/-- `checkOverlap`: returns the new queue and the (possibly emptied) bytes -/
def checkOverlap (h : Half) (queue : Bool) (seq : Nat) (bytes : Bytes) (ref : PRef) (fin : Bool) : Half × Bytes :=
  let (before, after, bytes') := overlapWalk seq (seqAdd seq bytes.length) h.queue.reverse [] bytes
  if bytes'.length > 0 ∧ queue then
    ({ h with queue := before ++ [{ seq := seq, bytes := bytes', ref := ref, fin := fin }] ++ after }, bytes')
  else ({ h with queue := before ++ after }, bytes')

/-- `overlapExisting` -/
def overlapExisting (h : Half) (start : Nat) (bytes : Bytes) : Bytes × Nat :=
  match h.nextSeq with
  | none => (bytes, start)
  | some nx =>
    let diff := seqDiff start nx
    if diff = 0 then (bytes, start)
    else
      let s := if diff.toNat ≥ bytes.length then bytes.length else diff.toNat
      (bytes.drop s, nx)

/-- `addContiguous`: pages at the head of the queue that continue `lastSeq` -/
def addContiguous : List Page → Nat → List Page × List Page × Nat
  | [], last => ([], [], last)
  | pg :: rest, last =>
    if seqDiff last pg.seq = 0 then
      let (taken, left, last') := addContiguous rest (seqAdd last pg.bytes.length)
      (pg :: taken, left, last')
    else ([], pg :: rest, last)

def firstNonEmptyRef : List (Bytes × PRef) → Option PRef
  | [] => none
  | (b, r) :: rest => if b.length > 0 then some r else firstNonEmptyRef rest

/-- `sendToConnection` for `a.ret = [live packet]`: buildSG (addContiguous), Stream.ReassembledSG,
    cleanSG, closeHalfConnection.  Returns stream, half, next sequence number, "this half closed now". -/
def sendToConnection (st : Stream) (h : Half) (seq : Nat) (bytes : Bytes) (ref : PRef) (fin : Bool) :
    Stream × Half × Nat :=
  let last := seqAdd seq bytes.length
  let (taken, left, nextSeq) := addContiguous h.queue last
  let all : List (Bytes × PRef) := (bytes, ref) :: taken.map (fun pg => (pg.bytes, pg.ref))
  let total : Bytes := all.foldr (fun x acc => x.1 ++ acc) []
  let st' := if total.length = 0 then st else
    match firstNonEmptyRef all with
    | some r => st.addData r total
    | none => st
  let isEnd := match taken.getLast? with
    | some pg => pg.fin
    | none => fin
  let h' := { h with queue := left }
  let h'' := if isEnd then { h' with closed := true, queue := [] } else h'
  (st', h'', nextSeq)

/-- `Assembler.AssembleWithContext` on the half `h` of the sender (after `Stream.Accept` said yes) -/
def assembleHalf (st : Stream) (h : Half) (p : Pkt) : Stream × Half :=
  if h.closed then (st, h) else
  let (seq, h, queue) : Nat × Half × Bool :=
    match h.nextSeq with
    | none =>
      if p.syn then (seqAdd p.seq 1, { h with nextSeq := some (seqAdd p.seq 1) }, false)
      else (p.seq, h, true)
    | some nx => if seqDiff nx p.seq > 0 then (p.seq, h, true) else (p.seq, h, false)
  let isEnd := p.rst || p.fin
  if queue then
    let (h', _) := checkOverlap h true seq p.payload p.ref isEnd
    (st, h')
  else
    let (bytes, seq') := overlapExisting h seq p.payload
    let (h', bytes') := checkOverlap h false seq' bytes p.ref isEnd
    if bytes'.length ≠ 0 ∨ isEnd ∨ p.syn then
      let (st', h'', nextSeq) := sendToConnection st h' seq' bytes' p.ref isEnd
      (st', { h'' with nextSeq := some (if p.fin then seqAdd nextSeq 1 else nextSeq) })
    else (st, h')

def TcpConn.lastSeen (c : TcpConn) : Nat := max c.c2s.lastSeen c.s2c.lastSeen

/-- `flushClose`, first part: while the oldest out-of-order page has waited longer than the
    timeout, `skipFlush` delivers it (and what follows contiguously), skipping the missing bytes.
    `fuel` = number of queued pages (each round consumes at least one). -/
def skipFlushLoop (ts : Nat) : Nat → Stream → Half → Stream × Half
  | 0, st, h => (st, h)
  | fuel + 1, st, h =>
    if h.closed then (st, h) else
    match h.queue with
    | [] => (st, h)
    | pg :: rest =>
      if pg.ref.ts + timeout < ts then
        let (st', h', nextSeq) := sendToConnection st { h with queue := rest } pg.seq pg.bytes pg.ref pg.fin
        skipFlushLoop ts fuel st' { h' with nextSeq := some nextSeq }
      else (st, h)

/-- `FlushCloseOlderThan(ts - 5min)` on assembler `k` (`FlushWithOptions`, halves in the order
    s2c, c2s): returns remaining connections and streams (data flushed, Complete flags) -/
def tcpFlush (k ts : Nat) : List TcpConn → Array Stream → Bool → List TcpConn × Array Stream × Bool
  | [], ss, u => ([], ss, u)
  | c :: cs, ss, u =>
    if c.k ≠ k then
      let (cs', ss', u') := tcpFlush k ts cs ss u
      (c :: cs', ss', u')
    else
      let old : Bool := c.lastSeen + timeout < ts
      let st0 := ss[c.stream]!
      let wasClosed := c.c2s.closed && c.s2c.closed
      -- flushClose(s2c)
      let (st1, s2c) := skipFlushLoop ts c.s2c.queue.length st0 c.s2c
      let s2c := if ¬ s2c.closed ∧ s2c.queue.isEmpty ∧ old then { s2c with closed := true, queue := [] } else s2c
      -- flushClose(c2s)
      let (st2, c2s) := skipFlushLoop ts c.c2s.queue.length st1 c.c2s
      let c2s := if ¬ c2s.closed ∧ c2s.queue.isEmpty ∧ old then { c2s with closed := true, queue := [] } else c2s
      let closedNow := (c2s.closed && s2c.closed) && !wasClosed
      let st3 := if closedNow then { st2 with complete := true } else st2
      let ss1 := ss.set! c.stream st3
      let remove : Bool := c2s.closed ∧ s2c.closed ∧ c.c2s.lastSeen + timeout < ts ∧ c.s2c.lastSeen + timeout < ts
      let (cs', ss', u') := tcpFlush k ts cs ss1 u
      if remove then (cs', ss', u') else ({ c with c2s := c2s, s2c := s2c } :: cs', ss', u')

def tcpFind (p : Pkt) : List TcpConn → Nat → Option (Nat × Bool)
  | [], _ => none
  | c :: cs, i =>
    if c.src = p.src ∧ c.dst = p.dst ∧ c.sport = p.sport ∧ c.dport = p.dport then some (i, false)
    else if c.src = p.dst ∧ c.dst = p.src ∧ c.sport = p.dport ∧ c.dport = p.sport then some (i, true)
    else tcpFind p cs (i + 1)

/-- builder.go:412-421 — one TCP packet -/
def tcpPacket (r : RState) (p : Pkt) : RState :=
  let k := assemblerIndex p
  let (conns, streams, u) := tcpFlush k p.ts r.tcp r.streams r.unmodelled
  let r := { r with tcp := conns, streams := streams, unmodelled := u || p.payload.length > 1900 }
  -- getConnection: existing connection (either orientation) or StreamFactory.New
  let (r, i, dir) : RState × Nat × Bool :=
    match tcpFind p r.tcp 0 with
    | some (i, dir) => (r, i, dir)
    | none =>
      let s : Stream := { caddr := p.src, saddr := p.dst, cport := p.sport, sport := p.dport, udp := false }
      let base : Half := { lastSeen := p.ts }
      let c : TcpConn := { k := k, src := p.src, dst := p.dst, sport := p.sport, dport := p.dport,
                           c2s := base, s2c := base, stream := r.streams.size }
      ({ r with streams := r.streams.push s, tcp := r.tcp ++ [c] }, r.tcp.length, false)
  match r.tcp[i]? with
  | none => r
  | some c =>
    let half := if dir then c.s2c else c.c2s
    let half := if half.lastSeen < p.ts then { half with lastSeen := p.ts } else half
    let st := r.streams[c.stream]!
    -- Stream.Accept: record the packet, then the TCP state check
    let st := st.addPkt p.ref dir
    let (fsm, ok) := st.fsm.check p dir
    let st := { st with fsm := fsm }
    let (st, half) := if ok then assembleHalf st half p else (st, half)
    let c := if dir then { c with s2c := half } else { c with c2s := half }
    -- closeHalfConnection: both halves closed -> ReassemblyComplete (the connection stays in the pool)
    let st := if c.c2s.closed ∧ c.s2c.closed then { st with complete := true } else st
    { r with streams := r.streams.set! c.stream st, tcp := r.tcp.set i c }

/-- `udpreassembly.Assembler.FlushCloseOlderThan(ts - 5min)` -/
def udpFlush (ts : Nat) : List UdpConn → Array Stream → List UdpConn × Array Stream
  | [], ss => ([], ss)
  | c :: cs, ss =>
    if c.lastActivity + timeout < ts then
      udpFlush ts cs (ss.modify c.stream (fun s => { s with complete := true }))
    else
      let (cs', ss') := udpFlush ts cs ss
      (c :: cs', ss')

/-- builder.go:422-428 + `udpreassembly.Assembler.AssembleWithContext` + `Stream.AddUDPPacket` -/
def udpPacket (r : RState) (p : Pkt) : RState :=
  let (conns, streams) := udpFlush p.ts r.udp r.streams
  let r := { r with udp := conns, streams := streams }
  match udpLookup r.streams p r.udp 0 with
  | some (i, dir) =>
    match r.udp[i]? with
    | none => r
    | some c =>
      let st := (r.streams[c.stream]!).addPkt p.ref dir
      let st := if p.payload.length = 0 then st else st.addData p.ref p.payload
      { r with streams := r.streams.set! c.stream st, udp := r.udp.set i { c with lastActivity := p.ts } }
  | none =>
    let s : Stream := { caddr := p.src, saddr := p.dst, cport := p.sport, sport := p.dport, udp := true }
    let st := s.addPkt p.ref false
    let st := if p.payload.length = 0 then st else st.addData p.ref p.payload
    { r with streams := r.streams.push st, udp := r.udp ++ [{ lastActivity := p.ts, stream := r.streams.size }] }

def reasmPacket (r : RState) (p : Pkt) : RState :=
  if p.udp then udpPacket r p else tcpPacket r p

/-- the reference reassembler: feed a packet sequence, obtain `streamFactory.Streams` -/
def reasm (ps : List Pkt) : Array Stream := (ps.foldl reasmPacket {}).streams

/-! ## snapshots (snapshots.go, builder.go:141-198, 292-353) -/

structure Snapshot where
  ts : Nat := 0
  chunkCount : Nat := 0
  /-- referencedPackets: file ↦ packet indexes (files in first-reference order) -/
  refs : List (String × List Nat) := []
deriving Repr, Inhabited, DecidableEq

def Snapshot.refsOf (s : Snapshot) (file : String) : List Nat :=
  match s.refs.find? (fun e => e.1 = file) with
  | some e => e.2
  | none => []

/-- builder.go:141-153: the last snapshot that is not older than the best so far and not younger
    than the oldest new packet -/
def chooseSnapshot (snaps : List Snapshot) (oldestTs : Nat) : Snapshot :=
  snaps.foldl (fun best ss =>
    if best.ts > ss.ts then best
    else if oldestTs < ss.ts then best
    else ss) {}

/-- `referencedPackets[file] = append(referencedPackets[file], idx)`; the per-file lists are kept
    newest-first while collecting -/
def addRefRev (refs : List (String × List Nat)) (file : String) (idx : Nat) : List (String × List Nat) :=
  match refs with
  | [] => [(file, [idx])]
  | (f, l) :: rest => if f = file then (f, idx :: l) :: rest else (f, l) :: addRefRev rest file idx

/-- builder.go:300-333: packets of the streams that are neither complete nor timed out
    (files in first-reference order, indexes in stream order, then packet order) -/
def snapshotRefs (streams : Array Stream) (ts : Nat) : List (String × List Nat) :=
  let acc := streams.foldl (fun (acc : List (String × List Nat)) (s : Stream) =>
    if s.complete then acc else
    match s.pktsRev with
    | [] => acc
    | (lastP, _) :: _ =>
      if lastP.ts + timeout < ts then acc
      else s.pkts.foldl (fun a (pr : PRef × Bool) => addRefRev a pr.1.file pr.1.idx) acc) []
  acc.map (fun e => (e.1, e.2.reverse))

/-! ## feeding order (builder.go:200-291) -/

/-- an older capture that has to be replayed: its `PacketTimestampMin` and the packets to replay
    (after the snapshot filter of builder.go:231-245) -/
structure OldPcap where
  tmin : Nat
  pkts : List Pkt
deriving Repr, Inhabited

/-- `loadNextTimestamp.IsZero() || loadNextTimestamp.After(ts)` -/
def beforeLimit (limit : Option Nat) (ts : Nat) : Bool :=
  match limit with
  | some l => decide (l > ts)
  | none => true

/-- the inner loop (builder.go:265-291, ordering part): merge `old` and `new` while the next packet
    is older than `limit` (`loadNextTimestamp`, `none` = zero time).  Returns the packets handed to
    the reassemblers and the unconsumed rests. -/
def mergeUntil (limit : Option Nat) : List Pkt → List Pkt → List Pkt × List Pkt × List Pkt
  | [], [] => ([], [], [])
  | o :: os, [] =>
    if beforeLimit limit o.ts then
      let (out, os', ns') := mergeUntil limit os []
      (o :: out, os', ns')
    else ([], o :: os, [])
  | [], n :: ns =>
    if beforeLimit limit n.ts then
      let (out, os', ns') := mergeUntil limit [] ns
      (n :: out, os', ns')
    else ([], [], n :: ns)
  | o :: os, n :: ns =>
    if pktLt o n then
      if beforeLimit limit o.ts then
        let (out, os', ns') := mergeUntil limit os (n :: ns)
        (o :: out, os', ns')
      else ([], o :: os, n :: ns)
    else
      if beforeLimit limit n.ts then
        let (out, os', ns') := mergeUntil limit (o :: os) ns
        (n :: out, os', ns')
      else ([], o :: os, n :: ns)
termination_by os ns => os.length + ns.length

/-- the outer loop (builder.go:220-261): before capture `i+1` is loaded, packets older than its
    first packet are processed; then it is loaded, appended to the unconsumed old packets and the
    whole is sorted again. -/
def feedLoop : List OldPcap → List Pkt → List Pkt → List Pkt
  | [], old, new => (mergeUntil none old new).1
  | pc :: rest, old, new =>
    let (out, old', new') := mergeUntil (some pc.tmin) old new
    out ++ feedLoop rest (sortPkts (old' ++ pc.pkts)) new'

/-- `feedOrder`: the sequence of packets handed to the reassemblers by one FromPcap call -/
def feedOrder (olds : List OldPcap) (new : List Pkt) : List Pkt :=
  feedLoop olds [] (sortPkts new)

/-- `sort.Slice(allNeededPcaps, PacketTimestampMin)` — insertion into a list sorted by tmin -/
def insertByTmin (x : PcapInfo) : List PcapInfo → List PcapInfo
  | [] => [x]
  | y :: ys => if x.tmin < y.tmin then x :: y :: ys else y :: insertByTmin x ys

def sortByTmin (l : List PcapInfo) : List PcapInfo := l.foldr insertByTmin []

/-! ## index files as far as the builder looks at them -/

/-- one written index file: (stream ID, stream) in `AddStream` order -/
structure Index where
  streams : List (Nat × Stream)
deriving Repr, Inhabited

def Index.maxID (i : Index) : Nat := i.streams.foldl (fun m e => max m e.1) 0

/-- `Reader.StreamByFirstPacketSource` -/
def Index.byFirstPacket (i : Index) (file : String) (idx : Nat) : Option Nat :=
  match i.streams.find? (fun e => match e.2.pktsRev.getLast? with
                                   | some (r, _) => r.file = file ∧ r.idx = idx
                                   | none => false) with
  | some e => some e.1
  | none => none

/-- builder.go:439-447 -/
def nextStreamID (existing : List Index) : Nat :=
  existing.foldl (fun n i => if n ≤ i.maxID then i.maxID + 1 else n) 0

/-- builder.go:476-485: first existing index that knows a stream starting with this packet -/
def lookupFirst (existing : List Index) (file : String) (idx : Nat) : Option Nat :=
  match existing with
  | [] => none
  | i :: rest =>
    match i.byFirstPacket file idx with
    | some id => some id
    | none => lookupFirst rest file idx

inductive Category | added | updated | reset
deriving Repr, Inhabited, DecidableEq

/-- builder.go:461-490, the walk over the packets of one stream.
    State: current id (`none` = still `nextStreamID`), touchedByNewPcaps.
    Result: id (`none` = fresh), category, touched. -/
def classifyWalk (newFiles : List String) (existing : List Index) :
    List (PRef × Bool) → Option Nat → Bool → Option Nat × Category × Bool
  | [], id, touched => (id, .added, touched)
  | (r, _) :: rest, id, touched =>
    if newFiles.contains r.file then
      if id.isSome then (id, .updated, true)
      else classifyWalk newFiles existing rest id true
    else if id.isSome then classifyWalk newFiles existing rest id touched
    else
      let id' := lookupFirst existing r.file r.idx
      if touched then (id', .reset, touched)
      else classifyWalk newFiles existing rest id' touched

structure Assigned where
  next : Nat
  index : List (Nat × Stream) := []
  added : List Nat := []
  updated : List Nat := []
  reset : List Nat := []
deriving Repr, Inhabited

/-- one iteration of the loop over `streamFactory.Streams` (builder.go:456-516) -/
def assignStep (newFiles : List String) (existing : List Index) (a : Assigned) (s : Stream) : Assigned :=
  match classifyWalk newFiles existing s.pkts none false with
  | (_, _, false) => a
  | (some id, cat, true) =>
    let a := { a with index := a.index ++ [(id, s)] }
    match cat with
    | .added => { a with added := a.added ++ [id] }
    | .updated => { a with updated := a.updated ++ [id] }
    | .reset => { a with reset := a.reset ++ [id] }
  | (none, cat, true) =>
    let id := a.next
    let a := { a with next := a.next + 1, index := a.index ++ [(id, s)] }
    match cat with
    | .added => { a with added := a.added ++ [id] }
    | .updated => { a with updated := a.updated ++ [id] }
    | .reset => { a with reset := a.reset ++ [id] }

/-- `assignIDs`: builder.go:456-516 over `streamFactory.Streams` in creation order -/
def assignIDs (newFiles : List String) (existing : List Index) (streams : List Stream) (next : Nat) : Assigned :=
  streams.foldl (assignStep newFiles existing) { next := next }

/-! ## the builder -/

/-- a capture file in the capture directory -/
structure Capture where
  name : String
  pkts : List Pkt
deriving Repr, Inhabited

structure Builder where
  known : List PcapInfo := []
  snapshots : List Snapshot := []
deriving Repr, Inhabited

/-- insertion sort of directory entries by name (`os.ReadDir` returns them sorted) -/
def insertByName (c : Capture) : List Capture → List Capture
  | [] => [c]
  | d :: ds => if c.name < d.name then c :: d :: ds else d :: insertByName c ds

/-- `builder.New`: every capture in the directory is known (with or without cached info the
    resulting `PcapInfo` is the same); captures without packets are known too (count 0);
    the snapshots are those saved by the last successful import. -/
def Builder.new (dir : List Capture) (savedSnapshots : List Snapshot) : Builder :=
  { known := (dir.foldr insertByName []).map (fun c => infoOf c.name c.pkts), snapshots := savedSnapshots }

structure ProcState where
  r : RState := {}
  nAfter : Nat := 0
  prevTs : Nat := 0
  snaps : List Snapshot := []
deriving Repr, Inhabited

/-- builder.go:292-432 for one packet -/
def processPkt (best : Snapshot) (st : ProcState) (p : Pkt) : ProcState :=
  let st :=
    if st.nAfter ≥ snapshotEvery ∧ p.ts ≠ st.prevTs then
      -- flush everything, then record what is still open
      let (uc, ss) := udpFlush p.ts st.r.udp st.r.streams
      let (tc, ss, u) := (List.range 256).foldl (fun (acc : List TcpConn × Array Stream × Bool) k =>
        tcpFlush k p.ts acc.1 acc.2.1 acc.2.2) (st.r.tcp, ss, st.r.unmodelled)
      let r := { st.r with udp := uc, tcp := tc, streams := ss, unmodelled := u }
      { st with r := r, snaps := st.snaps ++ [{ ts := p.ts, chunkCount := 1, refs := snapshotRefs ss p.ts }], nAfter := 0 }
    else st
  let st := if st.nAfter ≠ 0 ∨ ¬ (best.ts > p.ts) then { st with prevTs := p.ts, nAfter := st.nAfter + 1 } else st
  { st with r := reasmPacket st.r p }

structure ImportResult where
  processed : Nat
  used : Nat := 0
  created : List Index := []
  added : List Nat := []
  updated : List Nat := []
  reset : List Nat := []
  fed : List Pkt := []
  /-- a situation outside the reference reassembler was met (see header) -/
  unmodelled : Bool := false
deriving Repr, Inhabited

def getCapture (dir : List Capture) (name : String) : Option Capture := dir.find? (fun c => c.name = name)

/-- builder.go:231-245: packets of an older capture that have to be replayed under snapshot `best` -/
def replayPkts (best : Snapshot) (info : PcapInfo) (pkts : List Pkt) : List Pkt :=
  if best.ts > info.tmin then
    let needed := (best.refsOf info.name).filterMap (fun i => pkts[i]?)
    if ¬ (best.ts > info.tmax) then needed ++ pkts.filter (fun p => ¬ (best.ts > p.ts)) else needed
  else pkts

/-- `Builder.FromPcap` (error paths are not modelled: every named capture exists and is readable) -/
def Builder.fromPcap (b : Builder) (dir : List Capture) (names : List String) (existing : List Index) :
    ImportResult × Builder :=
  -- builder.go:99-139
  let loaded := names.filterMap (fun n => (getCapture dir n))
  let nProcessed := loaded.length
  let nonEmpty := loaded.filter (fun c => ¬ c.pkts.isEmpty)
  let newInfos := nonEmpty.map (fun c =>
    match b.known.find? (fun i => i.name = c.name) with
    | some i => i
    | none => infoOf c.name c.pkts)
  let newPackets := nonEmpty.foldr (fun c acc => c.pkts ++ acc) []
  if newPackets.isEmpty then ({ processed := nProcessed }, b) else
  let oldestTs := newInfos.foldl (fun o i => if o = 0 ∨ o > i.tmin then i.tmin else o) 0
  let best := chooseSnapshot b.snapshots oldestTs
  -- builder.go:160-177
  let needed := sortByTmin (b.known.filter (fun pc =>
    ¬ newInfos.any (fun n => n.name = pc.name) ∧ (¬ (best.ts > pc.tmax) ∨ (best.refsOf pc.name).length ≠ 0)))
  let keptSnaps := b.snapshots.filter (fun s => ¬ (best.ts < s.ts))
  let olds : List OldPcap := needed.map (fun pc =>
    { tmin := pc.tmin, pkts := replayPkts best pc (match getCapture dir pc.name with | some c => c.pkts | none => []) })
  let fed := feedOrder olds newPackets
  let st := fed.foldl (processPkt best) { snaps := keptSnaps }
  -- builder.go:439-516
  let next := nextStreamID existing
  let a := assignIDs (newInfos.map (·.name)) existing st.r.streams.toList next
  let created := if a.index.isEmpty then [] else [{ streams := a.index : Index }]
  -- builder.go:555-567 (after 2bb2653 "fix: ... no longer registers an already known pcap a second time")
  let b' : Builder := { known := b.known ++ newInfos.filter (fun n => ¬ b.known.any (fun k => k.name = n.name)),
                        snapshots := st.snaps }
  ({ processed := nProcessed, used := a.next - next, created := created, added := a.added, updated := a.updated,
     reset := a.reset, fed := fed, unmodelled := st.r.unmodelled }, b')

/-! ## what is visible through a stack of index files (manager.View.Stream: last index wins) -/

def visibleIDs (stack : List Index) : List Nat :=
  let ids := stack.foldl (fun acc i => i.streams.foldl (fun acc e => if acc.contains e.1 then acc else acc ++ [e.1]) acc) []
  ids.mergeSort (fun a b => a ≤ b)

def visibleStream (stack : List Index) (id : Nat) : Option Stream :=
  stack.foldl (fun acc i => match i.streams.find? (fun e => e.1 = id) with
                            | some e => some e.2
                            | none => acc) none

def visible (stack : List Index) : List (Nat × Stream) :=
  (visibleIDs stack).filterMap (fun id => (visibleStream stack id).map (fun s => (id, s)))

end Pk.Import
